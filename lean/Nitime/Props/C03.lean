/-
C03 — property theorems for the time-indexing model (`Nitime.C03`).
Helper lemmas about the numpy primitives live in `Nitime/Lemmas/C03.lean`.

Where today's code violates a clause the model has two variants: the theorem is proved for the
intended one (`UAxis.indexAt`, `UAxis.sliceDuring`, `sliceDuring`), a `_counterexample` shows the
violation for the variant that follows today's code (`…Current`), and a `_partial` theorem states
what today's code does satisfy.
-/
import Nitime.Model.C03
import Nitime.Lemmas.C03
import Nitime.Lemmas.C03Hist
import Nitime.Lemmas.C03Memo
import Nitime.Lemmas.C03Share
import Mathlib.Tactic.Linarith
import Mathlib.Tactic.Ring

namespace Nitime.C03.Props
open Nitime Nitime.C03 Nitime.C03.UAxis

/-! ### uniform axis: `index_at` -/

private theorem sample_bounds (a : UAxis) (hdt : 0 < a.dt) (i : Nat) (hi : i < a.n) :
    a.t0 ≤ a.sample i ∧ a.sample (i + 1) ≤ a.stop := by
  unfold sample stop
  have h1 : (0 : Int) ≤ (i : Int) * a.dt := mul_nonneg (by omega) hdt.le
  have h2 : ((i + 1 : Nat) : Int) * a.dt ≤ (a.n : Int) * a.dt :=
    mul_le_mul_of_nonneg_right (by omega) hdt.le
  constructor <;> linarith

private theorem indexAt_single (a : UAxis) (hdt : 0 < a.dt) (t : Int) (h1 : a.t0 ≤ t) (h2 : t < a.stop) :
    a.indexAt [t] = .ok [a.bin t] := by
  have h1' : ¬ t < a.t0 := by omega
  have h2' : ¬ a.stop ≤ t := by omega
  simp [indexAt, indexAtWith, C01.listMin, C01.listMax, h1', h2', hdt]

private theorem bin_eq (a : UAxis) (hdt : 0 < a.dt) (i : Nat) (t : Int)
    (h1 : a.sample i ≤ t) (h2 : t < a.sample (i + 1)) : a.bin t = (i : Int) := by
  unfold sample at h1 h2
  unfold bin
  rw [Int.fdiv_eq_ediv_of_nonneg _ hdt.le]
  apply le_antisymm
  · have : (t - a.t0) / a.dt < (i : Int) + 1 := by
      apply (Int.ediv_lt_iff_lt_mul hdt).mpr
      push_cast at h2; linarith
    omega
  · apply (Int.le_ediv_iff_mul_le hdt).mpr
    linarith

/-- an instant anywhere inside the bin of sample `i` maps to `i` -/
theorem indexAt_bin (a : UAxis) (hdt : 0 < a.dt) (i : Nat) (hi : i < a.n) (t : Int)
    (h1 : a.sample i ≤ t) (h2 : t < a.sample (i + 1)) : a.indexAt [t] = .ok [(i : Int)] := by
  obtain ⟨hlo, hhi⟩ := sample_bounds a hdt i hi
  rw [indexAt_single a hdt t (by linarith) (by linarith), bin_eq a hdt i t h1 h2]

/-- looking up the time of sample `i` returns `i` -/
theorem indexAt_sample (a : UAxis) (hdt : 0 < a.dt) (i : Nat) (hi : i < a.n) :
    a.indexAt [a.sample i] = .ok [(i : Int)] := by
  apply indexAt_bin a hdt i hi _ le_rfl
  unfold sample; push_cast; linarith

/-- instants outside the covered range `[t0, t0 + n·dt)` are refused -/
theorem indexAt_refuses_outside (a : UAxis) (hdt : 0 < a.dt) (t : Int) (h : t < a.t0 ∨ a.stop ≤ t) :
    a.indexAt [t] = .error .valueError := by
  simp [indexAt, indexAtWith, C01.listMin, C01.listMax, h, hdt]

private theorem foldl_min_spec (xs : List Int) (x : Int) :
    let m := xs.foldl (fun a b => if b < a then b else a) x
    m ∈ x :: xs ∧ ∀ y ∈ x :: xs, m ≤ y := by
  induction xs generalizing x with
  | nil => simp
  | cons z zs ih =>
    simp only [List.foldl_cons]
    obtain ⟨h1, h2⟩ := ih (if z < x then z else x)
    constructor
    · rcases List.mem_cons.mp h1 with h | h
      · rw [h]; by_cases hz : z < x <;> simp [hz]
      · simp [h]
    · intro y hy
      have hm := h2 (if z < x then z else x) (by simp)
      have hw : (if z < x then z else x) ≤ x ∧ (if z < x then z else x) ≤ z := by
        split <;> constructor <;> omega
      rcases List.mem_cons.mp hy with h | h
      · subst h; exact le_trans hm hw.1
      · rcases List.mem_cons.mp h with h | h
        · subst h; exact le_trans hm hw.2
        · exact h2 y (by simp [h])

private theorem foldl_max_spec (xs : List Int) (x : Int) :
    let m := xs.foldl (fun a b => if a < b then b else a) x
    m ∈ x :: xs ∧ ∀ y ∈ x :: xs, y ≤ m := by
  induction xs generalizing x with
  | nil => simp
  | cons z zs ih =>
    simp only [List.foldl_cons]
    obtain ⟨h1, h2⟩ := ih (if x < z then z else x)
    constructor
    · rcases List.mem_cons.mp h1 with h | h
      · rw [h]; by_cases hz : x < z <;> simp [hz]
      · simp [h]
    · intro y hy
      have hm := h2 (if x < z then z else x) (by simp)
      have hw : x ≤ (if x < z then z else x) ∧ z ≤ (if x < z then z else x) := by
        split <;> constructor <;> omega
      rcases List.mem_cons.mp hy with h | h
      · subst h; exact le_trans hw.1 hm
      · rcases List.mem_cons.mp h with h | h
        · subst h; exact le_trans hw.2 hm
        · exact h2 y (by simp [h])

/-- array queries: accepted iff every instant lies in the covered range, and then each maps to
its own bin -/
theorem indexAt_list (a : UAxis) (hdt : 0 < a.dt) (ts : List Int) (hne : ts ≠ []) :
    (a.indexAt ts = .ok (ts.map a.bin) ↔ ∀ t ∈ ts, a.t0 ≤ t ∧ t < a.stop) ∧
    (a.indexAt ts = .error .valueError ↔ ∃ t ∈ ts, t < a.t0 ∨ a.stop ≤ t) := by
  cases ts with
  | nil => exact absurd rfl hne
  | cons x xs =>
    obtain ⟨hmin1, hmin2⟩ := foldl_min_spec xs x
    obtain ⟨hmax1, hmax2⟩ := foldl_max_spec xs x
    by_cases hbad : List.foldl (fun a b => if b < a then b else a) x xs < a.t0 ∨
        List.foldl (fun a b => if a < b then b else a) x xs ≥ a.stop
    · have e : a.indexAt (x :: xs) = .error .valueError := by
        simp only [indexAt, indexAtWith, C01.listMin, C01.listMax, List.isEmpty_cons,
          Bool.false_eq_true, if_false, hbad, if_true, gt_iff_lt, hdt]
      rw [e]
      have hex : ∃ t ∈ x :: xs, t < a.t0 ∨ a.stop ≤ t := by
        rcases hbad with h | h
        · exact ⟨_, hmin1, Or.inl h⟩
        · exact ⟨_, hmax1, Or.inr h⟩
      refine ⟨⟨fun h => (by cases h), fun h => ?_⟩, ⟨fun _ => hex, fun _ => rfl⟩⟩
      obtain ⟨t, ht, hor⟩ := hex
      have := h t ht; omega
    · have e : a.indexAt (x :: xs) = .ok ((x :: xs).map a.bin) := by
        simp only [indexAt, indexAtWith, C01.listMin, C01.listMax, List.isEmpty_cons,
          Bool.false_eq_true, if_false, hbad, gt_iff_lt, hdt, if_true]
      rw [e]
      have hall : ∀ t ∈ x :: xs, a.t0 ≤ t ∧ t < a.stop := by
        intro t ht
        have h1 := hmin2 t ht
        have h2 := hmax2 t ht
        constructor <;> omega
      refine ⟨⟨fun _ => hall, fun _ => rfl⟩, ⟨fun h => (by cases h), fun h => ?_⟩⟩
      obtain ⟨t, ht, hor⟩ := h
      have := hall t ht; omega
example : (⟨-3, 2, 5, 10, .ms⟩ : UAxis).indexAt [0, 6, -3] = .ok [1, 4, 0] := by decide

/-- `boolean=True`: the mask is true exactly at the bins of the queried instants -/
theorem indexAtBool_spec (a : UAxis) (ts : List Int) (m : List Bool) (h : a.indexAtBool ts = .ok m) :
    m.length = a.n ∧ ∀ i, i < a.n → (m.getD i false = true ↔ ∃ t ∈ ts, a.bin t = (i : Int)) := by
  unfold indexAtBool at h
  cases hi : a.indexAt ts with
  | error e => rw [hi] at h; cases h
  | ok idx =>
    rw [hi] at h
    have hidx : idx = ts.map a.bin := by
      unfold indexAt indexAtWith at hi
      split at hi
      · cases hi
      · split at hi
        · split at hi
          · cases hi
          · cases hi; rfl
        · split at hi
          · cases hi
          · cases hi; rfl
    cases h
    refine ⟨by simp, fun i hin => ?_⟩
    simp [List.getD_eq_getElem?_getD, hin, hidx]

example : (⟨-3, 2, 5, 10, .ms⟩ : UAxis).indexAtBool [0, 1] = .ok [false, true, true, false, false] := by decide
example : (⟨-3, 2, 5, 10, .ms⟩ : UAxis).indexAt [0] = .ok [1] := by decide
example : (⟨-3, 2, 5, 10, .ms⟩ : UAxis).indexAt [7] = .error .valueError := by decide

/-- today's range check uses the reported duration; it agrees with the intended one exactly when
the reported duration is `n·dt` -/
theorem indexAtCurrent_partial (a : UAxis) (h : a.dur = (a.n : Int) * a.dt) (ts : List Int) :
    a.indexAtCurrent ts = a.indexAt ts := by
  simp [indexAtCurrent, indexAt, stop, h]

/-- duration-only axes (`duration=10, sampling_interval=3`): an instant inside the last bin is
refused by today's code -/
theorem indexAtCurrent_counterexample :
    ∃ (a : UAxis) (t : Int), 0 < a.dt ∧ a.sample 3 ≤ t ∧ t < a.sample 4 ∧ 3 < a.n ∧
      a.indexAtCurrent [t] = .error .valueError ∧ a.indexAt [t] = .ok [3] :=
  ⟨⟨0, 3, 4, 10, .s⟩, 11, by decide⟩

/-! ### uniform axis: `slice_during` -/

private theorem edgeIn_spec (a : UAxis) (hdt : 0 < a.dt) (s : Int) (h1 : a.t0 ≤ s) (i : Nat) :
    i < a.edgeIn s ↔ a.sample i < s := by
  unfold edgeIn sample bin
  rw [Int.fdiv_eq_ediv_of_nonneg _ hdt.le]
  have hq0 : 0 ≤ (s - a.t0) / a.dt := Int.ediv_nonneg (by omega) hdt.le
  have hq1 : (s - a.t0) / a.dt * a.dt ≤ s - a.t0 := Int.ediv_mul_le _ (by omega)
  have hq2 : s - a.t0 < ((s - a.t0) / a.dt + 1) * a.dt := Int.lt_ediv_add_one_mul_self _ hdt
  generalize (s - a.t0) / a.dt = q at hq0 hq1 hq2
  by_cases hgt : s > a.t0 + q * a.dt
  · simp only [hgt, if_true]
    constructor
    · intro h
      have : (i : Int) ≤ q := by omega
      have : (i : Int) * a.dt ≤ q * a.dt := mul_le_mul_of_nonneg_right this hdt.le
      linarith
    · intro h
      have : (i : Int) * a.dt < (q + 1) * a.dt := by linarith
      have : (i : Int) < q + 1 := lt_of_mul_lt_mul_right this hdt.le
      omega
  · simp only [hgt, if_false]
    constructor
    · intro h
      have : (i : Int) + 1 ≤ q := by omega
      have : ((i : Int) + 1) * a.dt ≤ q * a.dt := mul_le_mul_of_nonneg_right this hdt.le
      nlinarith
    · intro h
      have : (i : Int) * a.dt < q * a.dt := by linarith
      have : (i : Int) < q := lt_of_mul_lt_mul_right this hdt.le
      omega

/-- the clipped edge of an epoch boundary `s`: the samples before it are exactly those earlier than `s` -/
theorem edge_spec (a : UAxis) (hdt : 0 < a.dt) (s : Int) (i : Nat) (hi : i < a.n) :
    i < a.edge s ↔ a.sample i < s := by
  obtain ⟨hlo, hhi⟩ := sample_bounds a hdt i hi
  have hstep : a.sample i < a.sample (i + 1) := by unfold sample; push_cast; linarith
  unfold edge
  by_cases h1 : s < a.t0
  · simp only [h1, if_true]; constructor
    · intro h; omega
    · intro h; linarith
  · by_cases h2 : s ≥ a.stop
    · simp only [h1, h2, if_true, if_false]; constructor
      · intro _; linarith
      · intro _; exact hi
    · simp only [h1, h2, if_false]
      exact edgeIn_spec a hdt s (by omega) i

theorem edge_le (a : UAxis) (hdt : 0 < a.dt) (s : Int) : a.edge s ≤ a.n := by
  unfold edge
  by_cases h1 : s < a.t0
  · simp [h1]
  · by_cases h2 : s ≥ a.stop
    · simp [h1, h2]
    · simp only [h1, h2, if_false]
      by_contra hc
      have := (edgeIn_spec a hdt s (by omega) a.n).mp (by omega)
      unfold sample at this; unfold stop at h2; omega

theorem mem_slicePos (lo hi i : Nat) : i ∈ slicePos lo hi ↔ lo ≤ i ∧ i < hi := by
  simp only [slicePos, List.mem_range'_1]; omega

theorem slicePos_sorted (lo hi : Nat) : (slicePos lo hi).Pairwise (· < ·) :=
  List.pairwise_lt_range'

/-- INTENDED `UniformTime.slice_during`: position `i` is selected iff it exists and
`start ≤ t_i < stop` — for every epoch, including ones between samples, partly or wholly outside -/
theorem sliceDuring_spec_uniform (a : UAxis) (hdt : 0 < a.dt) (start stop : Int) (i : Nat) :
    i ∈ slicePos (a.sliceDuring start stop).1 (a.sliceDuring start stop).2 ↔
      i < a.n ∧ start ≤ a.sample i ∧ a.sample i < stop := by
  rw [mem_slicePos]
  simp only [UAxis.sliceDuring, gt_iff_lt, hdt, if_true]
  constructor
  · rintro ⟨h1, h2⟩
    have hn : i < a.n := lt_of_lt_of_le h2 (edge_le a hdt stop)
    refine ⟨hn, ?_, (edge_spec a hdt stop i hn).mp h2⟩
    by_contra hc
    have := (edge_spec a hdt start i hn).mpr (by omega)
    omega
  · rintro ⟨hn, h1, h2⟩
    refine ⟨?_, (edge_spec a hdt stop i hn).mpr h2⟩
    by_contra hc
    have := (edge_spec a hdt start i hn).mp (by omega)
    omega

example : (⟨-3, 2, 5, 10, .ms⟩ : UAxis).sliceDuring (-4) 8 = (0, 5) := by decide
example : (⟨-3, 2, 5, 10, .ms⟩ : UAxis).sliceDuring (-2) (-2) = (1, 1) := by decide

/-- today's code refuses an epoch that reaches the end of the axis although samples satisfy
`start ≤ t < stop` -/
theorem sliceDuringCurrent_counterexample_uniform :
    ∃ (a : UAxis) (start stop : Int), 0 < a.dt ∧ a.dur = (a.n : Int) * a.dt ∧
      a.sliceDuringCurrent start stop = .error .valueError ∧ a.sliceDuring start stop = (0, 5) :=
  ⟨⟨-3, 2, 5, 10, .ms⟩, -3, 7, by decide⟩

/-- what today's code does satisfy: epochs whose two edges lie inside the axis -/
theorem sliceDuringCurrent_partial_uniform (a : UAxis) (hdt : 0 < a.dt) (hd : a.dur = (a.n : Int) * a.dt)
    (start stop : Int) (h1 : a.t0 ≤ start) (h2 : start < a.stop) (h3 : a.t0 ≤ stop) (h4 : stop < a.stop) :
    a.sliceDuringCurrent start stop = .ok (a.sliceDuring start stop) := by
  have e1 : a.edge start = a.edgeIn start := by
    simp [edge, show ¬ start < a.t0 by omega, show ¬ a.stop ≤ start by omega]
  have e2 : a.edge stop = a.edgeIn stop := by
    simp [edge, show ¬ stop < a.t0 by omega, show ¬ a.stop ≤ stop by omega]
  simp only [UAxis.sliceDuringCurrent, indexAtCurrent_partial a hd, indexAt_single a hdt start h1 h2,
    indexAt_single a hdt stop h3 h4, UAxis.sliceDuring, e1, e2, gt_iff_lt, hdt, if_true]

/-! ### reversed uniform axes (negative sampling interval: `axis *= -1`, a descending ramp, or a negative
`sampling_interval`): samples `t0 + i·dt` decrease, sample `i` owns the instants `(t_i + dt, t_i]`
(at or before the sample, after the next one), the axis covers `(t0 + n·dt, t0]` -/

/-- floor division by a negative interval -/
private theorem fdiv_neg_char (x d : Int) (hd : d < 0) :
    (Int.fdiv x d + 1) * d < x ∧ x ≤ Int.fdiv x d * d := by
  have h : Int.fdiv x d = (-x) / (-d) := by
    rw [← Int.neg_fdiv_neg, Int.fdiv_eq_ediv_of_nonneg _ (by omega)]
  rw [h]
  have he : 0 < -d := by omega
  have h1 : (-x) / (-d) * (-d) ≤ -x := Int.ediv_mul_le _ (by omega)
  have h2 : -x < ((-x) / (-d) + 1) * (-d) := Int.lt_ediv_add_one_mul_self _ he
  generalize (-x) / (-d) = q at h1 h2
  constructor <;> nlinarith

private theorem rev_quot_iff (q x d : Int) (i : Nat) (hd : d < 0) (h1 : (q + 1) * d < x) (h2 : x ≤ q * d) :
    (i : Int) < q + 1 ↔ x ≤ (i : Int) * d := by
  constructor
  · intro h
    have : q * d ≤ (i : Int) * d := mul_le_mul_of_nonpos_right (by omega) hd.le
    linarith
  · intro h
    by_contra hc
    have : (i : Int) * d ≤ (q + 1) * d := mul_le_mul_of_nonpos_right (by omega) hd.le
    linarith

private theorem bin_eq_rev (a : UAxis) (hdt : a.dt < 0) (i : Nat) (t : Int)
    (h1 : a.sample (i + 1) < t) (h2 : t ≤ a.sample i) : a.bin t = (i : Int) := by
  unfold sample at h1 h2
  push_cast at h1
  obtain ⟨c1, c2⟩ := fdiv_neg_char (t - a.t0) a.dt hdt
  unfold bin
  generalize Int.fdiv (t - a.t0) a.dt = q at c1 c2
  have e1 := (rev_quot_iff q (t - a.t0) a.dt i hdt c1 c2).mpr (by linarith)
  have e2 := (rev_quot_iff q (t - a.t0) a.dt (i + 1) hdt c1 c2).not.mpr (by push_cast; linarith)
  push_cast at e2; omega

private theorem sample_bounds_rev (a : UAxis) (hdt : a.dt < 0) (i : Nat) (hi : i < a.n) :
    a.sample i ≤ a.t0 ∧ a.stop ≤ a.sample (i + 1) := by
  unfold sample stop
  have h1 : (i : Int) * a.dt ≤ 0 := mul_nonpos_of_nonneg_of_nonpos (by omega) hdt.le
  have h2 : (a.n : Int) * a.dt ≤ ((i + 1 : Nat) : Int) * a.dt := mul_le_mul_of_nonpos_right (by omega) hdt.le
  constructor <;> linarith

private theorem indexAt_single_rev (a : UAxis) (hdt : a.dt < 0) (t : Int) (h1 : t ≤ a.t0) (h2 : a.stop < t) :
    a.indexAt [t] = .ok [a.bin t] := by
  have h0 : ¬ 0 < a.dt := by omega
  have h1' : ¬ a.t0 < t := by omega
  have h2' : ¬ t ≤ a.stop := by omega
  simp [indexAt, indexAtWith, C01.listMin, C01.listMax, h0, h1', h2']

/-- reversed axis: an instant in the bin `(t_{i+1}, t_i]` of sample `i` maps to `i` -/
theorem indexAt_bin_rev (a : UAxis) (hdt : a.dt < 0) (i : Nat) (hi : i < a.n) (t : Int)
    (h1 : a.sample (i + 1) < t) (h2 : t ≤ a.sample i) : a.indexAt [t] = .ok [(i : Int)] := by
  obtain ⟨hlo, hhi⟩ := sample_bounds_rev a hdt i hi
  rw [indexAt_single_rev a hdt t (by linarith) (by linarith), bin_eq_rev a hdt i t h1 h2]

/-- reversed axis: looking up the time of sample `i` returns `i` -/
theorem indexAt_sample_rev (a : UAxis) (hdt : a.dt < 0) (i : Nat) (hi : i < a.n) :
    a.indexAt [a.sample i] = .ok [(i : Int)] := by
  apply indexAt_bin_rev a hdt i hi _ _ le_rfl
  unfold sample; push_cast; linarith

/-- reversed axis: instants outside the covered range `(t0 + n·dt, t0]` are refused -/
theorem indexAt_refuses_outside_rev (a : UAxis) (hdt : a.dt < 0) (t : Int) (h : a.t0 < t ∨ t ≤ a.stop) :
    a.indexAt [t] = .error .valueError := by
  have h0 : ¬ 0 < a.dt := by omega
  simp [indexAt, indexAtWith, C01.listMin, C01.listMax, h, h0]

private theorem edgeRev_spec (a : UAxis) (hdt : a.dt < 0) (s : Int) (i : Nat) (hi : i < a.n) :
    i < a.edgeRev s ↔ s ≤ a.sample i := by
  obtain ⟨c1, c2⟩ := fdiv_neg_char (s - a.t0) a.dt hdt
  unfold edgeRev clipN sample
  generalize Int.fdiv (s - a.t0) a.dt = q at c1 c2
  have key := rev_quot_iff q (s - a.t0) a.dt i hdt c1 c2
  have key' : (i : Int) < q + 1 ↔ s ≤ a.t0 + (i : Int) * a.dt := by rw [key]; constructor <;> intro h <;> linarith
  by_cases hneg : q + 1 < 0
  · simp only [hneg, if_true]
    constructor
    · intro h; omega
    · intro h; have := key'.mpr h; omega
  · by_cases hbig : q + 1 > (a.n : Int)
    · simp only [hneg, hbig, if_true, if_false]
      constructor
      · intro _; exact key'.mp (by omega)
      · intro _; exact hi
    · simp only [hneg, hbig, if_false]
      rw [← key']; omega

private theorem edgeRev_le (a : UAxis) (s : Int) : a.edgeRev s ≤ a.n := by
  unfold edgeRev clipN
  split
  · omega
  · split
    · exact le_rfl
    · omega

/-- reversed axis: `slice_during` selects exactly the positions with `start ≤ t_i < stop` (again a
contiguous index range), for every epoch -/
theorem sliceDuring_spec_uniform_rev (a : UAxis) (hdt : a.dt < 0) (start stop : Int) (i : Nat) :
    i ∈ slicePos (a.sliceDuring start stop).1 (a.sliceDuring start stop).2 ↔
      i < a.n ∧ start ≤ a.sample i ∧ a.sample i < stop := by
  rw [mem_slicePos]
  have h0 : ¬ 0 < a.dt := by omega
  simp only [UAxis.sliceDuring, gt_iff_lt, h0, if_false]
  constructor
  · rintro ⟨h1, h2⟩
    have hn : i < a.n := lt_of_lt_of_le h2 (edgeRev_le a start)
    refine ⟨hn, (edgeRev_spec a hdt start i hn).mp h2, ?_⟩
    by_contra hc
    have := (edgeRev_spec a hdt stop i hn).mpr (by omega)
    omega
  · rintro ⟨hn, h1, h2⟩
    refine ⟨?_, (edgeRev_spec a hdt start i hn).mpr h1⟩
    by_contra hc
    have := (edgeRev_spec a hdt stop i hn).mp (by omega)
    omega

example : (⟨3, -2, 5, -10, .ms⟩ : UAxis).indexAt [3, 2, 1, -5, -6] = .ok [0, 0, 1, 4, 4] := by decide
example : (⟨3, -2, 5, -10, .ms⟩ : UAxis).indexAt [-7] = .error .valueError ∧
    (⟨3, -2, 5, -10, .ms⟩ : UAxis).indexAt [4] = .error .valueError := by decide
example : (⟨3, -2, 5, -10, .ms⟩ : UAxis).sliceDuring (-3) 2 = (1, 4) ∧
    (⟨3, -2, 5, -10, .ms⟩ : UAxis).sliceDuring (-30) 20 = (0, 5) := by decide

/-! ### arbitrary time arrays: closest / before / after -/

/-- `mode='closest'`: exactly the positions within the tolerance -/
theorem closest_spec (ts : List Int) (t tol : Int) (i : Nat) :
    i ∈ indexClosest ts t tol ↔ i < ts.length ∧ |ts.getD i 0 - t| ≤ tol := by
  unfold indexClosest
  rw [mem_whereIdx]
  simp only [decide_eq_true_eq, Int.natCast_natAbs]

theorem closest_sorted (ts : List Int) (t tol : Int) : (indexClosest ts t tol).Pairwise (· < ·) :=
  whereIdx_sorted _ _

/-- `mode='before'`: empty iff no time is `≤ t`; otherwise a position holding the latest time
`≤ t`, and the first such position -/
theorem before_spec (ts : List Int) (t : Int) :
    (indexBefore ts t = none ↔ ∀ i, i < ts.length → t < ts.getD i 0) ∧
    (∀ j, indexBefore ts t = some j →
      j < ts.length ∧ ts.getD j 0 ≤ t ∧
      (∀ i, i < ts.length → ts.getD i 0 ≤ t → ts.getD i 0 ≤ ts.getD j 0) ∧
      (∀ i, i < j → ts.getD i 0 ≤ t → ts.getD i 0 < ts.getD j 0)) := by
  unfold indexBefore
  constructor
  · rw [pickMax_none, List.eq_nil_iff_forall_not_mem]
    constructor
    · intro h i hi
      by_contra hc
      exact h i ((mem_whereIdx _ _ _).mpr ⟨hi, decide_eq_true (by omega)⟩)
    · intro h i hi
      obtain ⟨h1, h2⟩ := (mem_whereIdx _ _ _).mp hi
      have := h i h1
      have h2' : ts.getD i 0 ≤ t := of_decide_eq_true h2
      omega
  · intro j hj
    obtain ⟨hm, hmax, hfirst⟩ := pickMax_some ts _ (whereIdx_sorted _ _) j hj
    obtain ⟨h1, h2⟩ := (mem_whereIdx _ _ _).mp hm
    refine ⟨h1, of_decide_eq_true h2, ?_, ?_⟩
    · intro i hi hle
      exact hmax i ((mem_whereIdx _ _ _).mpr ⟨hi, decide_eq_true hle⟩)
    · intro i hij hle
      exact hfirst i ((mem_whereIdx _ _ _).mpr ⟨by omega, decide_eq_true hle⟩) hij

/-- `mode='after'`: empty iff no time is `≥ t`; otherwise a position holding the earliest time
`≥ t`, and the first such position -/
theorem after_spec (ts : List Int) (t : Int) :
    (indexAfter ts t = none ↔ ∀ i, i < ts.length → ts.getD i 0 < t) ∧
    (∀ j, indexAfter ts t = some j →
      j < ts.length ∧ t ≤ ts.getD j 0 ∧
      (∀ i, i < ts.length → t ≤ ts.getD i 0 → ts.getD j 0 ≤ ts.getD i 0) ∧
      (∀ i, i < j → t ≤ ts.getD i 0 → ts.getD j 0 < ts.getD i 0)) := by
  unfold indexAfter
  constructor
  · rw [pickMin_none, List.eq_nil_iff_forall_not_mem]
    constructor
    · intro h i hi
      by_contra hc
      exact h i ((mem_whereIdx _ _ _).mpr ⟨hi, decide_eq_true (by omega)⟩)
    · intro h i hi
      obtain ⟨h1, h2⟩ := (mem_whereIdx _ _ _).mp hi
      have := h i h1
      have h2' : t ≤ ts.getD i 0 := of_decide_eq_true h2
      omega
  · intro j hj
    obtain ⟨hm, hmin, hfirst⟩ := pickMin_some ts _ (whereIdx_sorted _ _) j hj
    obtain ⟨h1, h2⟩ := (mem_whereIdx _ _ _).mp hm
    refine ⟨h1, of_decide_eq_true h2, ?_, ?_⟩
    · intro i hi hle
      exact hmin i ((mem_whereIdx _ _ _).mpr ⟨hi, decide_eq_true hle⟩)
    · intro i hij hle
      exact hfirst i ((mem_whereIdx _ _ _).mpr ⟨by omega, decide_eq_true hle⟩) hij

example : indexClosest [5, 1, 4, 5] 5 1 = [0, 2, 3] := by decide
example : indexBefore [5, 1, 4, 4] 4 = some 2 ∧ indexBefore [5, 6] 4 = none := by decide
example : indexAfter [5, 1, 4, 5, 9] 5 = some 0 ∧ indexAfter [5, 6] 7 = none := by decide

/-! ### time-sorted arrays: `slice_during` -/

private theorem sorted_getD {ts : List Int} (hs : ts.Pairwise (· ≤ ·)) {i j : Nat} (hij : i ≤ j)
    (hj : j < ts.length) : ts.getD i 0 ≤ ts.getD j 0 := by
  have hi : i < ts.length := by omega
  simp only [List.getD_eq_getElem?_getD, List.getElem?_eq_getElem hi, List.getElem?_eq_getElem hj,
    Option.getD_some]
  rcases Nat.lt_or_eq_of_le hij with h | h
  · exact (List.pairwise_iff_getElem.mp hs) i j hi hj h
  · subst h; exact le_rfl

private theorem strict_getD {ts : List Int} (hs : ts.Pairwise (· < ·)) {i j : Nat} (hij : i < j)
    (hj : j < ts.length) : ts.getD i 0 < ts.getD j 0 := by
  have hi : i < ts.length := by omega
  simp only [List.getD_eq_getElem?_getD, List.getElem?_eq_getElem hi, List.getElem?_eq_getElem hj,
    Option.getD_some]
  exact (List.pairwise_iff_getElem.mp hs) i j hi hj hij

/-- what the stop edge must do when `stop > self[j]`: go past every sample equal to `self[j]` -/
def GoodBump (bump : List Int → Nat → Nat) (ts : List Int) : Prop :=
  ∀ j, j < ts.length →
    (∀ i, i < ts.length → i < bump ts j → ts.getD i 0 ≤ ts.getD j 0) ∧
    (∀ i, i < ts.length → ts.getD i 0 = ts.getD j 0 → i < bump ts j) ∧ bump ts j ≤ ts.length

theorem sliceDuringWith_spec (bump : List Int → Nat → Nat) (ts : List Int) (hs : ts.Pairwise (· ≤ ·))
    (hb : GoodBump bump ts) (start stop : Int) (i : Nat) :
    i ∈ slicePos (sliceDuringWith bump ts start stop).1 (sliceDuringWith bump ts start stop).2 ↔
      i < ts.length ∧ start ≤ ts.getD i 0 ∧ ts.getD i 0 < stop := by
  rw [mem_slicePos]
  obtain ⟨hbn, hbs⟩ := before_spec ts stop
  obtain ⟨han, has⟩ := after_spec ts start
  unfold sliceDuringWith
  cases hA : indexAfter ts start with
  | none =>
    have hall := han.mp hA
    simp only []
    constructor
    · intro h; omega
    · rintro ⟨h1, h2, _⟩; have := hall i h1; omega
  | some ia =>
    cases hB : indexBefore ts stop with
    | none =>
      have hall := hbn.mp hB
      simp only []
      constructor
      · intro h; omega
      · rintro ⟨h1, _, h3⟩; have := hall i h1; omega
    | some jb =>
      obtain ⟨ha1, ha2, ha3, ha4⟩ := has ia hA
      obtain ⟨hb1, hb2, hb3, hb4⟩ := hbs jb hB
      obtain ⟨g1, g2, g3⟩ := hb jb hb1
      have hnot : ¬ start > ts.getD ia 0 := by omega
      simp only [hnot, if_false]
      -- the start edge: i ≥ ia ↔ start ≤ ts[i]
      have hstart : ∀ k, k < ts.length → (ia ≤ k ↔ start ≤ ts.getD k 0) := by
        intro k hk
        constructor
        · intro h; have := sorted_getD hs h hk; omega
        · intro h
          by_contra hc
          have h1 := ha4 k (by omega) h
          have h2 := sorted_getD hs (show k ≤ ia by omega) ha1
          omega
      by_cases hgt : stop > ts.getD jb 0
      · simp only [hgt, if_true]
        constructor
        · rintro ⟨h1, h2⟩
          have hi : i < ts.length := by omega
          have := g1 i hi h2
          exact ⟨hi, (hstart i hi).mp h1, by omega⟩
        · rintro ⟨hi, h1, h2⟩
          refine ⟨(hstart i hi).mpr h1, ?_⟩
          have hle := hb3 i hi (by omega)
          by_cases hlt : i ≤ jb
          · have := g2 jb hb1 rfl; omega
          · have := sorted_getD hs (show jb ≤ i by omega) hi
            exact g2 i hi (by omega)
      · simp only [hgt, if_false]
        have heq : ts.getD jb 0 = stop := by omega
        constructor
        · rintro ⟨h1, h2⟩
          have hi : i < ts.length := by omega
          have hle := sorted_getD hs (show i ≤ jb by omega) hb1
          have := hb4 i h2 (by omega)
          exact ⟨hi, (hstart i hi).mp h1, by omega⟩
        · rintro ⟨hi, h1, h2⟩
          refine ⟨(hstart i hi).mpr h1, ?_⟩
          by_contra hc
          have := sorted_getD hs (show jb ≤ i by omega) hi
          omega

private theorem goodBump_intended (ts : List Int) (hs : ts.Pairwise (· ≤ ·)) :
    GoodBump (fun ts j => afterLastEq ts (ts.getD j 0)) ts := by
  intro j hj
  dsimp only
  obtain ⟨h0, hlen, hval, hall⟩ := afterLastEq_spec ts (ts.getD j 0) j hj rfl
  refine ⟨?_, ?_, hlen⟩
  · intro i _ hlt
    have := sorted_getD hs (show i ≤ afterLastEq ts (ts.getD j 0) - 1 by omega) (by omega)
    omega
  · intro i hi he; exact hall i hi he

private theorem goodBump_current (ts : List Int) (hs : ts.Pairwise (· < ·)) :
    GoodBump (fun _ j => j + 1) ts := by
  intro j hj
  dsimp only
  have hs' : ts.Pairwise (· ≤ ·) := hs.imp (fun h => le_of_lt h)
  refine ⟨?_, ?_, by omega⟩
  · intro i _ hlt; exact sorted_getD hs' (by omega) hj
  · intro i hi he
    by_contra hc
    have := strict_getD hs (show j < i by omega) hi
    omega

/-- INTENDED `TimeArray.slice_during` on a time-sorted array (repeated instants allowed): position
`i` is selected iff `start ≤ t_i < stop` -/
theorem sliceDuring_spec_sorted (ts : List Int) (hs : ts.Pairwise (· ≤ ·)) (start stop : Int) (i : Nat) :
    i ∈ slicePos (sliceDuring ts start stop).1 (sliceDuring ts start stop).2 ↔
      i < ts.length ∧ start ≤ ts.getD i 0 ∧ ts.getD i 0 < stop :=
  sliceDuringWith_spec _ ts hs (goodBump_intended ts hs) start stop i

/-- today's code under-selects when the last instant before the stop is repeated -/
theorem sliceDuringCurrent_counterexample_sorted :
    ∃ (ts : List Int) (start stop : Int), ts.Pairwise (· ≤ ·) ∧
      start ≤ ts.getD 1 0 ∧ ts.getD 1 0 < stop ∧
      1 ∉ slicePos (sliceDuringCurrent ts start stop).1 (sliceDuringCurrent ts start stop).2 ∧
      sliceDuring ts start stop = (0, 2) :=
  ⟨[2, 2, 4], 2, 3, by decide⟩

/-- the repair is also right when the stop coincides with a repeated sample -/
example : sliceDuring [1, 2, 2, 3] 1 2 = (0, 1) ∧ sliceDuring [1, 2, 2, 3] 2 3 = (1, 3) := by decide

/-- what today's code does satisfy: strictly increasing arrays -/
theorem sliceDuringCurrent_partial_sorted (ts : List Int) (hs : ts.Pairwise (· < ·)) (start stop : Int) (i : Nat) :
    i ∈ slicePos (sliceDuringCurrent ts start stop).1 (sliceDuringCurrent ts start stop).2 ↔
      i < ts.length ∧ start ≤ ts.getD i 0 ∧ ts.getD i 0 < stop :=
  sliceDuringWith_spec _ ts (hs.imp (fun h => le_of_lt h)) (goodBump_current ts hs) start stop i

/-! ### epochs -/

/-- `Epochs(t0=…, offset=…, duration=…)` with 0-d time objects: `start = t0 − offset`,
`stop = start + duration`, and the offset is kept for the result's time axis -/
theorem epochs_t0_offset_duration (u : Option TimeUnit) (a o d : Int) (ua uo ud : TimeUnit) :
    Epochs.mk' u (some (.time ⟨[a], ua, true⟩)) none (some (.time ⟨[o], uo, true⟩)) none (some (.time ⟨[d], ud, true⟩))
      = .ok ⟨[a - o], [a - o + d], true, o, u.getD ua⟩ := by
  simp [Epochs.mk', toTime, C01.ctorFrom, bc, C01.broadcast, bind, Except.bind, pure, Except.pure]

/-- `Epochs(start=…, stop=…)` with 0-d time objects -/
theorem epochs_start_stop (u : Option TimeUnit) (a b : Int) (ua ub : TimeUnit) :
    Epochs.mk' u none (some (.time ⟨[b], ub, true⟩)) none (some (.time ⟨[a], ua, true⟩)) none
      = .ok ⟨[a], [b], true, 0, u.getD ua⟩ := by
  simp [Epochs.mk', toTime, C01.ctorFrom, C01.ctorNums, C01.asarray, C01.toPsF, bind, Except.bind, pure, Except.pure]

/-- neither `t0` nor `start`: refused -/
theorem epochs_rejects_no_start (u : Option TimeUnit) (off dur stop : Arg) :
    Epochs.mk' u none stop off none dur = .error .valueError := by
  simp [Epochs.mk', bind, Except.bind, throw, throwThe, MonadExceptOf.throw]

/-! ### data selected = data stored at those positions -/

/-- fancy / slice indexing returns, in order, the stored values at exactly the given positions -/
theorem sel_spec (row : List Int) (pos : List Nat) :
    (sel row pos).length = pos.length ∧
    ∀ k, k < pos.length → (sel row pos).getD k 0 = row.getD (pos.getD k 0) 0 :=
  ⟨sel_length row pos, fun k hk => sel_getD row pos k hk⟩

/-- `TimeSeries.at(t)` for a scalar instant: every row contributes the value stored at the bin of `t` -/
theorem series_at_positions (s : Series) (hdt : 0 < s.axis.dt) (i : Nat) (hi : i < s.axis.n) (t : Int)
    (h1 : s.axis.sample i ≤ t) (h2 : t < s.axis.sample (i + 1)) :
    s.at [t] = .ok (s.data.map fun row => [row.getD i 0]) := by
  simp [Series.at, indexAt_bin s.axis hdt i hi t h1 h2, sel]

/-- `TimeSeries.during(e)` for one epoch: every row contributes the values stored at exactly the
positions `i` with `start ≤ t_i < stop`, in increasing order -/
theorem select_data_positions (s : Series) (hdt : 0 < s.axis.dt) (start stop : Int) :
    ∃ pos : List Nat, s.block start stop = s.data.map (fun row => sel row pos) ∧
      pos.Pairwise (· < ·) ∧
      ∀ i, i ∈ pos ↔ i < s.axis.n ∧ start ≤ s.axis.sample i ∧ s.axis.sample i < stop :=
  ⟨slicePos (s.axis.sliceDuring start stop).1 (s.axis.sliceDuring start stop).2, rfl,
    slicePos_sorted _ _, fun i => sliceDuring_spec_uniform s.axis hdt start stop i⟩

/-- event collections: times and every data array are selected at the same positions, which for an
epoch key on time-sorted events are exactly those with `start ≤ t_i < stop` -/
theorem events_select_positions (ev : Events) (hs : ev.time.Pairwise (· ≤ ·)) (e : Epochs) (r : Events)
    (h : ev.getEpoch e = .ok r) :
    ∃ pos : List Nat, r.time = sel ev.time pos ∧ r.data = ev.data.map (fun v => sel v pos) ∧
      r.unit = ev.unit ∧
      ∀ i, i ∈ pos ↔ i < ev.time.length ∧ e.starts.headD 0 ≤ ev.time.getD i 0 ∧ ev.time.getD i 0 < e.stops.headD 0 := by
  unfold Events.getEpoch at h
  by_cases hsc : e.scalar
  · simp only [hsc, Bool.not_true, Bool.false_eq_true, if_false] at h
    refine ⟨slicePos (sliceDuring ev.time (e.starts.headD 0) (e.stops.headD 0)).1
      (sliceDuring ev.time (e.starts.headD 0) (e.stops.headD 0)).2, ?_, ?_, ?_,
      fun i => sliceDuring_spec_sorted ev.time hs _ _ i⟩ <;>
    · cases h; rfl
  · simp [hsc] at h

/-- the series returned by `during` starts at the epoch's offset and keeps the unit -/
theorem during_t0_is_offset (s : Series) (e : Epochs) (r : SeriesOut) (h : s.during e = .ok r) :
    r.t0 = e.offset ∧ r.unit = s.axis.unit := by
  unfold Series.during at h
  split at h
  · cases h; exact ⟨rfl, rfl⟩
  · split at h
    · cases h
    · split at h
      · cases h
      · dsimp only at h
        split at h
        · cases h; exact ⟨rfl, rfl⟩
        · cases h

/-- array epochs are accepted only when all durations are equal, and then there is one block per epoch -/
theorem array_epochs_equal_duration (s : Series) (e : Epochs) (r : SeriesOut) (hsc : e.scalar = false)
    (h : s.during e = .ok r) :
    allEq (List.zipWith (fun a b => b - a) e.starts e.stops) = true ∧
    r.blocks = List.zipWith (fun a b => s.block a b) e.starts e.stops := by
  unfold Series.during at h
  simp only [hsc, Bool.false_eq_true, if_false] at h
  split at h
  · cases h
  · split at h
    · cases h
    · split at h
      · cases h
        rename_i h2 _
        exact ⟨by simpa using h2, rfl⟩
      · cases h

/-- element-wise `closest` for a query array as long as the time array -/
theorem closest2_spec (ts tq : List Int) (tol : Int) (i : Nat) :
    i ∈ indexClosest2 ts tq tol ↔ i < ts.length ∧ |ts.getD i 0 - tq.getD i 0| ≤ tol := by
  simp [indexClosest2, whereIdx2, List.mem_filter, List.mem_range]

/-- python integer keys: `0 ≤ k < n` names position `k`, `−n ≤ k < 0` names `n + k`, anything else is refused -/
theorem normKey_spec (n : Nat) (k : Int) :
    (0 ≤ k → k < n → normKey n k = .ok k.toNat) ∧
    (k < 0 → -(n : Int) ≤ k → normKey n k = .ok (k + n).toNat ∧ (k + n).toNat < n) ∧
    (k ≥ n ∨ k < -(n : Int) → normKey n k = .error .indexError) := by
  refine ⟨fun h1 h2 => by simp [normKey, h1, h2], fun h1 h2 => ⟨?_, by omega⟩, fun h => ?_⟩
  · have : ¬ (0 ≤ k ∧ k < n) := by omega
    simp [normKey, this, h1, h2]
  · have h1 : ¬ (0 ≤ k ∧ k < n) := by omega
    have h2 : ¬ (k < 0 ∧ -(n : Int) ≤ k) := by omega
    simp [normKey, h1, h2]

/-- `TimeSeries.during` with a scalar epoch returns the one block of `select_data_positions` -/
theorem series_during_scalar (s : Series) (e : Epochs) (h : e.scalar = true) :
    s.during e = .ok ⟨s.axis.unit, e.offset, [s.block (e.starts.headD 0) (e.stops.headD 0)]⟩ := by
  simp [Series.during, h]

/-- `TimeSeries[k]` for an integer key: every row's value at that position -/
theorem series_getInt_positions (s : Series) (k : Int) (h1 : 0 ≤ k) (h2 : k < s.axis.n) :
    s.getInt k = .ok (s.data.map fun row => row.getD k.toNat 0) := by
  simp [Series.getInt, (normKey_spec s.axis.n k).1 h1 h2]

/-- `Events[float]`: times and every data array are selected at exactly the positions within one
clock tick of the key -/
theorem events_getFloat_positions (ev : Events) (t : Int) :
    ∃ pos : List Nat, (ev.getFloat t).time = sel ev.time pos ∧
      (ev.getFloat t).data = ev.data.map (fun v => sel v pos) ∧ (ev.getFloat t).unit = ev.unit ∧
      ∀ i, i ∈ pos ↔ i < ev.time.length ∧ |ev.time.getD i 0 - t| ≤ 1 :=
  ⟨indexClosest ev.time t 1, rfl, rfl, rfl, fun i => closest_spec ev.time t 1 i⟩

/-- `Events[k]`: the k-th time and the k-th entry of every data array -/
theorem events_getInt_positions (ev : Events) (k : Int) (h1 : 0 ≤ k) (h2 : k < ev.time.length) :
    ev.getInt k = .ok ⟨[ev.time.getD k.toNat 0], ev.unit, ev.data.map fun v => [v.getD k.toNat 0]⟩ := by
  simp [Events.getInt, (normKey_spec ev.time.length k).1 h1 h2, Events.select, sel]
example : (Series.during ⟨⟨-3, 2, 5, 10, .ms⟩, [[0, 1, 2, 3, 4], [5, 6, 7, 8, 9]]⟩
    ⟨[-1], [3], true, 2, .ms⟩) = .ok ⟨.ms, 2, [[[1, 2], [6, 7]]]⟩ := by decide

/-! ### the `Epochs` constructor in general; int64 range -/

/-- the offset argument as the constructor reads it (`None` means 0) -/
def offOf (u : Option TimeUnit) (offset : Arg) : C01.TVal := toTime u (offset.getD (.bare true [.int 0]))

/-- numpy broadcasting of two 0-d / 1-d time values, as `bc` performs it -/
theorem bc_spec (f : Int → Int → Int) (a b : C01.TVal) :
    (a.ps.length = b.ps.length → bc f a b = .ok (List.zipWith f a.ps b.ps, a.scalar && b.scalar)) ∧
    (∀ x, a.ps = [x] → b.ps.length ≠ 1 → bc f a b = .ok (b.ps.map (f x), false)) ∧
    (∀ y, b.ps = [y] → a.ps.length ≠ 1 → bc f a b = .ok (a.ps.map (fun x => f x y), false)) ∧
    (a.ps.length ≠ b.ps.length → a.ps.length ≠ 1 → b.ps.length ≠ 1 → bc f a b = .error .valueError) := by
  refine ⟨fun h => by simp [bc, C01.broadcast, h], fun x hx hb => ?_, fun y hy ha => ?_, fun h ha hb => ?_⟩
  · have : a.ps.length ≠ b.ps.length := by rw [hx]; simpa using fun h => hb h.symm
    simp [bc, C01.broadcast, hx, show ¬ 1 = b.ps.length from fun h => hb h.symm]
  · have : a.ps.length ≠ b.ps.length := by rw [hy]; simpa using ha
    rcases hps : a.ps with _ | ⟨x, _ | ⟨x2, xs⟩⟩
    · simp [bc, C01.broadcast, hps, hy]
    · rw [hps] at ha; simp at ha
    · simp [bc, C01.broadcast, hps, hy]
  · rcases hpa : a.ps with _ | ⟨x, _ | ⟨x2, xs⟩⟩ <;> rcases hpb : b.ps with _ | ⟨y, _ | ⟨y2, ys⟩⟩ <;>
      simp_all [bc, C01.broadcast]

theorem bc_error_kind (f : Int → Int → Int) (a b : C01.TVal) (er : Err) (h : bc f a b = .error er) : er = .valueError := by
  unfold bc at h
  split at h
  · cases h
  · cases h; rfl

/-- the constructor's last step: start and stop must have the same shape -/
def shapeOk (sS : Bool) (S : List Int) (sP : Bool) (P : List Int) (off : Int) (un : TimeUnit) : Except Err Epochs :=
  if sS = sP ∧ S.length = P.length then .ok ⟨S, P, sS, off, un⟩ else .error .valueError

/-- `Epochs(start=s, stop=p[, t0, offset])`: start and stop as given (a given `t0` is ignored) -/
theorem epochs_mk_start_stop (u : Option TimeUnit) (t0 offset : Arg) (s p : C01.Operand)
    (hoff : (offOf u offset).scalar = true) :
    Epochs.mk' u t0 (some p) offset (some s) none =
      shapeOk (toTime u s).scalar (toTime u s).ps (toTime u p).scalar (toTime u p).ps
        ((offOf u offset).ps.headD 0) (toTime u s).unit := by
  unfold offOf at hoff ⊢
  by_cases hs : (toTime u s).scalar = (toTime u p).scalar <;>
    by_cases hl : (toTime u s).ps.length = (toTime u p).ps.length <;> simp [Epochs.mk', shapeOk, bind, Except.bind, pure, Except.pure, throw, throwThe, MonadExceptOf.throw, hoff, hs, hl]

/-- `Epochs(start=s, duration=d[, t0, offset])`: `stop = start + duration` with numpy broadcasting -/
theorem epochs_mk_start_duration (u : Option TimeUnit) (t0 offset : Arg) (s d : C01.Operand)
    (hoff : (offOf u offset).scalar = true) :
    Epochs.mk' u t0 none offset (some s) (some d) =
      match bc (· + ·) (toTime u s) (toTime u d) with
      | .ok (P, sP) => shapeOk (toTime u s).scalar (toTime u s).ps sP P ((offOf u offset).ps.headD 0) (toTime u s).unit
      | .error _ => .error .valueError := by
  unfold offOf at hoff ⊢
  cases h1 : bc (· + ·) (toTime u s) (toTime u d) with
  | error e =>
    have := bc_error_kind _ _ _ _ h1; subst this
    simp [Epochs.mk', bind, Except.bind, pure, Except.pure, hoff, h1]
  | ok r =>
    obtain ⟨P, sP⟩ := r
    simp only [Epochs.mk', bind, Except.bind, pure, Except.pure, hoff, h1, Option.isNone_some, Option.isNone_none,
      Option.isSome_some, Option.isSome_none, and_false, false_and, and_true, if_false, Bool.false_eq_true, Bool.not_true]
    by_cases hs : (toTime u s).scalar = sP <;>
      by_cases hl : (toTime u s).ps.length = P.length <;> simp [shapeOk, throw, throwThe, MonadExceptOf.throw, h1, hs, hl]

/-- `Epochs(t0=z, stop=p[, offset])`: `start = t0 − offset` -/
theorem epochs_mk_t0_stop (u : Option TimeUnit) (offset : Arg) (z p : C01.Operand)
    (hoff : (offOf u offset).scalar = true) :
    Epochs.mk' u (some z) (some p) offset none none =
      match bc (· - ·) (toTime u z) (offOf u offset) with
      | .ok (S, sS) => shapeOk sS S (toTime u p).scalar (toTime u p).ps ((offOf u offset).ps.headD 0) (toTime u z).unit
      | .error _ => .error .valueError := by
  unfold offOf at hoff ⊢
  cases h1 : bc (· - ·) (toTime u z) (toTime u (offset.getD (.bare true [.int 0]))) with
  | error e =>
    have := bc_error_kind _ _ _ _ h1; subst this
    simp [Epochs.mk', bind, Except.bind, pure, Except.pure, hoff, h1]
  | ok r =>
    obtain ⟨S, sS⟩ := r
    by_cases hs : sS = (toTime u p).scalar <;>
      by_cases hl : S.length = (toTime u p).ps.length <;> simp [Epochs.mk', shapeOk, bind, Except.bind, pure, Except.pure, throw, throwThe, MonadExceptOf.throw, hoff, h1, hs, hl]

/-- `Epochs(t0=z, duration=d[, offset])`: `start = t0 − offset`, `stop = start + duration` -/
theorem epochs_mk_t0_duration (u : Option TimeUnit) (offset : Arg) (z d : C01.Operand)
    (hoff : (offOf u offset).scalar = true) :
    Epochs.mk' u (some z) none offset none (some d) =
      match bc (· - ·) (toTime u z) (offOf u offset) with
      | .ok (S, sS) =>
        (match bc (· + ·) ⟨S, (toTime u z).unit, sS⟩ (toTime u d) with
         | .ok (P, sP) => shapeOk sS S sP P ((offOf u offset).ps.headD 0) (toTime u z).unit
         | .error _ => .error .valueError)
      | .error _ => .error .valueError := by
  unfold offOf at hoff ⊢
  cases h1 : bc (· - ·) (toTime u z) (toTime u (offset.getD (.bare true [.int 0]))) with
  | error e =>
    have := bc_error_kind _ _ _ _ h1; subst this
    simp [Epochs.mk', bind, Except.bind, pure, Except.pure, hoff, h1]
  | ok r =>
    obtain ⟨S, sS⟩ := r
    simp only []
    cases h2 : bc (· + ·) ⟨S, (toTime u z).unit, sS⟩ (toTime u d) with
    | error e =>
      have := bc_error_kind _ _ _ _ h2; subst this
      simp [Epochs.mk', bind, Except.bind, pure, Except.pure, hoff, h1, h2]
    | ok r2 =>
      obtain ⟨P, sP⟩ := r2
      simp only [Epochs.mk', bind, Except.bind, pure, Except.pure, hoff, h1, h2, Option.isNone_some, Option.isNone_none,
        Option.isSome_some, Option.isSome_none, and_false, false_and, and_true, if_false, Bool.false_eq_true, Bool.not_true]
      by_cases hs : sS = sP <;> by_cases hl : S.length = P.length <;>
        simp [shapeOk, throw, throwThe, MonadExceptOf.throw, h1, h2, hs, hl]

/-- the argument checks: a start (or t0) is needed; exactly one of stop / duration; a 0-d offset -/
theorem epochs_mk_rejects (u : Option TimeUnit) (t0 stop offset start duration : Arg)
    (h : (t0 = none ∧ start = none) ∨ (stop = none ∧ duration = none) ∨ (stop.isSome ∧ duration.isSome) ∨
      (offOf u offset).scalar = false) :
    Epochs.mk' u t0 stop offset start duration = .error .valueError := by
  unfold offOf at h
  rcases h with ⟨h1, h2⟩ | ⟨h1, h2⟩ | ⟨h1, h2⟩ | h
  · subst h1 h2; simp [Epochs.mk', bind, Except.bind, throw, throwThe, MonadExceptOf.throw]
  · subst h1 h2
    cases t0 <;> cases start <;> simp [Epochs.mk', bind, Except.bind, pure, Except.pure, throw, throwThe, MonadExceptOf.throw]
  · obtain ⟨p, rfl⟩ := Option.isSome_iff_exists.mp h1
    obtain ⟨d, rfl⟩ := Option.isSome_iff_exists.mp h2
    cases t0 <;> cases start <;> simp [Epochs.mk', bind, Except.bind, pure, Except.pure, throw, throwThe, MonadExceptOf.throw]
  · cases t0 <;> cases start <;> cases stop <;> cases duration <;>
      simp [Epochs.mk', bind, Except.bind, pure, Except.pure, throw, throwThe, MonadExceptOf.throw, h]

theorem shapeOk_error_kind {sS sP : Bool} {S P : List Int} {off : Int} {un : TimeUnit} {er : Err}
    (h : shapeOk sS S sP P off un = .error er) : er = .valueError := by
  unfold shapeOk at h
  split at h
  · cases h
  · cases h; rfl

/-- every refusal of the constructor is a ValueError -/
theorem epochs_mk_error_kind (u : Option TimeUnit) (t0 stop offset start duration : Arg) (er : Err)
    (h : Epochs.mk' u t0 stop offset start duration = .error er) : er = .valueError := by
  have rej := epochs_mk_rejects u t0 stop offset start duration
  by_cases hoff : (offOf u offset).scalar = true
  swap
  · rw [rej (Or.inr (Or.inr (Or.inr (by simpa using hoff))))] at h; cases h; rfl
  cases start with
  | some s =>
    cases stop with
    | some p =>
      cases duration with
      | some d => rw [rej (Or.inr (Or.inr (Or.inl ⟨rfl, rfl⟩)))] at h; cases h; rfl
      | none => rw [epochs_mk_start_stop _ _ _ _ _ hoff] at h; exact shapeOk_error_kind h
    | none =>
      cases duration with
      | none => rw [rej (Or.inr (Or.inl ⟨rfl, rfl⟩))] at h; cases h; rfl
      | some d =>
        rw [epochs_mk_start_duration _ _ _ _ _ hoff] at h
        split at h
        · exact shapeOk_error_kind h
        · cases h; rfl
  | none =>
    cases t0 with
    | none => rw [rej (Or.inl ⟨rfl, rfl⟩)] at h; cases h; rfl
    | some z =>
      cases stop with
      | some p =>
        cases duration with
        | some d => rw [rej (Or.inr (Or.inr (Or.inl ⟨rfl, rfl⟩)))] at h; cases h; rfl
        | none =>
          rw [epochs_mk_t0_stop _ _ _ _ hoff] at h
          split at h
          · exact shapeOk_error_kind h
          · cases h; rfl
      | none =>
        cases duration with
        | none => rw [rej (Or.inr (Or.inl ⟨rfl, rfl⟩))] at h; cases h; rfl
        | some d =>
          rw [epochs_mk_t0_duration _ _ _ _ hoff] at h
          split at h
          · split at h
            · exact shapeOk_error_kind h
            · cases h; rfl
          · cases h; rfl

example : Epochs.mk' (some .s) (some (.bare false [.int 1, .int 2])) none (some (.bare true [.int 1])) none (some (.bare true [.int 3]))
    = .ok ⟨[0, 1000000000000], [3000000000000, 4000000000000], false, 1000000000000, .s⟩ := by decide +kernel

/-- the property's domain: magnitudes below 2^62 ps -/
def Fits62 (x : Int) : Prop := -(2 ^ 62) < x ∧ x < 2 ^ 62
/-- representable in int64 -/
def InInt64 (x : Int) : Prop := -(2 ^ 63) ≤ x ∧ x < 2 ^ 63

theorem fits62_sub_add {x y : Int} (hx : Fits62 x) (hy : Fits62 y) :
    InInt64 (x - y) ∧ InInt64 (x + y) ∧ InInt64 (((x - y).natAbs : Int)) := by
  unfold Fits62 at hx hy; unfold InInt64
  refine ⟨⟨by omega, by omega⟩, ⟨by omega, by omega⟩, ⟨by omega, by omega⟩⟩

/-- uniform axis: with the instants, the start and the end of the axis inside the domain, every int64
intermediate of `index_at` / `slice_during` (`t − t0`, `t0 + duration`, the floor quotient, the
samples `t0 + i·dt` up to the end) is computed without wrap-around -/
theorem uniform_no_wrap (a : UAxis) (hdt : 0 < a.dt) (t : Int) (ht : Fits62 t) (h0 : Fits62 a.t0)
    (hend : Fits62 a.stop) (hdur : Fits62 a.dur) :
    InInt64 (t - a.t0) ∧ InInt64 (a.t0 + a.dur) ∧ InInt64 (a.bin t) ∧ InInt64 (a.bin t + 1) ∧
    (∀ i : Nat, i ≤ a.n → Fits62 (a.t0 + (i : Int) * a.dt)) := by
  have hx := (fits62_sub_add ht h0).1
  have hq : -(2 ^ 63 : Int) + 2 ≤ a.bin t ∧ a.bin t ≤ 2 ^ 63 - 2 := by
    unfold bin
    rw [Int.fdiv_eq_ediv_of_nonneg _ hdt.le]
    have hq1 : (t - a.t0) / a.dt * a.dt ≤ t - a.t0 := Int.ediv_mul_le _ (by omega)
    have hq2 : t - a.t0 < ((t - a.t0) / a.dt + 1) * a.dt := Int.lt_ediv_add_one_mul_self _ hdt
    unfold Fits62 at ht h0
    generalize (t - a.t0) / a.dt = q at hq1 hq2
    have hx1 : -(2 ^ 63 : Int) + 2 ≤ t - a.t0 := by omega
    have hx2 : t - a.t0 ≤ 2 ^ 63 - 2 := by omega
    generalize t - a.t0 = x at hq1 hq2 hx1 hx2
    constructor
    · by_contra hc
      have h1 : q + 1 ≤ 0 := by omega
      have : (q + 1) * a.dt ≤ (q + 1) := by nlinarith
      omega
    · by_contra hc
      have h1 : 0 ≤ q := by omega
      have : q ≤ q * a.dt := by nlinarith
      omega
  refine ⟨hx, (fits62_sub_add h0 hdur).2.1, ?_, ?_, ?_⟩
  · unfold InInt64; omega
  · unfold InInt64; omega
  · intro i hi
    unfold stop at hend
    unfold Fits62 at *
    have h1 : (0 : Int) ≤ (i : Int) * a.dt := mul_nonneg (by omega) hdt.le
    have h2 : (i : Int) * a.dt ≤ (a.n : Int) * a.dt := mul_le_mul_of_nonneg_right (by omega) hdt.le
    omega

/-- arbitrary time arrays: `self − t` and `np.abs(self − t)` do not wrap -/
theorem tarray_no_wrap (ts : List Int) (t : Int) (ht : Fits62 t) (hts : ∀ x ∈ ts, Fits62 x) :
    ∀ x ∈ ts, InInt64 (x - t) ∧ InInt64 (((x - t).natAbs : Int)) :=
  fun x hx => ⟨(fits62_sub_add (hts x hx) ht).1, (fits62_sub_add (hts x hx) ht).2.2⟩

private theorem mem_zipWith_exists (f : Int → Int → Int) :
    ∀ (a b : List Int) (z : Int), z ∈ List.zipWith f a b → ∃ x ∈ a, ∃ y ∈ b, z = f x y := by
  intro a
  induction a with
  | nil => intro b z h; simp at h
  | cons x xs ih =>
    intro b z h
    cases b with
    | nil => simp at h
    | cons y ys =>
      simp only [List.zipWith_cons_cons, List.mem_cons] at h
      rcases h with h | h
      · exact ⟨x, by simp, y, by simp, h⟩
      · obtain ⟨x', hx', y', hy', he⟩ := ih ys z h
        exact ⟨x', by simp [hx'], y', by simp [hy'], he⟩

/-- numpy broadcasting only ever combines an element of one operand with an element of the other -/
theorem bc_mem (f : Int → Int → Int) (a b : C01.TVal) (r : List Int) (sc : Bool) (h : bc f a b = .ok (r, sc)) :
    ∀ z ∈ r, ∃ x ∈ a.ps, ∃ y ∈ b.ps, z = f x y := by
  obtain ⟨s1, s2, s3, s4⟩ := bc_spec f a b
  by_cases hl : a.ps.length = b.ps.length
  · rw [s1 hl] at h; cases h; exact mem_zipWith_exists f _ _
  · by_cases ha1 : a.ps.length = 1
    · obtain ⟨x, hx⟩ := List.length_eq_one_iff.mp ha1
      have hb1 : b.ps.length ≠ 1 := by omega
      rw [s2 x hx hb1] at h; cases h
      intro z hz
      obtain ⟨y, hy, he⟩ := List.mem_map.mp hz
      exact ⟨x, by simp [hx], y, hy, he.symm⟩
    · by_cases hb1 : b.ps.length = 1
      · obtain ⟨y, hy⟩ := List.length_eq_one_iff.mp hb1
        rw [s3 y hy ha1] at h; cases h
        intro z hz
        obtain ⟨x, hx, he⟩ := List.mem_map.mp hz
        exact ⟨x, hx, y, by simp [hy], he.symm⟩
      · rw [s4 hl ha1 hb1] at h; cases h

/-- epochs: `t0 − offset` and `start + duration` do not wrap when the operands are inside the domain -/
theorem epochs_no_wrap (a b : C01.TVal) (ha : ∀ x ∈ a.ps, Fits62 x) (hb : ∀ y ∈ b.ps, Fits62 y)
    (r : List Int) (sc : Bool) :
    (bc (· - ·) a b = .ok (r, sc) → ∀ z ∈ r, InInt64 z) ∧ (bc (· + ·) a b = .ok (r, sc) → ∀ z ∈ r, InInt64 z) := by
  constructor
  · intro h z hz
    obtain ⟨x, hx, y, hy, he⟩ := bc_mem _ a b r sc h z hz
    rw [he]; exact (fits62_sub_add (ha x hx) (hb y hy)).1
  · intro h z hz
    obtain ⟨x, hx, y, hy, he⟩ := bc_mem _ a b r sc h z hz
    rw [he]; exact (fits62_sub_add (ha x hx) (hb y hy)).2.1

example : Fits62 (3 * 604800 * 10 ^ 12) ∧ ¬ Fits62 (8 * 604800 * 10 ^ 12) := by unfold Fits62; constructor <;> norm_num


/-- `Epochs[key]` (reordering / repeating keys): start, stop and duration are those of the selected
rows, in the key's order — never a cached duration of the parent -/
theorem epochs_getItem_spec (e : Epochs) (pos : List Nat) :
    (e.getItem pos).starts = sel e.starts pos ∧ (e.getItem pos).stops = sel e.stops pos ∧
    (e.getItem pos).offset = e.offset ∧ (e.getItem pos).unit = e.unit ∧
    (e.getItem pos).durations = pos.map (fun i => e.stops.getD i 0 - e.starts.getD i 0) := by
  refine ⟨rfl, rfl, rfl, rfl, ?_⟩
  simp only [Epochs.getItem, Epochs.durations, sel]
  induction pos with
  | nil => rfl
  | cons p ps ih => simp [ih]

example : (Epochs.getItem ⟨[1, 5, 9], [2, 8, 9], false, 0, .s⟩ [2, 0, 0]).durations = [0, 1, 1] := by decide

/-! ### operation histories: lookups / in-place changes / lookups on ONE container

The state that the fold `runHist` threads through a history is the container's contents (`Cont`),
nothing else: what was looked up before, and by which python route the buffer was changed, cannot
be seen by a later lookup. -/

/-- lookups leave the contents alone: after a history the contents are those produced by its in-place
changes only -/
theorem contents_ignore_lookups (c : Cont) (h : List HStep) :
    contentsAfter c h = contentsAfter c (changesOf h) := contentsAfter_changesOf c h

/-- a history made of lookups only ends with the contents it started from -/
theorem lookups_leave_contents (c : Cont) (h : List HStep) : contentsAfter c (lookupsOf h) = c := by
  rw [contentsAfter_changesOf]
  have : changesOf (lookupsOf h) = [] := by
    simp only [changesOf, lookupsOf, List.filter_filter]
    rw [List.filter_eq_nil_iff]
    intro s _
    cases s <;> simp [HStep.isChange]
  rw [this]; rfl

/-- **the answer to a lookup depends only on the current contents**: after ANY history of lookups and
in-place changes, the lookup answers what `lookup` says of the contents produced by the changes alone -/
theorem lookup_history_independent (c : Cont) (h : List HStep) (op : String) (rest : List String) :
    (answers c (h ++ [.look op rest])).getLast? = some (lookup (contentsAfter c (changesOf h)) op rest) := by
  rw [answers_append, answers_look, ← contentsAfter_changesOf]
  simp

/-- every lookup inside a history (not only the last one) -/
theorem lookup_history_independent_at (c : Cont) (h₁ h₂ : List HStep) (op : String) (rest : List String) :
    (answers c (h₁ ++ .look op rest :: h₂))[h₁.length]? = some (lookup (contentsAfter c (changesOf h₁)) op rest) := by
  rw [answers_append, answers_cons, ← contentsAfter_changesOf]
  have hl := answers_length c h₁
  rw [List.getElem?_append_right (by omega)]
  simp [hl, stepHist]

/-- two histories (on the same or on different objects) that end with the same contents answer every lookup alike -/
theorem lookup_same_contents (c₁ c₂ : Cont) (h₁ h₂ : List HStep) (heq : contentsAfter c₁ h₁ = contentsAfter c₂ h₂)
    (op : String) (rest : List String) :
    (answers c₁ (h₁ ++ [.look op rest])).getLast? = (answers c₂ (h₂ ++ [.look op rest])).getLast? := by
  rw [lookup_history_independent, lookup_history_independent, ← contentsAfter_changesOf, ← contentsAfter_changesOf, heq]

/-- in particular: as a fresh container holding the current samples would (the harness's `fresh-container-differs`) -/
theorem lookup_as_fresh_container (c : Cont) (h : List HStep) (op : String) (rest : List String) :
    (answers c (h ++ [.look op rest])).getLast? = (answers (contentsAfter c h) [.look op rest]).getLast? := by
  have := lookup_same_contents c (contentsAfter c h) h [] rfl op rest
  simpa using this

/-- one answer per step -/
theorem history_answers_length (c : Cont) (h : List HStep) : (answers c h).length = h.length := answers_length c h

/-- a refused in-place change leaves the contents as they were -/
theorem refused_change_keeps_contents (c : Cont) (ch : Change) (e : Err) (h : ch.apply c = .error e) :
    contentsAfter c [.change ch] = c := by
  simp [contentsAfter, runHist, stepHist, h]

/-- an accepted one replaces them by what `Change.apply` says -/
theorem accepted_change_contents (c c' : Cont) (ch : Change) (h : ch.apply c = .ok c') :
    contentsAfter c [.change ch] = c' := by
  simp [contentsAfter, runHist, stepHist, h]

example : contentsAfter (.tarray ⟨[1, 2, 3, 4, 5, 6], .ps, false⟩)
    [.look "index_at" ["before", "T:ps:1:2", "_"], .change (.tarr (.setAt 3 0)), .look "index_at" ["before", "T:ps:1:0", "_"],
     .change (.tarr (.add [1])), .change (.tarr (.add [1, 2])), .change (.tarr .reverse)]
    = .tarray ⟨[7, 6, 1, 4, 3, 2], .ps, false⟩ ∧
    indexBefore [1, 2, 3, 0, 5, 6] 0 = some 3 ∧ indexAfter [1, 2, 3, 0, 5, 6] 0 = some 3 := by decide

/-! #### what the in-place changes of a time array do, element by element -/

/-- no change alters the number of samples: positions keep their meaning (and the parallel data arrays their partner) -/
theorem tchange_length (ts : List Int) (ch : TChange) (r : List Int) (h : ch.apply ts = .ok r) : r.length = ts.length := by
  cases ch with
  | setAt i v =>
    simp only [TChange.apply] at h
    split at h <;> cases h
    simp
  | add xs => exact inplaceZip_length _ _ _ _ h
  | sub xs => exact inplaceZip_length _ _ _ _ h
  | mul k => cases h; simp
  | sort => cases h; simp
  | sortDesc => cases h; simp
  | reverse => cases h; simp
  | assign xs => exact inplaceZip_length _ _ _ _ h

/-- `ta[i] = v` (by any route): position `i` holds `v`, every other position what it held -/
theorem tchange_setAt_spec (ts : List Int) (i : Nat) (v : Int) (hi : i < ts.length) :
    ∃ r, TChange.apply ts (.setAt i v) = .ok r ∧ ∀ j, r.getD j 0 = if j = i then v else ts.getD j 0 := by
  refine ⟨ts.set i v, by simp [TChange.apply, hi], fun j => ?_⟩
  by_cases hj : j = i
  · subst hj; simp [List.getD_eq_getElem?_getD, hi]
  · have : i ≠ j := fun h => hj h.symm
    simp [List.getD_eq_getElem?_getD, hj, List.getElem?_set_ne this]

/-- `ta += x`, `ta -= x`, `np.copyto(ta, x)` under numpy's in-place broadcasting -/
theorem tchange_arith_spec (ts xs r : List Int) (j : Nat) (hj : j < ts.length) :
    (TChange.apply ts (.add xs) = .ok r → r.getD j 0 = ts.getD j 0 + (if xs.length = ts.length then xs.getD j 0 else xs.headD 0)) ∧
    (TChange.apply ts (.sub xs) = .ok r → r.getD j 0 = ts.getD j 0 - (if xs.length = ts.length then xs.getD j 0 else xs.headD 0)) ∧
    (TChange.apply ts (.assign xs) = .ok r → r.getD j 0 = (if xs.length = ts.length then xs.getD j 0 else xs.headD 0)) :=
  ⟨fun h => inplaceZip_getD _ _ _ _ h j hj, fun h => inplaceZip_getD _ _ _ _ h j hj, fun h => inplaceZip_getD _ _ _ _ h j hj⟩

/-- operands of another length (and not a single element) are refused -/
theorem tchange_arith_refused (ts xs : List Int) (h1 : xs.length ≠ ts.length) (h2 : xs.length ≠ 1) :
    TChange.apply ts (.add xs) = .error .valueError := by
  simp only [TChange.apply, inplaceZip, if_neg h1]
  match xs, h2 with
  | [], _ => rfl
  | [_], h => simp at h
  | _ :: _ :: _, _ => rfl

theorem tchange_mul_spec (ts : List Int) (k : Int) (j : Nat) (hj : j < ts.length) :
    ∃ r, TChange.apply ts (.mul k) = .ok r ∧ r.getD j 0 = ts.getD j 0 * k :=
  ⟨_, rfl, getD_map _ ts j hj⟩

/-- `ta.sort()`: the same samples, ascending; `ta[::-1].sort()`: the same samples, descending -/
theorem tchange_sort_spec (ts : List Int) :
    (∃ r, TChange.apply ts .sort = .ok r ∧ r.Pairwise (· ≤ ·) ∧ r.Perm ts) ∧
    (∃ r, TChange.apply ts .sortDesc = .ok r ∧ r.Pairwise (· ≥ ·) ∧ r.Perm ts) := by
  have hs : (ts.mergeSort (fun a b => decide (a ≤ b))).Pairwise (· ≤ ·) := by
    have := List.pairwise_mergeSort (le := fun (a b : Int) => decide (a ≤ b))
      (by intro a b c h1 h2; simp only [decide_eq_true_eq] at *; omega)
      (by intro a b; simp only [Bool.or_eq_true, decide_eq_true_eq]; omega) ts
    exact this.imp (by intro a b h; simpa using h)
  refine ⟨⟨_, rfl, hs, List.mergeSort_perm _ _⟩, ⟨_, rfl, ?_, (List.reverse_perm _).trans (List.mergeSort_perm _ _)⟩⟩
  rw [List.pairwise_reverse]
  exact hs.imp (fun h => h)

/-- negating a sorted array in place leaves it in DESCENDING order: a memo "sorted" would be stale -/
theorem tchange_negate_reverses_order (ts : List Int) (hs : ts.Pairwise (· ≤ ·)) :
    ∃ r, TChange.apply ts (.mul (-1)) = .ok r ∧ r.Pairwise (· ≥ ·) := by
  refine ⟨_, rfl, ?_⟩
  rw [List.pairwise_map]
  exact hs.imp (by intro a b h; show a * -1 ≥ b * -1; omega)

/-- a history never changes the kind of a time array, its unit or its length -/
theorem history_tarray_shape (t : C01.TVal) (h : List HStep) :
    ∃ t' : C01.TVal, contentsAfter (.tarray t) h = .tarray t' ∧ t'.unit = t.unit ∧ t'.scalar = t.scalar ∧
      t'.ps.length = t.ps.length := by
  induction h generalizing t with
  | nil => exact ⟨t, rfl, rfl, rfl, rfl⟩
  | cons s h ih =>
    rw [contentsAfter_cons]
    cases s with
    | look op rest => exact ih t
    | change ch =>
      cases ch with
      | uax c => exact ih t
      | tarr c =>
        simp only [stepHist, Change.apply]
        cases hc : c.apply t.ps with
        | error e => simpa [Except.map] using ih t
        | ok ps =>
          obtain ⟨t', h1, h2, h3, h4⟩ := ih { t with ps := ps }
          refine ⟨t', by simpa [Except.map] using h1, h2, h3, ?_⟩
          rw [h4]; exact tchange_length _ _ _ hc

/-- events: a history of in-place changes of the time stamps leaves every data array, the unit and the
number of events as they were — "the data stored at those same positions" keeps its meaning -/
theorem history_events_data (ev : Events) (h : List HStep) :
    ∃ ev' : Events, contentsAfter (.events ev) h = .events ev' ∧ ev'.data = ev.data ∧ ev'.unit = ev.unit ∧
      ev'.time.length = ev.time.length := by
  induction h generalizing ev with
  | nil => exact ⟨ev, rfl, rfl, rfl, rfl⟩
  | cons s h ih =>
    rw [contentsAfter_cons]
    cases s with
    | look op rest => exact ih ev
    | change ch =>
      cases ch with
      | uax c => exact ih ev
      | tarr c =>
        simp only [stepHist, Change.apply]
        cases hc : c.apply ev.time with
        | error e => simpa [Except.map] using ih ev
        | ok ps =>
          obtain ⟨ev', h1, h2, h3, h4⟩ := ih { ev with time := ps }
          refine ⟨ev', by simpa [Except.map] using h1, h2, h3, ?_⟩
          rw [h4]; exact tchange_length _ _ _ hc

/-- after ANY history on a time array, `mode='before'` / `mode='after'` with a single instant answer from the
current samples `ts'`, and the position named satisfies the relation on THOSE samples (`before_spec`, `after_spec`) -/
theorem history_before_after_spec (t : C01.TVal) (h : List HStep) (q tol : String) (tq : Int) (sc : Bool) (tolv : Int)
    (hq : parseQuery? t.unit q = some ([tq], sc)) (htol : parseTol? t.unit tol = some tolv) :
    ∃ ts' : List Int, ts'.length = t.ps.length ∧
      (answers (.tarray t) (h ++ [.look "index_at" ["before", q, tol]])).getLast? =
        some (match indexBefore ts' tq with | some i => s!"ok i:{i}" | none => "ok a:-") ∧
      (answers (.tarray t) (h ++ [.look "index_at" ["after", q, tol]])).getLast? =
        some (match indexAfter ts' tq with | some i => s!"ok i:{i}" | none => "ok a:-") ∧
      (indexBefore ts' tq = none ↔ ∀ i, i < ts'.length → tq < ts'.getD i 0) ∧
      (∀ j, indexBefore ts' tq = some j → j < ts'.length ∧ ts'.getD j 0 ≤ tq ∧
        ∀ i, i < ts'.length → ts'.getD i 0 ≤ tq → ts'.getD i 0 ≤ ts'.getD j 0) ∧
      (indexAfter ts' tq = none ↔ ∀ i, i < ts'.length → ts'.getD i 0 < tq) ∧
      (∀ j, indexAfter ts' tq = some j → j < ts'.length ∧ tq ≤ ts'.getD j 0 ∧
        ∀ i, i < ts'.length → tq ≤ ts'.getD i 0 → ts'.getD j 0 ≤ ts'.getD i 0) := by
  obtain ⟨t', hc, hu, _, hl⟩ := history_tarray_shape t h
  have hb := before_spec t'.ps tq
  have ha := after_spec t'.ps tq
  refine ⟨t'.ps, hl, ?_, ?_, hb.1, fun j hj => ⟨(hb.2 j hj).1, (hb.2 j hj).2.1, (hb.2 j hj).2.2.1⟩,
    ha.1, fun j hj => ⟨(ha.2 j hj).1, (ha.2 j hj).2.1, (ha.2 j hj).2.2.1⟩⟩
  · rw [lookup_history_independent, ← contentsAfter_changesOf, hc]
    simp only [lookup, lookupTArray, hu, hq, htol, tarrayIndexAt]
    cases indexBefore t'.ps tq <;> rfl
  · rw [lookup_history_independent, ← contentsAfter_changesOf, hc]
    simp only [lookup, lookupTArray, hu, hq, htol, tarrayIndexAt]
    cases indexAfter t'.ps tq <;> rfl

/-! #### in-place changes of a uniform axis: the attributes keep describing the samples -/

theorem times_reset (a : UAxis) (t0 dt : Int) :
    (a.reset t0 dt).times = (List.range a.n).map fun (i : Nat) => t0 + (i : Int) * dt := rfl

theorem uchange_n_dur_sub (a b : UAxis) (xs : List Int) (sc : Bool) (h : a.shifted (-1) xs sc = .ok b) :
    b.n = a.n ∧ b.unit = a.unit ∧ b.dur = (b.n : Int) * b.dt := by
  have key : ∀ t0 dt, (a.reset t0 dt).n = a.n ∧ (a.reset t0 dt).unit = a.unit ∧
      (a.reset t0 dt).dur = ((a.reset t0 dt).n : Int) * (a.reset t0 dt).dt := fun _ _ => ⟨rfl, rfl, rfl⟩
  simp only [shifted] at h
  split at h
  · cases h; exact key _ _
  · split at h
    · cases h
    · cases h; exact key _ _
    · split at h
      · cases h
      · split at h
        · cases h
        · split at h
          · cases h
          · cases h; exact key _ _

/-- every accepted `+= -= *= /=` leaves `n` alone and a duration of `n` intervals, so that today's range check
(`indexAtCurrent`) is the intended one (`indexAtCurrent_partial`) -/
theorem uchange_n_dur (a b : UAxis) (ch : UChange) (h : ch.apply a = .ok b) :
    b.n = a.n ∧ b.unit = a.unit ∧ b.dur = (b.n : Int) * b.dt := by
  have key : ∀ t0 dt, (a.reset t0 dt).n = a.n ∧ (a.reset t0 dt).unit = a.unit ∧
      (a.reset t0 dt).dur = ((a.reset t0 dt).n : Int) * (a.reset t0 dt).dt := fun _ _ => ⟨rfl, rfl, rfl⟩
  cases ch with
  | add xs sc =>
    simp only [UChange.apply, shifted] at h
    split at h
    · cases h; exact key _ _
    · split at h
      · cases h
      · cases h; exact key _ _
      · split at h
        · cases h
        · split at h
          · cases h
          · split at h
            · cases h
            · cases h; exact key _ _
  | sub xs sc =>
    simp only [UChange.apply, shifted] at h
    split at h
    · cases h; exact key _ _
    · split at h
      · cases h
      · cases h; exact key _ _
      · split at h
        · cases h
        · split at h
          · cases h
          · split at h
            · cases h
            · cases h; exact key _ _
  | mul k =>
    simp only [UChange.apply, scaled] at h
    split at h
    · cases h
    · cases h; exact key _ _
  | div k =>
    simp only [UChange.apply, divided] at h
    split at h
    · cases h
    · cases h; exact key _ _
  | rsub xs sc =>
    simp only [UChange.apply] at h
    cases hs : a.shifted (-1) xs sc with
    | error e => rw [hs] at h; cases h
    | ok c =>
      rw [hs] at h
      simp only [Except.bind, scaled] at h
      split at h
      · cases h
      · cases h
        have hc : c.n = a.n ∧ c.unit = a.unit := by
          have := uchange_n_dur_sub a c xs sc hs
          exact ⟨this.1, this.2.1⟩
        exact ⟨hc.1, hc.2, rfl⟩

/-- a shift (0-d operand, or one element): every sample moves by it, the interval stays -/
theorem uchange_shift_times (a : UAxis) (x : Int) (i : Nat) :
    ∃ b, UChange.apply a (.add [x] true) = .ok b ∧ b.sample i = a.sample i + x ∧ b.dt = a.dt := by
  refine ⟨_, rfl, ?_, rfl⟩
  simp only [sample, reset, List.headD_cons]; ring

/-- an accepted ramp `x, x+d, x+2d, …`: sample `i` moves by `x + i·d` — the attribute arithmetic of `__iadd__`
agrees with what numpy did to the buffer -/
theorem uchange_ramp_times (a b : UAxis) (x y : Int) (rest : List Int)
    (h : UChange.apply a (.add (x :: y :: rest) false) = .ok b) (i : Nat) :
    b.sample i = a.sample i + (x + (i : Int) * (y - x)) ∧ (x :: y :: rest).length = a.n ∧ b.dt ≠ 0 ∨
    (y - x = 0 ∧ b.sample i = a.sample i + x) := by
  simp only [UChange.apply, shifted, Bool.false_eq_true, if_false] at h
  split at h
  · cases h
  · split at h
    · cases h
    · split at h
      · cases h
      · rename_i hc hl
        cases h
        by_cases hd : y - x = 0
        · right
          refine ⟨hd, ?_⟩
          simp only [sample, reset, hd]; ring
        · left
          refine ⟨?_, by simpa using hl, ?_⟩
          · simp only [sample, reset]; ring
          · simp only [reset]
            intro h0
            exact hc ⟨hd, by linarith⟩

/-- `*= k` and an accepted `/= k`: every sample is multiplied / divided exactly -/
theorem uchange_scale_times (a b : UAxis) (k : Int) (i : Nat) :
    (UChange.apply a (.mul k) = .ok b → k ≠ 0 ∧ b.sample i = a.sample i * k) ∧
    (UChange.apply a (.div k) = .ok b → k ≠ 0 ∧ b.sample i * k = a.sample i) := by
  constructor
  · intro h
    simp only [UChange.apply, scaled] at h
    split at h
    · cases h
    · rename_i hk
      cases h
      refine ⟨hk, ?_⟩
      simp only [sample, reset]; ring
  · intro h
    simp only [UChange.apply, divided] at h
    split at h
    · cases h
    · rename_i hk
      cases h
      have hk0 : k ≠ 0 := fun h0 => hk (Or.inl h0)
      have h1 : a.t0 % k = 0 := by by_contra hc; exact hk (Or.inr (Or.inl hc))
      have h2 : a.dt % k = 0 := by by_contra hc; exact hk (Or.inr (Or.inr hc))
      refine ⟨hk0, ?_⟩
      have e1 : Int.fdiv a.t0 k * k = a.t0 := by
        rw [Int.fdiv_eq_ediv_of_dvd (Int.dvd_of_emod_eq_zero h1)]; exact Int.ediv_mul_cancel (Int.dvd_of_emod_eq_zero h1)
      have e2 : Int.fdiv a.dt k * k = a.dt := by
        rw [Int.fdiv_eq_ediv_of_dvd (Int.dvd_of_emod_eq_zero h2)]; exact Int.ediv_mul_cancel (Int.dvd_of_emod_eq_zero h2)
      simp only [sample, reset]
      calc (Int.fdiv a.t0 k + (i : Int) * Int.fdiv a.dt k) * k
          = Int.fdiv a.t0 k * k + (i : Int) * (Int.fdiv a.dt k * k) := by ring
        _ = a.t0 + (i : Int) * a.dt := by rw [e1, e2]

/-- the refusals: an operand that would collapse the axis, a non-uniform one, one of another length, `*= 0`,
an inexact division — all `ValueError`, contents unchanged (`refused_change_keeps_contents`) -/
theorem uchange_refusals (a : UAxis) :
    UChange.apply a (.mul 0) = .error .valueError ∧ UChange.apply a (.div 0) = .error .valueError ∧
    (∀ x rest, a.dt ≠ 0 → UChange.apply a (.add (x :: (x - a.dt) :: rest) false) = .error .valueError) ∧
    (∀ k, a.dt % k ≠ 0 → UChange.apply a (.div k) = .error .valueError) := by
  refine ⟨rfl, by simp [UChange.apply, divided], ?_, ?_⟩
  · intro x rest hdt
    simp only [UChange.apply, shifted, Bool.false_eq_true, if_false]
    split
    · rfl
    · simp [hdt]
  · intro k hk
    simp [UChange.apply, divided, hk]

/-- `x - axis` with a 0-d `x`: sample `i` of the result is `x - t_i`; the interval changes its sign -/
theorem uchange_rsub_times (a : UAxis) (x : Int) (i : Nat) :
    ∃ b, UChange.apply a (.rsub [x] true) = .ok b ∧ b.sample i = x - a.sample i ∧ b.dt = -a.dt := by
  refine ⟨(a.reset (a.t0 + -1 * x) a.dt).reset ((a.t0 + -1 * x) * -1) (a.dt * -1), ?_, ?_, ?_⟩
  · simp [UChange.apply, shifted, scaled, Except.bind, reset]
  · simp only [sample, reset]; ring
  · simp only [reset]; ring

/-- arithmetic that makes a NEW object (`axis + x`, `x - axis`, …) never yields a uniform axis whose attributes are
those of its operand: a uniform result is exactly what the in-place operation gives (so `uchange_n_dur`,
`uchange_shift_times`, `uchange_ramp_times`, `uchange_rsub_times` describe it), and the operand is a value (unchanged) -/
theorem derive_uniform_spec (a b : UAxis) (ch : UChange) (h : a.derive ch = .ok (.uaxis b)) :
    ch.apply a = .ok b ∧ b.n = a.n ∧ b.unit = a.unit ∧ b.dur = (b.n : Int) * b.dt := by
  unfold UAxis.derive at h
  cases hc : ch.apply a with
  | ok c =>
    rw [hc] at h
    simp only [Except.ok.injEq, Cont.uaxis.injEq] at h
    subst h
    exact ⟨rfl, uchange_n_dur a c ch hc⟩
  | error e =>
    rw [hc] at h
    exfalso
    cases ch <;> simp only at h
    all_goals first
      | (split at h <;> cases h)
      | cases h

/-- otherwise (operand refused in place; here: an equally long, non-uniform or collapsing operand) the result is an
ordinary time array in the axis' unit holding the element-wise sums -/
theorem derive_plain_add (a : UAxis) (xs : List Int) (t : C01.TVal) (hl : xs.length = a.n)
    (h : a.derive (.add xs false) = .ok (.tarray t)) :
    t.ps = List.zipWith (· + ·) a.times xs ∧ t.unit = a.unit ∧ t.scalar = false ∧ (∃ e, a.shifted 1 xs false = .error e) := by
  unfold UAxis.derive at h
  cases hc : UChange.apply a (.add xs false) with
  | ok c => rw [hc] at h; simp at h
  | error e =>
    rw [hc] at h
    have hlen : a.times.length = xs.length := by simp [times, hl]
    simp only [C01.broadcast, hlen, if_true] at h
    simp only [Except.ok.injEq, Cont.tarray.injEq] at h
    subst h
    exact ⟨rfl, rfl, rfl, e, hc⟩

/-- `axis * k`, `k * axis`, `-axis` (k = −1) as NEW objects: `k = 0` is refused; otherwise a uniform axis whose sample `i` is
`k · t_i`, interval `k · Δ` (a negative factor reverses the direction, as `__imul__` does), duration `n` intervals -/
theorem derive_mul_spec (a : UAxis) (k : Int) :
    (k = 0 → a.derive (.mul k) = .error .valueError) ∧
    (k ≠ 0 → ∃ b, a.derive (.mul k) = .ok (.uaxis b) ∧ (∀ i, b.sample i = a.sample i * k) ∧ b.dt = a.dt * k ∧
      b.n = a.n ∧ b.unit = a.unit ∧ b.dur = (b.n : Int) * b.dt ∧ (0 < a.dt → k < 0 → b.dt < 0)) := by
  constructor
  · intro hk; subst hk; rfl
  · intro hk
    refine ⟨a.reset (a.t0 * k) (a.dt * k), ?_, ?_, rfl, rfl, rfl, rfl, ?_⟩
    · simp [UAxis.derive, UChange.apply, scaled, hk]
    · intro i; simp only [sample, reset]; ring
    · intro h1 h2; simp only [reset]; exact Int.mul_neg_of_pos_of_neg h1 h2

example : (⟨2, 2, 4, 8, .ms⟩ : UAxis).derive (.mul 2) = .ok (.uaxis ⟨4, 4, 4, 16, .ms⟩) ∧
    (⟨2, 2, 4, 8, .ms⟩ : UAxis).derive (.mul (-1)) = .ok (.uaxis ⟨-2, -2, 4, -8, .ms⟩) ∧
    (⟨4, 4, 4, 16, .ms⟩ : UAxis).indexAt [8] = .ok [1] ∧ (⟨-2, -2, 4, -8, .ms⟩ : UAxis).indexAt [-4] = .ok [1] := by decide

example : (⟨0, 2, 4, 8, .ms⟩ : UAxis).derive (.add [5] true) = .ok (.uaxis ⟨5, 2, 4, 8, .ms⟩) ∧
    (⟨0, 2, 4, 8, .ms⟩ : UAxis).derive (.rsub [5] true) = .ok (.uaxis ⟨5, -2, 4, -8, .ms⟩) ∧
    (⟨0, 2, 4, 8, .ms⟩ : UAxis).derive (.add [0, 1, 5, 3] false) = .ok (.tarray ⟨[0, 3, 9, 9], .ms, false⟩) ∧
    (⟨0, 2, 4, 8, .ms⟩ : UAxis).derive (.sub [0, 2, 4, 6] false) = .ok (.tarray ⟨[0, 0, 0, 0], .ms, false⟩) ∧
    (⟨0, 2, 4, 8, .ms⟩ : UAxis).derive (.add [1, 2, 3] false) = .error .valueError ∧
    (⟨5, 2, 4, 8, .ms⟩ : UAxis).indexAt [7] = .ok [1] := by decide

/-- after ANY history on a uniform axis that ends on a forward axis `b`, `slice_during` answers with the slice
computed from `b`, which holds exactly the samples `start ≤ t_i < stop` of the axis AS IT IS NOW -/
theorem history_uniform_slice_spec (a : UAxis) (h : List HStep) (b : UAxis) (hb : contentsAfter (.uaxis a) h = .uaxis b)
    (ep : List String) (e : Epochs) (he : parseEpochs? ep = some (.ok e)) (hsc : e.scalar = true) (hdt : 0 < b.dt) :
    (answers (.uaxis a) (h ++ [.look "slice_during" ep])).getLast? =
      some (showPos (b.sliceDuring (e.starts.headD 0) (e.stops.headD 0)).1 (b.sliceDuring (e.starts.headD 0) (e.stops.headD 0)).2) ∧
    ∀ i, i ∈ slicePos (b.sliceDuring (e.starts.headD 0) (e.stops.headD 0)).1 (b.sliceDuring (e.starts.headD 0) (e.stops.headD 0)).2 ↔
      i < b.n ∧ e.starts.headD 0 ≤ b.sample i ∧ b.sample i < e.stops.headD 0 := by
  refine ⟨?_, fun i => sliceDuring_spec_uniform b hdt _ _ i⟩
  rw [lookup_history_independent, ← contentsAfter_changesOf, hb]
  simp only [lookup, lookupUAxis, he, withScalarEpoch, hsc, if_true]

/-- a history of in-place changes of `series.time` leaves the data and the number of samples as they were; the
axis keeps a duration of `n` intervals -/
theorem history_series_data (s : Series) (h : List HStep) (hd : s.axis.dur = (s.axis.n : Int) * s.axis.dt) :
    ∃ s' : Series, contentsAfter (.series s) h = .series s' ∧ s'.data = s.data ∧ s'.axis.n = s.axis.n ∧
      s'.axis.unit = s.axis.unit ∧ s'.axis.dur = (s'.axis.n : Int) * s'.axis.dt := by
  induction h generalizing s with
  | nil => exact ⟨s, rfl, rfl, rfl, rfl, hd⟩
  | cons st h ih =>
    rw [contentsAfter_cons]
    cases st with
    | look op rest => exact ih s hd
    | change ch =>
      cases ch with
      | tarr c => exact ih s hd
      | uax c =>
        simp only [stepHist, Change.apply]
        cases hc : c.apply s.axis with
        | error e => simpa [Except.map] using ih s hd
        | ok b =>
          obtain ⟨h1, h2, h3⟩ := uchange_n_dur s.axis b c hc
          obtain ⟨s', g1, g2, g3, g4, g5⟩ := ih { s with axis := b } h3
          exact ⟨s', by simpa [Except.map] using g1, g2, by rw [g3]; exact h1, by rw [g4]; exact h2, g5⟩

example : contentsAfter (.uaxis ⟨1, 2, 4, 8, .ps⟩)
    [.look "index_at" ["T:ps:1:4"], .change (.uax (.add [3] true)), .look "index_at" ["T:ps:1:4"],
     .change (.uax (.add [0, -4, -8, -12] false)), .look "index_at" ["T:ps:1:1"], .change (.uax (.div 3))]
    = .uaxis ⟨4, -2, 4, -8, .ps⟩ ∧ (⟨4, -2, 4, -8, .ps⟩ : UAxis).indexAt [1] = .ok [1] := by decide

/-! ### memoising implementations of before/after as a class (see `Lemmas/C03Memo.lean`): not code of the
repository — the condition under which a memo + binary search refines the specification along every history -/
section memo
open Nitime.C03.Memo

/-- on a sorted array the binary search names the same position as the exhaustive scan -/
theorem bisect_eq_scan (ts : List Int) (hs : ts.Pairwise (· ≤ ·)) (t : Int) :
    bisectBefore ts t = indexBefore ts t ∧ bisectAfter ts t = indexAfter ts t := by
  constructor
  · obtain ⟨hnone, hsome⟩ := before_spec ts t
    unfold bisectBefore
    by_cases hr : countLE ts t = 0
    · simp only [hr, if_true]
      symm; rw [hnone]
      intro i hi
      have := (countLE_spec ts hs t i hi).not
      rw [hr] at this
      have h2 := this.mp (by omega)
      omega
    · simp only [hr, if_false]
      have hrl := countLE_le ts t
      have hr1 : countLE ts t - 1 < ts.length := by omega
      have hv : ts.getD (countLE ts t - 1) 0 ≤ t := (countLE_spec ts hs t _ hr1).mp (by omega)
      cases hib : indexBefore ts t with
      | none =>
        have := hnone.mp hib _ hr1
        omega
      | some j =>
        obtain ⟨hj, hjt, hmax, hfirst⟩ := hsome j hib
        have hjr : j < countLE ts t := (countLE_spec ts hs t j hj).mpr hjt
        have h1 : ts.getD j 0 ≤ ts.getD (countLE ts t - 1) 0 := sorted_getD hs (by omega) hr1
        have h2 : ts.getD (countLE ts t - 1) 0 ≤ ts.getD j 0 := hmax _ hr1 hv
        have hveq : ts.getD (countLE ts t - 1) 0 = ts.getD j 0 := le_antisymm h2 h1
        rw [hveq]
        have hkj : countLT ts (ts.getD j 0) ≤ j := by
          by_contra hc
          have := (countLT_spec ts hs (ts.getD j 0) j hj).mp (by omega)
          omega
        have hk : countLT ts (ts.getD j 0) < ts.length := by omega
        have hkv : ¬ ts.getD (countLT ts (ts.getD j 0)) 0 < ts.getD j 0 :=
          fun hc => absurd ((countLT_spec ts hs _ _ hk).mpr hc) (by omega)
        have hkle : ts.getD (countLT ts (ts.getD j 0)) 0 ≤ ts.getD j 0 := sorted_getD hs hkj hj
        congr 1
        by_contra hne
        have hlt : countLT ts (ts.getD j 0) < j := by omega
        have := hfirst _ hlt (by omega)
        omega
  · obtain ⟨hnone, hsome⟩ := after_spec ts t
    unfold bisectAfter
    by_cases hl : countLT ts t = ts.length
    · simp only [hl, if_true]
      symm; rw [hnone]
      intro i hi
      exact (countLT_spec ts hs t i hi).mp (by omega)
    · simp only [hl, if_false]
      have hll : countLT ts t < ts.length := by have := countLT_le ts t; omega
      have hlt : ¬ ts.getD (countLT ts t) 0 < t := fun hc => absurd ((countLT_spec ts hs t _ hll).mpr hc) (by omega)
      cases hia : indexAfter ts t with
      | none =>
        have := hnone.mp hia _ hll
        omega
      | some j =>
        obtain ⟨hj, hjt, hmin, hfirst⟩ := hsome j hia
        have hlj : countLT ts t ≤ j := by
          by_contra hc
          have := (countLT_spec ts hs t j hj).mp (by omega)
          omega
        congr 1
        by_contra hne
        have hlt2 : countLT ts t < j := by omega
        have h1 := hfirst _ hlt2 (by omega)
        have h2 : ts.getD (countLT ts t) 0 ≤ ts.getD j 0 := sorted_getD hs hlj hj
        omega

theorem flagLook_ok (ts : List Int) (m : Option Bool) (b : Bool) (t : Int) (hv : flagValid ts m) :
    (flagLook ts m b t).1 = specLook ts b t ∧ flagValid ts (flagLook ts m b t).2 := by
  have hsrt : m.getD (isSortedB ts) = isSortedB ts := by
    rcases hv with h | h <;> simp [h]
  simp only [flagLook, hsrt]
  refine ⟨?_, Or.inr rfl⟩
  by_cases hs : isSortedB ts = true
  · have hp := (isSortedB_iff ts).mp hs
    obtain ⟨h1, h2⟩ := bisect_eq_scan ts hp t
    simp only [hs, if_true, specLook]
    cases b <;> simp [h1, h2]
  · simp [hs]

/-- a flag that every change drops: all answers along all histories are those of the specification -/
theorem sortedFlag_refines (ts : List Int) (h : List MStep) :
    (sortedFlag dropAlways).run ts none h = specRun ts h :=
  memo_refines (sortedFlag dropAlways) flagValid (fun ts m b t hv => flagLook_ok ts m b t hv)
    (fun _ _ _ _ _ _ => Or.inl rfl) ts none (Or.inl rfl) h

/-- a flag that only `ta[i] = v` drops: after a lookup, `ta *= -1` (or `+=`, a write through a view, …)
leaves a stale "sorted" and the next lookup names a position that does not satisfy the relation -/
theorem sortedFlag_stale_counterexample :
    ∃ (ts : List Int) (h : List MStep), (sortedFlag dropOnSetitem).run ts none h ≠ specRun ts h ∧
      (sortedFlag dropOnSetitem).run ts none h = [some 1, some 1] ∧ specRun ts h = [some 1, some 3] :=
  ⟨[1, 2, 3, 4, 5, 6], [.look true 2, .change (.add [0, 0, 0, -4, 0, 0]), .look true 0], by decide, by decide, by decide⟩

/-- `dropOnSetitem` still refines on histories whose only changes are `ta[i] = v` -/
theorem sortedFlag_setitem_only_refines (ts : List Int) (h : List MStep)
    (hh : ∀ s ∈ h, ∀ ch, s = .change ch → ∃ i v, ch = .setAt i v) :
    (sortedFlag dropOnSetitem).run ts none h = specRun ts h := by
  suffices H : ∀ (ts : List Int) (m : Option Bool), flagValid ts m →
      (sortedFlag dropOnSetitem).run ts m h = specRun ts h from H ts none (Or.inl rfl)
  induction h with
  | nil => intro ts m _; rfl
  | cons s h ih =>
    intro ts m hv
    have ih' := ih (fun s hs => hh s (List.mem_cons_of_mem _ hs))
    cases s with
    | look b t =>
      simp only [MemoImpl.run, specRun, sortedFlag]
      rw [(flagLook_ok ts m b t hv).1]
      exact congrArg _ (ih' ts _ (flagLook_ok ts m b t hv).2)
    | change ch =>
      obtain ⟨i, v, rfl⟩ := hh _ (List.mem_cons_self) ch rfl
      simp only [MemoImpl.run, specRun]
      cases hc : TChange.apply ts (.setAt i v) with
      | ok r => exact ih' r _ (Or.inl rfl)
      | error e => exact ih' ts m hv


/-- the generic refinement condition (re-stated here for the audit) -/
theorem memo_refines_spec {μ} (I : MemoImpl μ) (valid : List Int → μ → Prop)
    (hlook : ∀ ts m b t, valid ts m → (I.look ts m b t).1 = specLook ts b t ∧ valid ts (I.look ts m b t).2)
    (hchg : ∀ ts m ch r, valid ts m → ch.apply ts = .ok r → valid r (I.onChange ch m))
    (ts : List Int) (m : μ) (hv : valid ts m) (h : List MStep) : I.run ts m h = specRun ts h :=
  memo_refines I valid hlook hchg ts m hv h

end memo

/-! ### session 3: items moved from "correspondence only" into the proved part —
element-wise `before` / `after` lookups for a query array as long as the time array, negative and
out-of-range integer keys on series and event collections -/

theorem mem_whereIdx2 (p : Int → Int → Bool) (ts tq : List Int) (i : Nat) :
    i ∈ whereIdx2 p ts tq ↔ i < ts.length ∧ p (ts.getD i 0) (tq.getD i 0) = true := by
  simp [whereIdx2, List.mem_filter, List.mem_range]

theorem whereIdx2_sorted (p : Int → Int → Bool) (ts tq : List Int) : (whereIdx2 p ts tq).Pairwise (· < ·) :=
  List.Pairwise.filter _ List.pairwise_lt_range

/-- element-wise `mode='before'` (query array `tq` as long as `ts`; the mask is `ts[i] ≤ tq[i]`):
empty iff no position qualifies; otherwise a qualifying position holding the latest qualifying time,
and the first such position -/
theorem before2_spec (ts tq : List Int) :
    (indexBefore2 ts tq = none ↔ ∀ i, i < ts.length → tq.getD i 0 < ts.getD i 0) ∧
    (∀ j, indexBefore2 ts tq = some j →
      j < ts.length ∧ ts.getD j 0 ≤ tq.getD j 0 ∧
      (∀ i, i < ts.length → ts.getD i 0 ≤ tq.getD i 0 → ts.getD i 0 ≤ ts.getD j 0) ∧
      (∀ i, i < j → ts.getD i 0 ≤ tq.getD i 0 → ts.getD i 0 < ts.getD j 0)) := by
  unfold indexBefore2
  constructor
  · rw [pickMax_none, List.eq_nil_iff_forall_not_mem]
    constructor
    · intro h i hi
      by_contra hc
      exact h i ((mem_whereIdx2 _ _ _ _).mpr ⟨hi, decide_eq_true (by omega)⟩)
    · intro h i hi
      obtain ⟨h1, h2⟩ := (mem_whereIdx2 _ _ _ _).mp hi
      have := h i h1
      have h2' : ts.getD i 0 ≤ tq.getD i 0 := of_decide_eq_true h2
      omega
  · intro j hj
    obtain ⟨hm, hmax, hfirst⟩ := pickMax_some ts _ (whereIdx2_sorted _ _ _) j hj
    obtain ⟨h1, h2⟩ := (mem_whereIdx2 _ _ _ _).mp hm
    refine ⟨h1, of_decide_eq_true h2, ?_, ?_⟩
    · intro i hi hle
      exact hmax i ((mem_whereIdx2 _ _ _ _).mpr ⟨hi, decide_eq_true hle⟩)
    · intro i hij hle
      exact hfirst i ((mem_whereIdx2 _ _ _ _).mpr ⟨by omega, decide_eq_true hle⟩) hij

/-- element-wise `mode='after'` (mask `tq[i] ≤ ts[i]`): empty iff no position qualifies; otherwise a
qualifying position holding the earliest qualifying time, and the first such position -/
theorem after2_spec (ts tq : List Int) :
    (indexAfter2 ts tq = none ↔ ∀ i, i < ts.length → ts.getD i 0 < tq.getD i 0) ∧
    (∀ j, indexAfter2 ts tq = some j →
      j < ts.length ∧ tq.getD j 0 ≤ ts.getD j 0 ∧
      (∀ i, i < ts.length → tq.getD i 0 ≤ ts.getD i 0 → ts.getD j 0 ≤ ts.getD i 0) ∧
      (∀ i, i < j → tq.getD i 0 ≤ ts.getD i 0 → ts.getD j 0 < ts.getD i 0)) := by
  unfold indexAfter2
  constructor
  · rw [pickMin_none, List.eq_nil_iff_forall_not_mem]
    constructor
    · intro h i hi
      by_contra hc
      exact h i ((mem_whereIdx2 _ _ _ _).mpr ⟨hi, decide_eq_true (by omega)⟩)
    · intro h i hi
      obtain ⟨h1, h2⟩ := (mem_whereIdx2 _ _ _ _).mp hi
      have := h i h1
      have h2' : tq.getD i 0 ≤ ts.getD i 0 := of_decide_eq_true h2
      omega
  · intro j hj
    obtain ⟨hm, hmin, hfirst⟩ := pickMin_some ts _ (whereIdx2_sorted _ _ _) j hj
    obtain ⟨h1, h2⟩ := (mem_whereIdx2 _ _ _ _).mp hm
    refine ⟨h1, of_decide_eq_true h2, ?_, ?_⟩
    · intro i hi hle
      exact hmin i ((mem_whereIdx2 _ _ _ _).mpr ⟨hi, decide_eq_true hle⟩)
    · intro i hij hle
      exact hfirst i ((mem_whereIdx2 _ _ _ _).mpr ⟨by omega, decide_eq_true hle⟩) hij

/-- a query array whose entries are all the same instant asks the scalar question -/
theorem before2_const (ts : List Int) (t : Int) :
    indexBefore2 ts (List.replicate ts.length t) = indexBefore ts t ∧
    indexAfter2 ts (List.replicate ts.length t) = indexAfter ts t := by
  have h : ∀ p : Int → Int → Bool, whereIdx2 p ts (List.replicate ts.length t) = whereIdx (fun x => p x t) ts := by
    intro p
    unfold whereIdx2 whereIdx
    apply List.filter_congr
    intro i hi
    have hi' : i < ts.length := List.mem_range.mp hi
    simp [List.getD_eq_getElem?_getD, hi']
  simp only [indexBefore2, indexAfter2, indexBefore, indexAfter, h]
  exact ⟨trivial, trivial⟩

example : indexBefore2 [5, 1, 4, 4] [4, 0, 9, 4] = some 2 ∧ indexAfter2 [5, 1, 4] [6, 2, 5] = none := by decide

/-- `TimeSeries[k]` for a NEGATIVE integer key `−n ≤ k < 0`: every row's value at position `n + k`
(python's counting from the end) -/
theorem series_getInt_negative (s : Series) (k : Int) (h1 : k < 0) (h2 : -(s.axis.n : Int) ≤ k) :
    s.getInt k = .ok (s.data.map fun row => row.getD (k + s.axis.n).toNat 0) ∧ (k + s.axis.n).toNat < s.axis.n := by
  have := (normKey_spec s.axis.n k).2.1 h1 h2
  exact ⟨by simp [Series.getInt, this.1], this.2⟩

/-- an integer key outside `[−n, n)` is refused (IndexError) by series and by event collections -/
theorem getInt_refuses_outside (s : Series) (ev : Events) (k : Int) :
    (k ≥ s.axis.n ∨ k < -(s.axis.n : Int) → s.getInt k = .error .indexError) ∧
    (k ≥ ev.time.length ∨ k < -(ev.time.length : Int) → ev.getInt k = .error .indexError) := by
  constructor
  · intro h; simp [Series.getInt, (normKey_spec s.axis.n k).2.2 h]
  · intro h; simp [Events.getInt, (normKey_spec ev.time.length k).2.2 h]

/-- `Events[k]` for a negative integer key: the time and the entry of every data array at `n + k` -/
theorem events_getInt_negative (ev : Events) (k : Int) (h1 : k < 0) (h2 : -(ev.time.length : Int) ≤ k) :
    ev.getInt k = .ok ⟨[ev.time.getD (k + ev.time.length).toNat 0], ev.unit,
      ev.data.map fun v => [v.getD (k + ev.time.length).toNat 0]⟩ ∧ (k + ev.time.length).toNat < ev.time.length := by
  have := (normKey_spec ev.time.length k).2.1 h1 h2
  exact ⟨by simp [Events.getInt, this.1, Events.select, sel], this.2⟩

/-- a negative key and its non-negative twin select the same data -/
theorem getInt_negative_twin (s : Series) (ev : Events) (k : Int) (h1 : k < 0) :
    (-(s.axis.n : Int) ≤ k → s.getInt k = s.getInt (k + s.axis.n)) ∧
    (-(ev.time.length : Int) ≤ k → ev.getInt k = ev.getInt (k + ev.time.length)) := by
  constructor
  · intro h2
    rw [(series_getInt_negative s k h1 h2).1, series_getInt_positions s (k + s.axis.n) (by omega) (by omega)]
  · intro h2
    rw [(events_getInt_negative ev k h1 h2).1, events_getInt_positions ev (k + ev.time.length) (by omega) (by omega)]

example : (Series.getInt ⟨⟨0, 1, 3, 3, .s⟩, [[7, 8, 9]]⟩ (-1)) = .ok [9] := by decide

/-! ### live objects that share parts (round 2, class L8) -/

/-- LOOKUPS ON A SERIES ARE UNAFFECTED BY OPERATIONS ON OBJECTS DERIVED FROM IT, for every program.  `a` = `series[sid]`
holds the axis object `p`, its lookups are asked of `v` (its data, the current value of `p`).  Let `cs` be ANY program of
constructions (`TimeSeries(data, time=axis)` on any axis, `a.copy()`, `a + k`, `a.during(e)` and the same on every object made
on the way), reads of `.time` of any series, copies of any axis, lookups on anything, in-place operators `+= -= *= /=` on any
axis object other than `p` itself and on the `.time` of any series other than `a` itself.  Then afterwards `a` still holds
`p`, every lookup on `a` answers exactly what it answered before — `lookup` of the unchanged contents — and the axis object
any OTHER series hands out as its `.time` is never `p`. -/
theorem lookup_unaffected_by_ops_on_derived_objects (st : Store) (sid p : Nat) (v : Series) (h : st.Holds sid p v)
    (cs : List SCmd) (hcs : ∀ c ∈ cs, c.avoids sid p) (op : String) (rest : List String) :
    (runS sIntended st cs).Holds sid p v ∧
    (execS sIntended (runS sIntended st cs) (.look sid op rest)).2 = (execS sIntended st (.look sid op rest)).2 ∧
    (execS sIntended (runS sIntended st cs) (.look sid op rest)).2 = lookup (.series v) op rest ∧
    (∀ sid' q, sid' ≠ sid → ((runS sIntended st cs).allocTime sid').timeId sid' = some q → q ≠ p) := by
  have h' := runS_holds h cs hcs
  refine ⟨h', ?_, ?_, ?_⟩
  · rw [look_answer h', look_answer h]
  · rw [look_answer h']
  · intro sid' q hne hq hqp
    subst hqp
    have h2 := Store.holds_allocTime h' sid'
    obtain ⟨s1, hs1, ht1⟩ := Store.timeId_some hq
    obtain ⟨s2, hs2, ht2⟩ := Store.timeId_some h2.cached
    exact hne (h2.priv sid' sid s1 s2 q hs1 hs2 ht1 ht2)

/-- a series built on a caller's axis gets an axis object of its OWN: after `s = TimeSeries(data, time=axes[ax])` and the
first read of `s.time`, `s` holds the NEW object `axes.length` (≠ `ax`, ≠ every object that existed), whose value is the
caller's axis at construction; so (previous theorem) whatever the caller does to `axes[ax]` afterwards — and to copies
of `s`, arithmetic results, sibling series on the same axis — lookups on `s` answer as on the day it was built -/
theorem series_on_caller_axis_holds_own_axis (st : Store) (hwf : st.WF) (hpriv : st.Priv) (ax : Nat) (a : UAxis)
    (data : List (List Int)) (ha : st.axes[ax]? = some a) (hn : rowLen data = a.n) :
    (runS sIntended st [.seriesOn ax data, .readTime st.series.length]).Holds st.series.length st.axes.length
      ⟨ownOf a, data⟩ ∧ ax ≠ st.axes.length := by
  have hax : ax < st.axes.length := (List.getElem?_eq_some_iff.mp ha).1
  refine ⟨?_, by omega⟩
  have e1 : stepS sIntended st (.seriesOn ax data) = st.pushSeries (SObj.mk data (ownOf a) none) := by
    simp [stepS, execS, ha, hn, sIntended]
  have hget : (st.pushSeries (SObj.mk data (ownOf a) none)).series[st.series.length]? = some (SObj.mk data (ownOf a) none) := by
    simp [Store.pushSeries]
  have e2 : (st.pushSeries (SObj.mk data (ownOf a) none)).allocTime st.series.length =
      { axes := st.axes ++ [ownOf a],
        series := (st.series ++ [(SObj.mk data (ownOf a) none)]).set st.series.length (SObj.mk data (ownOf a) (some st.axes.length)) } := by
    simp [Store.allocTime, hget]
    simp [Store.pushSeries]
  have hset : ((st.series ++ [SObj.mk data (ownOf a) none]).set st.series.length (SObj.mk data (ownOf a) (some st.axes.length))) =
      st.series ++ [SObj.mk data (ownOf a) (some st.axes.length)] := by
    simp
  have e3 : runS sIntended st [.seriesOn ax data, .readTime st.series.length] =
      { axes := st.axes ++ [ownOf a], series := st.series ++ [(SObj.mk data (ownOf a) (some st.axes.length))] } := by
    simp only [runS, List.foldl_cons, List.foldl_nil, e1]
    simp only [stepS, execS, e2, hset]
    split <;> rfl
  rw [e3]
  refine ⟨?_, ?_, ?_, ?_⟩
  · intro i s q hs hq
    simp only [List.length_append, List.length_singleton]
    rcases Store.getElem?_push _ _ _ _ hs with hs | ⟨_, rfl⟩
    · have := hwf i s q hs hq; omega
    · simp only [Option.some.injEq] at hq; omega
  · intro i j x y q hx hy hxq hyq
    rcases Store.getElem?_push _ _ _ _ hx with hx | ⟨hi, rfl⟩
    · rcases Store.getElem?_push _ _ _ _ hy with hy | ⟨hj, rfl⟩
      · exact hpriv i j x y q hx hy hxq hyq
      · simp only [Option.some.injEq] at hyq
        have := hwf i x q hx hxq; omega
    · rcases Store.getElem?_push _ _ _ _ hy with hy | ⟨hj, rfl⟩
      · simp only [Option.some.injEq] at hxq
        have := hwf j y q hy hyq; omega
      · omega
  · simp [Store.timeId]
  · simp [Store.viewOf]

def sharedStart : Store := ⟨[⟨0, 2, 3, 6, .ps⟩], []⟩
def sharedProg : List SCmd := [.seriesOn 0 [[7, 8, 9]], .readTime 0, .copy 0, .inplaceTime 1 (.add [5] true)]
def sharedBoth : Store := runS ⟨true, true⟩ sharedStart sharedProg
def sharedIntended : Store := runS sIntended sharedStart sharedProg

/-- COUNTEREXAMPLE (the two cooperating short-cuts: the constructor keeps a matching axis object as `.time`, `copy()` hands
`self.time` itself to it).  `a = TimeSeries([[7, 8, 9]], time=axis)`, `b = a.copy()`, `b.time += 5 ps`: with the short-cuts
`a` and `b` hold the SAME axis object 0 (the caller's), `a`'s lookups are asked of an axis that starts at 5 — `a.at(0 ps)` is
refused and `a.at(5 ps)` returns the sample stored at 0 ps; under `sIntended` `a` holds object 1, `b` object 2, and `a.at(0 ps)`
is `[7]` before and after. -/
theorem shared_axis_counterexample :
    (∀ c ∈ sharedProg, c.avoids 0 1) ∧
    (sharedBoth.timeId 0 = some 0 ∧ sharedBoth.timeId 1 = some 0 ∧
      (sharedBoth.viewOf 0).map (·.axis.t0) = some 5 ∧
      (sharedBoth.viewOf 0).bind (fun v => (v.at [0]).toOption) = none ∧
      (sharedBoth.viewOf 0).bind (fun v => (v.at [5]).toOption) = some [[7]]) ∧
    (sharedIntended.timeId 0 = some 1 ∧ sharedIntended.timeId 1 = some 2 ∧
      (sharedIntended.viewOf 0).map (·.axis.t0) = some 0 ∧
      (sharedIntended.viewOf 0).bind (fun v => (v.at [0]).toOption) = some [[7]]) := by
  decide

example : (Store.mk [⟨0, 2, 3, 6, .ps⟩] []).WF ∧ (Store.mk [⟨0, 2, 3, 6, .ps⟩] []).Priv :=
  ⟨fun i s p hs _ => by simp at hs, fun i j s t p hs _ _ _ => by simp at hs⟩

end Nitime.C03.Props
