/-
C10, wave 6 — structured autocovariance sequences: ZERO reflection coefficients and seasonal exact recovery
(the scalar analogue of `Props/C11Sparse.lean`).

`arLD_solves_YW`, `exact_recovery`, `arLD_stable_of_pd` (`Props/C10.lean`) hold for every sequence whose divisors are
non-zero — including sequences with a vanishing intermediate partial correlation.  Made explicit here, about the same
model text (`Model/C10.lean: ldStep / ldLoop / arLD`):

* `ld_source_runs_every_pass` — the side condition: the source's `while p <= order` loop has no `break` / `continue` /
  `return` / `raise`, no conditional, and counts `p` up by one (GENERATED from `AR_est_LD`, `decide`).
* `ld_step_of_kappa_zero` — the abstract recursion: a step with `κ_p = 0` leaves every coefficient and the error power as
  they were.
* `ld_zero_reflection_step` — the model's loop body: if the numerator `rxx[p] − Σ w[i]·rxx[p−i]` vanishes, the pass appends
  the coefficient `0` to `w` and changes no earlier coefficient: an ORDINARY pass, the `while` loop goes on.
* `seasonalCoefs`, `seasonal_solves_YW`, `arLD_exact_recovery_seasonal` — the exact autocovariance of the seasonal process
  `x(t) = β·x(t−s) + e(t)` (`r_k = β·r_{k−s}` for `k = 1..p`, with `r_{−m} = conj r_m`) gives back `a_s = β`, `a_k = 0` for every
  other `k ≤ p`, for EVERY season `1 ≤ s ≤ p` (instance of `exact_recovery`); `arYW_exact_recovery_seasonal` for `AR_est_YW`.
-/
import Nitime.Props.C10

open Finset ComplexConjugate
open Nitime.AR Nitime.C10

namespace Nitime.C10.Props

/-- **generated side condition.** The Levinson–Durbin loop of `AR_est_LD` performs every pass `p = 2..order`. -/
theorem ld_source_runs_every_pass : ldLoopRunsEveryPass = true := by decide

/-- **a zero reflection coefficient is an ordinary step** (abstract recursion) -/
theorem ld_step_of_kappa_zero (r : ℕ → ℂ) (p : ℕ) (s : LD.St) (hsupp : ∀ i, (i = 0 ∨ p ≤ i) → s.a i = 0)
    (hk : LD.kappa r p s = 0) :
    (∀ i, (LD.step r p s).a i = s.a i) ∧ (LD.step r p s).b = s.b := by
  constructor
  · intro i
    simp only [LD.step, hk, zero_mul, sub_zero]
    by_cases h1 : i = p
    · rw [if_pos h1, hsupp i (Or.inr (by omega))]
    · rw [if_neg h1]
      by_cases h2 : 1 ≤ i ∧ i < p
      · rw [if_pos h2]
      · rw [if_neg h2, hsupp i (by omega)]
  · simp [LD.step, hk]

lemma map_getD_range' {α : Type} (l : List α) (d : α) : (List.range l.length).map (fun i => l.getD i d) = l := by
  apply List.ext_getElem
  · simp
  · intro i h1 h2
    simp at h1
    simp [List.getD_eq_getElem?_getD, List.getElem?_eq_getElem h1]

/-- **the model's loop body with a vanishing numerator** -/
theorem ld_zero_reflection_step (r : ℕ → ℂ) (p : ℕ) (s : LDSt ℂ) (hl : s.w.length = p - 1)
    (hd : r p - sumRange (p - 1) (fun i => s.w.getD i 0 * r (p - 1 - i)) = 0) :
    (ldStep r p s).w = s.w ++ [0] ∧ (ldStep r p s).wk = 0 := by
  simp only [ldStep, sc_sub, sc_mul, sc_div, sc_zero, sc_conj, hd, zero_div, zero_mul, sub_zero]
  rw [← hl, map_getD_range']
  exact ⟨rfl, trivial⟩

/-- coefficients of the seasonal model of order `p`: `β` at lag `s`, zero elsewhere -/
def seasonalCoefs (p s : ℕ) (β : ℂ) : List ℂ := (List.range p).map fun i => if i + 1 = s then β else 0

lemma coef_seasonal (p s : ℕ) (β : ℂ) (i : ℕ) (h1 : 1 ≤ i) (hp : i ≤ p) :
    coef (seasonalCoefs p s β) i = if i = s then β else 0 := by
  unfold coef seasonalCoefs
  rw [List.getD_eq_getElem?_getD, List.getElem?_map, List.getElem?_range (by omega)]
  have : i - 1 + 1 = i := by omega
  simp [this]

/-- the seasonal coefficients satisfy the Yule–Walker equations of a seasonal autocovariance -/
theorem seasonal_solves_YW (r : ℕ → ℂ) (p s : ℕ) (hs1 : 1 ≤ s) (hsp : s ≤ p) (β : ℂ)
    (hseason : ∀ k, 1 ≤ k → k ≤ p → r k = β * LD.rr r k s) :
    LD.YW r p (coef (seasonalCoefs p s β)) := by
  intro k hk1 hkp
  rw [sum_eq_single s]
  · rw [coef_seasonal p s β s hs1 hsp, if_pos rfl, ← hseason k hk1 hkp]
  · intro i hi his
    rw [mem_Icc] at hi
    rw [coef_seasonal p s β i hi.1 hi.2, if_neg his, zero_mul]
  · intro h
    exact absurd (mem_Icc.2 ⟨hs1, hsp⟩) h

/-- **seasonal exact recovery.** -/
theorem arLD_exact_recovery_seasonal (r : ℕ → ℂ) (h0 : conj (r 0) = r 0) (p s : ℕ) (hs1 : 1 ≤ s) (hsp : s ≤ p + 1) (β : ℂ)
    (hd : DivisorsOK r p) (hdet : (toepMatrix r (p + 1)).det ≠ 0)
    (hseason : ∀ k, 1 ≤ k → k ≤ p + 1 → r k = β * LD.rr r k s) :
    ∀ i, i < p + 1 → (arLD r (p + 1)).1.getD i 0 = if i + 1 = s then β else 0 := by
  intro i hi
  rw [exact_recovery h0 p hd hdet (seasonalCoefs (p + 1) s β) (seasonal_solves_YW r (p + 1) s hs1 hsp β hseason) i hi]
  have := coef_seasonal (p + 1) s β (i + 1) (by omega) (by omega)
  simpa [coef] using this

/-- … and for `AR_est_YW` with any `solve` honouring `T·a = y` -/
theorem arYW_exact_recovery_seasonal (r : ℕ → ℂ) (p s : ℕ) (hs1 : 1 ≤ s) (hsp : s ≤ p + 1) (β : ℂ)
    (hdet : (toepMatrix r (p + 1)).det ≠ 0)
    (solve : List (List ℂ) → List ℂ → List ℂ) (hsolve : IsSolution r (p + 1) (arYW solve r (p + 1)).1)
    (hseason : ∀ k, 1 ≤ k → k ≤ p + 1 → r k = β * LD.rr r k s) :
    ∀ i, i < p + 1 → (arYW solve r (p + 1)).1.getD i 0 = if i + 1 = s then β else 0 := by
  intro i hi
  rw [yw_unique hdet hsolve ((isSolution_iff_YW _ _).2 (seasonal_solves_YW r (p + 1) s hs1 hsp β hseason)) i hi]
  have := coef_seasonal (p + 1) s β (i + 1) (by omega) (by omega)
  simpa [coef] using this

/-- non-vacuity: `r = (1, 0, ½)`, season 2, `β = ½` satisfies the seasonal hypothesis at order 2 -/
example : ∀ k, 1 ≤ k → k ≤ 2 →
    (fun k => if k = 0 then (1 : ℂ) else if k = 2 then 1 / 2 else 0) k
      = (1 / 2 : ℂ) * LD.rr (fun k => if k = 0 then (1 : ℂ) else if k = 2 then 1 / 2 else 0) k 2 := by
  intro k h1 h2
  have : k = 1 ∨ k = 2 := by omega
  rcases this with rfl | rfl <;> simp [LD.rr]

end Nitime.C10.Props
