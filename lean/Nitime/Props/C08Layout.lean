/-
C08 — the analyzer's partial coherence for EVERY layout of the spectral matrix (`Model/C08Layout.lean`).

`get_spectra` hands back a half-filled array for welch and the full Hermitian matrix for multi_taper_csd /
periodogram_csd.  `CoherenceAnalyzer.coherence_partial` reads the cross-spectra through the closure `csd(a, b)`
(`csdOf`), which touches the upper half only, so for both layouts it is the function-level value
(`analyzer_partial_eq_function_partial`, any scalar type — in particular the binary64 pairs the driver runs — and
every channel triple / bin).  That the source does read through such a closure is GENERATED
(`Generated/C08PartialRead.crossRead`, from nitime/analysis/coherence.py): `analyzer_partial_eq_function_partial_source`
is stated about `readOf crossRead`, so an edit of the reading code re-opens it.  A one-off completion `S + S^H`
(diagonal restored) is exact on the half-filled layout (`completion_exact_on_half_filled`) and wrong on the full one
(`completion_of_full_matrix_counterexample`: 1/9 where the function-level value and the inverse of the 3-channel
matrix give 1/25); the plain subscript is wrong on the half-filled one (`direct_read_of_half_filled_counterexample`).
-/
import Nitime.Props.C08
import Nitime.Model.C08Layout
import Nitime.Generated.C08PartialRead

open ComplexConjugate
open Nitime.Coh Nitime.Coh.CScalar

namespace Nitime.C08.Props

section generic
variable {K : Type} [CScalar K]

/-- the closure reads the same value out of both layouts: the Hermitian read of the upper half of `H` -/
theorem csdOf_stored (l : Layout) (H : Nat → Nat → Nat → K) (a b k : Nat) :
    csdOf (stored l H) a b k = hermSpec H a b k := by
  cases l <;> unfold csdOf stored hermSpec
  · by_cases h : a ≤ b
    · simp [h]
    · simp [h, Nat.le_of_not_le h]
  · rfl

/-- the diagonal (auto-spectra) is stored in both layouts -/
theorem stored_diag (l : Layout) (H : Nat → Nat → Nat → K) (i k : Nat) : stored l H i i k = H i i k := by
  cases l <;> simp [stored]

/-- one cell of the triple loop, both layouts -/
theorem analyzerPartialCell_csdOf (l : Layout) (H : Nat → Nat → Nat → K) (i j r k : Nat) (hi : i ≠ r) (hj : j ≠ r) :
    analyzerPartialCell csdOf (stored l H) i j r k = partialOf H i j r k := by
  unfold analyzerPartialCell partialOf
  simp only [csdOf_stored, stored_diag, hi, hj, or_self, if_false]

/-- **the analyzer's partial coherence = the function-level partial coherence, for the half-filled (welch) AND the
    full (multi_taper_csd, periodogram_csd) layout** of the array `get_spectra` returns: every channel pair (both
    orders, the diagonal included), every partialled-out channel r ∉ {i, j}, every bin, every scalar type -/
theorem analyzer_partial_eq_function_partial (l : Layout) (H : Nat → Nat → Nat → K) (i j r k : Nat)
    (hi : i ≠ r) (hj : j ≠ r) :
    analyzerPartial csdOf (stored l H) i j r k = functionPartial H i j r k := by
  unfold analyzerPartial functionPartial
  by_cases h : j < i
  · simp only [h, if_true, analyzerPartialCell_csdOf l H j i r k hj hi]
  · simp only [h, if_false, analyzerPartialCell_csdOf l H i j r k hi hj]

/-- the same statement about the reader the SOURCE uses (generated from nitime/analysis/coherence.py) -/
theorem analyzer_partial_eq_function_partial_source (l : Layout) (H : Nat → Nat → Nat → K) (i j r k : Nat)
    (hi : i ≠ r) (hj : j ≠ r) :
    analyzerPartial (readOf Nitime.Generated.C08PartialRead.crossRead) (stored l H) i j r k
      = functionPartial H i j r k :=
  analyzer_partial_eq_function_partial l H i j r k hi hj

/-- cells with r ∈ {i, j} are left at the initial 0 (upper triangle) -/
theorem analyzer_partial_skips_own_channel (read : (Nat → Nat → Nat → K) → Nat → Nat → Nat → K)
    (S : Nat → Nat → Nat → K) (i j r k : Nat) (hij : ¬ j < i) (h : j = r ∨ i = r) :
    analyzerPartial read S i j r k = ofNat 0 := by
  unfold analyzerPartial analyzerPartialCell
  simp [hij, h]

end generic

/-- the source reads through the orientation-aware closure, with the arguments in the order the formula needs -/
theorem source_reads_through_closure :
    Nitime.Generated.C08PartialRead.crossRead = ReadKind.closure ∧
    Nitime.Generated.C08PartialRead.specArgs
      = ["csd(i, j)", "self.spectrum[i][i]", "self.spectrum[j][j]", "csd(i, k)", "csd(k, j)", "self.spectrum[k][k]"] := by
  decide

/-! ### the one-off completion `S + S^H` (diagonal restored): exact on a half-filled array, wrong on a full one -/

theorem completed_stored_half (H : ℕ → ℕ → ℕ → ℂ) (a b k : ℕ) :
    completed (stored .halfFilled H) a b k = hermSpec H a b k := by
  unfold completed stored hermSpec
  by_cases hab : a = b
  · subst hab; simp
  · by_cases h : a ≤ b
    · have : ¬ b ≤ a := fun h' => hab (Nat.le_antisymm h h')
      simp [hab, h, this]
    · simp [hab, h, Nat.le_of_not_le h]

/-- on the welch layout the completion gives the function-level value as well -/
theorem completion_exact_on_half_filled (H : ℕ → ℕ → ℕ → ℂ) (i j r k : ℕ) (hi : i ≠ r) (hj : j ≠ r) :
    analyzerPartial completed (stored .halfFilled H) i j r k = functionPartial H i j r k := by
  have cell : ∀ i j, i ≠ r → j ≠ r →
      analyzerPartialCell completed (stored .halfFilled H) i j r k = partialOf H i j r k := by
    intro i j hi hj
    unfold analyzerPartialCell partialOf
    simp only [completed_stored_half, stored_diag, hi, hj, or_self, if_false]
  unfold analyzerPartial functionPartial
  by_cases h : j < i
  · simp only [h, if_true, cell j i hj hi]
  · simp only [h, if_false, cell i j hi hj]

/-- three unit-power channels, every cross-spectrum 1/4 (one bin): a full Hermitian matrix -/
noncomputable def fullWitness : ℕ → ℕ → ℕ → ℂ := fun i j _ => if i = j then 1 else 1 / 4

theorem function_partial_on_fullWitness : functionPartial fullWitness 0 1 2 0 = 1 / 25 := by
  unfold functionPartial partialOf coherencePartialSpec hermSpec fullWitness coherencySpec
  simp only [c_div, c_mul, c_sub, c_ofNat, c_abs, c_conj, abs_mul_abs]
  norm_num [Complex.normSq_apply, sqrt_one', Complex.conj_ofNat]

/-- the value the inverse of the 3-channel matrix gives on the witness is the function-level one -/
theorem inverse_on_fullWitness :
    ((Complex.normSq ((S3 1 1 1 (1 / 4) (1 / 4) (1 / 4)).adjugate 0 1)
      / (((S3 1 1 1 (1 / 4) (1 / 4) (1 / 4)).adjugate 0 0).re * ((S3 1 1 1 (1 / 4) (1 / 4) (1 / 4)).adjugate 1 1).re) : ℝ) : ℂ)
      = functionPartial fullWitness 0 1 2 0 := by
  rw [function_partial_on_fullWitness]
  simp [S3, Matrix.adjugate_fin_three, Complex.normSq_apply]
  norm_num

theorem completion_on_fullWitness : analyzerPartial completed (stored .full fullWitness) 0 1 2 0 = 1 / 9 := by
  unfold analyzerPartial analyzerPartialCell completed stored coherencePartialSpec fullWitness coherencySpec
  simp only [c_div, c_mul, c_sub, c_add, c_ofNat, c_abs, c_conj, abs_mul_abs]
  norm_num [Complex.normSq_apply, sqrt_one', Complex.conj_ofNat]

/-- **completing a FULL matrix doubles every cross-spectrum**: the analyzer value would no longer be the function-level
    (= inverse-matrix) value -/
theorem completion_of_full_matrix_counterexample :
    analyzerPartial completed (stored .full fullWitness) 0 1 2 0 ≠ functionPartial fullWitness 0 1 2 0 := by
  rw [completion_on_fullWitness, function_partial_on_fullWitness]
  norm_num

/-- the plain subscript on the half-filled layout reads the zeros below the diagonal -/
theorem direct_read_of_half_filled_counterexample :
    analyzerPartial direct (stored .halfFilled fullWitness) 0 1 2 0 ≠ functionPartial fullWitness 0 1 2 0 := by
  rw [function_partial_on_fullWitness]
  unfold analyzerPartial analyzerPartialCell direct stored coherencePartialSpec fullWitness coherencySpec
  simp only [c_div, c_mul, c_sub, c_ofNat, c_abs, abs_mul_abs]
  norm_num [Complex.normSq_apply, sqrt_one']

/-! ### non-vacuity -/

example : analyzerPartial csdOf (stored .full fullWitness) 1 0 2 0 = functionPartial fullWitness 1 0 2 0 :=
  analyzer_partial_eq_function_partial .full fullWitness 1 0 2 0 (by decide) (by decide)
example : analyzerPartial csdOf (stored .halfFilled fullWitness) 0 1 2 0 = 1 / 25 :=
  (analyzer_partial_eq_function_partial .halfFilled fullWitness 0 1 2 0 (by decide) (by decide)).trans
    function_partial_on_fullWitness

end Nitime.C08.Props
