/-
C14 — resetting or re-targeting an analyzer is equivalent to building a new one.

Model: the `OneTime` machine (Model/OneTime.lean) with `retarget` = `ResetMixin.reset` (delete the
fired entries found in the walked class dictionaries) followed by attribute assignments by the user
and/or `set_input`; `Epochs.__getitem__` (copy `__dict__`, replace `data`, `reset`) is the instance
"same input, `data` slots changed".  Getter bodies, written values and the state `__init__` derives
from the input are uninterpreted (`Sem`).

General theorems (every table, every `Sem`, all histories before and after the switch):
  retarget_eq_fresh, no_stale_result, no_result_survives, epochs_slice_duration.
Generated side condition `AnalyzerSpec.retargetOK` decided per class over all configurations
(`<Class>_retarget`, `subclass_retarget`).  The defects found (state copied from the input in
`__init__` and never refreshed in 5 analyzers; `reset` walking only the own class dictionary) are
repaired in the repo; `unrefreshed_state_*` / `own_dict_reset_*` show on edits of the generated tables
that the side condition refutes exactly those defects, with concrete runs of the machine returning a
stale result (non-vacuity).
-/
import Nitime.Lemmas.OneTime
import Nitime.Lemmas.Sessions
import Nitime.Generated.Analyzers

namespace Nitime.C14.Props
open Nitime.OneTime Nitime.Generated

variable {V I : Type}

/-- the side condition of the re-targeting theorem -/
structure RetargetOK (spec : Spec) (present walked derived refreshed : List Nat) : Prop where
  sorted : Sorted spec
  noClobber : NoClobber spec
  writes : ∀ g g', ∀ p ∈ (eff spec g).writes, p ∉ (eff spec g').reads
  dwrites : ∀ g g', ∀ p ∈ (eff spec g).dwrites, p ∈ (eff spec g').reads → p ∈ present
  walk : ∀ g, g ∉ walked →
    (eff spec g).deps = [] ∧ (eff spec g).reads = [] ∧ (eff spec g).usesInput = false
  derivedRead : ∀ g, ∀ p ∈ (eff spec g).reads, p ∈ derived → p ∈ refreshed
  refreshedSub : ∀ p ∈ refreshed, p ∈ derived

theorem retargetOK_of_B {spec : Spec} {present walked derived refreshed : List Nat}
    (h : retargetOKB spec present walked derived refreshed = true) :
    RetargetOK spec present walked derived refreshed := by
  unfold retargetOKB at h
  simp only [Bool.and_eq_true] at h
  obtain ⟨⟨⟨⟨⟨h1, h2⟩, h3⟩, h4⟩, h5⟩, h6⟩ := h
  refine ⟨sorted_of_B h1, noClobber_of_B h2, ?_, ?_, ?_, ?_, ?_⟩
  · intro g g' p hp hp'
    by_cases hg : g < spec.length
    · by_cases hg' : g' < spec.length
      · have := allG_spec (allG_spec h3 g hg) g' hg'
        simp only [Bool.and_eq_true, List.all_eq_true] at this
        have := this.1 p hp
        simp only [Bool.not_eq_true', List.contains_eq_mem, decide_eq_false_iff_not] at this
        exact this hp'
      · rw [(eff_default_lists spec g' hg').1] at hp'; simp at hp'
    · rw [(eff_default_lists spec g hg).2.1] at hp; simp at hp
  · intro g g' p hp hp'
    by_cases hg : g < spec.length
    · by_cases hg' : g' < spec.length
      · have := allG_spec (allG_spec h3 g hg) g' hg'
        simp only [Bool.and_eq_true, List.all_eq_true] at this
        have := this.2 p hp
        simp only [Bool.or_eq_true, Bool.not_eq_true', List.contains_eq_mem,
          decide_eq_false_iff_not, decide_eq_true_eq] at this
        rcases this with h | h
        · exact absurd hp' h
        · exact h
      · rw [(eff_default_lists spec g' hg').1] at hp'; simp at hp'
    · rw [(eff_default_lists spec g hg).2.2] at hp; simp at hp
  · intro g hgw
    by_cases hg : g < spec.length
    · have := allG_spec h4 g hg
      simp only [Bool.or_eq_true, List.contains_eq_mem, decide_eq_true_eq, Bool.and_eq_true,
        List.isEmpty_iff, Bool.not_eq_true'] at this
      rcases this with h | ⟨⟨a, b⟩, c⟩
      · exact absurd h hgw
      · exact ⟨a, b, c⟩
    · rw [eff_default spec g (Nat.le_of_not_lt hg)]
      exact ⟨rfl, rfl, rfl⟩
  · intro g p hp hd
    by_cases hg : g < spec.length
    · have := allG_spec h5 g hg
      simp only [List.all_eq_true, Bool.or_eq_true, Bool.not_eq_true', List.contains_eq_mem,
        decide_eq_false_iff_not, decide_eq_true_eq] at this
      rcases this p hp with h | h
      · exact absurd hd h
      · exact h
    · rw [(eff_default_lists spec g hg).1] at hp; simp at hp
  · intro p hp
    rw [List.all_eq_true] at h6
    simpa using h6 p hp

theorem RetargetOK.noInterference {spec : Spec} {present walked derived refreshed : List Nat}
    (h : RetargetOK spec present walked derived refreshed) : NoInterference spec present :=
  ⟨h.sorted, h.noClobber, fun g g' _ p hp => h.writes g g' p hp,
    fun g g' _ p hp hp' => h.dwrites g g' p hp hp'⟩

/-- read slots keep the value they had at construction; filled slots stay filled -/
def ParamInv (spec : Spec) (c0 : Nat → Option V) (present : List Nat) (s : St V I) : Prop :=
  (∀ g p, p ∈ (eff spec g).reads → s.params p = c0 p) ∧ (∀ p ∈ present, (s.params p).isSome = true)

theorem fire_paramInv {spec : Spec} {present walked derived refreshed : List Nat}
    (hR : RetargetOK spec present walked derived refreshed) (sem : Sem V I) (c0 : Nat → Option V)
    (g : Nat) (dvs : List V) (pvs : List (Option V)) (v : V) (s : St V I)
    (hs : ParamInv spec c0 present s) : ParamInv spec c0 present (fire sem (eff spec g) g dvs pvs v s) := by
  refine ⟨?_, ?_⟩
  · intro g' p hp
    have hw : (eff spec g).writes.contains p = false := by
      simp only [List.contains_eq_mem, decide_eq_false_iff_not]
      exact fun h => hR.writes g g' p h hp
    have hdw : ((eff spec g).dwrites.contains p && (s.params p).isNone) = false := by
      by_cases hc : p ∈ (eff spec g).dwrites
      · have := hs.2 p (hR.dwrites g g' p hc hp)
        cases hsp : s.params p with
        | none => rw [hsp] at this; simp at this
        | some _ => simp
      · simp [hc]
    simp only [fire, hw, hdw]
    exact hs.1 g' p hp
  · intro p hp
    have := hs.2 p hp
    simp only [fire]
    split
    · rfl
    · split
      · rfl
      · exact this

theorem run_paramInv {spec : Spec} {present walked derived refreshed : List Nat}
    (hR : RetargetOK spec present walked derived refreshed) (sem : Sem V I) (c0 : Nat → Option V)
    (h : List Nat) (s : St V I) (hs : ParamInv spec c0 present s) :
    ParamInv spec c0 present (run spec sem h s) :=
  run_preserves spec sem _ (fun g s' hs' => readF_preserves spec sem hR.sorted _
    (fun g dvs pvs v s1 h1 _ => fire_paramInv hR sem c0 g dvs pvs v s1 h1) (g + 1) g s' hs') h s hs

/-- the constructor parameters after the user's assignments -/
def newParams (changed : List Nat) (new cp : Nat → Option V) : Nat → Option V :=
  fun p => if changed.contains p then new p else cp p

/-- the re-targeted object satisfies the invariant of a fresh object built on the new input with
    the new parameters -/
theorem retarget_inv (spec : Spec) (present walked derived refreshed changed : List Nat)
    (sem : Sem V I) (cp new : Nat → Option V) (x x' : I)
    (hR : RetargetOK spec present walked derived refreshed)
    (hp : ∀ p ∈ present, ((construct sem derived cp x).params p).isSome = true)
    (hnew : ∀ p ∈ present, p ∈ changed → (new p).isSome = true)
    (h : List Nat) :
    Inv spec sem (construct sem derived (newParams changed new cp) x').params x' present
      (retarget sem walked refreshed changed new x' (run spec sem h (construct sem derived cp x))) := by
  have i0 := construct_inv spec sem derived cp x present hp
  have iS := run_inv spec sem _ x present hR.noInterference h _ i0
  have pS : ParamInv spec (construct sem derived cp x).params present
      (run spec sem h (construct sem derived cp x)) :=
    run_paramInv hR sem _ h _ ⟨fun _ _ _ => rfl, hp⟩
  generalize run spec sem h (construct sem derived cp x) = s at iS pS
  refine ⟨rfl, ?_, ?_, ?_⟩
  · intro g _ p hp
    by_cases hr : p ∈ refreshed
    · have hd := hR.refreshedSub p hr
      simp [retarget, construct, hr, hd]
    · have hd : p ∉ derived := fun hd => hr (hR.derivedRead g p hp hd)
      by_cases hc : p ∈ changed
      · simp [retarget, construct, newParams, hr, hd, hc]
      · have := pS.1 g p hp
        simp only [construct, List.contains_eq_mem, hd, decide_false] at this
        simp [retarget, construct, newParams, hr, hd, hc, this]
  · intro g v hv
    simp only [retarget] at hv
    by_cases hw : g ∈ walked
    · simp [hw] at hv
    · simp only [List.contains_eq_mem, hw, decide_false] at hv
      have e1 := iS.cache g v (by simpa using hv)
      obtain ⟨hd, hr, hu⟩ := hR.walk g hw
      rw [← e1, ideal_eq spec sem _ x hR.sorted g, ideal_eq spec sem _ x' hR.sorted g]
      simp [hd, hr, hu, inputArg]
  · intro p hp
    simp only [retarget]
    split
    · rfl
    · split
      · next hc => exact hnew p hp (by simpa using hc)
      · exact pS.2 p hp

/-- MAIN THEOREM.  After any history of reads, reset + re-assignment of parameters + `set_input`
    leaves an object that answers every later sequence of reads exactly like a newly constructed
    object on the new input with the new parameters. -/
theorem retarget_eq_fresh (spec : Spec) (present walked derived refreshed changed : List Nat)
    (sem : Sem V I) (cp new : Nat → Option V) (x x' : I)
    (hR : RetargetOK spec present walked derived refreshed)
    (hp : ∀ p ∈ present, ((construct sem derived cp x).params p).isSome = true)
    (hp' : ∀ p ∈ present,
      ((construct sem derived (newParams changed new cp) x').params p).isSome = true)
    (hnew : ∀ p ∈ present, p ∈ changed → (new p).isSome = true)
    (h h' : List Nat) (g : Nat) :
    (read spec sem g (run spec sem h'
        (retarget sem walked refreshed changed new x' (run spec sem h (construct sem derived cp x))))).2
      = (read spec sem g (run spec sem h'
          (construct sem derived (newParams changed new cp) x'))).2 := by
  have iR := retarget_inv spec present walked derived refreshed changed sem cp new x x' hR hp hnew h
  have iF := construct_inv spec sem derived (newParams changed new cp) x' present hp'
  have hN := hR.noInterference
  have a := run_inv spec sem _ x' present hN h' _ iR
  have b := run_inv spec sem _ x' present hN h' _ iF
  unfold OneTime.read
  rw [(readF_correct spec sem _ x' present hN (g + 1) g _ (Nat.lt_succ_self g) a).2,
      (readF_correct spec sem _ x' present hN (g + 1) g _ (Nat.lt_succ_self g) b).2]

/-- Whatever is still stored after the switch is what a new object would compute (nothing stale). -/
theorem no_stale_result (spec : Spec) (present walked derived refreshed changed : List Nat)
    (sem : Sem V I) (cp new : Nat → Option V) (x x' : I)
    (hR : RetargetOK spec present walked derived refreshed)
    (hp : ∀ p ∈ present, ((construct sem derived cp x).params p).isSome = true)
    (hnew : ∀ p ∈ present, p ∈ changed → (new p).isSome = true)
    (h : List Nat) (g : Nat) (v : V)
    (hv : (retarget sem walked refreshed changed new x'
            (run spec sem h (construct sem derived cp x))).cache g = some v) :
    ideal spec sem (construct sem derived (newParams changed new cp) x').params x' g = some v :=
  (retarget_inv spec present walked derived refreshed changed sem cp new x x' hR hp hnew h).cache g v hv

/-- No result found in a walked class dictionary survives, and its compute count starts again. -/
theorem no_result_survives (sem : Sem V I) (walked refreshed changed : List Nat)
    (new : Nat → Option V) (x' : I) (s : St V I) (g : Nat) (hg : g ∈ walked) :
    (retarget sem walked refreshed changed new x' s).cache g = none ∧
    (retarget sem walked refreshed changed new x' s).count g = 0 := by
  simp [retarget, hg]

/-! ### the generated tables -/

/-- the side condition holds for every configuration of the class's flags -/
def okAll (sp : AnalyzerSpec) (walksMRO : Bool) : Prop :=
  ∀ cfg ∈ allCfgs sp.flagNames.length, sp.retargetOK walksMRO cfg = true

instance (sp : AnalyzerSpec) (m : Bool) : Decidable (okAll sp m) := by unfold okAll; infer_instance

theorem retargetOK_of_okAll {sp : AnalyzerSpec} {m : Bool} (h : okAll sp m) (cfg : List Nat)
    (hc : cfg ∈ allCfgs sp.flagNames.length) :
    RetargetOK (sp.resolve cfg) (sp.present cfg) (sp.walked m) sp.initDerived sp.refreshed :=
  retargetOK_of_B (h cfg hc)

/-- the shape of `ResetMixin.reset` was recognised by the translator -/
theorem reset_shape_known : resetShapeKnown = true := by decide

/-- the side condition for both shapes of `reset` (own class dictionary / whole MRO) -/
def okBoth (sp : AnalyzerSpec) : Prop := okAll sp false ∧ okAll sp true
instance (sp : AnalyzerSpec) : Decidable (okBoth sp) := by unfold okBoth; infer_instance

/-- classes for which re-targeting is equivalent to rebuilding (their only inherited one-time
    attribute, `parameterlist`, depends on nothing that changes, so either reset shape will do) -/
theorem BaseAnalyzer_retarget : okBoth spec_BaseAnalyzer := by decide
theorem SpectralAnalyzer_retarget : okBoth spec_SpectralAnalyzer := by decide
theorem HilbertAnalyzer_retarget : okBoth spec_HilbertAnalyzer := by decide
theorem MorletWaveletAnalyzer_retarget : okBoth spec_MorletWaveletAnalyzer := by decide
theorem CorrelationAnalyzer_retarget : okBoth spec_CorrelationAnalyzer := by decide
theorem NormalizationAnalyzer_retarget : okBoth spec_NormalizationAnalyzer := by decide
theorem EventRelatedAnalyzer_retarget : okBoth spec_EventRelatedAnalyzer := by decide
theorem Epochs_retarget : okBoth spec_Epochs := by decide

/-- FilterAnalyzer: with `ub` given; with `ub=None` `filtered_fourier` leaves `ub` filled in, which
    an uninterpreted `F` cannot tell from None (decided per run only) -/
theorem FilterAnalyzer_retarget_partial :
    ∀ cfg ∈ allCfgs spec_FilterAnalyzer.flagNames.length, ¬ cfg.contains f_FilterAnalyzer_none_ub →
      spec_FilterAnalyzer.retargetOK false cfg = true ∧ spec_FilterAnalyzer.retargetOK true cfg = true := by
  decide

/-! #### repaired: state copied from the input in `__init__` is now refreshed by `set_input`
(findings C14 <Class>/*/differs-from-new-object/…; repo commits db6f10d, f2fb95f, a7d62eb, 31eed39):
the regenerated tables (with the `refreshed` slots of the new `set_input` overrides) satisfy the
side condition. -/
theorem CoherenceAnalyzer_retarget : okBoth spec_CoherenceAnalyzer := by decide
theorem SparseCoherenceAnalyzer_retarget : okBoth spec_SparseCoherenceAnalyzer := by decide
theorem MTCoherenceAnalyzer_retarget : okBoth spec_MTCoherenceAnalyzer := by decide
theorem GrangerAnalyzer_retarget : okBoth spec_GrangerAnalyzer := by decide
theorem SNRAnalyzer_retarget : okBoth spec_SNRAnalyzer := by decide

/-- the table with the inherited `set_input` (refreshes nothing) -/
def refreshedNone (sp : AnalyzerSpec) : AnalyzerSpec := { sp with refreshed := [] }

/-- The side condition is not idle: take the refreshing out of the generated tables (the defect that
    was repaired) and it is refuted, for every configuration and either reset shape. -/
theorem unrefreshed_state_refutes_side_condition :
    ∀ sp ∈ [spec_CoherenceAnalyzer, spec_SparseCoherenceAnalyzer, spec_MTCoherenceAnalyzer,
            spec_GrangerAnalyzer, spec_SNRAnalyzer],
      ∀ cfg ∈ allCfgs sp.flagNames.length, ∀ m ∈ [false, true],
        (refreshedNone sp).retargetOK m cfg = false := by decide

/-- every generated table refreshes only derived slots -/
theorem refreshed_within_derived :
    ∀ sp ∈ allSpecs, sp.refreshed.all (sp.initDerived.contains ·) = true := by decide

/-- a semantics over numbers on which staleness is visible -/
def numSem : Sem Nat Nat :=
  { F := fun g dvs pvs x => 1000 * (g + 1) + dvs.sum + (pvs.map (fun o => o.getD 7)).sum + x.getD 0
    raises := fun _ _ _ _ => false
    W := fun g p _ _ _ => 50 + g + p
    C := fun _ _ v => v + 1
    CI := fun _ x => x + 1
    D := fun p x => 10 * p + x }

/-- SNRAnalyzer with the inherited `set_input`: `mt_signal_psd` after the switch is computed from
    the old `signal` (concrete run: input 3 replaced by 500) -/
theorem unrefreshed_state_stale_witness :
    let sp := refreshedNone spec_SNRAnalyzer
    let spec := sp.resolve []
    let s := retarget numSem (sp.walked false) sp.refreshed [] (fun _ => none) 500
      (construct numSem sp.initDerived (fun p => some p) 3)
    (read spec numSem g_SNRAnalyzer_mt_signal_psd s).2
      ≠ (read spec numSem g_SNRAnalyzer_mt_signal_psd
          (construct numSem sp.initDerived (fun p => some p) 500)).2 := by decide

/-! #### `Epochs.__getitem__` and user subclasses -/

/-- `Epochs.__getitem__`: copy the instance dict, replace the `data` slots, `reset` -/
def getItem (sem : Sem V I) (walked dataSlots : List Nat) (new : Nat → Option V) (s : St V I) :
    St V I :=
  retarget sem walked [] dataSlots new s.input s

def epochsDataSlots : List Nat := [s_Epochs_data, s_Epochs_data_start, s_Epochs_data_stop]

/-- Slicing an `Epochs` object — before or after its `duration` was read, any number of times —
    gives an object whose `duration` is the one of an `Epochs` built directly from the sliced data
    (in particular it has the slice's length), provided `reset` reaches `duration`. -/
theorem epochs_slice_duration (m : Bool) (sp : AnalyzerSpec)
    (hsp : sp = spec_Epochs ∨ (sp = spec_Epochs.subclass ∧ m = true))
    (sem : Sem V I) (cp new : Nat → Option V) (x : I)
    (hp : ∀ p ∈ sp.present [], (cp p).isSome = true)
    (hnew : ∀ p ∈ sp.present [], p ∈ epochsDataSlots → (new p).isSome = true)
    (h h' : List Nat) :
    (read (sp.resolve []) sem g_Epochs_duration (run (sp.resolve []) sem h'
        (getItem sem (sp.walked m) epochsDataSlots new
          (run (sp.resolve []) sem h (construct sem [] cp x))))).2
      = (read (sp.resolve []) sem g_Epochs_duration (run (sp.resolve []) sem h'
          (construct sem [] (newParams epochsDataSlots new cp) x))).2 := by
  have hR : RetargetOK (sp.resolve []) (sp.present []) (sp.walked m) [] [] := by
    rcases hsp with e | ⟨e, e'⟩
    · subst e; cases m <;> exact retargetOK_of_B (by decide)
    · subst e; subst e'; exact retargetOK_of_B (by decide)
  have hin : (run (sp.resolve []) sem h (construct sem [] cp x)).input = x :=
    (run_inv (sp.resolve []) sem _ x (sp.present []) hR.noInterference h _
      (construct_inv (sp.resolve []) sem [] cp x (sp.present []) (by simpa [construct] using hp))).input
  unfold getItem
  rw [hin]
  exact retarget_eq_fresh (sp.resolve []) (sp.present []) (sp.walked m) [] [] epochsDataSlots sem cp new
    x x hR (by simpa [construct] using hp)
    (by
      intro p hpp
      simp only [construct, newParams]
      by_cases hc : p ∈ epochsDataSlots
      · simpa [hc] using hnew p hpp hc
      · simpa [hc] using hp p hpp)
    hnew h h' g_Epochs_duration

/-- user subclasses that add nothing: with the reset shape of the current source (generated
    `resetWalksMRO`; repaired in repo commit f49c286) re-targeting / slicing is equivalent to rebuilding -/
theorem subclass_retarget :
    ∀ sp ∈ [spec_Epochs, spec_CorrelationAnalyzer, spec_HilbertAnalyzer, spec_NormalizationAnalyzer,
            spec_SpectralAnalyzer, spec_CoherenceAnalyzer, spec_GrangerAnalyzer, spec_SNRAnalyzer,
            spec_MTCoherenceAnalyzer, spec_MorletWaveletAnalyzer],
      okAll sp.subclass resetWalksMRO := by decide

/-- non-vacuity: a `reset` walking only `self.__class__.__dict__` reaches none of the inherited
    attributes, and the side condition is refuted -/
theorem own_dict_reset_refutes_subclasses :
    ∀ sp ∈ [spec_Epochs, spec_CorrelationAnalyzer, spec_HilbertAnalyzer, spec_NormalizationAnalyzer,
            spec_SpectralAnalyzer],
      ∀ cfg ∈ allCfgs sp.flagNames.length, sp.subclass.retargetOK false cfg = false := by decide

/-- a subclass of `Epochs` sliced after `duration` was read keeps the parent's duration when
    `reset` walks only the own class dictionary (concrete run) -/
theorem own_dict_reset_stale_witness :
    let sp := spec_Epochs.subclass
    let spec := sp.resolve []
    let s1 := (read spec numSem g_Epochs_duration (construct numSem [] (fun p => some p) 0)).1
    (read spec numSem g_Epochs_duration
        (getItem numSem (sp.walked false) epochsDataSlots (fun p => some (p + 100)) s1)).2
      ≠ (read spec numSem g_Epochs_duration
          (construct numSem [] (newParams epochsDataSlots (fun p => some (p + 100)) (fun p => some p)) 0)).2 := by
  decide

/-! ### non-vacuity -/

example :
    (read (spec_CorrelationAnalyzer.resolve []) numSem g_CorrelationAnalyzer_xcorr_norm
        (retarget numSem (spec_CorrelationAnalyzer.walked false) [] [] (fun _ => none) 500
          (run (spec_CorrelationAnalyzer.resolve []) numSem
            [g_CorrelationAnalyzer_xcorr_norm, g_CorrelationAnalyzer_parameterlist]
            (construct numSem [] (fun p => some p) 3)))).2
      = (read (spec_CorrelationAnalyzer.resolve []) numSem g_CorrelationAnalyzer_xcorr_norm
          (construct numSem [] (newParams [] (fun _ => none) (fun p => some p)) 500)).2 :=
  retarget_eq_fresh _ (spec_CorrelationAnalyzer.present []) _ [] [] [] numSem _ _ 3 500
    (retargetOK_of_okAll CorrelationAnalyzer_retarget.1 [] (by decide)) (by decide) (by decide)
    (by decide) _ [] _

example : (read (spec_CorrelationAnalyzer.resolve []) numSem g_CorrelationAnalyzer_xcorr_norm
    (construct numSem [] (fun p => some p) 500)).2
  ≠ (read (spec_CorrelationAnalyzer.resolve []) numSem g_CorrelationAnalyzer_xcorr_norm
    (construct numSem [] (fun p => some p) 3)).2 := by decide


/-! ### PROCESS-level sessions (Model/Sessions.lean, Lemmas/Sessions.lean): the object that is
re-targeted lives in a process with other objects of base / derived / sibling / user classes that are
constructed, read, reset and re-targeted before, in between and afterwards. -/

open Nitime.OneTime.Sessions

/-- GENERATED: how `ResetMixin.reset` obtains the names it deletes is a safe source (walks the MRO per
    call, or a table in the class's OWN dictionary); a table found through `getattr(cls, …)` — seeds
    C13-9, C14-8 — makes this fail at translation time -/
theorem reset_name_source_safe : resetNameSource.safe = true := by decide

/-- GENERATED: no constructor binds a written-into slot to a module-level or class-level object -/
theorem ctor_state_is_per_object : ∀ sp ∈ allSpecs, sp.processBound = [] := by decide

theorem RetargetOK.of_mem_iff {spec : Spec} {present w w' d r : List Nat}
    (h : RetargetOK spec present w d r) (hw : ∀ k, k ∈ w ↔ k ∈ w') : RetargetOK spec present w' d r :=
  ⟨h.sorted, h.noClobber, h.writes, h.dwrites, fun g hg => h.walk g (fun hg' => hg ((hw g).1 hg')),
   h.derivedRead, h.refreshedSub⟩

/-- MAIN THEOREM, process version.  Object `o` of class `c` is constructed somewhere in a session, read
    (`l`), re-targeted (reset + assignments + `set_input`), read again (`l'`); ANY operations on ANY other
    objects of any classes are interleaved.  With today's `reset` (`reset_name_source_safe`) a further read
    of `g` returns what a newly constructed object with the new parameters and the new input returns
    after the reads `l'`.  `hR` is the generated side condition for the names of class `c` and its
    ancestors. -/
theorem session_retarget_eq_fresh (h : Hier) (sem : Sem V I) (spec : Spec)
    (present derived refreshed changed : List Nat) (cp new : Nat → Option V) (x x' : I) (c : Nat)
    (hR : RetargetOK spec present (h.allNames c) derived refreshed)
    (hp : ∀ p ∈ present, ((construct sem derived cp x).params p).isSome = true)
    (hp' : ∀ p ∈ present,
      ((construct sem derived (newParams changed new cp) x').params p).isSome = true)
    (hnew : ∀ p ∈ present, p ∈ changed → (new p).isSome = true)
    (ops : List (SOp V I)) (hn : NewUnbound ops) (o : Nat) (l l' : List Nat) (g : Nat)
    (hproj : ops.filter (touches o) =
      SOp.new o { cls := c, spec := spec, st := construct sem derived cp x } ::
        (l.map (fun g => SOp.on o (Op.read g)) ++
          SOp.on o (Op.retarget refreshed changed new x') :: l'.map (fun g => SOp.on o (Op.read g)))) :
    ∃ ob, (srun resetNameSource h sem ops Proc.empty).obj o = some ob ∧
      (read ob.spec sem g ob.st).2
        = (read spec sem g (run spec sem l' (construct sem derived (newParams changed new cp) x'))).2 := by
  refine ⟨_, session_retarget_state reset_name_source_safe h sem ops hn o _ l l' refreshed changed new x'
    hproj, ?_⟩
  exact retarget_eq_fresh spec present (h.allNames c) derived refreshed changed sem cp new x x' hR hp hp'
    hnew l l' g

/-- the class hierarchy of a family session (`ResetMixin` ← `BaseAnalyzer` ← analyzer ← user subclass)
    names, for the analyzer class, exactly the getters the generated table says `reset` walks -/
theorem family_names_are_walked :
    ∀ sp ∈ allSpecs, ∀ k ∈ List.range (sp.getters.length + 1),
      ((familyHier sp).allNames 2).contains k = (sp.walked true).contains k := by decide

/-- class 0 = base class owning the one-time name 0; class 1 derives from it and owns name 1 -/
def cexHier : Hier := { mro := fun c => if c = 1 then [1, 0] else [c], own := fun c => [c] }
def cexSpec : Spec := [{ usesInput := true }, { usesInput := true }]
def cexObj (c x : Nat) : Obj Nat Nat :=
  { cls := c, spec := cexSpec, st := construct numSem [] (fun p => some p) x }

def readAfter (src : NameSource) (ops : List (SOp Nat Nat)) : Option (Option Nat) :=
  ((srun src cexHier numSem ops Proc.empty).obj 1).map fun ob => (read ob.spec numSem 1 ob.st).2

/-- COUNTEREXAMPLE (seeds C14-8, C13-9).  With a per-class table found through the parent lookup, in
    the session "re-target a base-class instance, then build a derived instance, read, re-target" the
    derived instance answers with the result computed for its OLD input; in the session where the derived
    class is re-targeted first it does not, nor with an own-dictionary table. -/
theorem inherited_table_retarget_stale :
    readAfter .inheritedTable
        [.new 0 (cexObj 0 3), .on 0 (.retarget [] [] (fun _ => none) 9), .new 1 (cexObj 1 3), .on 1 (.read 1),
         .on 1 (.retarget [] [] (fun _ => none) 500)]
      ≠ some (read cexSpec numSem 1 (construct numSem [] (fun p => some p) 500)).2 ∧
    readAfter .inheritedTable
        [.new 1 (cexObj 1 3), .on 1 (.retarget [] [] (fun _ => none) 7), .new 0 (cexObj 0 3),
         .on 0 (.retarget [] [] (fun _ => none) 9), .on 1 (.read 1), .on 1 (.retarget [] [] (fun _ => none) 500)]
      = some (read cexSpec numSem 1 (construct numSem [] (fun p => some p) 500)).2 ∧
    readAfter .ownTable
        [.new 0 (cexObj 0 3), .on 0 (.retarget [] [] (fun _ => none) 9), .new 1 (cexObj 1 3), .on 1 (.read 1),
         .on 1 (.retarget [] [] (fun _ => none) 500)]
      = some (read cexSpec numSem 1 (construct numSem [] (fun p => some p) 500)).2 := by
  decide

/-- class 0 = a nitime class owning the one-time name 0; class 1 = a PLAIN mix-in (derives from `object` only) owning
    the name 1; class 2 = the user subclass `class U(X, Mix)`.  A walk of the MRO that skips the classes "outside
    the reset protocol" does not visit class 1. -/
def mixHier : Hier :=
  { mro := fun c => if c = 2 then [2, 0, 1] else [c], own := fun c => if c = 2 then [] else [c],
    visited := fun c => c != 1 }

/-- a `U` object: both results read, then re-targeted; what a further read of `g` returns -/
def readMix (src : NameSource) (g : Nat) : Option (Option Nat) :=
  ((srun src mixHier numSem
      [.new 0 (cexObj 2 3), .on 0 (.read 0), .on 0 (.read 1), .on 0 (.retarget [] [] (fun _ => none) 500)]
      Proc.empty).obj 0).map fun ob => (read ob.spec numSem g ob.st).2

/-- COUNTEREXAMPLE (seed C14-16).  A per-call walk of the MRO that visits only SOME of its classes is not a safe
    name source: the result whose getter lives in a skipped class (a plain mix-in of a user subclass) survives
    `set_input` with the value computed for the old input, while the results of the visited classes — all of
    nitime's own — are fine, and the unfiltered walk forgets both.  The translator emits `walkFiltered` whenever
    the loop over the MRO in `ResetMixin.reset` can skip a class (`mro_walk_filters`), which breaks
    `reset_name_source_safe`. -/
theorem filtered_walk_mixin_stale :
    NameSource.walkFiltered.safe = false ∧
    readMix .walkFiltered 1 ≠ some (read cexSpec numSem 1 (construct numSem [] (fun p => some p) 500)).2 ∧
    readMix .walkFiltered 0 = some (read cexSpec numSem 0 (construct numSem [] (fun p => some p) 500)).2 ∧
    readMix .walkPerCall 1 = some (read cexSpec numSem 1 (construct numSem [] (fun p => some p) 500)).2 := by
  decide

def corrObj (c x : Nat) : Obj Nat Nat :=
  { cls := c, spec := spec_CorrelationAnalyzer.resolve [], st := construct numSem [] (fun p => some p) x }

/-- non-vacuity of `session_retarget_eq_fresh`: CorrelationAnalyzer re-targeted among other objects -/
example :
    ∃ ob, (srun resetNameSource (familyHier spec_CorrelationAnalyzer) numSem
        [.new 3 (corrObj 1 1), .on 3 .reset, .new 0 (corrObj 2 3),
         .on 0 (.read g_CorrelationAnalyzer_xcorr_norm), .on 3 (.read g_CorrelationAnalyzer_parameterlist),
         .on 0 (.retarget [] [] (fun _ => none) 500), .on 3 .reset] Proc.empty).obj 0 = some ob ∧
      (read ob.spec numSem g_CorrelationAnalyzer_xcorr_norm ob.st).2
        = (read (spec_CorrelationAnalyzer.resolve []) numSem g_CorrelationAnalyzer_xcorr_norm
            (run (spec_CorrelationAnalyzer.resolve []) numSem []
              (construct numSem [] (newParams [] (fun _ => none) (fun p => some p)) 500))).2 :=
  session_retarget_eq_fresh (familyHier spec_CorrelationAnalyzer) numSem _
    (spec_CorrelationAnalyzer.present []) [] [] [] _ _ 3 500 2
    (retargetOK_of_B (by decide)) (by decide) (by decide) (by decide) _
    (by intro o ob hm; simp at hm; rcases hm with ⟨_, rfl⟩ | ⟨_, rfl⟩ <;> rfl) 0
    [g_CorrelationAnalyzer_xcorr_norm] [] _ (by rfl)


/-! ### failure paths: a `set_input` that is refused -/

theorem RetargetOK.forget_derived {spec : Spec} {present walked d r : List Nat}
    (h : RetargetOK spec present walked d r) : RetargetOK spec present walked [] [] :=
  ⟨h.sorted, h.noClobber, h.writes, h.dwrites, h.walk, fun _ _ _ hd => absurd hd List.not_mem_nil,
   fun _ hp => absurd hp List.not_mem_nil⟩

/-- A REFUSED `set_input` (it raises before anything is changed, or after `BaseAnalyzer.set_input` has
    already reset the object and put the input back / never replaced it): whatever was read before, every
    later sequence of reads answers exactly like a freshly built object with the SAME parameters and the
    SAME input.  `reset walked` is the worst case of what a refusal may have done to the stored results. -/
theorem refused_set_input_eq_fresh (spec : Spec) (present walked derived refreshed : List Nat)
    (sem : Sem V I) (cp : Nat → Option V) (x : I)
    (hR : RetargetOK spec present walked derived refreshed)
    (hp : ∀ p ∈ present, ((construct sem derived cp x).params p).isSome = true)
    (h h' : List Nat) (g : Nat) :
    (read spec sem g (run spec sem h' (reset walked (run spec sem h (construct sem derived cp x))))).2
      = (read spec sem g (run spec sem h' (construct sem derived cp x))).2 ∧
    (read spec sem g (run spec sem h' (run spec sem h (construct sem derived cp x)))).2
      = (read spec sem g (run spec sem h' (construct sem derived cp x))).2 := by
  have hR0 := hR.forget_derived
  -- the derived slots are ordinary constructor parameters as long as the input does not change
  have e0 : construct sem [] (construct sem derived cp x).params x = construct sem derived cp x := by
    simp [construct]
  have hin : (run spec sem h (construct sem derived cp x)).input = x :=
    (run_inv spec sem _ x present hR.noInterference h _
      (construct_inv spec sem derived cp x present hp)).input
  have e1 : reset walked (run spec sem h (construct sem derived cp x))
      = retarget sem walked [] [] (fun _ => none) x (run spec sem h (construct sem derived cp x)) := by
    simp [reset, retarget, hin]
  have e2 : newParams [] (fun _ => none) (construct sem derived cp x).params
      = (construct sem derived cp x).params := by
    funext p; simp [newParams]
  refine ⟨?_, ?_⟩
  · rw [e1]
    have := retarget_eq_fresh spec present walked [] [] [] sem (construct sem derived cp x).params
      (fun _ => none) x x hR0 (by rw [e0]; exact hp) (by rw [e2, e0]; exact hp) (by intro p _ hc; cases hc) h h' g
    rw [e2, e0] at this
    exact this
  · -- nothing happened at all: reads after reads (`order_independent` for the concatenated history)
    have i0 := construct_inv spec sem derived cp x present hp
    have hN := hR.noInterference
    have a := run_inv spec sem _ x present hN h' _ (run_inv spec sem _ x present hN h _ i0)
    have b := run_inv spec sem _ x present hN h' _ i0
    unfold OneTime.read
    rw [(readF_correct spec sem _ x present hN (g + 1) g _ (Nat.lt_succ_self g) a).2,
        (readF_correct spec sem _ x present hN (g + 1) g _ (Nat.lt_succ_self g) b).2]

end Nitime.C14.Props
