/-
C19 / C15 — property theorems for MULTI-ROW event series and for recordings stored in integer dtypes
(model `Nitime.C19`, the definitions the driver runs: `typesOf`, `etaBlock`, `etaRow`, `semSqRow`, `firChannel`,
`embedInt`; variants that are NOT today's code: `typesUnion`, `trigWrap` / `etaRowWrap`).

* rows: every result of row `ch` (its event types, eta block, squared SEM, FIR coefficients) is a function of THAT
  row's events and data (and of the scalar options) only — `row_results_depend_on_own_row`; the eta data of
  `seriesOut` is the concatenation of the rows' own blocks — `eta_data_by_rows`.  The variant that takes the event
  types once over all rows (`np.unique(self.events)`) violates it as soon as two rows use different code sets —
  `union_of_codes_counterexample`; it coincides with today's code for a single row — `union_single_row`.
* dtypes: the working copy holds the exact embedding of the stored integers, so eta is the rational average of the
  stored values — `eta_int_exact`, `eta_int_cb_exact`; doing the baseline subtraction in an unsigned dtype agrees
  with it exactly when no window dips below its first sample — `etaRowWrap_eq_of_no_dip` — and is off by a multiple
  of 2^bits / count otherwise — `etaRowWrap_counterexample` (uint8: 253 instead of −3).
-/
import Nitime.Model.C19
import Nitime.Props.C19
import Mathlib.Tactic.NormNum
import Mathlib.Tactic.Ring
import Mathlib.Tactic.Linarith
import Mathlib.Data.Rat.Defs
import Mathlib.Algebra.Order.Field.Rat

namespace Nitime.C19.Props
open Nitime.C19

/-! ### rows of a 2-d event series -/

/-- rows whose slices of the event and data arrays agree (and equal scalar options) have the same padded series -/
theorem evOf_congr (j j' : Job) (ch ch' : ℕ) (hoff : j.off = j'.off) (hN : j.N = j'.N)
    (hev : ∀ i < j.N, getI j.ev ((if j.evch = 0 then 0 else ch) * j.N + i)
                    = getI j'.ev ((if j'.evch = 0 then 0 else ch') * j'.N + i)) :
    evOf j ch = evOf j' ch' := by
  funext p
  unfold evOf padFn
  rw [← hoff, ← hN]
  by_cases h : j.off.toNat ≤ p ∧ p < j.off.toNat + j.N
  · rw [if_pos h, if_pos h]
    have := hev (p - j.off.toNat) (by omega)
    rw [hN] at this ⊢
    rw [← hN] at this
    simpa [hN] using this
  · rw [if_neg h, if_neg h]

theorem dataOf_congr (j j' : Job) (ch ch' : ℕ) (hoff : j.off = j'.off) (hN : j.N = j'.N)
    (hd : ∀ i < j.N, getR j.data (ch * j.N + i) = getR j'.data (ch' * j'.N + i)) :
    dataOf j ch = dataOf j' ch' := by
  funext p
  unfold dataOf padFn
  rw [← hoff, ← hN]
  by_cases h : j.off.toNat ≤ p ∧ p < j.off.toNat + j.N
  · rw [if_pos h, if_pos h]
    have := hd (p - j.off.toNat) (by omega)
    simpa [hN] using this
  · rw [if_neg h, if_neg h]

/-- THE ROW THEOREM: take two analyzers (jobs) with the same scalar options whose event row `ch` / `ch'` and data row
`ch` / `ch'` hold the same numbers — whatever their OTHER rows hold (other code sets, other counts, other placements,
any number of further channels).  Then row `ch` of the first and row `ch'` of the second have the same event types,
the same eta block, the same squared standard errors and the same FIR coefficients. -/
theorem row_results_depend_on_own_row (j j' : Job) (ch ch' : ℕ)
    (hoff : j.off = j'.off) (hL : j.L = j'.L) (hcb : j.cb = j'.cb) (hN : j.N = j'.N)
    (hev : ∀ i < j.N, getI j.ev ((if j.evch = 0 then 0 else ch) * j.N + i)
                    = getI j'.ev ((if j'.evch = 0 then 0 else ch') * j'.N + i))
    (hd : ∀ i < j.N, getR j.data (ch * j.N + i) = getR j'.data (ch' * j'.N + i)) :
    typesOf j ch = typesOf j' ch' ∧
    etaBlock j (typesOf j ch) ch = etaBlock j' (typesOf j' ch') ch' ∧
    (∀ t jj, semSqRow j.cb (dataOf j ch) (positions (nPadOf j) (evOf j ch) t) j.off.toNat jj
           = semSqRow j'.cb (dataOf j' ch') (positions (nPadOf j') (evOf j' ch') t) j'.off.toNat jj) ∧
    (∀ cur, firChannel cur (nPadOf j) (evOf j ch) (dataOf j ch) j.off.toNat j.L
          = firChannel cur (nPadOf j') (evOf j' ch') (dataOf j' ch') j'.off.toNat j'.L) := by
  have he := evOf_congr j j' ch ch' hoff hN hev
  have hdd := dataOf_congr j j' ch ch' hoff hN hd
  have hn : nPadOf j = nPadOf j' := by unfold nPadOf; rw [hoff, hN, hL]
  have ht : typesOf j ch = typesOf j' ch' := by unfold typesOf; rw [hn, he]
  refine ⟨ht, ?_, ?_, ?_⟩
  · unfold etaBlock; rw [ht, hL, hcb, hdd, hn, he, hoff]
  · intro t jj; rw [hcb, hdd, hn, he, hoff]
  · intro cur; rw [hn, he, hdd, hoff, hL]

/-- the eta data of `seriesOut` (the very expression of the model) is the concatenation, row by row, of each row's
block for the row's OWN event types -/
theorem eta_data_by_rows (j : Job) (C : ℕ) (f : ℚ → String) :
    ((List.range C).flatMap fun ch => (typesOf j ch).flatMap fun t =>
        (List.range j.L).map fun jj =>
          f (etaRow j.cb (dataOf j ch) (positions (nPadOf j) (evOf j ch) t) j.off.toNat jj))
      = (List.range C).flatMap fun ch => (etaBlock j (typesOf j ch) ch).map f := by
  congr 1
  funext ch
  simp only [etaBlock, List.map_flatMap, List.map_map]
  rfl

theorem etaBlock_length (j : Job) (types : List ℤ) (ch : ℕ) :
    (etaBlock j types ch).length = types.length * j.L := by
  unfold etaBlock
  induction types with
  | nil => simp
  | cons t ts ih =>
    simp only [List.flatMap_cons, List.length_append, List.length_map, List.length_range, ih, List.length_cons]
    ring

/-- for a single row the union of the rows' code sets IS the row's own set: the variant and today's code coincide -/
theorem union_single_row (j : Job) (h : j.nch ≤ 1) : typesUnion j = typesOf j 0 := by
  unfold typesUnion typesOf
  have : max j.nch 1 = 1 := by omega
  rw [this]
  simp

/-- two channels, row 0 uses the codes {1,2}, row 1 the codes {1,3} -/
def jRows : Job :=
  { what := "eta", off := 0, L := 2, cb := false, si := 1, nch := 2, N := 8, evch := 2,
    ev := #[0, 1, 0, 0, 2, 0, 0, 0,   0, 1, 0, 0, 3, 0, 0, 0],
    data := #[0, 4, 7, 0, 1, 5, 0, 0,   0, 2, 3, 0, 6, 8, 0, 0] }

/-- COUNTEREXAMPLE for the cached-union variant: with the union of the codes, row 1 (own codes 1, 3) gets three blocks
instead of two and its second block is the (empty) average for code 2 instead of the average for code 3 -/
theorem union_of_codes_counterexample :
    typesOf jRows 0 = [1, 2] ∧ typesOf jRows 1 = [1, 3] ∧ typesUnion jRows = [1, 2, 3] ∧
    etaBlock jRows (typesOf jRows 1) 1 = [2, 3, 6, 8] ∧
    etaBlock jRows (typesUnion jRows) 1 = [2, 3, 0, 0, 6, 8] ∧
    etaBlock jRows (typesUnion jRows) 1 ≠ etaBlock jRows (typesOf jRows 1) 1 := by
  refine ⟨by decide, by decide, by decide, by decide +kernel, by decide +kernel, by decide +kernel⟩

/-! ### et_data (moved from "exercised by the correspondence only" to proved) -/

/-- **et_data at the analyzer level** (event-coded series branch): on separated planted data EVERY occurrence window
that `et_data` hands out — the samples `data_pad[k + offset + j]`, `k` running over the model's `positions` of the
code on the padded events — is that code's response, for every offset ≥ 0; and the number of windows of a code is the
number of its occurrences in the original (unpadded) event row. -/
theorem etdata_series_recovers (o N L : ℕ) (ev : ℕ → ℤ) (resp : ℤ → ℕ → ℚ)
    (hsep : Separated N ev L) (hdom : ∀ k < N, ev k ≠ 0 → k + o + L ≤ N) (t : ℤ) (ht : t ≠ 0) :
    (∀ k' ∈ positions (o + N + L) (padFn 0 o N ev) t, ∀ j < L,
        padFn 0 o N (planted N ev resp o L) (k' + o + j) = resp t j) ∧
    (positions (o + N + L) (padFn 0 o N ev) t).length = (positions N ev t).length := by
  rw [positions_pad o N L ev t ht]
  refine ⟨?_, by simp⟩
  intro k' hk' j hj
  obtain ⟨k, hk, rfl⟩ := List.mem_map.mp hk'
  obtain ⟨hkn, hkt⟩ := mem_positions.mp hk
  have hev : ev k ≠ 0 := by rw [hkt]; exact ht
  have hd := hdom k hkn hev
  rw [padFn_window o N (planted N ev resp o L) k j (by omega),
      planted_at_window N ev resp o L hsep k hkn hev j hj, hkt]

/-! ### recordings stored in an integer dtype -/

theorem cast_list_sum (l : List ℕ) (f : ℕ → ℤ) :
    (((l.map f).sum : ℤ) : ℚ) = (l.map fun k => ((f k : ℤ) : ℚ)).sum := by
  induction l with
  | nil => simp
  | cons a l ih => simp [ih]

/-- eta of a recording stored as integers = the rational average of the stored values over the windows -/
theorem eta_int_exact (d : ℕ → ℤ) (idx : List ℕ) (off j : ℕ) :
    etaRow false (embedInt d) idx off j
      = (((idx.map fun k => d (k + off + j)).sum : ℤ) : ℚ) / (idx.length : ℚ) := by
  unfold etaRow meanOver trig embedInt
  rw [cast_list_sum]
  simp

/-- with baseline correction: the average of the INTEGER differences `d[k+off+j] − d[k+off]` (no wrap-around) -/
theorem eta_int_cb_exact (d : ℕ → ℤ) (idx : List ℕ) (off j : ℕ) :
    etaRow true (embedInt d) idx off j
      = (((idx.map fun k => d (k + off + j) - d (k + off)).sum : ℤ) : ℚ) / (idx.length : ℚ) := by
  unfold etaRow meanOver trig embedInt
  rw [cast_list_sum]
  simp

/-- a working copy in an unsigned dtype of `bits` bits gives the same average exactly when no window sample lies
below the window's first sample (and the differences fit) -/
theorem etaRowWrap_eq_of_no_dip (bits : ℕ) (d : ℕ → ℤ) (idx : List ℕ) (off j : ℕ)
    (h : ∀ k ∈ idx, d (k + off) ≤ d (k + off + j) ∧ d (k + off + j) - d (k + off) < 2 ^ bits) :
    etaRowWrap bits true d idx off j = etaRow true (embedInt d) idx off j := by
  unfold etaRowWrap etaRow meanOver
  congr 1
  congr 1
  apply List.map_congr_left
  intro k hk
  obtain ⟨h1, h2⟩ := h k hk
  unfold trigWrap trig embedInt
  simp only [if_true]
  rw [Int.emod_eq_of_lt (by omega) h2]
  push_cast
  ring

/-- without baseline correction nothing is subtracted: no wrap-around in any dtype -/
theorem etaRowWrap_no_cb (bits : ℕ) (d : ℕ → ℤ) (idx : List ℕ) (off j : ℕ) :
    etaRowWrap bits false d idx off j = etaRow false (embedInt d) idx off j := by
  unfold etaRowWrap etaRow meanOver trigWrap trig embedInt
  simp

/-- COUNTEREXAMPLE for the own-dtype working copy: response 5, 2, 7 at events 2, 8, 14 stored as uint8,
`correct_baseline=True`: the second sample comes out as 253 (uint16: 65533) instead of −3 -/
def dU8 : ℕ → ℤ := fun i => if i % 6 = 2 then 5 else if i % 6 = 3 then 2 else if i % 6 = 4 then 7 else 0

theorem etaRowWrap_counterexample :
    etaRow true (embedInt dU8) [2, 8, 14] 0 1 = -3 ∧
    etaRowWrap 8 true dU8 [2, 8, 14] 0 1 = 253 ∧
    etaRowWrap 16 true dU8 [2, 8, 14] 0 1 = 65533 := by
  refine ⟨?_, ?_, ?_⟩ <;>
    simp [etaRow, etaRowWrap, meanOver, trig, trigWrap, embedInt, dU8] <;> norm_num

end Nitime.C19.Props
