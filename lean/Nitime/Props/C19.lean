/-
C19 — property theorems for the event-related estimators model (`Nitime.C19`).

Every theorem is about the executable definitions of `Nitime/Model/C19.lean` at the instance the
driver runs (`Rat`, exact).  Which code each definition mirrors is listed in the model's header.
Sums are written with `Finset.range`; `sumRange_eq` (Lemmas/C19Lin) is the bridge to the model's
list sums.  Not proved: that `gaussSolve` finds a solution whenever the design has full column rank
(the model re-checks each answer exactly and returns `none` otherwise; a `none` on a full-rank design
is reported per run by the correspondence), and binary64 rounding of numpy/LAPACK.
-/
import Nitime.Model.C19
import Nitime.Lemmas.C19Lin
import Mathlib.Tactic.IntervalCases
import Mathlib.Tactic.NormNum

namespace Nitime.C19.Props
open Nitime.C19 Finset

/-! ### results are ordered by sorted event code -/

/-- `eventTypes` (= `np.unique(ev)[… != 0]`) is strictly increasing and holds exactly the non-zero
codes; row b of every estimator belongs to `(eventTypes ev)[b]` -/
theorem results_sorted_by_code (xs : List ℤ) :
    (eventTypes xs).Pairwise (· < ·) ∧ ∀ t, t ∈ eventTypes xs ↔ (t ∈ xs ∧ t ≠ 0) := by
  constructor
  · exact (pairwise_uniqueSorted xs).filter _
  · intro t; simp [eventTypes, mem_uniqueSorted]

example : eventTypes [3, 0, -1, 2, 2, 0, 3] = [-1, 2, 3] := by decide

/-! ### the design matrix -/

/-- the closed-form entry equals the code's accumulation over events (`+= eye(L) * sign`) -/
theorem designEntry_eq_eventSum (cur : Bool) (n : ℕ) (ev : ℕ → ℤ) (types : List ℤ) (L r c : ℕ)
    (hr : r < n) :
    designEventSum cur n ev types L r c = designEntry cur ev types L r c := by
  unfold designEventSum designEntry
  simp only [sumRangeI_eq]
  set t := types.getD (c / L) 0
  set j := c % L
  by_cases hj : j ≤ r
  · rw [Finset.sum_eq_single (r - j)]
    · have e1 : r - j ≤ r := Nat.sub_le _ _
      have e2 : r - (r - j) = j := by omega
      simp only [e1, e2, hj, true_and, and_true]
    · intro k _ hk
      rw [if_neg]
      rintro ⟨_, _, h1, h2⟩
      omega
    · intro h
      exact absurd (Finset.mem_range.mpr (by omega)) h
  · rw [if_neg (by tauto)]
    apply Finset.sum_eq_zero
    intro k _
    rw [if_neg]
    rintro ⟨_, _, h1, h2⟩
    omega

/-- the signed planted signal: every event adds `sign(code) * response(code)` from its own sample on -/
def signedResp (cur : Bool) (resp : ℤ → ℕ → ℚ) : ℤ → ℕ → ℚ := fun t j => (sgn cur t : ℚ) * resp t j

/-- **design_times_h_is_planted**: row r of `X·h`, with `h` laid out by sorted type (the FIR output
layout, coefficient c = b*L+j ↦ response of `types[b]` at lag j), is the superposition of the
(signed) responses of all events — overlaps included.  `types` only needs to list every occurring
non-zero code once (true for `eventTypes`, see `results_sorted_by_code`). -/
theorem design_times_h_is_planted (cur : Bool) (n : ℕ) (ev : ℕ → ℤ) (types : List ℤ) (L : ℕ)
    (resp : ℤ → ℕ → ℚ) (hnd : types.Nodup)
    (hcov : ∀ k < n, ev k ≠ 0 → ev k ∈ types) (r : ℕ) (hr : r < n) :
    ∑ c ∈ range (types.length * L),
        (designEntry cur ev types L r c : ℚ) * resp (types.getD (c / L) 0) (c % L)
      = planted n ev (signedResp cur resp) 0 L r := by
  rw [sum_range_flat]
  unfold planted
  rw [sumRange_eq]
  -- evaluate the inner sum over blocks for a fixed lag j
  have inner : ∀ j ∈ range L, ∑ b ∈ range types.length,
        (designEntry cur ev types L r (b * L + j) : ℚ) * resp (types.getD ((b * L + j) / L) 0) ((b * L + j) % L)
      = if j ≤ r ∧ ev (r - j) ≠ 0 then signedResp cur resp (ev (r - j)) j else 0 := by
    intro j hj
    have hjL : j < L := Finset.mem_range.mp hj
    have hL : 0 < L := by omega
    have hdiv : ∀ b, (b * L + j) / L = b := by
      intro b; rw [Nat.mul_comm, Nat.mul_add_div hL, Nat.div_eq_of_lt hjL, Nat.add_zero]
    have hmod : ∀ b, (b * L + j) % L = j := by
      intro b; rw [Nat.mul_comm, Nat.mul_add_mod, Nat.mod_eq_of_lt hjL]
    simp only [designEntry, hdiv, hmod]
    by_cases hc : j ≤ r ∧ ev (r - j) ≠ 0
    · rw [if_pos hc]
      obtain ⟨b0, hb0, hb0e⟩ := List.getElem_of_mem (hcov (r - j) (by omega) hc.2)
      have hget : ∀ b, b < types.length → types.getD b 0 = types[b]! := by
        intro b hb; simp [List.getD_eq_getElem?_getD, hb]
      rw [Finset.sum_eq_single b0]
      · have : types.getD b0 0 = ev (r - j) := by
          rw [List.getD_eq_getElem?_getD, List.getElem?_eq_getElem hb0]; simpa using hb0e
        rw [this]
        simp [hc.1, hc.2, signedResp]
      · intro b hb hne
        have hb' := Finset.mem_range.mp hb
        rw [if_neg, Int.cast_zero, zero_mul]
        rintro ⟨_, h2, _⟩
        apply hne
        have e1 : types.getD b 0 = types[b] := by
          rw [List.getD_eq_getElem?_getD, List.getElem?_eq_getElem hb']; rfl
        rw [e1, ← hb0e] at h2
        exact ((List.Nodup.getElem_inj_iff hnd).mp h2).symm
      · intro h; exact absurd (Finset.mem_range.mpr hb0) h
    · rw [if_neg hc]
      apply Finset.sum_eq_zero
      intro b hb
      have hb' := Finset.mem_range.mp hb
      rw [if_neg, Int.cast_zero, zero_mul]
      rintro ⟨h1, h2, h3⟩
      exact hc ⟨h1, by rw [h2]; exact h3⟩
  rw [Finset.sum_comm, Finset.sum_congr rfl inner]
  -- reindex lag j ↔ event position k = r - j
  rw [← Finset.sum_filter, ← Finset.sum_filter]
  apply Finset.sum_nbij' (fun j => r - j) (fun k => r - k)
  · intro j hj
    simp only [Finset.mem_filter, Finset.mem_range] at hj ⊢
    refine ⟨by omega, hj.2.2, by omega, by omega⟩
  · intro k hk
    simp only [Finset.mem_filter, Finset.mem_range] at hk ⊢
    obtain ⟨_, h1, h2, h3⟩ := hk
    have : r - (r - k) = k := by omega
    refine ⟨by omega, by omega, by rw [this]; exact h1⟩
  · intro j hj
    simp only [Finset.mem_filter, Finset.mem_range] at hj
    omega
  · intro k hk
    simp only [Finset.mem_filter, Finset.mem_range] at hk
    omega
  · intro j hj
    simp only [Finset.mem_filter, Finset.mem_range] at hj
    have : r - (r - j + 0) = j := by omega
    rw [this]

/-! ### FIR: exact recovery, overlaps allowed -/

/-- `v` solves the normal equations `XᵀX v = Xᵀy` -/
def SolvesNormal (n p : ℕ) (X : ℕ → ℕ → ℤ) (y v : ℕ → ℚ) : Prop :=
  ∀ a < p, ∑ b ∈ range p, (∑ r ∈ range n, (X r a : ℚ) * (X r b : ℚ)) * v b
            = ∑ r ∈ range n, (X r a : ℚ) * y r

/-- the first p columns of X are linearly independent over the n rows -/
def FullColumnRank (n p : ℕ) (X : ℕ → ℕ → ℤ) : Prop :=
  ∀ v : ℕ → ℚ, (∀ r < n, ∑ c ∈ range p, (X r c : ℚ) * v c = 0) → ∀ c < p, v c = 0

theorem gram_cast (n : ℕ) (X : ℕ → ℕ → ℤ) (a b : ℕ) :
    ((gram n X a b : ℤ) : ℚ) = ∑ r ∈ range n, (X r a : ℚ) * (X r b : ℚ) := by
  unfold gram; rw [sumRangeI_eq]; push_cast; rfl

/-- whatever the model's `firSolve` (Gauss–Jordan + exact residual check) returns solves the normal equations -/
theorem firSolve_solves {n p : ℕ} {X : ℕ → ℕ → ℤ} {y : ℕ → ℚ} {x : List ℚ}
    (hs : firSolve n p X y = some x) : SolvesNormal n p X y (fun b => x.getD b 0) := by
  unfold firSolve at hs
  split at hs
  · cases hs
  · split at hs
    · rename_i hchk
      injection hs with hx
      subst hx
      intro a ha
      have := (List.all_eq_true.mp hchk) a (List.mem_range.mpr ha)
      simp only [decide_eq_true_eq] at this
      unfold xty at this
      rw [sumRange_eq, sumRange_eq] at this
      simpa [gram_cast] using this
    · cases hs

theorem planted_solves {n p : ℕ} {X : ℕ → ℕ → ℤ} {y h : ℕ → ℚ}
    (hy : ∀ r < n, y r = ∑ c ∈ range p, (X r c : ℚ) * h c) : SolvesNormal n p X y h := by
  intro a _
  have e : ∑ r ∈ range n, (X r a : ℚ) * y r
      = ∑ r ∈ range n, (X r a : ℚ) * ∑ c ∈ range p, (X r c : ℚ) * h c :=
    Finset.sum_congr rfl (fun r hr => by rw [hy r (Finset.mem_range.mp hr)])
  rw [e]
  simp only [Finset.mul_sum, Finset.sum_mul]
  rw [Finset.sum_comm]
  apply Finset.sum_congr rfl; intro r _
  apply Finset.sum_congr rfl; intro c _; ring

theorem solves_unique {n p : ℕ} {X : ℕ → ℕ → ℤ} {y v w : ℕ → ℚ} (hrank : FullColumnRank n p X)
    (hv : SolvesNormal n p X y v) (hw : SolvesNormal n p X y w) : ∀ c < p, v c = w c := by
  have key := gram_kernel_trivial n p (fun r c => (X r c : ℚ)) (fun c => v c - w c) ?_ hrank
  · intro c hc; have := key c hc; linarith
  · intro a ha
    have h1 := hv a ha
    have h2 := hw a ha
    simp only [mul_sub, Finset.sum_sub_distrib]
    rw [h1, h2, sub_self]

/-- **fir_exact_recovery**: if the data are exactly `X·h` (responses may overlap arbitrarily) and the
design has full column rank, the model's FIR estimate IS `h` -/
theorem fir_exact_recovery {n p : ℕ} {X : ℕ → ℕ → ℤ} {y h : ℕ → ℚ} {x : List ℚ}
    (hs : firSolve n p X y = some x)
    (hy : ∀ r < n, y r = ∑ c ∈ range p, (X r c : ℚ) * h c)
    (hrank : FullColumnRank n p X) : ∀ c < p, x.getD c 0 = h c :=
  solves_unique hrank (firSolve_solves hs) (planted_solves hy)

/-- FIR on a planted signal, intended design (no sign factor): row b, lag j of the estimate is the
response of the b-th sorted code at lag j -/
theorem fir_recovers_planted (cur : Bool) (n : ℕ) (ev : ℕ → ℤ) (types : List ℤ) (L : ℕ)
    (resp : ℤ → ℕ → ℚ) (y : ℕ → ℚ) (x : List ℚ) (hnd : types.Nodup)
    (hcov : ∀ k < n, ev k ≠ 0 → ev k ∈ types)
    (hy : ∀ r < n, y r = planted n ev (signedResp cur resp) 0 L r)
    (hrank : FullColumnRank n (types.length * L) (designEntry cur ev types L))
    (hs : firSolve n (types.length * L) (designEntry cur ev types L) y = some x) :
    ∀ c < types.length * L, x.getD c 0 = resp (types.getD (c / L) 0) (c % L) := by
  apply fir_exact_recovery hs _ hrank
  intro r hr
  rw [hy r hr, ← design_times_h_is_planted cur n ev types L resp hnd hcov r hr]

theorem sgn_mul_self (t : ℤ) (ht : t ≠ 0) : (sgn true t : ℚ) * (sgn true t : ℚ) = 1 := by
  unfold sgn
  rcases lt_trichotomy t 0 with h | h | h
  · have : ¬ t > 0 := by omega
    simp [this, h]
  · exact absurd h ht
  · simp [h]

theorem sgn_neg (t : ℤ) (ht : t < 0) : (sgn true t : ℚ) = -1 := by
  unfold sgn
  have : ¬ t > 0 := by omega
  simp [this, ht]

/-- today's code (`cur = true`) on a signal planted with the plain responses: the estimate of a code's
response carries the factor `np.sign(code)` -/
theorem fir_current_sign (n : ℕ) (ev : ℕ → ℤ) (types : List ℤ) (L : ℕ)
    (resp : ℤ → ℕ → ℚ) (y : ℕ → ℚ) (x : List ℚ) (hnd : types.Nodup)
    (hcov : ∀ k < n, ev k ≠ 0 → ev k ∈ types)
    (hy : ∀ r < n, y r = planted n ev resp 0 L r)
    (hrank : FullColumnRank n (types.length * L) (designEntry true ev types L))
    (hs : firSolve n (types.length * L) (designEntry true ev types L) y = some x) :
    ∀ c < types.length * L,
      x.getD c 0 = (sgn true (types.getD (c / L) 0) : ℚ) * resp (types.getD (c / L) 0) (c % L) := by
  apply fir_recovers_planted true n ev types L (fun t j => (sgn true t : ℚ) * resp t j) y x hnd hcov _ hrank hs
  intro r hr
  rw [hy r hr]
  unfold planted signedResp
  rw [sumRange_eq, sumRange_eq]
  apply Finset.sum_congr rfl
  intro k _
  by_cases hc : ev k ≠ 0 ∧ k + 0 ≤ r ∧ r < k + 0 + L
  · rw [if_pos hc, if_pos hc, ← mul_assoc, sgn_mul_self _ hc.1, one_mul]
  · rw [if_neg hc, if_neg hc]

/-- **counterexample clause (finding `fir/negative-code/sign-flipped`)**: with today's sign factor a
negative code's non-zero response sample is NOT returned (it comes back negated) -/
theorem fir_negative_code_counterexample (n : ℕ) (ev : ℕ → ℤ) (types : List ℤ) (L : ℕ)
    (resp : ℤ → ℕ → ℚ) (y : ℕ → ℚ) (x : List ℚ) (hnd : types.Nodup)
    (hcov : ∀ k < n, ev k ≠ 0 → ev k ∈ types)
    (hy : ∀ r < n, y r = planted n ev resp 0 L r)
    (hrank : FullColumnRank n (types.length * L) (designEntry true ev types L))
    (hs : firSolve n (types.length * L) (designEntry true ev types L) y = some x)
    (c : ℕ) (hc : c < types.length * L) (hneg : types.getD (c / L) 0 < 0)
    (hnz : resp (types.getD (c / L) 0) (c % L) ≠ 0) :
    x.getD c 0 = - resp (types.getD (c / L) 0) (c % L) ∧
    x.getD c 0 ≠ resp (types.getD (c / L) 0) (c % L) := by
  have h := fir_current_sign n ev types L resp y x hnd hcov hy hrank hs c hc
  have hs' : (sgn true (types.getD (c / L) 0) : ℚ) = -1 := sgn_neg _ hneg
  rw [hs'] at h
  constructor
  · rw [h]; ring
  · rw [h]; intro e; apply hnz; linarith

/-- FIR is linear in the data (per channel): the estimate of `a·y₁ + y₂` is `a·ĥ₁ + ĥ₂` -/
theorem fir_linear {n p : ℕ} {X : ℕ → ℕ → ℤ} {y1 y2 : ℕ → ℚ} {x1 x2 x3 : List ℚ} (a : ℚ)
    (hrank : FullColumnRank n p X)
    (h1 : firSolve n p X y1 = some x1) (h2 : firSolve n p X y2 = some x2)
    (h3 : firSolve n p X (fun r => a * y1 r + y2 r) = some x3) :
    ∀ c < p, x3.getD c 0 = a * x1.getD c 0 + x2.getD c 0 := by
  apply solves_unique hrank (firSolve_solves h3)
  intro b hb
  have e1 := firSolve_solves h1 b hb
  have e2 := firSolve_solves h2 b hb
  simp only [mul_add, Finset.sum_add_distrib] at e1 e2 ⊢
  have : ∀ (f g : ℕ → ℚ), ∑ i ∈ range p, f i * (a * g i) = a * ∑ i ∈ range p, f i * g i := by
    intro f g; rw [Finset.mul_sum]; apply Finset.sum_congr rfl; intro i _; ring
  rw [this, e1, e2]
  have : ∀ (f g : ℕ → ℚ), ∑ i ∈ range n, f i * (a * g i) = a * ∑ i ∈ range n, f i * g i := by
    intro f g; rw [Finset.mul_sum]; apply Finset.sum_congr rfl; intro i _; ring
  rw [this]

/-! ### event-triggered average / standard error -/

theorem mem_positions {n : ℕ} {ev : ℕ → ℤ} {t : ℤ} {k : ℕ} :
    k ∈ positions n ev t ↔ k < n ∧ ev k = t := by
  simp [positions]

/-- the response windows of any two distinct events are disjoint -/
def Separated (n : ℕ) (ev : ℕ → ℤ) (L : ℕ) : Prop :=
  ∀ k < n, ∀ k' < n, ev k ≠ 0 → ev k' ≠ 0 → k ≠ k' → k + L ≤ k' ∨ k' + L ≤ k

/-- inside the window of a separated event the planted signal is that event's response alone -/
theorem planted_at_window (n : ℕ) (ev : ℕ → ℤ) (resp : ℤ → ℕ → ℚ) (off L : ℕ)
    (hsep : Separated n ev L) (k : ℕ) (hk : k < n) (hev : ev k ≠ 0) (j : ℕ) (hj : j < L) :
    planted n ev resp off L (k + off + j) = resp (ev k) j := by
  unfold planted
  rw [sumRange_eq, Finset.sum_eq_single k]
  · rw [if_pos ⟨hev, by omega, by omega⟩]; congr 1; omega
  · intro k' hk' hne
    rw [if_neg]
    rintro ⟨h1, h2, h3⟩
    rcases hsep k hk k' (Finset.mem_range.mp hk') hev h1 (Ne.symm hne) with h | h <;> omega
  · intro h; exact absurd (Finset.mem_range.mpr hk) h

/-- what the average must return: the response, or the response minus its first sample under
`correct_baseline` -/
def etaTruth (cb : Bool) (resp : ℤ → ℕ → ℚ) (t : ℤ) (j : ℕ) : ℚ :=
  if cb then resp t j - resp t 0 else resp t j

theorem trig_planted (cb : Bool) (n : ℕ) (ev : ℕ → ℤ) (resp : ℤ → ℕ → ℚ) (off L : ℕ) (data : ℕ → ℚ)
    (hdata : ∀ p, data p = planted n ev resp off L p) (hsep : Separated n ev L)
    (t : ℤ) (ht : t ≠ 0) (j : ℕ) (hj : j < L) (k : ℕ) (hk : k ∈ positions n ev t) :
    trig cb data off j k = etaTruth cb resp t j := by
  obtain ⟨hkn, hkt⟩ := mem_positions.mp hk
  have hev : ev k ≠ 0 := by rw [hkt]; exact ht
  have e1 := planted_at_window n ev resp off L hsep k hkn hev j hj
  have e0 := planted_at_window n ev resp off L hsep k hkn hev 0 (by omega)
  unfold trig etaTruth
  rw [hdata, hdata, e1, show k + off = k + off + 0 from rfl, e0, hkt]

theorem meanOver_const (idx : List ℕ) (f : ℕ → ℚ) (c : ℚ) (hne : idx ≠ [])
    (hf : ∀ k ∈ idx, f k = c) : meanOver idx f = c := by
  unfold meanOver
  rw [List.map_congr_left hf, List.map_const', List.sum_replicate, nsmul_eq_mul]
  have : (idx.length : ℚ) ≠ 0 := by
    simpa [List.length_eq_zero_iff] using hne
  exact mul_div_cancel_left₀ c this

/-- **eta_exact_no_overlap**: on a noise-free planted signal whose event windows do not overlap, the
event-triggered average of every occurring code is exactly its response (minus the first sample
under `correct_baseline`), for every offset -/
theorem eta_exact_no_overlap (cb : Bool) (n : ℕ) (ev : ℕ → ℤ) (resp : ℤ → ℕ → ℚ) (off L : ℕ)
    (data : ℕ → ℚ) (hdata : ∀ p, data p = planted n ev resp off L p) (hsep : Separated n ev L)
    (t : ℤ) (ht : t ≠ 0) (hex : ∃ k < n, ev k = t) (j : ℕ) (hj : j < L) :
    etaRow cb data (positions n ev t) off j = etaTruth cb resp t j := by
  unfold etaRow
  apply meanOver_const
  · obtain ⟨k, hk, hkt⟩ := hex
    exact List.ne_nil_of_mem (mem_positions.mpr ⟨hk, hkt⟩)
  · exact fun k hk => trig_planted cb n ev resp off L data hdata hsep t ht j hj k hk

/-- **ets_zero**: under the same hypotheses the squared standard error is exactly 0 (the driver
prints `sqrt` of it, and `nan` when the code occurs only once, as scipy does) -/
theorem ets_zero (cb : Bool) (n : ℕ) (ev : ℕ → ℤ) (resp : ℤ → ℕ → ℚ) (off L : ℕ)
    (data : ℕ → ℚ) (hdata : ∀ p, data p = planted n ev resp off L p) (hsep : Separated n ev L)
    (t : ℤ) (ht : t ≠ 0) (hex : ∃ k < n, ev k = t) (j : ℕ) (hj : j < L) :
    semSqRow cb data (positions n ev t) off j = 0 := by
  unfold semSqRow
  rw [eta_exact_no_overlap cb n ev resp off L data hdata hsep t ht hex j hj]
  have hz : ∀ k ∈ positions n ev t,
      (trig cb data off j k - etaTruth cb resp t j) * (trig cb data off j k - etaTruth cb resp t j) = 0 := by
    intro k hk
    rw [trig_planted cb n ev resp off L data hdata hsep t ht j hj k hk, sub_self, mul_zero]
  simp only []
  rw [List.map_congr_left hz, List.map_const', List.sum_replicate]
  simp

/-- **estimates_linear (eta)**: the event-triggered average is linear in the data -/
theorem eta_linear (cb : Bool) (x y : ℕ → ℚ) (a : ℚ) (idx : List ℕ) (off j : ℕ) :
    etaRow cb (fun p => a * x p + y p) idx off j
      = a * etaRow cb x idx off j + etaRow cb y idx off j := by
  unfold etaRow meanOver
  have h : ∀ k, trig cb (fun p => a * x p + y p) off j k
      = a * trig cb x off j k + trig cb y off j k := by
    intro k; unfold trig; split <;> ring
  rw [funext h]
  rw [List.sum_map_add, List.sum_map_mul_left]; ring

/-! ### the two event representations, and the time axis -/

/-- zero padding by `offset`: the padded sample `offset + j` after the padded event position `k + offset`
is the original sample `k + offset + j` -/
theorem padFn_window (o N : ℕ) (x : ℕ → ℚ) (k j : ℕ) (h : k + o + j < N) :
    padFn 0 o N x ((k + o) + o + j) = x (k + o + j) := by
  unfold padFn
  rw [if_pos ⟨by omega, by omega⟩]; congr 1; omega

/-- **eta_repr_equiv**: events at original samples `ks`.  Series branch: they sit at `k + offset` in the
zero-padded event series and the average reads the padded data; Events branch (with the intended
baseline handling): integer indices `k`, no padding.  Same average whenever the windows are inside
the recording. -/
theorem eta_repr_equiv (cb : Bool) (o N : ℕ) (x : ℕ → ℚ) (ks : List ℕ) (j : ℕ)
    (hin : ∀ k ∈ ks, k + o + j < N) :
    etaRow cb (padFn 0 o N x) (ks.map (· + o)) o j
      = etaRowZ cb N x (ks.map Int.ofNat) (o : ℤ) j := by
  unfold etaRow meanOver etaRowZ
  simp only [List.map_map, List.length_map]
  congr 1
  congr 1
  apply List.map_congr_left
  intro k hk
  have h := hin k hk
  have w1 := padFn_window o N x k j h
  have w0 := padFn_window o N x k 0 (by omega)
  simp only [Function.comp, trig, trigZ, dataZ]
  show _ = (if cb then _ else _)
  simp only [Int.ofNat_eq_natCast]
  have n1 : (0 : ℤ) ≤ (k : ℤ) + (o : ℤ) + (j : ℤ) := by omega
  have n0 : (0 : ℤ) ≤ (k : ℤ) + (o : ℤ) := by omega
  have t1 : ((k : ℤ) + (o : ℤ) + (j : ℤ)).toNat = k + o + j := by omega
  have t0 : ((k : ℤ) + (o : ℤ)).toNat = k + o := by omega
  rw [if_pos n1, if_pos n0, t1, t0, w1]
  rw [show k + o + o = k + o + o + 0 from rfl, w0]
  rfl

/-- **axis_starts_at_offset**: the output axis starts at `t0 = offset · sampling_interval`, and sample j
of the window of the event at original sample k is the original sample whose time is
`k·Δ + t0 + j·Δ` -/
theorem axis_starts_at_offset (si : ℤ) (o N : ℕ) (x : ℕ → ℚ) (k j : ℕ) (h : k + o + j < N) :
    t0Ps o si = o * si ∧ padFn 0 o N x ((k + o) + o + j) = x (k + o + j) ∧
    ((k + o + j : ℕ) : ℤ) * si = k * si + (t0Ps o si + j * si) := by
  refine ⟨rfl, padFn_window o N x k j h, ?_⟩
  unfold t0Ps; push_cast; ring

/-! ### non-vacuity: a concrete overlapping two-type design (codes 1 and -2, L = 2) meeting every
hypothesis of the FIR theorems, and a separated one for the averaging theorems.  (`firSolve` itself
is run on these very designs by the driver on every check: `fixed_specs` in harness/c19.py.) -/

def evA : ℕ → ℤ := fun k => if k = 0 then 1 else if k = 1 then -2 else if k = 3 then 1 else 0
def respA : ℤ → ℕ → ℚ := fun t j => if t = 1 then (if j = 0 then 3 else 5) else (if j = 0 then 7 else 4)
def yA : ℕ → ℚ := fun r =>
  if r = 0 then 3 else if r = 1 then 12 else if r = 2 then 4 else if r = 3 then 3 else if r = 4 then 5 else 0

example : eventTypes ((List.range 6).map evA) = [-2, 1] := by decide

/-- responses of the events at 0 and 1 overlap at sample 1 (3,5 + 7,4 → 12) -/
example : ∀ r < 6, yA r = planted 6 evA (signedResp false respA) 0 2 r := by
  intro r hr
  interval_cases r <;>
    simp [planted, sumRange, List.range, List.range.loop, evA, yA, signedResp, sgn, respA]
  norm_num

theorem fullRank_A : FullColumnRank 6 4 (designEntry false evA [-2, 1] 2) := by
  intro v hv c hc
  have h0 := hv 0 (by omega)
  have h1 := hv 1 (by omega)
  have h2 := hv 2 (by omega)
  have h4 := hv 4 (by omega)
  simp [Finset.sum_range_succ, designEntry, sgn, evA] at h0 h1 h2 h4
  rw [h4] at h1
  interval_cases c <;> simp_all

/-- a design that is NOT separated can still be full rank (so `fir_exact_recovery` really covers overlaps) -/
example : ¬ Separated 6 evA 2 := by
  intro h
  have := h 0 (by omega) 1 (by omega) (by simp [evA]) (by simp [evA]) (by omega)
  omega

def evB : ℕ → ℤ := fun k => if k = 1 then 2 else if k = 4 then -1 else if k = 7 then 2 else 0

theorem separated_B : Separated 10 evB 2 := by
  intro k hk k' hk'
  interval_cases k <;> interval_cases k' <;> simp [evB]

/-- instance of `eta_exact_no_overlap` / `ets_zero` (code -1, offset 1, baseline correction on) -/
example (resp : ℤ → ℕ → ℚ) (j : ℕ) (hj : j < 2) :
    etaRow true (planted 10 evB resp 1 2) (positions 10 evB (-1)) 1 j = resp (-1) j - resp (-1) 0 ∧
    semSqRow true (planted 10 evB resp 1 2) (positions 10 evB (-1)) 1 j = 0 :=
  ⟨by simpa [etaTruth] using eta_exact_no_overlap true 10 evB resp 1 2 _ (fun _ => rfl) separated_B (-1)
        (by omega) ⟨4, by omega, by simp [evB]⟩ j hj,
   ets_zero true 10 evB resp 1 2 _ (fun _ => rfl) separated_B (-1) (by omega) ⟨4, by omega, by simp [evB]⟩ j hj⟩

end Nitime.C19.Props
