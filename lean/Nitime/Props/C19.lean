/-
C19 — property theorems for the event-related estimators model (`Nitime.C19`).

Every theorem is about the executable definitions of `Nitime/Model/C19.lean` at the instance the
driver runs (`Rat`, exact).  Which code each definition mirrors is listed in the model's header.
Sums are written with `Finset.range`; `sumRange_eq` (Lemmas/C19Lin) is the bridge to the model's
list sums.  Not proved: binary64 rounding of numpy/LAPACK (the model computes exactly), and the
string/shape layer of the driver.
-/
import Nitime.Model.C19
import Nitime.Lemmas.C19Lin
import Nitime.Lemmas.C19Elim
import Nitime.Lemmas.C19Pinv
import Mathlib.Tactic.IntervalCases
import Mathlib.Tactic.NormNum

namespace Nitime.C19.Props
open Nitime.C19 Finset

/-! ### results are ordered by sorted event code -/

/-- `eventTypes` (= `np.unique(ev)[… != 0]`) is strictly increasing and holds exactly the non-zero
codes; row b of every estimator belongs to `(eventTypes ev)[b]` -/
theorem results_sorted_by_code (xs : List ℤ) :
    (eventTypes xs).Pairwise (· < ·) ∧ ∀ t, t ∈ eventTypes xs ↔ (t ∈ xs ∧ t ≠ 0) := by
  constructor
  · exact (pairwise_uniqueSorted xs).filter _
  · intro t; simp [eventTypes, mem_uniqueSorted]

example : eventTypes [3, 0, -1, 2, 2, 0, 3] = [-1, 2, 3] := by decide

/-! ### the design matrix -/

/-- the closed-form entry equals the code's accumulation over events (`+= eye(L) * sign`) -/
theorem designEntry_eq_eventSum (cur : Bool) (n : ℕ) (ev : ℕ → ℤ) (types : List ℤ) (L r c : ℕ)
    (hr : r < n) :
    designEventSum cur n ev types L r c = designEntry cur ev types L r c := by
  unfold designEventSum designEntry
  simp only [sumRangeI_eq]
  set t := types.getD (c / L) 0
  set j := c % L
  by_cases hj : j ≤ r
  · rw [Finset.sum_eq_single (r - j)]
    · have e1 : r - j ≤ r := Nat.sub_le _ _
      have e2 : r - (r - j) = j := by omega
      simp only [e1, e2, hj, true_and, and_true]
    · intro k _ hk
      rw [if_neg]
      rintro ⟨_, _, h1, h2⟩
      omega
    · intro h
      exact absurd (Finset.mem_range.mpr (by omega)) h
  · rw [if_neg (by tauto)]
    apply Finset.sum_eq_zero
    intro k _
    rw [if_neg]
    rintro ⟨_, _, h1, h2⟩
    omega

/-- the signed planted signal: every event adds `sign(code) * response(code)` from its own sample on -/
def signedResp (cur : Bool) (resp : ℤ → ℕ → ℚ) : ℤ → ℕ → ℚ := fun t j => (sgn cur t : ℚ) * resp t j

/-- **design_times_h_is_planted**: row r of `X·h`, with `h` laid out by sorted type (the FIR output
layout, coefficient c = b*L+j ↦ response of `types[b]` at lag j), is the superposition of the
(signed) responses of all events — overlaps included.  `types` only needs to list every occurring
non-zero code once (true for `eventTypes`, see `results_sorted_by_code`). -/
theorem design_times_h_is_planted (cur : Bool) (n : ℕ) (ev : ℕ → ℤ) (types : List ℤ) (L : ℕ)
    (resp : ℤ → ℕ → ℚ) (hnd : types.Nodup)
    (hcov : ∀ k < n, ev k ≠ 0 → ev k ∈ types) (r : ℕ) (hr : r < n) :
    ∑ c ∈ range (types.length * L),
        (designEntry cur ev types L r c : ℚ) * resp (types.getD (c / L) 0) (c % L)
      = planted n ev (signedResp cur resp) 0 L r := by
  rw [sum_range_flat]
  unfold planted
  rw [sumRange_eq]
  -- evaluate the inner sum over blocks for a fixed lag j
  have inner : ∀ j ∈ range L, ∑ b ∈ range types.length,
        (designEntry cur ev types L r (b * L + j) : ℚ) * resp (types.getD ((b * L + j) / L) 0) ((b * L + j) % L)
      = if j ≤ r ∧ ev (r - j) ≠ 0 then signedResp cur resp (ev (r - j)) j else 0 := by
    intro j hj
    have hjL : j < L := Finset.mem_range.mp hj
    have hL : 0 < L := by omega
    have hdiv : ∀ b, (b * L + j) / L = b := by
      intro b; rw [Nat.mul_comm, Nat.mul_add_div hL, Nat.div_eq_of_lt hjL, Nat.add_zero]
    have hmod : ∀ b, (b * L + j) % L = j := by
      intro b; rw [Nat.mul_comm, Nat.mul_add_mod, Nat.mod_eq_of_lt hjL]
    simp only [designEntry, hdiv, hmod]
    by_cases hc : j ≤ r ∧ ev (r - j) ≠ 0
    · rw [if_pos hc]
      obtain ⟨b0, hb0, hb0e⟩ := List.getElem_of_mem (hcov (r - j) (by omega) hc.2)
      have hget : ∀ b, b < types.length → types.getD b 0 = types[b]! := by
        intro b hb; simp [List.getD_eq_getElem?_getD, hb]
      rw [Finset.sum_eq_single b0]
      · have : types.getD b0 0 = ev (r - j) := by
          rw [List.getD_eq_getElem?_getD, List.getElem?_eq_getElem hb0]; simpa using hb0e
        rw [this]
        simp [hc.1, hc.2, signedResp]
      · intro b hb hne
        have hb' := Finset.mem_range.mp hb
        rw [if_neg, Int.cast_zero, zero_mul]
        rintro ⟨_, h2, _⟩
        apply hne
        have e1 : types.getD b 0 = types[b] := by
          rw [List.getD_eq_getElem?_getD, List.getElem?_eq_getElem hb']; rfl
        rw [e1, ← hb0e] at h2
        exact ((List.Nodup.getElem_inj_iff hnd).mp h2).symm
      · intro h; exact absurd (Finset.mem_range.mpr hb0) h
    · rw [if_neg hc]
      apply Finset.sum_eq_zero
      intro b hb
      have hb' := Finset.mem_range.mp hb
      rw [if_neg, Int.cast_zero, zero_mul]
      rintro ⟨h1, h2, h3⟩
      exact hc ⟨h1, by rw [h2]; exact h3⟩
  rw [Finset.sum_comm, Finset.sum_congr rfl inner]
  -- reindex lag j ↔ event position k = r - j
  rw [← Finset.sum_filter, ← Finset.sum_filter]
  apply Finset.sum_nbij' (fun j => r - j) (fun k => r - k)
  · intro j hj
    simp only [Finset.mem_filter, Finset.mem_range] at hj ⊢
    refine ⟨by omega, hj.2.2, by omega, by omega⟩
  · intro k hk
    simp only [Finset.mem_filter, Finset.mem_range] at hk ⊢
    obtain ⟨_, h1, h2, h3⟩ := hk
    have : r - (r - k) = k := by omega
    refine ⟨by omega, by omega, by rw [this]; exact h1⟩
  · intro j hj
    simp only [Finset.mem_filter, Finset.mem_range] at hj
    omega
  · intro k hk
    simp only [Finset.mem_filter, Finset.mem_range] at hk
    omega
  · intro j hj
    simp only [Finset.mem_filter, Finset.mem_range] at hj
    have : r - (r - j + 0) = j := by omega
    rw [this]

/-! ### FIR: exact recovery, overlaps allowed -/

/-- `v` solves the normal equations `XᵀX v = Xᵀy` -/
def SolvesNormal (n p : ℕ) (X : ℕ → ℕ → ℤ) (y v : ℕ → ℚ) : Prop :=
  ∀ a < p, ∑ b ∈ range p, (∑ r ∈ range n, (X r a : ℚ) * (X r b : ℚ)) * v b
            = ∑ r ∈ range n, (X r a : ℚ) * y r

/-- the first p columns of X are linearly independent over the n rows -/
def FullColumnRank (n p : ℕ) (X : ℕ → ℕ → ℤ) : Prop :=
  ∀ v : ℕ → ℚ, (∀ r < n, ∑ c ∈ range p, (X r c : ℚ) * v c = 0) → ∀ c < p, v c = 0

theorem gram_cast (n : ℕ) (X : ℕ → ℕ → ℤ) (a b : ℕ) :
    ((gram n X a b : ℤ) : ℚ) = ∑ r ∈ range n, (X r a : ℚ) * (X r b : ℚ) := by
  unfold gram; rw [sumRangeI_eq]; push_cast; rfl

theorem length_normalRows (n p : ℕ) (X : ℕ → ℕ → ℤ) (y : ℕ → ℚ) : (normalRows n p X y).length = p := by
  simp [normalRows]

theorem normalRow_mem (n p : ℕ) (X : ℕ → ℕ → ℤ) (y : ℕ → ℚ) (a : ℕ) (ha : a < p) :
    (((List.range p).map fun b => ((gram n X a b : ℤ) : ℚ)) ++ [xty n X y a]) ∈ normalRows n p X y :=
  List.mem_map.mpr ⟨a, List.mem_range.mpr ha, rfl⟩

theorem normalRow_getD_lt (n p : ℕ) (X : ℕ → ℕ → ℤ) (y : ℕ → ℚ) (a c : ℕ) (hc : c < p) :
    (((List.range p).map fun b => ((gram n X a b : ℤ) : ℚ)) ++ [xty n X y a]).getD c 0
      = ((gram n X a c : ℤ) : ℚ) := by
  simp [List.getD_eq_getElem?_getD, List.getElem?_append_left, hc]

theorem normalRow_getD_p (n p : ℕ) (X : ℕ → ℕ → ℤ) (y : ℕ → ℚ) (a : ℕ) :
    (((List.range p).map fun b => ((gram n X a b : ℤ) : ℚ)) ++ [xty n X y a]).getD p 0 = xty n X y a := by
  simp [List.getD_eq_getElem?_getD]

/-- whatever the model's `firSolve` (Gaussian elimination `elimSolve`) returns solves the normal equations -/
theorem firSolve_solves {n p : ℕ} {X : ℕ → ℕ → ℤ} {y : ℕ → ℚ} {x : List ℚ}
    (hs : firSolve n p X y = some x) : SolvesNormal n p X y (fun b => x.getD b 0) := by
  intro a ha
  have h := elimSolve_sound p _ x (length_normalRows n p X y) hs _ (normalRow_mem n p X y a ha)
  rw [normalRow_getD_p] at h
  have hx : xty n X y a = ∑ r ∈ range n, (X r a : ℚ) * y r := by unfold xty; rw [sumRange_eq]
  rw [← hx, ← h]
  apply Finset.sum_congr rfl
  intro c hc
  rw [normalRow_getD_lt n p X y a c (Finset.mem_range.mp hc), gram_cast]

/-- on a full-column-rank design the model's `firSolve` always returns an estimate -/
theorem firSolve_total {n p : ℕ} {X : ℕ → ℕ → ℤ} (y : ℕ → ℚ) (hrank : FullColumnRank n p X) :
    (firSolve n p X y).isSome := by
  apply elimSolve_total p _ (length_normalRows n p X y)
  intro v hv
  apply gram_kernel_trivial n p (fun r c => (X r c : ℚ)) v _ hrank
  intro a ha
  have h := hv _ (normalRow_mem n p X y a ha)
  rw [← h]
  apply Finset.sum_congr rfl
  intro c hc
  rw [normalRow_getD_lt n p X y a c (Finset.mem_range.mp hc), gram_cast]

theorem planted_solves {n p : ℕ} {X : ℕ → ℕ → ℤ} {y h : ℕ → ℚ}
    (hy : ∀ r < n, y r = ∑ c ∈ range p, (X r c : ℚ) * h c) : SolvesNormal n p X y h := by
  intro a _
  have e : ∑ r ∈ range n, (X r a : ℚ) * y r
      = ∑ r ∈ range n, (X r a : ℚ) * ∑ c ∈ range p, (X r c : ℚ) * h c :=
    Finset.sum_congr rfl (fun r hr => by rw [hy r (Finset.mem_range.mp hr)])
  rw [e]
  simp only [Finset.mul_sum, Finset.sum_mul]
  rw [Finset.sum_comm]
  apply Finset.sum_congr rfl; intro r _
  apply Finset.sum_congr rfl; intro c _; ring

theorem solves_unique {n p : ℕ} {X : ℕ → ℕ → ℤ} {y v w : ℕ → ℚ} (hrank : FullColumnRank n p X)
    (hv : SolvesNormal n p X y v) (hw : SolvesNormal n p X y w) : ∀ c < p, v c = w c := by
  have key := gram_kernel_trivial n p (fun r c => (X r c : ℚ)) (fun c => v c - w c) ?_ hrank
  · intro c hc; have := key c hc; linarith
  · intro a ha
    have h1 := hv a ha
    have h2 := hw a ha
    simp only [mul_sub, Finset.sum_sub_distrib]
    rw [h1, h2, sub_self]

/-- **fir_exact_recovery** (the estimator `algorithms.fir` mirrors, ĥ = (XᵀX)⁻¹Xᵀy, i.e. THE solution of
the normal equations): if the data are exactly `X·h` — responses may overlap arbitrarily — and the
design has full column rank, then `h` solves the normal equations and is their only solution -/
theorem fir_exact_recovery {n p : ℕ} {X : ℕ → ℕ → ℤ} {y h : ℕ → ℚ}
    (hy : ∀ r < n, y r = ∑ c ∈ range p, (X r c : ℚ) * h c)
    (hrank : FullColumnRank n p X) :
    SolvesNormal n p X y h ∧ ∀ v, SolvesNormal n p X y v → ∀ c < p, v c = h c :=
  ⟨planted_solves hy, fun _ hv => solves_unique hrank hv (planted_solves hy)⟩

/-- the executable `firSolve` (what the driver runs): whenever it returns an estimate, the estimate IS `h` -/
theorem firSolve_exact {n p : ℕ} {X : ℕ → ℕ → ℤ} {y h : ℕ → ℚ} {x : List ℚ}
    (hs : firSolve n p X y = some x)
    (hy : ∀ r < n, y r = ∑ c ∈ range p, (X r c : ℚ) * h c)
    (hrank : FullColumnRank n p X) : ∀ c < p, x.getD c 0 = h c :=
  (fir_exact_recovery hy hrank).2 _ (firSolve_solves hs)

/-- **fir_exact_recovery, executable form**: full column rank and y = X·h ⇒ the model's `firSolve`
returns an estimate, and it is `h` (elimination proved total and sound: Lemmas/C19Elim.lean) -/
theorem firSolve_recovers {n p : ℕ} {X : ℕ → ℕ → ℤ} {y h : ℕ → ℚ}
    (hy : ∀ r < n, y r = ∑ c ∈ range p, (X r c : ℚ) * h c)
    (hrank : FullColumnRank n p X) :
    ∃ x, firSolve n p X y = some x ∧ ∀ c < p, x.getD c 0 = h c := by
  obtain ⟨x, hx⟩ := Option.isSome_iff_exists.mp (firSolve_total y hrank)
  exact ⟨x, hx, firSolve_exact hx hy hrank⟩

/-- FIR on a planted signal, intended design (no sign factor): row b, lag j of the estimate is the
response of the b-th sorted code at lag j -/
theorem fir_recovers_planted (cur : Bool) (n : ℕ) (ev : ℕ → ℤ) (types : List ℤ) (L : ℕ)
    (resp : ℤ → ℕ → ℚ) (y : ℕ → ℚ) (x : List ℚ) (hnd : types.Nodup)
    (hcov : ∀ k < n, ev k ≠ 0 → ev k ∈ types)
    (hy : ∀ r < n, y r = planted n ev (signedResp cur resp) 0 L r)
    (hrank : FullColumnRank n (types.length * L) (designEntry cur ev types L))
    (hs : firSolve n (types.length * L) (designEntry cur ev types L) y = some x) :
    ∀ c < types.length * L, x.getD c 0 = resp (types.getD (c / L) 0) (c % L) := by
  apply firSolve_exact hs _ hrank
  intro r hr
  rw [hy r hr, ← design_times_h_is_planted cur n ev types L resp hnd hcov r hr]

theorem sgn_mul_self (t : ℤ) (ht : t ≠ 0) : (sgn true t : ℚ) * (sgn true t : ℚ) = 1 := by
  unfold sgn
  rcases lt_trichotomy t 0 with h | h | h
  · have : ¬ t > 0 := by omega
    simp [this, h]
  · exact absurd h ht
  · simp [h]

theorem sgn_neg (t : ℤ) (ht : t < 0) : (sgn true t : ℚ) = -1 := by
  unfold sgn
  have : ¬ t > 0 := by omega
  simp [this, ht]

/-- today's code (`cur = true`) on a signal planted with the plain responses: the estimate of a code's
response carries the factor `np.sign(code)` -/
theorem fir_current_sign (n : ℕ) (ev : ℕ → ℤ) (types : List ℤ) (L : ℕ)
    (resp : ℤ → ℕ → ℚ) (y : ℕ → ℚ) (x : List ℚ) (hnd : types.Nodup)
    (hcov : ∀ k < n, ev k ≠ 0 → ev k ∈ types)
    (hy : ∀ r < n, y r = planted n ev resp 0 L r)
    (hrank : FullColumnRank n (types.length * L) (designEntry true ev types L))
    (hs : firSolve n (types.length * L) (designEntry true ev types L) y = some x) :
    ∀ c < types.length * L,
      x.getD c 0 = (sgn true (types.getD (c / L) 0) : ℚ) * resp (types.getD (c / L) 0) (c % L) := by
  apply fir_recovers_planted true n ev types L (fun t j => (sgn true t : ℚ) * resp t j) y x hnd hcov _ hrank hs
  intro r hr
  rw [hy r hr]
  unfold planted signedResp
  rw [sumRange_eq, sumRange_eq]
  apply Finset.sum_congr rfl
  intro k _
  by_cases hc : ev k ≠ 0 ∧ k + 0 ≤ r ∧ r < k + 0 + L
  · rw [if_pos hc, if_pos hc, ← mul_assoc, sgn_mul_self _ hc.1, one_mul]
  · rw [if_neg hc, if_neg hc]

/-- **counterexample clause (finding `fir/negative-code/sign-flipped`)**: with today's sign factor a
negative code's non-zero response sample is NOT returned (it comes back negated) -/
theorem fir_negative_code_counterexample (n : ℕ) (ev : ℕ → ℤ) (types : List ℤ) (L : ℕ)
    (resp : ℤ → ℕ → ℚ) (y : ℕ → ℚ) (x : List ℚ) (hnd : types.Nodup)
    (hcov : ∀ k < n, ev k ≠ 0 → ev k ∈ types)
    (hy : ∀ r < n, y r = planted n ev resp 0 L r)
    (hrank : FullColumnRank n (types.length * L) (designEntry true ev types L))
    (hs : firSolve n (types.length * L) (designEntry true ev types L) y = some x)
    (c : ℕ) (hc : c < types.length * L) (hneg : types.getD (c / L) 0 < 0)
    (hnz : resp (types.getD (c / L) 0) (c % L) ≠ 0) :
    x.getD c 0 = - resp (types.getD (c / L) 0) (c % L) ∧
    x.getD c 0 ≠ resp (types.getD (c / L) 0) (c % L) := by
  have h := fir_current_sign n ev types L resp y x hnd hcov hy hrank hs c hc
  have hs' : (sgn true (types.getD (c / L) 0) : ℚ) = -1 := sgn_neg _ hneg
  rw [hs'] at h
  constructor
  · rw [h]; ring
  · rw [h]; intro e; apply hnz; linarith

/-- FIR is linear in the data (per channel): the estimate of `a·y₁ + y₂` is `a·ĥ₁ + ĥ₂` -/
theorem fir_linear {n p : ℕ} {X : ℕ → ℕ → ℤ} {y1 y2 : ℕ → ℚ} {x1 x2 x3 : List ℚ} (a : ℚ)
    (hrank : FullColumnRank n p X)
    (h1 : firSolve n p X y1 = some x1) (h2 : firSolve n p X y2 = some x2)
    (h3 : firSolve n p X (fun r => a * y1 r + y2 r) = some x3) :
    ∀ c < p, x3.getD c 0 = a * x1.getD c 0 + x2.getD c 0 := by
  apply solves_unique hrank (firSolve_solves h3)
  intro b hb
  have e1 := firSolve_solves h1 b hb
  have e2 := firSolve_solves h2 b hb
  simp only [mul_add, Finset.sum_add_distrib] at e1 e2 ⊢
  have : ∀ (f g : ℕ → ℚ), ∑ i ∈ range p, f i * (a * g i) = a * ∑ i ∈ range p, f i * g i := by
    intro f g; rw [Finset.mul_sum]; apply Finset.sum_congr rfl; intro i _; ring
  rw [this, e1, e2]
  have : ∀ (f g : ℕ → ℚ), ∑ i ∈ range n, f i * (a * g i) = a * ∑ i ∈ range n, f i * g i := by
    intro f g; rw [Finset.mul_sum]; apply Finset.sum_congr rfl; intro i _; ring
  rw [this]

/-! ### event-triggered average / standard error -/

theorem mem_positions {n : ℕ} {ev : ℕ → ℤ} {t : ℤ} {k : ℕ} :
    k ∈ positions n ev t ↔ k < n ∧ ev k = t := by
  simp [positions]

/-- the response windows of any two distinct events are disjoint -/
def Separated (n : ℕ) (ev : ℕ → ℤ) (L : ℕ) : Prop :=
  ∀ k < n, ∀ k' < n, ev k ≠ 0 → ev k' ≠ 0 → k ≠ k' → k + L ≤ k' ∨ k' + L ≤ k

/-- inside the window of a separated event the planted signal is that event's response alone -/
theorem planted_at_window (n : ℕ) (ev : ℕ → ℤ) (resp : ℤ → ℕ → ℚ) (off L : ℕ)
    (hsep : Separated n ev L) (k : ℕ) (hk : k < n) (hev : ev k ≠ 0) (j : ℕ) (hj : j < L) :
    planted n ev resp off L (k + off + j) = resp (ev k) j := by
  unfold planted
  rw [sumRange_eq, Finset.sum_eq_single k]
  · rw [if_pos ⟨hev, by omega, by omega⟩]; congr 1; omega
  · intro k' hk' hne
    rw [if_neg]
    rintro ⟨h1, h2, h3⟩
    rcases hsep k hk k' (Finset.mem_range.mp hk') hev h1 (Ne.symm hne) with h | h <;> omega
  · intro h; exact absurd (Finset.mem_range.mpr hk) h

/-- what the average must return: the response, or the response minus its first sample under
`correct_baseline` -/
def etaTruth (cb : Bool) (resp : ℤ → ℕ → ℚ) (t : ℤ) (j : ℕ) : ℚ :=
  if cb then resp t j - resp t 0 else resp t j

theorem trig_planted (cb : Bool) (n : ℕ) (ev : ℕ → ℤ) (resp : ℤ → ℕ → ℚ) (off L : ℕ) (data : ℕ → ℚ)
    (hdata : ∀ p, data p = planted n ev resp off L p) (hsep : Separated n ev L)
    (t : ℤ) (ht : t ≠ 0) (j : ℕ) (hj : j < L) (k : ℕ) (hk : k ∈ positions n ev t) :
    trig cb data off j k = etaTruth cb resp t j := by
  obtain ⟨hkn, hkt⟩ := mem_positions.mp hk
  have hev : ev k ≠ 0 := by rw [hkt]; exact ht
  have e1 := planted_at_window n ev resp off L hsep k hkn hev j hj
  have e0 := planted_at_window n ev resp off L hsep k hkn hev 0 (by omega)
  unfold trig etaTruth
  rw [hdata, hdata, e1, show k + off = k + off + 0 from rfl, e0, hkt]

theorem meanOver_const (idx : List ℕ) (f : ℕ → ℚ) (c : ℚ) (hne : idx ≠ [])
    (hf : ∀ k ∈ idx, f k = c) : meanOver idx f = c := by
  unfold meanOver
  rw [List.map_congr_left hf, List.map_const', List.sum_replicate, nsmul_eq_mul]
  have : (idx.length : ℚ) ≠ 0 := by
    simpa [List.length_eq_zero_iff] using hne
  exact mul_div_cancel_left₀ c this

/-- **eta_exact_no_overlap**: on a noise-free planted signal whose event windows do not overlap, the
event-triggered average of every occurring code is exactly its response (minus the first sample
under `correct_baseline`), for every offset -/
theorem eta_exact_no_overlap (cb : Bool) (n : ℕ) (ev : ℕ → ℤ) (resp : ℤ → ℕ → ℚ) (off L : ℕ)
    (data : ℕ → ℚ) (hdata : ∀ p, data p = planted n ev resp off L p) (hsep : Separated n ev L)
    (t : ℤ) (ht : t ≠ 0) (hex : ∃ k < n, ev k = t) (j : ℕ) (hj : j < L) :
    etaRow cb data (positions n ev t) off j = etaTruth cb resp t j := by
  unfold etaRow
  apply meanOver_const
  · obtain ⟨k, hk, hkt⟩ := hex
    exact List.ne_nil_of_mem (mem_positions.mpr ⟨hk, hkt⟩)
  · exact fun k hk => trig_planted cb n ev resp off L data hdata hsep t ht j hj k hk

/-- **ets_zero**: under the same hypotheses the squared standard error is exactly 0 (the driver
prints `sqrt` of it, and `nan` when the code occurs only once, as scipy does) -/
theorem ets_zero (cb : Bool) (n : ℕ) (ev : ℕ → ℤ) (resp : ℤ → ℕ → ℚ) (off L : ℕ)
    (data : ℕ → ℚ) (hdata : ∀ p, data p = planted n ev resp off L p) (hsep : Separated n ev L)
    (t : ℤ) (ht : t ≠ 0) (hex : ∃ k < n, ev k = t) (j : ℕ) (hj : j < L) :
    semSqRow cb data (positions n ev t) off j = 0 := by
  unfold semSqRow
  rw [eta_exact_no_overlap cb n ev resp off L data hdata hsep t ht hex j hj]
  have hz : ∀ k ∈ positions n ev t,
      (trig cb data off j k - etaTruth cb resp t j) * (trig cb data off j k - etaTruth cb resp t j) = 0 := by
    intro k hk
    rw [trig_planted cb n ev resp off L data hdata hsep t ht j hj k hk, sub_self, mul_zero]
  simp only []
  rw [List.map_congr_left hz, List.map_const', List.sum_replicate]
  simp

/-- **estimates_linear (eta)**: the event-triggered average is linear in the data -/
theorem eta_linear (cb : Bool) (x y : ℕ → ℚ) (a : ℚ) (idx : List ℕ) (off j : ℕ) :
    etaRow cb (fun p => a * x p + y p) idx off j
      = a * etaRow cb x idx off j + etaRow cb y idx off j := by
  unfold etaRow meanOver
  have h : ∀ k, trig cb (fun p => a * x p + y p) off j k
      = a * trig cb x off j k + trig cb y off j k := by
    intro k; unfold trig; split <;> ring
  rw [funext h]
  rw [List.sum_map_add, List.sum_map_mul_left]; ring

/-! ### the two event representations, and the time axis -/

/-- zero padding by `offset`: the padded sample `offset + j` after the padded event position `k + offset`
is the original sample `k + offset + j` -/
theorem padFn_window (o N : ℕ) (x : ℕ → ℚ) (k j : ℕ) (h : k + o + j < N) :
    padFn 0 o N x ((k + o) + o + j) = x (k + o + j) := by
  unfold padFn
  rw [if_pos ⟨by omega, by omega⟩]; congr 1; omega

/-- **eta_repr_equiv**: events at original samples `ks`.  Series branch: they sit at `k + offset` in the
zero-padded event series and the average reads the padded data; Events branch (with the intended
baseline handling): integer indices `k`, no padding.  Same average whenever the windows are inside
the recording. -/
theorem eta_repr_equiv (cb : Bool) (o N : ℕ) (x : ℕ → ℚ) (ks : List ℕ) (j : ℕ)
    (hin : ∀ k ∈ ks, k + o + j < N) :
    etaRow cb (padFn 0 o N x) (ks.map (· + o)) o j
      = etaRowZ cb N x (ks.map Int.ofNat) (o : ℤ) j := by
  unfold etaRow meanOver etaRowZ
  simp only [List.map_map, List.length_map]
  congr 1
  congr 1
  apply List.map_congr_left
  intro k hk
  have h := hin k hk
  have w1 := padFn_window o N x k j h
  have w0 := padFn_window o N x k 0 (by omega)
  simp only [Function.comp, trig, trigZ, dataZ]
  show _ = (if cb then _ else _)
  simp only [Int.ofNat_eq_natCast]
  have n1 : (0 : ℤ) ≤ (k : ℤ) + (o : ℤ) + (j : ℤ) := by omega
  have n0 : (0 : ℤ) ≤ (k : ℤ) + (o : ℤ) := by omega
  have t1 : ((k : ℤ) + (o : ℤ) + (j : ℤ)).toNat = k + o + j := by omega
  have t0 : ((k : ℤ) + (o : ℤ)).toNat = k + o := by omega
  rw [if_pos n1, if_pos n0, t1, t0, w1]
  rw [show k + o + o = k + o + o + 0 from rfl, w0]
  rfl

/-- **axis_starts_at_offset**: the output axis starts at `t0 = offset · sampling_interval`, and sample j
of the window of the event at original sample k is the original sample whose time is
`k·Δ + t0 + j·Δ` -/
theorem axis_starts_at_offset (si : ℤ) (o N : ℕ) (x : ℕ → ℚ) (k j : ℕ) (h : k + o + j < N) :
    t0Ps o si = o * si ∧ padFn 0 o N x ((k + o) + o + j) = x (k + o + j) ∧
    ((k + o + j : ℕ) : ℤ) * si = k * si + (t0Ps o si + j * si) := by
  refine ⟨rfl, padFn_window o N x k j h, ?_⟩
  unfold t0Ps; push_cast; ring

/-! ### analyzer level: zero padding, roll by the offset, and the model's per-channel functions -/

theorem positions_pad (o N L : ℕ) (ev : ℕ → ℤ) (t : ℤ) (ht : t ≠ 0) :
    positions (o + N + L) (padFn 0 o N ev) t = (positions N ev t).map (· + o) := by
  unfold positions
  rw [List.range_add, List.range_add, List.filter_append, List.filter_append]
  have h1 : (List.range o).filter (fun k => padFn 0 o N ev k == t) = [] := by
    apply List.filter_eq_nil_iff.mpr
    intro k hk
    have := List.mem_range.mp hk
    have : padFn 0 o N ev k = 0 := by unfold padFn; rw [if_neg]; omega
    rw [this]; simpa using ht.symm
  have h3 : ((List.range L).map (fun x => o + N + x)).filter (fun k => padFn 0 o N ev k == t) = [] := by
    apply List.filter_eq_nil_iff.mpr
    intro k hk
    obtain ⟨x, _, rfl⟩ := List.mem_map.mp hk
    have : padFn 0 o N ev (o + N + x) = 0 := by unfold padFn; rw [if_neg]; omega
    rw [this]; simpa using ht.symm
  rw [h1, h3, List.nil_append, List.append_nil, List.filter_map, List.map_congr_left (g := (· + o))]
  · congr 1
    apply List.filter_congr
    intro k hk
    have := List.mem_range.mp hk
    simp only [Function.comp, padFn]
    rw [if_pos ⟨by omega, by omega⟩]
    congr 2; omega
  · intro a _; omega

/-- under zero padding + roll by `offset`, events sit `2·offset` after their original sample -/
theorem rolled_spec (o N L : ℕ) (ev : ℕ → ℤ) (hL : 0 < L)
    (hdom : ∀ k < N, ev k ≠ 0 → k + o + L ≤ N) (i : ℕ) (hi : i < o + N + L) :
    rollFn (o + N + L) o (padFn 0 o N ev) i
      = if 2 * o ≤ i ∧ i < 2 * o + N then ev (i - 2 * o) else 0 := by
  unfold rollFn
  have ho : o % (o + N + L) = o := Nat.mod_eq_of_lt (by omega)
  rw [ho]
  by_cases hio : i < o
  · have e : (i + (o + N + L) - o) % (o + N + L) = i + N + L := by
      rw [Nat.mod_eq_of_lt (by omega)]; omega
    rw [e, if_neg (by omega)]
    unfold padFn
    by_cases hc : o ≤ i + N + L ∧ i + N + L < o + N
    · rw [if_pos hc]
      by_contra hne
      have := hdom (i + N + L - o) (by omega) hne
      omega
    · rw [if_neg hc]
  · have e : (i + (o + N + L) - o) % (o + N + L) = i - o := by
      have : i + (o + N + L) - o = (i - o) + (o + N + L) := by omega
      rw [this, Nat.add_mod_right, Nat.mod_eq_of_lt (by omega)]
    rw [e]
    unfold padFn
    by_cases hc : 2 * o ≤ i ∧ i < 2 * o + N
    · rw [if_pos hc, if_pos ⟨by omega, by omega⟩]; congr 1; omega
    · rw [if_neg hc, if_neg (by omega)]

/-- **FIR with an offset**: what `FIR` hands to `fir_design_matrix`/`fir` — the zero-padded data and the
padded events rolled by `offset` — is again a planted system (lag 0) in padded coordinates whenever the
original data are the responses planted `offset` samples after each event and all windows lie inside the
recording.  So `fir_recovers_planted` applies to the analyzer's actual inputs for every offset. -/
theorem pad_roll_planted (o N L : ℕ) (ev : ℕ → ℤ) (resp : ℤ → ℕ → ℚ) (hL : 0 < L)
    (hdom : ∀ k < N, ev k ≠ 0 → k + o + L ≤ N) (p : ℕ) :
    padFn 0 o N (planted N ev resp o L) p
      = planted (o + N + L) (rollFn (o + N + L) o (padFn 0 o N ev)) resp 0 L p := by
  have hR : planted (o + N + L) (rollFn (o + N + L) o (padFn 0 o N ev)) resp 0 L p
      = ∑ i ∈ range (o + N + L),
          if (2 * o ≤ i ∧ i < 2 * o + N) ∧ ev (i - 2 * o) ≠ 0 ∧ i ≤ p ∧ p < i + L
          then resp (ev (i - 2 * o)) (p - i) else 0 := by
    unfold planted
    rw [sumRange_eq]
    apply Finset.sum_congr rfl
    intro i hi
    rw [rolled_spec o N L ev hL hdom i (Finset.mem_range.mp hi)]
    by_cases hc : 2 * o ≤ i ∧ i < 2 * o + N
    · simp only [Nat.add_zero, hc, true_and, and_self, if_true]
    · simp only [hc, false_and, if_false, ne_eq, not_true_eq_false]
  rw [hR]
  unfold padFn planted
  rw [sumRange_eq]
  by_cases hin : o ≤ p ∧ p < o + N
  · rw [if_pos hin, ← Finset.sum_filter, ← Finset.sum_filter]
    apply Finset.sum_nbij' (fun k => k + 2 * o) (fun i => i - 2 * o)
    · intro k hk
      simp only [Finset.mem_filter, Finset.mem_range] at hk ⊢
      obtain ⟨h1, h2, h3, h4⟩ := hk
      have : k + 2 * o - 2 * o = k := by omega
      have := hdom k h1 h2
      refine ⟨by omega, ⟨by omega, by omega⟩, by rwa [‹k + 2 * o - 2 * o = k›], by omega, by omega⟩
    · intro i hi
      simp only [Finset.mem_filter, Finset.mem_range] at hi ⊢
      obtain ⟨h1, ⟨h2, h2'⟩, h3, h4, h5⟩ := hi
      refine ⟨by omega, h3, by omega, by omega⟩
    · intro k _; simp
    · intro i hi
      simp only [Finset.mem_filter, Finset.mem_range] at hi
      omega
    · intro k hk
      simp only [Finset.mem_filter, Finset.mem_range] at hk
      have e1 : k + 2 * o - 2 * o = k := by omega
      have e2 : p - o - (k + o) = p - (k + 2 * o) := by omega
      rw [e1, e2]
  · rw [if_neg hin]
    symm
    apply Finset.sum_eq_zero
    intro i hi
    rw [if_neg]
    rintro ⟨⟨h1, h2⟩, h3, h4, h5⟩
    have := hdom (i - 2 * o) (by omega) h3
    omega

theorem signedResp_false (resp : ℤ → ℕ → ℚ) : signedResp false resp = resp := by
  funext t j; simp [signedResp, sgn]

/-- **FIR at the analyzer level** (`firChannel` is what the driver runs per channel, intended sign
variant): zero-padded planted data + padded events, any offset, overlaps allowed, full column rank ⇒
the returned coefficients are the planted responses, laid out by sorted event code. -/
theorem firChannel_recovers (o N L : ℕ) (ev : ℕ → ℤ) (resp : ℤ → ℕ → ℚ) (x : List ℚ) (hL : 0 < L)
    (hdom : ∀ k < N, ev k ≠ 0 → k + o + L ≤ N)
    (hrank : FullColumnRank (o + N + L)
      ((eventTypes ((List.range (o + N + L)).map (rollFn (o + N + L) o (padFn 0 o N ev)))).length * L)
      (designEntry false (rollFn (o + N + L) o (padFn 0 o N ev))
        (eventTypes ((List.range (o + N + L)).map (rollFn (o + N + L) o (padFn 0 o N ev)))) L))
    (hs : firChannel false (o + N + L) (padFn 0 o N ev) (padFn 0 o N (planted N ev resp o L)) o L = .ok x) :
    ∀ c < (eventTypes ((List.range (o + N + L)).map (rollFn (o + N + L) o (padFn 0 o N ev)))).length * L,
      x.getD c 0
        = resp ((eventTypes ((List.range (o + N + L)).map (rollFn (o + N + L) o (padFn 0 o N ev)))).getD (c / L) 0)
            (c % L) := by
  unfold firChannel at hs
  simp only [] at hs
  split at hs
  · cases hs
  · split at hs
    · cases hs
    · rename_i x' hsolve
      injection hs with hx
      subst hx
      set rolled := rollFn (o + N + L) o (padFn 0 o N ev)
      set types := eventTypes ((List.range (o + N + L)).map rolled)
      have hsorted := results_sorted_by_code ((List.range (o + N + L)).map rolled)
      have hnd : types.Nodup := hsorted.1.imp (fun h => ne_of_lt h)
      have hcov : ∀ k < o + N + L, rolled k ≠ 0 → rolled k ∈ types := by
        intro k hk hne
        exact (hsorted.2 _).mpr ⟨List.mem_map.mpr ⟨k, List.mem_range.mpr hk, rfl⟩, hne⟩
      apply fir_recovers_planted false (o + N + L) rolled types L resp _ x' hnd hcov _ hrank hsolve
      intro r _
      rw [signedResp_false]
      exact pad_roll_planted o N L ev resp hL hdom r

theorem designOk_of_domain (o N L : ℕ) (ev : ℕ → ℤ) (hL : 0 < L)
    (hdom : ∀ k < N, ev k ≠ 0 → k + o + L ≤ N) :
    designOk (o + N + L) (rollFn (o + N + L) o (padFn 0 o N ev)) L = true := by
  unfold designOk
  rw [List.all_eq_true]
  intro k hk
  have hk' := List.mem_range.mp hk
  rw [rolled_spec o N L ev hL hdom k hk']
  by_cases hc : 2 * o ≤ k ∧ k < 2 * o + N
  · rw [if_pos hc]
    by_cases he : ev (k - 2 * o) = 0
    · simp [he]
    · have := hdom (k - 2 * o) (by omega) he
      have : k + L ≤ o + N + L := by omega
      simp [this]
  · rw [if_neg hc]; simp

/-- **FIR at the analyzer level, existence + exactness**: in the property's domain the per-channel FIR of
the model returns (no ValueError, not singular) and returns the planted responses by sorted code -/
theorem firChannel_returns (o N L : ℕ) (ev : ℕ → ℤ) (resp : ℤ → ℕ → ℚ) (hL : 0 < L)
    (hdom : ∀ k < N, ev k ≠ 0 → k + o + L ≤ N)
    (hrank : FullColumnRank (o + N + L)
      ((eventTypes ((List.range (o + N + L)).map (rollFn (o + N + L) o (padFn 0 o N ev)))).length * L)
      (designEntry false (rollFn (o + N + L) o (padFn 0 o N ev))
        (eventTypes ((List.range (o + N + L)).map (rollFn (o + N + L) o (padFn 0 o N ev)))) L)) :
    ∃ x, firChannel false (o + N + L) (padFn 0 o N ev) (padFn 0 o N (planted N ev resp o L)) o L = .ok x ∧
      ∀ c < (eventTypes ((List.range (o + N + L)).map (rollFn (o + N + L) o (padFn 0 o N ev)))).length * L,
        x.getD c 0
          = resp ((eventTypes ((List.range (o + N + L)).map (rollFn (o + N + L) o (padFn 0 o N ev)))).getD (c / L) 0)
              (c % L) := by
  obtain ⟨x, hx⟩ := Option.isSome_iff_exists.mp
    (firSolve_total (padFn 0 o N (planted N ev resp o L)) hrank)
  have hch : firChannel false (o + N + L) (padFn 0 o N ev) (padFn 0 o N (planted N ev resp o L)) o L = .ok x := by
    unfold firChannel
    simp only [designOk_of_domain o N L ev hL hdom, hx]
    rfl
  exact ⟨x, hch, firChannel_recovers o N L ev resp x hL hdom hrank hch⟩

/-- **eta / ets at the analyzer level** (event-coded series branch: zero-padded data and events, the
model's `positions` on the padded events): on separated planted data every code's average is its
response (minus its first sample under `correct_baseline`) and the squared standard error is 0, for
every offset ≥ 0. -/
theorem eta_series_recovers (cb : Bool) (o N L : ℕ) (ev : ℕ → ℤ) (resp : ℤ → ℕ → ℚ)
    (hsep : Separated N ev L) (hdom : ∀ k < N, ev k ≠ 0 → k + o + L ≤ N)
    (t : ℤ) (ht : t ≠ 0) (hex : ∃ k < N, ev k = t) (j : ℕ) (hj : j < L) :
    etaRow cb (padFn 0 o N (planted N ev resp o L)) (positions (o + N + L) (padFn 0 o N ev) t) o j
        = etaTruth cb resp t j ∧
    semSqRow cb (padFn 0 o N (planted N ev resp o L)) (positions (o + N + L) (padFn 0 o N ev) t) o j = 0 := by
  have htrig : ∀ k' ∈ (positions N ev t).map (· + o),
      trig cb (padFn 0 o N (planted N ev resp o L)) o j k' = etaTruth cb resp t j := by
    intro k' hk'
    obtain ⟨k, hk, rfl⟩ := List.mem_map.mp hk'
    obtain ⟨hkn, hkt⟩ := mem_positions.mp hk
    have hev : ev k ≠ 0 := by rw [hkt]; exact ht
    have hd := hdom k hkn hev
    have w1 := padFn_window o N (planted N ev resp o L) k j (by omega)
    have w0 := padFn_window o N (planted N ev resp o L) k 0 (by omega)
    have e1 := planted_at_window N ev resp o L hsep k hkn hev j hj
    have e0 := planted_at_window N ev resp o L hsep k hkn hev 0 (by omega)
    simp only [Nat.add_zero] at w0 e0
    unfold trig etaTruth
    rw [w1, w0, e1, e0, hkt]
  have hne : (positions N ev t).map (· + o) ≠ [] := by
    obtain ⟨k, hk, hkt⟩ := hex
    exact List.ne_nil_of_mem (List.mem_map.mpr ⟨k, mem_positions.mpr ⟨hk, hkt⟩, rfl⟩)
  rw [positions_pad o N L ev t ht]
  have hm : etaRow cb (padFn 0 o N (planted N ev resp o L)) ((positions N ev t).map (· + o)) o j
      = etaTruth cb resp t j := meanOver_const _ _ _ hne htrig
  refine ⟨hm, ?_⟩
  unfold semSqRow
  rw [hm]
  have hz : ∀ k' ∈ (positions N ev t).map (· + o),
      (trig cb (padFn 0 o N (planted N ev resp o L)) o j k' - etaTruth cb resp t j)
        * (trig cb (padFn 0 o N (planted N ev resp o L)) o j k' - etaTruth cb resp t j) = 0 := by
    intro k' hk'; rw [htrig k' hk', sub_self, mul_zero]
  simp only []
  rw [List.map_congr_left hz, List.map_const', List.sum_replicate]
  simp

/-! ### shape / squeeze layer: totality in the property's domain -/

/-- `np.squeeze`: exactly the singleton dimensions are dropped -/
theorem squeeze_shape (C T L : ℕ) :
    squeeze [C, T, L]
      = (if C = 1 then [] else [C]) ++ (if T = 1 then [] else [T]) ++ (if L = 1 then [] else [L]) := by
  unfold squeeze
  simp only [List.filter_cons, List.filter_nil, bne_iff_ne, ne_eq]
  split_ifs <;> simp_all

/-- the documented output shapes for response lengths ≥ 2: (C, T, len_et) with singleton C and/or T dropped -/
theorem squeeze_shape_cases (C T L : ℕ) (hL : 2 ≤ L) :
    (C = 1 → T = 1 → squeeze [C, T, L] = [L]) ∧
    (C = 1 → T ≠ 1 → squeeze [C, T, L] = [T, L]) ∧
    (C ≠ 1 → T = 1 → squeeze [C, T, L] = [C, L]) ∧
    (C ≠ 1 → T ≠ 1 → squeeze [C, T, L] = [C, T, L]) := by
  have hL1 : L ≠ 1 := by omega
  rw [squeeze_shape]
  refine ⟨?_, ?_, ?_, ?_⟩ <;> intro h1 h2 <;> simp [h1, h2, hL1]

/-- 1-d events are broadcast: every channel sees the same event series, hence the same event types,
so the ragged-array error branch cannot be taken -/
theorem typesOf_broadcast (j : Job) (h : j.evch = 0) (ch : ℕ) : typesOf j ch = typesOf j 0 := by
  unfold typesOf evOf
  simp [h]

theorem length_flatMap_const {α β : Type} (l : List α) (f : α → List β) (m : ℕ)
    (h : ∀ x ∈ l, (f x).length = m) : (l.flatMap f).length = l.length * m := by
  induction l with
  | nil => simp
  | cons a l ih =>
    rw [List.flatMap_cons, List.length_append, h a (List.mem_cons_self ..),
      ih (fun x hx => h x (List.mem_cons_of_mem _ hx)), List.length_cons]
    ring

theorem elimSolve_length : ∀ (p : ℕ) (rows : List (List ℚ)) (xs : List ℚ),
    elimSolve p rows = some xs → xs.length = p := by
  intro p
  induction p with
  | zero => intro rows xs h; simp [elimSolve] at h; simp [← h]
  | succ p ih =>
    intro rows xs h
    unfold elimSolve at h
    split at h
    · cases h
    · split at h
      · cases h
      · rename_i xs' hrec
        injection h with h
        subst h
        simp [ih _ _ hrec]

/-- all event windows lie inside the recording (the property's domain), for the events channel `ch` uses -/
def InDomain (j : Job) : Prop :=
  ∀ ch < max j.nch 1, ∀ k < j.N,
    getI j.ev ((if j.evch = 0 then 0 else ch) * j.N + k) ≠ 0 → k + j.off.toNat + j.L ≤ j.N

theorem windowBad_false (j : Job) (hdom : InDomain j) : windowBad j = false := by
  unfold windowBad
  rw [List.any_eq_false]
  intro ch hch
  have hch' := List.mem_range.mp hch
  rw [Bool.not_eq_true, List.any_eq_false]
  intro t ht
  have ht0 : t ≠ 0 := ((results_sorted_by_code _).2 t).mp ht |>.2
  rw [Bool.not_eq_true, List.any_eq_false]
  intro k hk
  unfold evOf nPadOf at hk
  rw [positions_pad _ _ _ _ t ht0] at hk
  obtain ⟨k0, hk0, rfl⟩ := List.mem_map.mp hk
  obtain ⟨hk0N, hev⟩ := mem_positions.mp hk0
  have := hdom ch hch' k0 hk0N (by rw [hev]; exact ht0)
  unfold nPadOf
  simp only [Bool.and_eq_true, decide_eq_true_eq, not_and, not_lt]
  intro _
  omega

/-- **shape-layer totality, eta / ets**: in the property's domain (offset ≥ 0, windows inside, the same
number of event types in every channel — automatic for broadcast 1-d events) `seriesOut` returns, with
the un-squeezed shape (C, T, len_et) and C·T·len_et values -/
theorem seriesOut_eta_ets_ok (cur : Bool) (j : Job) (hw : j.what = "eta" ∨ j.what = "ets")
    (hoff : 0 ≤ j.off) (hdom : InDomain j)
    (hT : ∀ ch < max j.nch 1, (typesOf j ch).length = (typesOf j 0).length) :
    ∃ out, seriesOut cur j = .ok out ∧ out.shape = [max j.nch 1, (typesOf j 0).length, j.L] ∧
      out.data.length = max j.nch 1 * ((typesOf j 0).length * j.L) := by
  have h1 : ¬ j.off < 0 := by omega
  have h2 : ((List.range (max j.nch 1)).any fun ch => (typesOf j ch).length != (typesOf j 0).length) = false := by
    rw [List.any_eq_false]
    intro ch hch
    simp [hT ch (List.mem_range.mp hch)]
  have hlen : ∀ (g : ℕ → ℤ → ℕ → String),
      ((List.range (max j.nch 1)).flatMap fun ch => (typesOf j ch).flatMap fun t =>
        (List.range j.L).map fun jj => g ch t jj).length = max j.nch 1 * ((typesOf j 0).length * j.L) := by
    intro g
    rw [length_flatMap_const _ _ ((typesOf j 0).length * j.L), List.length_range]
    intro ch hch
    rw [length_flatMap_const _ _ j.L, hT ch (List.mem_range.mp hch)]
    intro t _
    simp
  unfold seriesOut
  simp only [h1, if_false, h2, windowBad_false j hdom]
  rcases hw with hw | hw
  · simp only [hw, if_true]
    exact ⟨_, rfl, rfl, hlen _⟩
  · simp only [hw, if_true]
    exact ⟨_, rfl, rfl, hlen _⟩
theorem eventTypes_ext (xs ys : List ℤ) (h : ∀ t, t ≠ 0 → (t ∈ xs ↔ t ∈ ys)) :
    eventTypes xs = eventTypes ys := by
  have hx := results_sorted_by_code xs
  have hy := results_sorted_by_code ys
  apply List.Perm.eq_of_pairwise (le := (· < ·)) ?_ hx.1 hy.1 ?_
  · intro a b _ _ hab hba; omega
  · rw [List.perm_ext_iff_of_nodup (hx.1.imp (fun h => ne_of_lt h)) (hy.1.imp (fun h => ne_of_lt h))]
    intro t
    rw [hx.2, hy.2]
    constructor
    · rintro ⟨h1, h2⟩; exact ⟨(h t h2).mp h1, h2⟩
    · rintro ⟨h1, h2⟩; exact ⟨(h t h2).mpr h1, h2⟩

/-- rolling the padded events by the offset does not change the set of event types (in the domain) -/
theorem eventTypes_rolled (o N L : ℕ) (ev : ℕ → ℤ) (hL : 0 < L)
    (hdom : ∀ k < N, ev k ≠ 0 → k + o + L ≤ N) :
    eventTypes ((List.range (o + N + L)).map (rollFn (o + N + L) o (padFn 0 o N ev)))
      = eventTypes ((List.range (o + N + L)).map (padFn 0 o N ev)) := by
  apply eventTypes_ext
  intro t ht
  simp only [List.mem_map, List.mem_range]
  constructor
  · rintro ⟨i, hi, rfl⟩
    rw [rolled_spec o N L ev hL hdom i hi] at ht ⊢
    by_cases hc : 2 * o ≤ i ∧ i < 2 * o + N
    · rw [if_pos hc] at ht ⊢
      refine ⟨i - o, by omega, ?_⟩
      unfold padFn
      rw [if_pos ⟨by omega, by omega⟩]; congr 1; omega
    · rw [if_neg hc] at ht; exact absurd rfl ht
  · rintro ⟨i, hi, rfl⟩
    unfold padFn at ht
    by_cases hc : o ≤ i ∧ i < o + N
    · rw [if_pos hc] at ht
      have hd := hdom (i - o) (by omega) ht
      refine ⟨i + o, by omega, ?_⟩
      rw [rolled_spec o N L ev hL hdom (i + o) (by omega), if_pos ⟨by omega, by omega⟩]
      unfold padFn
      rw [if_pos hc]; congr 1; omega
    · rw [if_neg hc] at ht; exact absurd rfl ht

/-- per-channel FIR never takes an error branch in the domain: no short slice (ValueError), not singular;
and it returns `T·len_et` coefficients -/
theorem firChannel_total (cur : Bool) (o N L : ℕ) (ev : ℕ → ℤ) (y : ℕ → ℚ) (hL : 0 < L)
    (hdom : ∀ k < N, ev k ≠ 0 → k + o + L ≤ N)
    (hrank : FullColumnRank (o + N + L)
      ((eventTypes ((List.range (o + N + L)).map (rollFn (o + N + L) o (padFn 0 o N ev)))).length * L)
      (designEntry cur (rollFn (o + N + L) o (padFn 0 o N ev))
        (eventTypes ((List.range (o + N + L)).map (rollFn (o + N + L) o (padFn 0 o N ev)))) L)) :
    ∃ x, firChannel cur (o + N + L) (padFn 0 o N ev) y o L = .ok x ∧
      x.length = (eventTypes ((List.range (o + N + L)).map (padFn 0 o N ev))).length * L := by
  obtain ⟨x, hx⟩ := Option.isSome_iff_exists.mp (firSolve_total y hrank)
  refine ⟨x, ?_, ?_⟩
  · unfold firChannel
    simp only [designOk_of_domain o N L ev hL hdom, hx]
    rfl
  · rw [← eventTypes_rolled o N L ev hL hdom]
    exact elimSolve_length _ _ _ hx

/-- full column rank of channel `ch`'s (rolled, padded) design, sign variant `cur` -/
def ChannelFullRank (cur : Bool) (j : Job) (ch : ℕ) : Prop :=
  FullColumnRank (nPadOf j)
    ((eventTypes ((List.range (nPadOf j)).map (rollFn (nPadOf j) j.off.toNat (evOf j ch)))).length * j.L)
    (designEntry cur (rollFn (nPadOf j) j.off.toNat (evOf j ch))
      (eventTypes ((List.range (nPadOf j)).map (rollFn (nPadOf j) j.off.toNat (evOf j ch)))) j.L)

/-- **shape-layer totality, FIR**: in the property's domain (offset ≥ 0, len_et ≥ 1, windows inside,
full column rank per channel, same number of types per channel) `seriesOut` returns with the
un-squeezed shape (C, T, len_et) and C·T·len_et coefficients -/
theorem seriesOut_fir_ok (cur : Bool) (j : Job) (hw : j.what = "fir") (hoff : 0 ≤ j.off) (hL : 0 < j.L)
    (hdom : InDomain j)
    (hT : ∀ ch < max j.nch 1, (typesOf j ch).length = (typesOf j 0).length)
    (hrank : ∀ ch < max j.nch 1, ChannelFullRank cur j ch) :
    ∃ out, seriesOut cur j = .ok out ∧ out.shape = [max j.nch 1, (typesOf j 0).length, j.L] ∧
      out.data.length = max j.nch 1 * ((typesOf j 0).length * j.L) := by
  have h1 : ¬ j.off < 0 := by omega
  have h2 : ((List.range (max j.nch 1)).any fun ch => (typesOf j ch).length != (typesOf j 0).length) = false := by
    rw [List.any_eq_false]
    intro ch hch
    simp [hT ch (List.mem_range.mp hch)]
  -- every channel returns
  have hch : ∀ ch < max j.nch 1, ∃ x,
      firChannel cur (nPadOf j) (evOf j ch) (dataOf j ch) j.off.toNat j.L = .ok x ∧
        x.length = (typesOf j 0).length * j.L := by
    intro ch hc
    obtain ⟨x, hx, hlen⟩ := firChannel_total cur j.off.toNat j.N j.L
      (fun i => getI j.ev ((if j.evch = 0 then 0 else ch) * j.N + i)) (dataOf j ch) hL
      (hdom ch hc) (hrank ch hc)
    refine ⟨x, hx, ?_⟩
    rw [hlen, ← hT ch hc]
    rfl
  unfold seriesOut
  simp only [h1, if_false, h2, hw, if_true]
  have hfind : ((List.range (max j.nch 1)).map fun ch =>
      firChannel cur (nPadOf j) (evOf j ch) (dataOf j ch) j.off.toNat j.L).find?
        isErr = none := by
    rw [List.find?_eq_none]
    intro r hr
    obtain ⟨ch, hc, rfl⟩ := List.mem_map.mp hr
    obtain ⟨x, hx, _⟩ := hch ch (List.mem_range.mp hc)
    rw [hx]; simp [isErr]
  rw [hfind]
  refine ⟨_, rfl, rfl, ?_⟩
  simp only [List.length_map, List.flatMap_map]
  rw [length_flatMap_const _ _ ((typesOf j 0).length * j.L), List.length_range]
  intro ch hc
  obtain ⟨x, hx, hlen⟩ := hch ch (List.mem_range.mp hc)
  simp only [hx, okVal]; exact hlen

/-- **shape-layer totality, rendered**: in the domain the driver's `runSeries` line for FIR / eta / ets is the
`ok` line whose shape field is `np.squeeze` of (C, T, len_et) — never an error token -/
theorem runSeries_ok (cur : Bool) (j : Job) (hw : j.what = "fir" ∨ j.what = "eta" ∨ j.what = "ets")
    (hoff : 0 ≤ j.off) (hL : 0 < j.L) (hdom : InDomain j)
    (hT : ∀ ch < max j.nch 1, (typesOf j ch).length = (typesOf j 0).length)
    (hrank : j.what = "fir" → ∀ ch < max j.nch 1, ChannelFullRank cur j ch) :
    ∃ data : List String, data.length = max j.nch 1 * ((typesOf j 0).length * j.L) ∧
      runSeries cur j = "ok t0=" ++ toString (t0Ps j.off j.si) ++ " si=" ++ toString j.si ++ " shape=" ++
        Nitime.Proto.showNatList (squeeze [max j.nch 1, (typesOf j 0).length, j.L]) ++ " data=" ++
        Nitime.Proto.joinList data := by
  have hne : ¬ j.what = "etdata" := by rcases hw with h | h | h <;> rw [h] <;> decide
  obtain ⟨out, hout, hshape, hlen⟩ : ∃ out, seriesOut cur j = .ok out ∧
      out.shape = [max j.nch 1, (typesOf j 0).length, j.L] ∧
      out.data.length = max j.nch 1 * ((typesOf j 0).length * j.L) := by
    rcases hw with h | h | h
    · exact seriesOut_fir_ok cur j h hoff hL hdom hT (hrank h)
    · exact seriesOut_eta_ets_ok cur j (Or.inl h) hoff hdom hT
    · exact seriesOut_eta_ets_ok cur j (Or.inr h) hoff hdom hT
  refine ⟨out.data, hlen, ?_⟩
  unfold runSeries
  rw [if_neg hne, hout]
  simp only [header, hshape]

/-! ### one analyzer object, any read order -/

/-- every cached entry is the getter's value -/
def CacheOk (value : String → String) (cache : List (String × String)) : Prop :=
  ∀ w v, cache.lookup w = some v → v = value w

theorem readC_spec (value : String → String) (cache : List (String × String)) (w : String)
    (h : CacheOk value cache) :
    (readC value cache w).1 = value w ∧ CacheOk value (readC value cache w).2 := by
  unfold readC
  cases hl : cache.lookup w with
  | some v => exact ⟨h w v hl, h⟩
  | none =>
    refine ⟨rfl, ?_⟩
    intro w' v' hv'
    simp only [List.lookup_cons] at hv'
    split at hv'
    · rename_i heq
      have : w' = w := by simpa using heq
      injection hv' with hv'; rw [← hv', this]
    · exact h w' v' hv'

/-- **read_returns_fresh / read_order_irrelevant**: on one analyzer object with a consistent cache, ANY
sequence of reads returns, for each read, exactly the value a fresh analyzer would compute from the
inputs; the cache stays consistent.  (The inputs are not part of the mutable state of the model.) -/
theorem reads_return_fresh (value : String → String) (ws : List String) :
    ∀ cache, CacheOk value cache →
      (readsC value cache ws).1 = ws.map value ∧ CacheOk value (readsC value cache ws).2 := by
  induction ws with
  | nil => intro cache h; exact ⟨rfl, h⟩
  | cons w ws ih =>
    intro cache h
    obtain ⟨h1, h2⟩ := readC_spec value cache w h
    obtain ⟨h3, h4⟩ := ih _ h2
    unfold readsC
    simp only [List.map_cons]
    exact ⟨by rw [h1, h3], h4⟩

theorem read_order_irrelevant (value : String → String) (ws : List String) :
    (readsC value [] ws).1 = ws.map value :=
  (reads_return_fresh value ws [] (by intro w v h; simp at h)).1

/-- **reads_commute**: the value obtained for getter `w` is the same at every position of every read
sequence (in particular in every permutation of FIR / eta / ets / et_data) -/
theorem reads_commute (value : String → String) (ws ws' : List String) (i j : ℕ) (w : String)
    (hi : ws[i]? = some w) (hj : ws'[j]? = some w) :
    (readsC value [] ws).1[i]? = (readsC value [] ws').1[j]? := by
  rw [read_order_irrelevant, read_order_irrelevant, List.getElem?_map, List.getElem?_map, hi, hj]

/-- the analyzer instance: the `seq` op of the driver returns the fresh getter values in the order read -/
theorem analyzer_reads_fresh (kind : String) (j : Job) (ws : List String) :
    (readsC (getterValue kind j) [] ws).1 = ws.map (getterValue kind j) :=
  read_order_irrelevant _ ws

/-! ### amplitude scale: the estimators are homogeneous per channel, for EVERY factor -/

theorem solvesNormal_smul {n p : ℕ} {X : ℕ → ℕ → ℤ} {y v : ℕ → ℚ} (a : ℚ)
    (h : SolvesNormal n p X y v) : SolvesNormal n p X (fun r => a * y r) (fun b => a * v b) := by
  intro b hb
  have e := h b hb
  have l1 : ∀ (f g : ℕ → ℚ) (m : ℕ), ∑ i ∈ range m, f i * (a * g i) = a * ∑ i ∈ range m, f i * g i := by
    intro f g m; rw [Finset.mul_sum]; apply Finset.sum_congr rfl; intro i _; ring
  rw [l1, l1, e]

theorem getD_of_lt (l : List ℚ) (c : ℕ) (h : c < l.length) : l.getD c 0 = l[c] := by
  simp [List.getD_eq_getElem?_getD, h]

theorem list_eq_of_getD {l1 l2 : List ℚ} (p : ℕ) (h1 : l1.length = p) (h2 : l2.length = p)
    (h : ∀ c < p, l1.getD c 0 = l2.getD c 0) : l1 = l2 := by
  apply List.ext_getElem (by rw [h1, h2])
  intro i hi1 hi2
  have := h i (by omega)
  rwa [getD_of_lt _ _ hi1, getD_of_lt _ _ hi2] at this

/-- **fir_smul** (the executable `firSolve`, what `algorithms.fir` is modelled by): on a full-column-rank
design `fir(X, a·y) = a·fir(X, y)` as LISTS, for every factor `a` — 1e-11 and 1e-300 included; there
is no amplitude below which the estimate is anything but the scaled estimate -/
theorem fir_smul {n p : ℕ} {X : ℕ → ℕ → ℤ} (y : ℕ → ℚ) (a : ℚ) (hrank : FullColumnRank n p X) :
    firSolve n p X (fun r => a * y r) = (firSolve n p X y).map (List.map (a * ·)) := by
  obtain ⟨x, hx⟩ := Option.isSome_iff_exists.mp (firSolve_total y hrank)
  obtain ⟨x', hx'⟩ := Option.isSome_iff_exists.mp (firSolve_total (fun r => a * y r) hrank)
  rw [hx, hx', Option.map_some]
  congr 1
  apply list_eq_of_getD p (elimSolve_length _ _ _ hx') (by rw [List.length_map]; exact elimSolve_length _ _ _ hx)
  intro c hc
  have hlen : c < x.length := by rw [elimSolve_length _ _ _ hx]; exact hc
  have e : (x.map (a * ·)).getD c 0 = a * x.getD c 0 := by
    rw [getD_of_lt _ _ (by rw [List.length_map]; exact hlen), getD_of_lt _ _ hlen, List.getElem_map]
  rw [e]
  exact solves_unique hrank (firSolve_solves hx') (solvesNormal_smul a (firSolve_solves hx)) c hc

/-- `fir_smul` for one channel of the analyzer (`firChannel`, what the driver runs per channel): scaling the
channel's data by `a` scales the channel's coefficient list by `a` (error branches unchanged) -/
theorem firChannel_smul (cur : Bool) (nPad : ℕ) (evPad : ℕ → ℤ) (data : ℕ → ℚ) (off L : ℕ) (a : ℚ)
    (hrank : FullColumnRank nPad
      ((eventTypes ((List.range nPad).map (rollFn nPad off evPad))).length * L)
      (designEntry cur (rollFn nPad off evPad) (eventTypes ((List.range nPad).map (rollFn nPad off evPad))) L)) :
    firChannel cur nPad evPad (fun i => a * data i) off L
      = (firChannel cur nPad evPad data off L).map (List.map (a * ·)) := by
  unfold firChannel
  simp only []
  split
  · rfl
  · rw [fir_smul data a hrank]
    cases firSolve nPad ((eventTypes ((List.range nPad).map (rollFn nPad off evPad))).length * L)
      (designEntry cur (rollFn nPad off evPad) (eventTypes ((List.range nPad).map (rollFn nPad off evPad))) L) data <;> rfl

theorem planted_smul (n : ℕ) (ev : ℕ → ℤ) (resp : ℤ → ℕ → ℚ) (off L p : ℕ) (a : ℚ) :
    planted n ev (fun t j => a * resp t j) off L p = a * planted n ev resp off L p := by
  unfold planted
  rw [sumRange_eq, sumRange_eq, Finset.mul_sum]
  apply Finset.sum_congr rfl
  intro k _
  split <;> ring

theorem padFn_smul (o N : ℕ) (x : ℕ → ℚ) (a : ℚ) (p : ℕ) :
    padFn 0 o N (fun i => a * x i) p = a * padFn 0 o N x p := by
  unfold padFn; split <;> ring

/-- **no flat-channel shortcut**: the planted recording multiplied by ANY `a` (overlaps allowed, any
offset, full rank) gives, per channel, exactly `a ·` the planted responses by sorted code — so for
`a ≠ 0` a non-zero response sample is never estimated as 0, however small `a` is -/
theorem firChannel_scaled_recovers (o N L : ℕ) (ev : ℕ → ℤ) (resp : ℤ → ℕ → ℚ) (a : ℚ) (hL : 0 < L)
    (hdom : ∀ k < N, ev k ≠ 0 → k + o + L ≤ N)
    (hrank : FullColumnRank (o + N + L)
      ((eventTypes ((List.range (o + N + L)).map (rollFn (o + N + L) o (padFn 0 o N ev)))).length * L)
      (designEntry false (rollFn (o + N + L) o (padFn 0 o N ev))
        (eventTypes ((List.range (o + N + L)).map (rollFn (o + N + L) o (padFn 0 o N ev)))) L)) :
    ∃ x, firChannel false (o + N + L) (padFn 0 o N ev)
          (padFn 0 o N (fun i => a * planted N ev resp o L i)) o L = .ok x ∧
      ∀ c < (eventTypes ((List.range (o + N + L)).map (rollFn (o + N + L) o (padFn 0 o N ev)))).length * L,
        x.getD c 0
          = a * resp ((eventTypes ((List.range (o + N + L)).map (rollFn (o + N + L) o (padFn 0 o N ev)))).getD (c / L) 0)
              (c % L) ∧
        (a ≠ 0 → resp ((eventTypes ((List.range (o + N + L)).map (rollFn (o + N + L) o (padFn 0 o N ev)))).getD (c / L) 0)
              (c % L) ≠ 0 → x.getD c 0 ≠ 0) := by
  obtain ⟨x, hx, hval⟩ := firChannel_returns o N L ev (fun t j => a * resp t j) hL hdom hrank
  have e : (fun i => a * planted N ev resp o L i) = planted N ev (fun t j => a * resp t j) o L := by
    funext i; rw [planted_smul]
  refine ⟨x, by rw [e]; exact hx, fun c hc => ⟨hval c hc, fun ha hr => ?_⟩⟩
  rw [hval c hc]
  exact mul_ne_zero ha hr

/-- the event-triggered average is homogeneous in the data -/
theorem eta_smul (cb : Bool) (x : ℕ → ℚ) (a : ℚ) (idx : List ℕ) (off j : ℕ) :
    etaRow cb (fun p => a * x p) idx off j = a * etaRow cb x idx off j := by
  have h := eta_linear cb x (fun _ => 0) a idx off j
  have z : etaRow cb (fun _ => (0 : ℚ)) idx off j = 0 := by
    unfold etaRow meanOver trig
    cases cb <;> simp
  simpa [z] using h

/-- the squared standard error scales with `a²` (so the standard error with `|a|`) -/
theorem semSq_smul (cb : Bool) (x : ℕ → ℚ) (a : ℚ) (idx : List ℕ) (off j : ℕ) :
    semSqRow cb (fun p => a * x p) idx off j = a * a * semSqRow cb x idx off j := by
  unfold semSqRow
  simp only []
  rw [eta_smul]
  have h : ∀ k, trig cb (fun p => a * x p) off j k = a * trig cb x off j k := by
    intro k; unfold trig; split <;> ring
  have e : (idx.map fun k => (trig cb (fun p => a * x p) off j k - a * etaRow cb x idx off j)
        * (trig cb (fun p => a * x p) off j k - a * etaRow cb x idx off j))
      = idx.map fun k => a * a * ((trig cb x off j k - etaRow cb x idx off j)
        * (trig cb x off j k - etaRow cb x idx off j)) := by
    apply List.map_congr_left; intro k _; rw [h]; ring
  rw [e, List.sum_map_mul_left]
  ring

/-- Events-input branch: the average is homogeneous too -/
theorem etaZ_smul (cb : Bool) (N : ℕ) (x : ℕ → ℚ) (a : ℚ) (idx : List ℤ) (off : ℤ) (j : ℕ) :
    etaRowZ cb N (fun p => a * x p) idx off j = a * etaRowZ cb N x idx off j := by
  unfold etaRowZ
  have h : ∀ k, trigZ cb N (fun p => a * x p) off j k = a * trigZ cb N x off j k := by
    intro k; unfold trigZ dataZ; split <;> split <;> (try split) <;> ring
  rw [funext h, List.sum_map_mul_left]
  ring

/-! ### per-channel gains on a multi-channel recording (channel ch × g ch; e.g. g = (1, 1e-11)) -/

/-- the job with channel `ch` of the recording multiplied by `g ch` (events untouched) -/
def scaleJob (g : ℕ → ℚ) (j : Job) : Job :=
  { j with data := Array.ofFn (n := j.data.size) fun i => g (i.val / j.N) * j.data[i] }

theorem dataOf_scaleJob (g : ℕ → ℚ) (j : Job) (ch : ℕ) :
    dataOf (scaleJob g j) ch = fun p => g ch * dataOf j ch p := by
  funext p
  unfold dataOf padFn scaleJob
  simp only []
  split
  · rename_i hc
    unfold getR
    by_cases hs : ch * j.N + (p - j.off.toNat) < j.data.size
    · have hdiv : (ch * j.N + (p - j.off.toNat)) / j.N = ch := by
        have hN : 0 < j.N := by omega
        rw [Nat.mul_comm, Nat.mul_add_div hN, Nat.div_eq_of_lt (by omega), Nat.add_zero]
      simp [Array.getD, hs, hdiv]
    · simp [Array.getD, hs]
  · ring

/-- **mixed amplitudes in one recording**: with channel ch multiplied by `g ch`, every channel's FIR
coefficient list is `g ch ·` that channel's list — channel by channel, whatever the other channels'
gains are (event types, padding and design are those of the unscaled job) -/
theorem firChannel_scaleJob (cur : Bool) (g : ℕ → ℚ) (j : Job) (ch : ℕ)
    (hrank : ChannelFullRank cur j ch) :
    firChannel cur (nPadOf (scaleJob g j)) (evOf (scaleJob g j) ch) (dataOf (scaleJob g j) ch)
        (scaleJob g j).off.toNat (scaleJob g j).L
      = (firChannel cur (nPadOf j) (evOf j ch) (dataOf j ch) j.off.toNat j.L).map (List.map (g ch * ·)) := by
  rw [dataOf_scaleJob]
  exact firChannel_smul cur (nPadOf j) (evOf j ch) (dataOf j ch) j.off.toNat j.L (g ch) hrank

/-- eta / ets per channel under per-channel gains -/
theorem eta_scaleJob (g : ℕ → ℚ) (j : Job) (ch : ℕ) (idx : List ℕ) (jj : ℕ) :
    etaRow j.cb (dataOf (scaleJob g j) ch) idx j.off.toNat jj = g ch * etaRow j.cb (dataOf j ch) idx j.off.toNat jj ∧
    semSqRow j.cb (dataOf (scaleJob g j) ch) idx j.off.toNat jj
      = g ch * g ch * semSqRow j.cb (dataOf j ch) idx j.off.toNat jj := by
  rw [dataOf_scaleJob]
  exact ⟨eta_smul _ _ _ _ _ _, semSq_smul _ _ _ _ _ _⟩

/-! ### `algorithms.fir` = pinv(XᵀX)·Xᵀ·y, as matrices -/

open Matrix in
/-- the first p columns / n rows of the design as a matrix over ℚ -/
def designMat (n p : ℕ) (X : ℕ → ℕ → ℤ) : Matrix (Fin n) (Fin p) ℚ := fun r c => (X r c : ℚ)

theorem designMat_injective {n p : ℕ} {X : ℕ → ℕ → ℤ} (hrank : FullColumnRank n p X) :
    Function.Injective (designMat n p X).mulVec := by
  intro v w hvw
  set d : ℕ → ℚ := fun c => if h : c < p then v ⟨c, h⟩ - w ⟨c, h⟩ else 0 with hd
  have hz := hrank d (by
    intro r hr
    have e := congr_fun hvw ⟨r, hr⟩
    simp only [Matrix.mulVec, dotProduct, designMat] at e
    rw [← Fin.sum_univ_eq_sum_range (fun c => (X r c : ℚ) * d c) p]
    have : ∀ c : Fin p, (X r c : ℚ) * d c = (X r c : ℚ) * v c - (X r c : ℚ) * w c := by
      intro c; simp only [hd, c.isLt, dif_pos, Fin.eta]; ring
    rw [Finset.sum_congr rfl (fun c _ => this c), Finset.sum_sub_distrib, e, sub_self])
  funext c
  have := hz c c.isLt
  simp only [hd, c.isLt, dif_pos, Fin.eta] at this
  linarith

theorem solvesNormal_matrix {n p : ℕ} {X : ℕ → ℕ → ℤ} {y v : ℕ → ℚ} (h : SolvesNormal n p X y v) :
    ((designMat n p X).transpose * designMat n p X).mulVec (fun c : Fin p => v c)
      = (designMat n p X).transpose.mulVec (fun r : Fin n => y r) := by
  funext a
  have e := h a a.isLt
  simp only [Matrix.mulVec, dotProduct, Matrix.mul_apply, Matrix.transpose_apply, designMat]
  rw [Fin.sum_univ_eq_sum_range (fun b => (∑ r : Fin n, (X r a : ℚ) * (X r b : ℚ)) * v b) p,
    Fin.sum_univ_eq_sum_range (fun r => (X r a : ℚ) * y r) n, ← e]
  apply Finset.sum_congr rfl
  intro b _
  rw [Fin.sum_univ_eq_sum_range (fun r => (X r a : ℚ) * (X r b : ℚ)) n]

/-- **the model's `fir` IS the pseudo-inverse formula** (any number of event types × response length `p`,
any data `y`, not only planted): on a full-column-rank design `XᵀX` is invertible, every matrix `P` with
`(XᵀX) P (XᵀX) = XᵀX` — in particular every Moore–Penrose pseudo-inverse, e.g. `scipy.linalg.pinv(XᵀX)` —
equals `(XᵀX)⁻¹`, and `P·Xᵀ·y` is coefficient by coefficient what the executable `firSolve` returns -/
theorem firSolve_eq_pinv {n p : ℕ} {X : ℕ → ℕ → ℤ} (y : ℕ → ℚ) (hrank : FullColumnRank n p X)
    (P : Matrix (Fin p) (Fin p) ℚ)
    (hP : ((designMat n p X).transpose * designMat n p X) * P * ((designMat n p X).transpose * designMat n p X)
            = (designMat n p X).transpose * designMat n p X) :
    ∃ x, firSolve n p X y = some x ∧ x.length = p ∧
      (P * (designMat n p X).transpose).mulVec (fun r : Fin n => y r) = fun c : Fin p => x.getD c 0 := by
  obtain ⟨x, hx⟩ := Option.isSome_iff_exists.mp (firSolve_total y hrank)
  refine ⟨x, hx, elimSolve_length _ _ _ hx, ?_⟩
  exact Pinv.pinv_fir_eq_of_normal (designMat n p X) P (designMat_injective hrank) hP _ _
    (solvesNormal_matrix (firSolve_solves hx))

/-- the same over ℝ, the field numpy/LAPACK's `pinv` works in: for every REAL matrix `P` satisfying the
first Penrose equation for the real Gram matrix, `P·Xᵀ·y` (y read in ℝ) is the model's rational result -/
theorem firSolve_eq_pinv_real {n p : ℕ} {X : ℕ → ℕ → ℤ} (y : ℕ → ℚ) (hrank : FullColumnRank n p X)
    (P : Matrix (Fin p) (Fin p) ℝ)
    (hP : (((designMat n p X).map (Rat.castHom ℝ)).transpose * (designMat n p X).map (Rat.castHom ℝ)) * P
            * (((designMat n p X).map (Rat.castHom ℝ)).transpose * (designMat n p X).map (Rat.castHom ℝ))
          = ((designMat n p X).map (Rat.castHom ℝ)).transpose * (designMat n p X).map (Rat.castHom ℝ)) :
    ∃ x, firSolve n p X y = some x ∧
      (P * ((designMat n p X).map (Rat.castHom ℝ)).transpose).mulVec (fun r : Fin n => ((y r : ℚ) : ℝ))
        = fun c : Fin p => ((x.getD c 0 : ℚ) : ℝ) := by
  obtain ⟨x, hx⟩ := Option.isSome_iff_exists.mp (firSolve_total y hrank)
  exact ⟨x, hx, Pinv.pinv_fir_real_of_rat_normal (designMat n p X) (designMat_injective hrank) P hP _ _
    (solvesNormal_matrix (firSolve_solves hx))⟩

/-- **planted recovery through pinv** (the task's statement, for the model's designs): y = X·h on the rows,
full column rank ⇒ pinv(XᵀX)·Xᵀ·y = h -/
theorem pinv_recovers_planted {n p : ℕ} {X : ℕ → ℕ → ℤ} {y h : ℕ → ℚ}
    (hy : ∀ r < n, y r = ∑ c ∈ range p, (X r c : ℚ) * h c) (hrank : FullColumnRank n p X)
    (P : Matrix (Fin p) (Fin p) ℚ)
    (hP : Pinv.IsPenrose ((designMat n p X).transpose * designMat n p X) P) :
    (P * (designMat n p X).transpose).mulVec (fun r : Fin n => y r) = fun c : Fin p => h c :=
  Pinv.pinv_fir_eq_of_normal (designMat n p X) P (designMat_injective hrank) hP.apa _ _
    (solvesNormal_matrix (planted_solves hy))

/-! ### non-vacuity: a concrete overlapping two-type design (codes 1 and -2, L = 2) meeting every
hypothesis of the FIR theorems, and a separated one for the averaging theorems.  (`firSolve` itself
is run on these very designs by the driver on every check: `fixed_specs` in harness/c19.py.) -/

def evA : ℕ → ℤ := fun k => if k = 0 then 1 else if k = 1 then -2 else if k = 3 then 1 else 0
def respA : ℤ → ℕ → ℚ := fun t j => if t = 1 then (if j = 0 then 3 else 5) else (if j = 0 then 7 else 4)
def yA : ℕ → ℚ := fun r =>
  if r = 0 then 3 else if r = 1 then 12 else if r = 2 then 4 else if r = 3 then 3 else if r = 4 then 5 else 0

example : eventTypes ((List.range 6).map evA) = [-2, 1] := by decide

/-- responses of the events at 0 and 1 overlap at sample 1 (3,5 + 7,4 → 12) -/
example : ∀ r < 6, yA r = planted 6 evA (signedResp false respA) 0 2 r := by
  intro r hr
  interval_cases r <;>
    simp [planted, sumRange, List.range, List.range.loop, evA, yA, signedResp, sgn, respA]
  norm_num

theorem fullRank_A : FullColumnRank 6 4 (designEntry false evA [-2, 1] 2) := by
  intro v hv c hc
  have h0 := hv 0 (by omega)
  have h1 := hv 1 (by omega)
  have h2 := hv 2 (by omega)
  have h4 := hv 4 (by omega)
  simp [Finset.sum_range_succ, designEntry, sgn, evA] at h0 h1 h2 h4
  rw [h4] at h1
  interval_cases c <;> simp_all

/-- instances of the scale / pseudo-inverse theorems on the overlapping design A: homogeneity for every
factor, and a Moore–Penrose pseudo-inverse of its Gram matrix exists (the inverse), so
`pinv_recovers_planted` is not vacuous -/
example (y : ℕ → ℚ) (a : ℚ) :
    firSolve 6 4 (designEntry false evA [-2, 1] 2) (fun r => a * y r)
      = (firSolve 6 4 (designEntry false evA [-2, 1] 2) y).map (List.map (a * ·)) :=
  fir_smul y a fullRank_A
example : Pinv.IsPenrose
    ((designMat 6 4 (designEntry false evA [-2, 1] 2)).transpose * designMat 6 4 (designEntry false evA [-2, 1] 2))
    ((designMat 6 4 (designEntry false evA [-2, 1] 2)).transpose * designMat 6 4 (designEntry false evA [-2, 1] 2))⁻¹ :=
  Pinv.isPenrose_inv (Pinv.gram_isUnit_det _ (designMat_injective fullRank_A))

/-- a design that is NOT separated can still be full rank (so `fir_exact_recovery` really covers overlaps) -/
example : ¬ Separated 6 evA 2 := by
  intro h
  have := h 0 (by omega) 1 (by omega) (by simp [evA]) (by simp [evA]) (by omega)
  omega

def evB : ℕ → ℤ := fun k => if k = 1 then 2 else if k = 4 then -1 else if k = 7 then 2 else 0

theorem separated_B : Separated 10 evB 2 := by
  intro k hk k' hk'
  interval_cases k <;> interval_cases k' <;> simp [evB]

/-- instance of `eta_exact_no_overlap` / `ets_zero` (code -1, offset 1, baseline correction on) -/
example (resp : ℤ → ℕ → ℚ) (j : ℕ) (hj : j < 2) :
    etaRow true (planted 10 evB resp 1 2) (positions 10 evB (-1)) 1 j = resp (-1) j - resp (-1) 0 ∧
    semSqRow true (planted 10 evB resp 1 2) (positions 10 evB (-1)) 1 j = 0 :=
  ⟨by simpa [etaTruth] using eta_exact_no_overlap true 10 evB resp 1 2 _ (fun _ => rfl) separated_B (-1)
        (by omega) ⟨4, by omega, by simp [evB]⟩ j hj,
   ets_zero true 10 evB resp 1 2 _ (fun _ => rfl) separated_B (-1) (by omega) ⟨4, by omega, by simp [evB]⟩ j hj⟩

/-- a two-channel job with broadcast 1-d events meeting the hypotheses of the shape-layer theorems -/
def jB : Job := { what := "eta", off := 1, L := 2, cb := false, si := 1000, nch := 2, N := 8, evch := 0,
                  ev := #[0, 1, 0, 0, 2, 0, 0, 0], data := #[] }
example : InDomain jB := by
  intro ch hch k hk
  have : ch < 2 := hch
  have : k < 8 := hk
  interval_cases k <;> simp [jB, getI]
example : ∀ ch < max jB.nch 1, (typesOf jB ch).length = (typesOf jB 0).length :=
  fun ch _ => by rw [typesOf_broadcast jB rfl ch]
example : typesOf jB 0 = [1, 2] := by decide

end Nitime.C19.Props
