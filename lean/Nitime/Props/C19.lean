/-
C19 — property theorems for the event-related estimators model (`Nitime.C19`).

Every theorem is about the executable definitions of `Nitime/Model/C19.lean` at the instance the
driver runs (`Rat`, exact).  Which code each definition mirrors is listed in the model's header.
Sums are written with `Finset.range`; `sumRange_eq` (Lemmas/C19Lin) is the bridge to the model's
list sums.  Not proved: that `gaussSolve` finds a solution whenever the design has full column rank
(the model re-checks each answer exactly and returns `none` otherwise; a `none` on a full-rank design
is reported per run by the correspondence), and binary64 rounding of numpy/LAPACK.
-/
import Nitime.Model.C19
import Nitime.Lemmas.C19Lin

namespace Nitime.C19.Props
open Nitime.C19 Finset

/-! ### results are ordered by sorted event code -/

/-- `eventTypes` (= `np.unique(ev)[… != 0]`) is strictly increasing and holds exactly the non-zero
codes; row b of every estimator belongs to `(eventTypes ev)[b]` -/
theorem results_sorted_by_code (xs : List ℤ) :
    (eventTypes xs).Pairwise (· < ·) ∧ ∀ t, t ∈ eventTypes xs ↔ (t ∈ xs ∧ t ≠ 0) := by
  constructor
  · exact (pairwise_uniqueSorted xs).filter _
  · intro t; simp [eventTypes, mem_uniqueSorted]

example : eventTypes [3, 0, -1, 2, 2, 0, 3] = [-1, 2, 3] := by decide

/-! ### the design matrix -/

/-- the closed-form entry equals the code's accumulation over events (`+= eye(L) * sign`) -/
theorem designEntry_eq_eventSum (cur : Bool) (n : ℕ) (ev : ℕ → ℤ) (types : List ℤ) (L r c : ℕ)
    (hr : r < n) :
    designEventSum cur n ev types L r c = designEntry cur ev types L r c := by
  unfold designEventSum designEntry
  simp only [sumRangeI_eq]
  set t := types.getD (c / L) 0
  set j := c % L
  by_cases hj : j ≤ r
  · rw [Finset.sum_eq_single (r - j)]
    · have e1 : r - j ≤ r := Nat.sub_le _ _
      have e2 : r - (r - j) = j := by omega
      simp only [e1, e2, hj, true_and, and_true]
    · intro k _ hk
      rw [if_neg]
      rintro ⟨_, _, h1, h2⟩
      omega
    · intro h
      exact absurd (Finset.mem_range.mpr (by omega)) h
  · rw [if_neg (by tauto)]
    apply Finset.sum_eq_zero
    intro k _
    rw [if_neg]
    rintro ⟨_, _, h1, h2⟩
    omega

/-- the signed planted signal: every event adds `sign(code) * response(code)` from its own sample on -/
def signedResp (cur : Bool) (resp : ℤ → ℕ → ℚ) : ℤ → ℕ → ℚ := fun t j => (sgn cur t : ℚ) * resp t j

/-- **design_times_h_is_planted**: row r of `X·h`, with `h` laid out by sorted type (the FIR output
layout, coefficient c = b*L+j ↦ response of `types[b]` at lag j), is the superposition of the
(signed) responses of all events — overlaps included.  `types` only needs to list every occurring
non-zero code once (true for `eventTypes`, see `results_sorted_by_code`). -/
theorem design_times_h_is_planted (cur : Bool) (n : ℕ) (ev : ℕ → ℤ) (types : List ℤ) (L : ℕ)
    (resp : ℤ → ℕ → ℚ) (hnd : types.Nodup)
    (hcov : ∀ k < n, ev k ≠ 0 → ev k ∈ types) (r : ℕ) (hr : r < n) :
    ∑ c ∈ range (types.length * L),
        (designEntry cur ev types L r c : ℚ) * resp (types.getD (c / L) 0) (c % L)
      = planted n ev (signedResp cur resp) 0 L r := by
  rw [sum_range_flat]
  unfold planted
  rw [sumRange_eq]
  -- evaluate the inner sum over blocks for a fixed lag j
  have inner : ∀ j ∈ range L, ∑ b ∈ range types.length,
        (designEntry cur ev types L r (b * L + j) : ℚ) * resp (types.getD ((b * L + j) / L) 0) ((b * L + j) % L)
      = if j ≤ r ∧ ev (r - j) ≠ 0 then signedResp cur resp (ev (r - j)) j else 0 := by
    intro j hj
    have hjL : j < L := Finset.mem_range.mp hj
    have hL : 0 < L := by omega
    have hdiv : ∀ b, (b * L + j) / L = b := by
      intro b; rw [Nat.mul_comm, Nat.mul_add_div hL, Nat.div_eq_of_lt hjL, Nat.add_zero]
    have hmod : ∀ b, (b * L + j) % L = j := by
      intro b; rw [Nat.mul_comm, Nat.mul_add_mod, Nat.mod_eq_of_lt hjL]
    simp only [designEntry, hdiv, hmod]
    by_cases hc : j ≤ r ∧ ev (r - j) ≠ 0
    · rw [if_pos hc]
      obtain ⟨b0, hb0, hb0e⟩ := List.getElem_of_mem (hcov (r - j) (by omega) hc.2)
      have hget : ∀ b, b < types.length → types.getD b 0 = types[b]! := by
        intro b hb; simp [List.getD_eq_getElem?_getD, hb]
      rw [Finset.sum_eq_single b0]
      · have : types.getD b0 0 = ev (r - j) := by
          rw [List.getD_eq_getElem?_getD, List.getElem?_eq_getElem hb0]; simpa using hb0e
        rw [this]
        simp [hc.1, hc.2, signedResp]
      · intro b hb hne
        have hb' := Finset.mem_range.mp hb
        rw [if_neg, Int.cast_zero, zero_mul]
        rintro ⟨_, h2, _⟩
        apply hne
        have e1 : types.getD b 0 = types[b] := by
          rw [List.getD_eq_getElem?_getD, List.getElem?_eq_getElem hb']; rfl
        rw [e1, ← hb0e] at h2
        exact ((List.Nodup.getElem_inj_iff hnd).mp h2).symm
      · intro h; exact absurd (Finset.mem_range.mpr hb0) h
    · rw [if_neg hc]
      apply Finset.sum_eq_zero
      intro b hb
      have hb' := Finset.mem_range.mp hb
      rw [if_neg, Int.cast_zero, zero_mul]
      rintro ⟨h1, h2, h3⟩
      exact hc ⟨h1, by rw [h2]; exact h3⟩
  rw [Finset.sum_comm, Finset.sum_congr rfl inner]
  -- reindex lag j ↔ event position k = r - j
  rw [← Finset.sum_filter, ← Finset.sum_filter]
  apply Finset.sum_nbij' (fun j => r - j) (fun k => r - k)
  · intro j hj
    simp only [Finset.mem_filter, Finset.mem_range] at hj ⊢
    refine ⟨by omega, hj.2.2, by omega, by omega⟩
  · intro k hk
    simp only [Finset.mem_filter, Finset.mem_range] at hk ⊢
    obtain ⟨_, h1, h2, h3⟩ := hk
    have : r - (r - k) = k := by omega
    refine ⟨by omega, by omega, by rw [this]; exact h1⟩
  · intro j hj
    simp only [Finset.mem_filter, Finset.mem_range] at hj
    omega
  · intro k hk
    simp only [Finset.mem_filter, Finset.mem_range] at hk
    omega
  · intro j hj
    simp only [Finset.mem_filter, Finset.mem_range] at hj
    have : r - (r - j + 0) = j := by omega
    rw [this]

end Nitime.C19.Props
