/-
C19 — property theorems for the event-related estimators model (`Nitime.C19`).

Every theorem is about the executable definitions of `Nitime/Model/C19.lean` at the instance the
driver runs (`Rat`, exact).  Which code each definition mirrors is listed in the model's header.
Sums are written with `Finset.range`; `sumRange_eq` (Lemmas/C19Lin) is the bridge to the model's
list sums.  Not proved: that `gaussSolve` finds a solution whenever the design has full column rank
(the model re-checks each answer exactly and returns `none` otherwise; a `none` on a full-rank design
is reported per run by the correspondence), and binary64 rounding of numpy/LAPACK.
-/
import Nitime.Model.C19
import Nitime.Lemmas.C19Lin

namespace Nitime.C19.Props
open Nitime.C19 Finset

/-! ### results are ordered by sorted event code -/

/-- `eventTypes` (= `np.unique(ev)[… != 0]`) is strictly increasing and holds exactly the non-zero
codes; row b of every estimator belongs to `(eventTypes ev)[b]` -/
theorem results_sorted_by_code (xs : List ℤ) :
    (eventTypes xs).Pairwise (· < ·) ∧ ∀ t, t ∈ eventTypes xs ↔ (t ∈ xs ∧ t ≠ 0) := by
  constructor
  · exact (pairwise_uniqueSorted xs).filter _
  · intro t; simp [eventTypes, mem_uniqueSorted]

example : eventTypes [3, 0, -1, 2, 2, 0, 3] = [-1, 2, 3] := by decide

/-! ### the design matrix -/

/-- the closed-form entry equals the code's accumulation over events (`+= eye(L) * sign`) -/
theorem designEntry_eq_eventSum (cur : Bool) (n : ℕ) (ev : ℕ → ℤ) (types : List ℤ) (L r c : ℕ)
    (hr : r < n) :
    designEventSum cur n ev types L r c = designEntry cur ev types L r c := by
  unfold designEventSum designEntry
  simp only [sumRangeI_eq]
  set t := types.getD (c / L) 0
  set j := c % L
  by_cases hj : j ≤ r
  · rw [Finset.sum_eq_single (r - j)]
    · have e1 : r - j ≤ r := Nat.sub_le _ _
      have e2 : r - (r - j) = j := by omega
      simp only [e1, e2, hj, true_and, and_true]
    · intro k _ hk
      rw [if_neg]
      rintro ⟨_, _, h1, h2⟩
      omega
    · intro h
      exact absurd (Finset.mem_range.mpr (by omega)) h
  · rw [if_neg (by tauto)]
    apply Finset.sum_eq_zero
    intro k _
    rw [if_neg]
    rintro ⟨_, _, h1, h2⟩
    omega

/-- the signed planted signal: every event adds `sign(code) * response(code)` from its own sample on -/
def signedResp (cur : Bool) (resp : ℤ → ℕ → ℚ) : ℤ → ℕ → ℚ := fun t j => (sgn cur t : ℚ) * resp t j

/-- **design_times_h_is_planted**: row r of `X·h`, with `h` laid out by sorted type (the FIR output
layout, coefficient c = b*L+j ↦ response of `types[b]` at lag j), is the superposition of the
(signed) responses of all events — overlaps included.  `types` only needs to list every occurring
non-zero code once (true for `eventTypes`, see `results_sorted_by_code`). -/
theorem design_times_h_is_planted (cur : Bool) (n : ℕ) (ev : ℕ → ℤ) (types : List ℤ) (L : ℕ)
    (resp : ℤ → ℕ → ℚ) (hnd : types.Nodup)
    (hcov : ∀ k < n, ev k ≠ 0 → ev k ∈ types) (r : ℕ) (hr : r < n) :
    ∑ c ∈ range (types.length * L),
        (designEntry cur ev types L r c : ℚ) * resp (types.getD (c / L) 0) (c % L)
      = planted n ev (signedResp cur resp) 0 L r := by
  rw [sum_range_flat]
  unfold planted
  rw [sumRange_eq]
  -- evaluate the inner sum over blocks for a fixed lag j
  have inner : ∀ j ∈ range L, ∑ b ∈ range types.length,
        (designEntry cur ev types L r (b * L + j) : ℚ) * resp (types.getD ((b * L + j) / L) 0) ((b * L + j) % L)
      = if j ≤ r ∧ ev (r - j) ≠ 0 then signedResp cur resp (ev (r - j)) j else 0 := by
    intro j hj
    have hjL : j < L := Finset.mem_range.mp hj
    have hL : 0 < L := by omega
    have hdiv : ∀ b, (b * L + j) / L = b := by
      intro b; rw [Nat.mul_comm, Nat.mul_add_div hL, Nat.div_eq_of_lt hjL, Nat.add_zero]
    have hmod : ∀ b, (b * L + j) % L = j := by
      intro b; rw [Nat.mul_comm, Nat.mul_add_mod, Nat.mod_eq_of_lt hjL]
    simp only [designEntry, hdiv, hmod]
    by_cases hc : j ≤ r ∧ ev (r - j) ≠ 0
    · rw [if_pos hc]
      obtain ⟨b0, hb0, hb0e⟩ := List.getElem_of_mem (hcov (r - j) (by omega) hc.2)
      have hget : ∀ b, b < types.length → types.getD b 0 = types[b]! := by
        intro b hb; simp [List.getD_eq_getElem?_getD, hb]
      rw [Finset.sum_eq_single b0]
      · have : types.getD b0 0 = ev (r - j) := by
          rw [List.getD_eq_getElem?_getD, List.getElem?_eq_getElem hb0]; simpa using hb0e
        rw [this]
        simp [hc.1, hc.2, signedResp]
      · intro b hb hne
        have hb' := Finset.mem_range.mp hb
        rw [if_neg, Int.cast_zero, zero_mul]
        rintro ⟨_, h2, _⟩
        apply hne
        have e1 : types.getD b 0 = types[b] := by
          rw [List.getD_eq_getElem?_getD, List.getElem?_eq_getElem hb']; rfl
        rw [e1, ← hb0e] at h2
        exact ((List.Nodup.getElem_inj_iff hnd).mp h2).symm
      · intro h; exact absurd (Finset.mem_range.mpr hb0) h
    · rw [if_neg hc]
      apply Finset.sum_eq_zero
      intro b hb
      have hb' := Finset.mem_range.mp hb
      rw [if_neg, Int.cast_zero, zero_mul]
      rintro ⟨h1, h2, h3⟩
      exact hc ⟨h1, by rw [h2]; exact h3⟩
  rw [Finset.sum_comm, Finset.sum_congr rfl inner]
  -- reindex lag j ↔ event position k = r - j
  rw [← Finset.sum_filter, ← Finset.sum_filter]
  apply Finset.sum_nbij' (fun j => r - j) (fun k => r - k)
  · intro j hj
    simp only [Finset.mem_filter, Finset.mem_range] at hj ⊢
    refine ⟨by omega, hj.2.2, by omega, by omega⟩
  · intro k hk
    simp only [Finset.mem_filter, Finset.mem_range] at hk ⊢
    obtain ⟨_, h1, h2, h3⟩ := hk
    have : r - (r - k) = k := by omega
    refine ⟨by omega, by omega, by rw [this]; exact h1⟩
  · intro j hj
    simp only [Finset.mem_filter, Finset.mem_range] at hj
    omega
  · intro k hk
    simp only [Finset.mem_filter, Finset.mem_range] at hk
    omega
  · intro j hj
    simp only [Finset.mem_filter, Finset.mem_range] at hj
    have : r - (r - j + 0) = j := by omega
    rw [this]

/-! ### FIR: exact recovery, overlaps allowed -/

/-- `v` solves the normal equations `XᵀX v = Xᵀy` -/
def SolvesNormal (n p : ℕ) (X : ℕ → ℕ → ℤ) (y v : ℕ → ℚ) : Prop :=
  ∀ a < p, ∑ b ∈ range p, (∑ r ∈ range n, (X r a : ℚ) * (X r b : ℚ)) * v b
            = ∑ r ∈ range n, (X r a : ℚ) * y r

/-- the first p columns of X are linearly independent over the n rows -/
def FullColumnRank (n p : ℕ) (X : ℕ → ℕ → ℤ) : Prop :=
  ∀ v : ℕ → ℚ, (∀ r < n, ∑ c ∈ range p, (X r c : ℚ) * v c = 0) → ∀ c < p, v c = 0

theorem gram_cast (n : ℕ) (X : ℕ → ℕ → ℤ) (a b : ℕ) :
    ((gram n X a b : ℤ) : ℚ) = ∑ r ∈ range n, (X r a : ℚ) * (X r b : ℚ) := by
  unfold gram; rw [sumRangeI_eq]; push_cast; rfl

/-- whatever the model's `firSolve` (Gauss–Jordan + exact residual check) returns solves the normal equations -/
theorem firSolve_solves {n p : ℕ} {X : ℕ → ℕ → ℤ} {y : ℕ → ℚ} {x : List ℚ}
    (hs : firSolve n p X y = some x) : SolvesNormal n p X y (fun b => x.getD b 0) := by
  unfold firSolve at hs
  split at hs
  · cases hs
  · split at hs
    · rename_i hchk
      injection hs with hx
      subst hx
      intro a ha
      have := (List.all_eq_true.mp hchk) a (List.mem_range.mpr ha)
      simp only [decide_eq_true_eq] at this
      unfold xty at this
      rw [sumRange_eq, sumRange_eq] at this
      simpa [gram_cast] using this
    · cases hs

theorem planted_solves {n p : ℕ} {X : ℕ → ℕ → ℤ} {y h : ℕ → ℚ}
    (hy : ∀ r < n, y r = ∑ c ∈ range p, (X r c : ℚ) * h c) : SolvesNormal n p X y h := by
  intro a _
  have e : ∑ r ∈ range n, (X r a : ℚ) * y r
      = ∑ r ∈ range n, (X r a : ℚ) * ∑ c ∈ range p, (X r c : ℚ) * h c :=
    Finset.sum_congr rfl (fun r hr => by rw [hy r (Finset.mem_range.mp hr)])
  rw [e]
  simp only [Finset.mul_sum, Finset.sum_mul]
  rw [Finset.sum_comm]
  apply Finset.sum_congr rfl; intro r _
  apply Finset.sum_congr rfl; intro c _; ring

theorem solves_unique {n p : ℕ} {X : ℕ → ℕ → ℤ} {y v w : ℕ → ℚ} (hrank : FullColumnRank n p X)
    (hv : SolvesNormal n p X y v) (hw : SolvesNormal n p X y w) : ∀ c < p, v c = w c := by
  have key := gram_kernel_trivial n p (fun r c => (X r c : ℚ)) (fun c => v c - w c) ?_ hrank
  · intro c hc; have := key c hc; linarith
  · intro a ha
    have h1 := hv a ha
    have h2 := hw a ha
    simp only [mul_sub, Finset.sum_sub_distrib]
    rw [h1, h2, sub_self]

/-- **fir_exact_recovery**: if the data are exactly `X·h` (responses may overlap arbitrarily) and the
design has full column rank, the model's FIR estimate IS `h` -/
theorem fir_exact_recovery {n p : ℕ} {X : ℕ → ℕ → ℤ} {y h : ℕ → ℚ} {x : List ℚ}
    (hs : firSolve n p X y = some x)
    (hy : ∀ r < n, y r = ∑ c ∈ range p, (X r c : ℚ) * h c)
    (hrank : FullColumnRank n p X) : ∀ c < p, x.getD c 0 = h c :=
  solves_unique hrank (firSolve_solves hs) (planted_solves hy)

/-- FIR on a planted signal, intended design (no sign factor): row b, lag j of the estimate is the
response of the b-th sorted code at lag j -/
theorem fir_recovers_planted (cur : Bool) (n : ℕ) (ev : ℕ → ℤ) (types : List ℤ) (L : ℕ)
    (resp : ℤ → ℕ → ℚ) (y : ℕ → ℚ) (x : List ℚ) (hnd : types.Nodup)
    (hcov : ∀ k < n, ev k ≠ 0 → ev k ∈ types)
    (hy : ∀ r < n, y r = planted n ev (signedResp cur resp) 0 L r)
    (hrank : FullColumnRank n (types.length * L) (designEntry cur ev types L))
    (hs : firSolve n (types.length * L) (designEntry cur ev types L) y = some x) :
    ∀ c < types.length * L, x.getD c 0 = resp (types.getD (c / L) 0) (c % L) := by
  apply fir_exact_recovery hs _ hrank
  intro r hr
  rw [hy r hr, ← design_times_h_is_planted cur n ev types L resp hnd hcov r hr]

theorem sgn_mul_self (t : ℤ) (ht : t ≠ 0) : (sgn true t : ℚ) * (sgn true t : ℚ) = 1 := by
  unfold sgn
  rcases lt_trichotomy t 0 with h | h | h
  · have : ¬ t > 0 := by omega
    simp [this, h]
  · exact absurd h ht
  · simp [h]

theorem sgn_neg (t : ℤ) (ht : t < 0) : (sgn true t : ℚ) = -1 := by
  unfold sgn
  have : ¬ t > 0 := by omega
  simp [this, ht]

/-- today's code (`cur = true`) on a signal planted with the plain responses: the estimate of a code's
response carries the factor `np.sign(code)` -/
theorem fir_current_sign (n : ℕ) (ev : ℕ → ℤ) (types : List ℤ) (L : ℕ)
    (resp : ℤ → ℕ → ℚ) (y : ℕ → ℚ) (x : List ℚ) (hnd : types.Nodup)
    (hcov : ∀ k < n, ev k ≠ 0 → ev k ∈ types)
    (hy : ∀ r < n, y r = planted n ev resp 0 L r)
    (hrank : FullColumnRank n (types.length * L) (designEntry true ev types L))
    (hs : firSolve n (types.length * L) (designEntry true ev types L) y = some x) :
    ∀ c < types.length * L,
      x.getD c 0 = (sgn true (types.getD (c / L) 0) : ℚ) * resp (types.getD (c / L) 0) (c % L) := by
  apply fir_recovers_planted true n ev types L (fun t j => (sgn true t : ℚ) * resp t j) y x hnd hcov _ hrank hs
  intro r hr
  rw [hy r hr]
  unfold planted signedResp
  rw [sumRange_eq, sumRange_eq]
  apply Finset.sum_congr rfl
  intro k _
  by_cases hc : ev k ≠ 0 ∧ k + 0 ≤ r ∧ r < k + 0 + L
  · rw [if_pos hc, if_pos hc, ← mul_assoc, sgn_mul_self _ hc.1, one_mul]
  · rw [if_neg hc, if_neg hc]

/-- **counterexample clause (finding `fir/negative-code/sign-flipped`)**: with today's sign factor a
negative code's non-zero response sample is NOT returned (it comes back negated) -/
theorem fir_negative_code_counterexample (n : ℕ) (ev : ℕ → ℤ) (types : List ℤ) (L : ℕ)
    (resp : ℤ → ℕ → ℚ) (y : ℕ → ℚ) (x : List ℚ) (hnd : types.Nodup)
    (hcov : ∀ k < n, ev k ≠ 0 → ev k ∈ types)
    (hy : ∀ r < n, y r = planted n ev resp 0 L r)
    (hrank : FullColumnRank n (types.length * L) (designEntry true ev types L))
    (hs : firSolve n (types.length * L) (designEntry true ev types L) y = some x)
    (c : ℕ) (hc : c < types.length * L) (hneg : types.getD (c / L) 0 < 0)
    (hnz : resp (types.getD (c / L) 0) (c % L) ≠ 0) :
    x.getD c 0 = - resp (types.getD (c / L) 0) (c % L) ∧
    x.getD c 0 ≠ resp (types.getD (c / L) 0) (c % L) := by
  have h := fir_current_sign n ev types L resp y x hnd hcov hy hrank hs c hc
  have hs' : (sgn true (types.getD (c / L) 0) : ℚ) = -1 := sgn_neg _ hneg
  rw [hs'] at h
  constructor
  · rw [h]; ring
  · rw [h]; intro e; apply hnz; linarith

/-- FIR is linear in the data (per channel): the estimate of `a·y₁ + y₂` is `a·ĥ₁ + ĥ₂` -/
theorem fir_linear {n p : ℕ} {X : ℕ → ℕ → ℤ} {y1 y2 : ℕ → ℚ} {x1 x2 x3 : List ℚ} (a : ℚ)
    (hrank : FullColumnRank n p X)
    (h1 : firSolve n p X y1 = some x1) (h2 : firSolve n p X y2 = some x2)
    (h3 : firSolve n p X (fun r => a * y1 r + y2 r) = some x3) :
    ∀ c < p, x3.getD c 0 = a * x1.getD c 0 + x2.getD c 0 := by
  apply solves_unique hrank (firSolve_solves h3)
  intro b hb
  have e1 := firSolve_solves h1 b hb
  have e2 := firSolve_solves h2 b hb
  simp only [mul_add, Finset.sum_add_distrib] at e1 e2 ⊢
  have : ∀ (f g : ℕ → ℚ), ∑ i ∈ range p, f i * (a * g i) = a * ∑ i ∈ range p, f i * g i := by
    intro f g; rw [Finset.mul_sum]; apply Finset.sum_congr rfl; intro i _; ring
  rw [this, e1, e2]
  have : ∀ (f g : ℕ → ℚ), ∑ i ∈ range n, f i * (a * g i) = a * ∑ i ∈ range n, f i * g i := by
    intro f g; rw [Finset.mul_sum]; apply Finset.sum_congr rfl; intro i _; ring
  rw [this]

end Nitime.C19.Props
