import Nitime.Model.C20
namespace Nitime.C20.Props
theorem mi_eq_sum_stub : True := trivial
end Nitime.C20.Props
