/-
C20 — property theorems: correlation, normalisation and information measures obey their
definitions.  Every statement is about the model text of `Nitime/Model/C20.lean`, instantiated at
ℂ (covariance family, pair fill), ℝ (Pearson, z-score, percent change, entropies); the driver
runs the `Float` / `CF` instances of the same definitions.  Index convention of the all-lags
results: entry `m` is lag `k = m - (N-1)`, `N` = lane length.

Mirrors: `crosscovCore`/`crosscov1` ↔ utils.crosscov (one lane), `autocov1` ↔ utils.autocov /
autocorr, `correlateFull`, `xcorrFill` ↔ CorrelationAnalyzer.xcorr, `seedCorrcoef1` ↔
algorithms.seed_corrcoef, `zscore1` ↔ utils.zscore, `percentChange1` ↔ utils.percent_change,
`entropy1/2`, `mutualInformation`, `conditionalEntropy` ↔ algorithms.entropy.*.
-/
import Nitime.Model.C20
import Nitime.Lemmas.C20Corr
import Nitime.Lemmas.C20Real
import Nitime.Lemmas.C20Entropy
import Nitime.Lemmas.C20Entropy3
import Nitime.Lemmas.C20Lanes
import Nitime.Lemmas.C20Spectrum
import Nitime.Lemmas.C20Object
import Nitime.Lemmas.C20Fft
import Nitime.Lemmas.C20Vec
import Nitime.Lemmas.C20Invariance

namespace Nitime.C20.Props
open Finset Nitime.Ev Nitime.C20
open scoped ComplexConjugate
attribute [-instance] instBEqProd

/-! ### covariance family -/

/-- every entry of the all-lags cross-covariance is the lagged sum of the definition
`C_xy[k] = Σ_n x'[n+k]·conj y'[n]` (`x'`, `y'` = inputs, mean removed when `debias`), divided by
`N` when `normalize` -/
theorem crosscov_is_lagged_sum (x y : List ℂ) (h : x.length = y.length) (db nm : Bool) {m : ℕ}
    (hm : m < 2 * x.length - 1) :
    nth (crosscovCore x y true db nm) m
      = nrm nm x.length (∑ n ∈ range x.length,
          if x.length - 1 ≤ n + m ∧ n + m - (x.length - 1) < x.length
          then nth (pre db x) (n + m - (x.length - 1)) * conj (nth (pre db y) n) else 0) := by
  rw [nth_crosscov_all x y h db nm hm, D_lagged]

/-- `c_yx[k] = conj c_xy[−k]` for every lag and every flag combination -/
theorem lag_reversal (x y : List ℂ) (h : x.length = y.length) (db nm : Bool) {m : ℕ}
    (hm : m < 2 * x.length - 1) :
    nth (crosscovCore y x true db nm) (2 * x.length - 2 - m)
      = conj (nth (crosscovCore x y true db nm) m) := by
  rw [nth_crosscov_all x y h db nm hm, nth_crosscov_all y x h.symm db nm (by omega), conj_nrm,
    ← h, D_reverse _ _ _ hm]

/-- zero lag sits at index `N-1` of the all-lags result and at index 0 of the clipped result, and
equals the (normalised) inner product; clipped entry `k` is lag `k ≥ 0` -/
theorem zero_lag_position (x y : List ℂ) (h : x.length = y.length) (hN : 0 < x.length) (db nm : Bool) :
    nth (crosscovCore x y true db nm) (x.length - 1)
        = nrm nm x.length (∑ n ∈ range x.length, nth (pre db x) n * conj (nth (pre db y) n)) ∧
    nth (crosscovCore x y false db nm) 0 = nth (crosscovCore x y true db nm) (x.length - 1) ∧
    (∀ k, k < x.length →
      nth (crosscovCore x y false db nm) k = nth (crosscovCore x y true db nm) (x.length - 1 + k)) ∧
    (crosscovCore x y true db nm).length = 2 * x.length - 1 ∧
    (crosscovCore x y false db nm).length = x.length := by
  refine ⟨?_, ?_, fun k hk => nth_crosscov_clip x y db nm hk, length_crosscov_all x y h db nm,
    length_crosscov_clip x y h db nm⟩
  · rw [nth_crosscov_all x y h db nm (by omega), D_zero_lag]
  · simpa using nth_crosscov_clip x y db nm hN

/-- the length check of `crosscov` -/
theorem crosscov_accepts_iff (x y : List ℂ) (al db nm : Bool) :
    (x.length = y.length → crosscov1 x y al db nm = .ok (crosscovCore x y al db nm)) ∧
    (x.length ≠ y.length → crosscov1 x y al db nm = .error ()) := by
  constructor <;> intro h <;> simp [crosscov1, h]

/-- auto-covariance / auto-correlation sequences are Hermitian: `c[−k] = conj c[k]` -/
theorem autocorr_hermitian (x : List ℂ) (db nm : Bool) {m : ℕ} (hm : m < 2 * x.length - 1) :
    nth (autocov1 x true db nm) (2 * x.length - 2 - m) = conj (nth (autocov1 x true db nm) m) := by
  have hl : (if db = true then removeBias x else x).length = x.length := by cases db <;> simp
  have := lag_reversal (if db = true then removeBias x else x) (if db = true then removeBias x else x)
    rfl false nm (m := m) (by rw [hl]; exact hm)
  rw [hl] at this
  exact this

/-- the zero-lag auto-covariance is `Σ|x'_n|²` (over `N` when normalised) -/
theorem autocov_zero_lag (x : List ℂ) (hN : 0 < x.length) (db nm : Bool) :
    nth (autocov1 x true db nm) (x.length - 1)
      = nrm nm x.length (∑ n ∈ range x.length, ((Complex.normSq (nth (pre db x) n) : ℝ) : ℂ)) := by
  have hl : (pre db x).length = x.length := length_pre db x
  have := (zero_lag_position (pre db x) (pre db x) rfl (by rw [hl]; exact hN) false nm).1
  rw [hl] at this
  unfold autocov1
  rw [show (if db = true then removeBias x else x) = pre db x from rfl, this]
  congr 1
  refine sum_congr rfl fun n _ => ?_
  simp [pre, Complex.mul_conj]

/-! ### the analyzer's pair fill -/

/-- intended fill: EVERY entry (i,j) is `np.correlate(d_i, d_j, 'full')`; in particular entry
(j,i) is the conjugated lag-reversed entry (i,j) -/
theorem xcorr_intended_is_direct (data : List (List ℂ)) (i j : ℕ) (hi : i < data.length)
    (hj : j < data.length) (hlen : (data.getD i []).length = (data.getD j []).length) :
    ((xcorrFill .intended data).getD i []).getD j []
      = correlateFull (data.getD i []) (data.getD j []) := by
  simp only [xcorrFill, List.getD_eq_getElem?_getD, List.getElem?_map, List.getElem?_range hi,
    List.getElem?_range hj, Option.map_some, Option.getD_some]
  split_ifs with h
  · rfl
  · exact correlate_reverse _ _ (by simpa [List.getD_eq_getElem?_getD] using hlen.symm)

theorem xcorr_intended_pair_reversal (data : List (List ℂ)) (i j : ℕ) (hi : i < data.length)
    (hj : j < data.length) (hlen : (data.getD i []).length = (data.getD j []).length) :
    ((xcorrFill .intended data).getD j []).getD i []
      = (((xcorrFill .intended data).getD i []).getD j []).reverse.map conj := by
  rw [xcorr_intended_is_direct data i j hi hj hlen, xcorr_intended_is_direct data j i hj hi hlen.symm]
  exact (correlate_reverse _ _ hlen).symm

/-- today's fill (a copy) is not lag-reversed: channels [1,2] and [3,5] -/
theorem xcorr_current_counterexample :
    ((xcorrFill .current [[1, 2], [3, 5]] : List (List (List Rat))).getD 1 []).getD 0 [] = [5, 13, 6] ∧
    (correlateFull [3, 5] [1, 2] : List Rat) = [6, 13, 5] := by
  decide +kernel

/-- what does hold for today's fill: the computed half (i ≤ j) is the direct sequence -/
theorem xcorr_current_partial (data : List (List ℂ)) (i j : ℕ) (hij : i ≤ j) (hj : j < data.length) :
    ((xcorrFill .current data).getD i []).getD j []
      = correlateFull (data.getD i []) (data.getD j []) := by
  have hi : i < data.length := by omega
  simp only [xcorrFill, List.getD_eq_getElem?_getD, List.getElem?_map, List.getElem?_range hi,
    List.getElem?_range hj, Option.map_some, Option.getD_some, if_pos hij]

/-- `xcorr_norm` (as repaired upstream): the zero-lag entry (index `N-1`) of every computed
sequence equals the correlation coefficient of the two channels -/
theorem xcorr_norm_zero_lag (var : Variant) (data : List (List ℝ)) (i j : ℕ) (hij : i ≤ j)
    (hj : j < data.length) (hN : 0 < (data.headD []).length)
    (hi' : (data.getD i []).length = (data.headD []).length)
    (hj' : (data.getD j []).length = (data.headD []).length)
    (hnz : nth (correlateFull (data.getD i []) (data.getD j [])) ((data.headD []).length - 1) ≠ 0) :
    nth (((xcorrNormFill var data).getD i []).getD j []) ((data.headD []).length - 1)
      = corrcoef1 (data.getD i []) (data.getD j []) := by
  have hi : i < data.length := by omega
  have hlen : (correlateFull (data.getD i []) (data.getD j [])).length = 2 * (data.headD []).length - 1 := by
    simp only [correlateFull, convFull, length_tabulate, List.length_map, List.length_reverse, hi', hj']
    omega
  simp only [xcorrNormFill, List.getD_eq_getElem?_getD, List.getElem?_map, List.getElem?_range hi,
    List.getElem?_range hj, Option.map_some, Option.getD_some, if_pos hij]
  simp only [← List.getD_eq_getElem?_getD]
  rw [nth_map _ (by rw [hlen]; omega)]
  simp only [r_mul, r_div]
  rw [div_self hnz, one_mul]

/-- the analyzer as an object with one-time (cached) outputs: whatever outputs are read, in
whatever order and however often, every read hands out exactly what a fresh analyzer computes for
that output from the input, and the stored input is unchanged (any scalar instance) -/
theorem analyzer_reads_any_order {K : Type} [RScalar K] (var : Variant) (data : List (List K))
    (os : List Out) :
    ((AState.fresh data).reads var os).1 = os.map (compute var data) ∧
    ((AState.fresh data).reads var os).2.data = data ∧
    ((AState.fresh data).reads var os).2.Inv var := by
  obtain ⟨a, b, c⟩ := AState.reads_spec var os (AState.fresh data) (AState.inv_fresh var data)
  exact ⟨a, c, b⟩

/-! ### Pearson coefficient, z-score, percent change (ℝ) -/

theorem pearson_abs_le_one (seed target : List ℝ) (h : seed.length = target.length) :
    |seedCorrcoef1 seed target| ≤ 1 := abs_seedCorrcoef_le_one seed target h

/-- z-scoring gives mean 0 and (population) variance 1 whenever σ ≠ 0 -/
theorem zscore_mean_zero_var_one (x : List ℝ) (hσ : variance x ≠ 0) :
    mean (zscore1 x) = 0 ∧ variance (zscore1 x) = 1 ∧ (zscore1 x).length = x.length :=
  ⟨mean_zscore x, variance_zscore x hσ, by simp [zscore1]⟩

theorem percent_change_mean_zero (x : List ℝ) (hμ : mean x ≠ 0) :
    mean (percentChange1 x) = 0 ∧ (percentChange1 x).length = x.length :=
  ⟨mean_percentChange x hμ, by simp [percentChange1]⟩

/-- `correlation_spectrum` is a spectral decomposition of the correlation: with the cosine / sine
tables the driver uses (`cos(2πj/n)`, `sin(2πj/n)`), the full un-normalised spectrum sums to the
Pearson coefficient `seed_corrcoef`; the function returns its first `n//2+1` bins -/
theorem corrspec_sums_to_pearson (a b : List ℝ) (hl : a.length = b.length) (hn : 0 < a.length) :
    (∑ k ∈ range a.length,
      nth (correlationSpectrumFull (fun j => Real.cos (2 * Real.pi * j / a.length))
        (fun j => Real.sin (2 * Real.pi * j / a.length)) a b false) k) = seedCorrcoef1 b a ∧
    ∀ (c s : ℕ → ℝ) (nm : Bool), correlationSpectrum c s a b nm
      = (correlationSpectrumFull c s a b nm).take (a.length / 2 + 1) := by
  refine ⟨?_, fun _ _ _ => rfl⟩
  have h := corrspec_sum_eq_pearson a b hl hn (twiddle a.length) (twiddle_primitive hn.ne')
    (twiddle_conj hn.ne')
  simpa only [twiddle_pow_re, twiddle_pow_im] using h

/-! ### information measures (ℝ instance; exact joint counts) -/
section info
variable {σ : Type} [DecidableEq σ]

/-- entropies of any arity are non-negative -/
theorem entropy_nonneg (x y z : List σ) :
    0 ≤ (entropy1 x : ℝ) ∧ 0 ≤ (entropy2 x y : ℝ) ∧ 0 ≤ (entropy3 x y z : ℝ) :=
  ⟨entropyG_nonneg _ _, entropyG_nonneg _ _, entropyG_nonneg _ _⟩

/-- `H(X) ≤ log2 |alphabet|`, `H(X,Y) ≤ log2 (|A_x|·|A_y|)` -/
theorem entropy_le_log_card (x y : List σ) (hx : x ≠ []) (hl : x.length = y.length) :
    (entropy1 x : ℝ) ≤ Real.logb 2 (uniq x).length ∧
    (entropy2 x y : ℝ) ≤ Real.logb 2 ((uniq x).length * (uniq y).length : ℕ) := by
  constructor
  · exact entropyG_le_logb_card _ _ (nodup_uniq x) (fun s hs => mem_uniq.mpr hs) hx
  · have hz : x.zip y ≠ [] := by
      intro h
      have h1 : (x.zip y).length = 0 := by rw [h]; rfl
      rw [List.length_zip, ← hl, Nat.min_self] at h1
      exact hx (List.length_eq_zero_iff.mp h1)
    have := entropyG_le_logb_card (pairs (uniq x) (uniq y)) (x.zip y)
      (nodup_pairs (nodup_uniq x) (nodup_uniq y))
      (fun p hp => by
        obtain ⟨a, b⟩ := p
        exact mem_pairs.mpr ⟨mem_uniq.mpr (List.of_mem_zip hp).1, mem_uniq.mpr (List.of_mem_zip hp).2⟩) hz
    have hlen : (pairs (uniq x) (uniq y)).length = (uniq x).length * (uniq y).length := by
      simp [pairs, List.length_flatMap]
    rw [hlen] at this
    exact this

/-- `MI = H(X) + H(Y) − H(X,Y)` (definition) and its Kullback–Leibler form -/
theorem mi_eq_sum (x y : List σ) (hl : x.length = y.length) :
    (mutualInformation x y : ℝ) = entropy1 x + entropy1 y - entropy2 x y ∧
    (mutualInformation x y : ℝ) * Real.log 2
      = ∑ a ∈ (uniq x).toFinset, ∑ b ∈ (uniq y).toFinset,
          P2 x y a b * Real.log (P2 x y a b / (pr (x.count a) x.length * pr (y.count b) y.length)) :=
  ⟨rfl, mi_kl x y hl⟩

theorem mi_nonneg (x y : List σ) (hl : x.length = y.length) : 0 ≤ (mutualInformation x y : ℝ) :=
  mi_nonneg_real x y hl

theorem mi_symm (x y : List σ) (hl : x.length = y.length) :
    (mutualInformation x y : ℝ) = mutualInformation y x := by
  have h := entropy2_symm x y hl
  simp only [mutualInformation, entropy2, r_add, r_sub, h]
  ring

/-- conditioning never increases entropy: `H(X|Y) ≤ H(X)` -/
theorem cond_le (x y : List σ) (hl : x.length = y.length) :
    (conditionalEntropy x y : ℝ) ≤ entropy1 x := by
  have h := mi_nonneg_real y x hl.symm
  simp only [conditionalEntropy, entropy2, entropy1, r_sub] at h ⊢
  linarith

/-- conditional entropy is non-negative: `H(X|Y) = H(Y,X) − H(Y) ≥ 0` -/
theorem cond_nonneg (x y : List σ) (hl : x.length = y.length) :
    0 ≤ (conditionalEntropy x y : ℝ) := by
  have h := entropy_le_joint_left y x hl.symm
  simp only [conditionalEntropy, entropy2, entropy1, r_sub]
  linarith

/-- transfer entropy is the conditional mutual information `I(F;Y|X)`, `F = np.roll(x, -lag)`:
`TE = H(F|X) − H(F|X,Y) ≥ 0` (conditioning on more never increases entropy) -/
theorem transfer_entropy_nonneg (x y : List σ) (hl : x.length = y.length) (lag : ℕ) :
    0 ≤ (transferEntropy x y lag : ℝ) ∧
    (transferEntropy x y lag : ℝ)
      = (entropy2 x (rollLeft x lag) - entropy1 x) - (entropy3 (rollLeft x lag) y x - entropy2 x y) := by
  have hf : (rollLeft x lag).length = x.length := length_rollLeft x lag
  have h := cmi_nonneg (rollLeft x lag) y x (hf.trans hl) hf
  have s1 := entropy2_symm x (rollLeft x lag) hf.symm
  have s2 := entropy2_symm x y hl
  refine ⟨?_, rfl⟩
  simp only [transferEntropy, conditionalEntropy, entropy3, entropy2, entropy1, r_sub]
  rw [s1, s2]
  linarith

/-- the entropy correlation coefficient lies in [0, 1] -/
theorem entropy_cc_bounds (x y : List σ) (hl : x.length = y.length) :
    0 ≤ (entropyCC x y : ℝ) ∧ (entropyCC x y : ℝ) ≤ 1 := by
  have h1 := entropy_le_joint_left y x hl.symm
  have h2 := entropy_le_joint_right y x hl.symm
  have hx := entropyG_nonneg (uniq x) x
  have hy := entropyG_nonneg (uniq y) y
  simp only [entropyCC, mutualInformation, entropy2, entropy1, r_sqrt, r_div, r_mul, r_add, r_sub, r_ofNat]
  refine ⟨Real.sqrt_nonneg _, Real.sqrt_le_one.mpr ?_⟩
  by_cases hd : ((1 : ℕ) : ℝ) / ((2 : ℕ) : ℝ) * ((entropyG (uniq x) x : ℝ) + entropyG (uniq y) y) = 0
  · rw [hd]; simp
  · have hpos : 0 < ((1 : ℕ) : ℝ) / ((2 : ℕ) : ℝ) * ((entropyG (uniq x) x : ℝ) + entropyG (uniq y) y) := by
      refine lt_of_le_of_ne ?_ (Ne.symm hd)
      positivity
    rw [div_le_one hpos]
    push_cast
    linarith

/-- injective relabelling of the symbols (per variable) changes nothing — at EVERY scalar
instance, because the exact histograms coincide -/
theorem relabel_invariant {K : Type} [RScalar K] {τ : Type} [DecidableEq τ] (f g : σ → τ)
    (hf : Function.Injective f) (hg : Function.Injective g) (x y : List σ) :
    (entropy1 (x.map f) : K) = entropy1 x ∧ (entropy2 (x.map f) (y.map g) : K) = entropy2 x y := by
  constructor
  · simp only [entropy1, uniq_map_of_injective hf, entropyG_map hf]
  · simp only [entropy2, uniq_map_of_injective hf, uniq_map_of_injective hg, pairs_map, List.zip_map]
    exact entropyG_map (Function.Injective.prodMap hf hg) _ _

/-- a joint permutation of the samples changes nothing -/
theorem permute_invariant (x x' y y' : List σ) (hx : x.Perm x') (hy : y.Perm y')
    (hz : (x.zip y).Perm (x'.zip y')) :
    (entropy1 x' : ℝ) = entropy1 x ∧ (entropy2 x' y' : ℝ) = entropy2 x y :=
  ⟨entropyG_perm (uniq_perm hx) hx,
   entropyG_perm (pairs_perm (nodup_uniq x) (nodup_uniq y) (uniq_perm hx) (uniq_perm hy)) hz⟩

end info

/-! ### along any axis (n-d arrays in C order, `axis` as numpy normalises it) -/

/-- `crosscov(x, y, axis=…)` on equal-shape arrays: every lane of the result along the axis is the
1-d cross-covariance of the corresponding lanes of `x` and `y` (so all theorems above apply lane by lane) -/
theorem crosscov_along_axis (x y : ND ℂ) (axis : ℤ) (ax : ℕ)
    (hax : normAxis x.shape.length axis = some ax) (hs : x.shape = y.shape) (al db nm : Bool)
    {o i : ℕ} (ho : o < outerOf x.shape ax) (hi : i < innerOf x.shape ax) :
    ∃ r, crosscovND x y axis al db nm = .ok r ∧
      lane r ax o i = crosscovCore (lane x ax o i) (lane y ax o i) al db nm := by
  have hlt := normAxis_lt hax
  unfold crosscovND
  simp only [← hs, hax, ne_eq, not_true_eq_false, if_false]
  refine ⟨_, rfl, ?_⟩
  rw [lanesOf_eq x, lanesOf_eq y, ← hs, List.zipWith_map_left, List.zipWith_map_right, List.zipWith_self]
  have hpos : 0 < innerOf x.shape ax := by omega
  have h1 : (o * innerOf x.shape ax + i) / innerOf x.shape ax = o := by
    rw [Nat.add_comm, Nat.add_mul_div_right _ _ hpos, Nat.div_eq_of_lt hi, Nat.zero_add]
  have h2 : (o * innerOf x.shape ax + i) % innerOf x.shape ax = i := by
    rw [Nat.add_comm, Nat.add_mul_mod_self_right, Nat.mod_eq_of_lt hi]
  have hll : ∀ k, (lane x ax (k / innerOf x.shape ax) (k % innerOf x.shape ax)).length
      = (lane y ax (k / innerOf x.shape ax) (k % innerOf x.shape ax)).length := by
    intro k; simp [hs]
  rw [lane_fromLanes_tab x.shape ax _ (if al then 2 * x.shape.getD ax 0 - 1 else x.shape.getD ax 0)
    (fun k => by
      cases al
      · simpa using length_crosscov_clip _ _ (hll k) db nm
      · simpa using length_crosscov_all _ _ (hll k) db nm) hlt ho hi]
  simp only [h1, h2]

/-- `zscore(x, axis)` / `percent_change(x, axis)`: along the chosen axis every lane of the result has
mean 0 (and variance 1 for the z-score) -/
theorem zscore_along_axis (x : ND ℝ) (axis : ℤ) (ax : ℕ) (hax : normAxis x.shape.length axis = some ax)
    {o i : ℕ} (ho : o < outerOf x.shape ax) (hi : i < innerOf x.shape ax)
    (hσ : variance (lane x ax o i) ≠ 0) :
    ∃ r, mapLanesND zscore1 x axis = .ok r ∧ mean (lane r ax o i) = 0 ∧ variance (lane r ax o i) = 1 := by
  unfold mapLanesND
  simp only [hax]
  refine ⟨_, rfl, ?_⟩
  rw [lane_mapLanes zscore1 id (fun l => by simp [zscore1]) x ax (normAxis_lt hax) ho hi]
  exact ⟨mean_zscore _, variance_zscore _ hσ⟩

theorem percent_change_along_axis (x : ND ℝ) (axis : ℤ) (ax : ℕ)
    (hax : normAxis x.shape.length axis = some ax)
    {o i : ℕ} (ho : o < outerOf x.shape ax) (hi : i < innerOf x.shape ax)
    (hμ : mean (lane x ax o i) ≠ 0) :
    ∃ r, mapLanesND percentChange1 x axis = .ok r ∧ mean (lane r ax o i) = 0 := by
  unfold mapLanesND
  simp only [hax]
  refine ⟨_, rfl, ?_⟩
  rw [lane_mapLanes percentChange1 id (fun l => by simp [percentChange1]) x ax (normAxis_lt hax) ho hi]
  exact mean_percentChange _ hμ

/-! ### the FFT path (`utils.fftconvolve`) equals the direct sums -/

/-- **convolution theorem** for the model of `utils.fftconvolve` (`fft` of both zero-padded inputs,
product, `ifft`, first `len(a)+len(b)-1` samples, `.real` unless an input is complex): for EVERY pair
of sequences, EVERY FFT length `L ≥ len(a)+len(b)-1` and every primitive `L`-th root of unity `ζ`
with `conj ζ = ζ⁻¹` as twiddle factor, the result is the direct linear convolution, entry
`t` = `Σ_{i ≤ t} a_i·b_{t-i}`.  (`cr = false`, the real-part branch, is taken by the code only for
real inputs.) -/
theorem fftconvolve_is_linear_convolution {L : ℕ} (hL : 0 < L) {ζ : ℂ} (hζ : IsPrimitiveRoot ζ L)
    (hc : conj ζ = ζ⁻¹) (cr : Bool) (a b : List ℂ) (hS : a.length + b.length - 1 ≤ L)
    (hreal : cr = false → (∀ v ∈ a, conj v = v) ∧ (∀ v ∈ b, conj v = v)) :
    fftconvolveL (fun m => ζ ^ m) L cr a b = convFull a b ∧
    (fftconvolveL (fun m => ζ ^ m) L cr a b).length = a.length + b.length - 1 ∧
    ∀ t, t < a.length + b.length - 1 →
      nth (fftconvolveL (fun m => ζ ^ m) L cr a b) t = ∑ i ∈ range (t + 1), nth a i * nth b (t - i) := by
  have h := fftconvolveL_eq_convFull hL hζ hc cr a b hS hreal
  refine ⟨h, by rw [h, length_convFull], fun t ht => by rw [h, nth_convFull a b ht]⟩

/-- the same with the FFT length the code chooses (`2 ** ceil(log2(size))`, which is `≥ size`) and
the twiddle table the driver uses, `tw L m = cos(2πm/L) − i·sin(2πm/L)`; every `mode` slice of
the result is the same slice of the direct convolution -/
theorem fftconvolve_code_path (cr : Bool) (a b : List ℂ)
    (hreal : cr = false → (∀ v ∈ a, conj v = v) ∧ (∀ v ∈ b, conj v = v)) :
    fftconvolve twTable cr a b = convFull a b ∧
    (∀ mode, fftconvolveMode twTable cr mode a b = convMode mode a b) ∧
    a.length + b.length - 1 ≤ fftSize (a.length + b.length - 1) ∧
    ∀ L m, (twTable L m).re = Real.cos (2 * Real.pi * m / L) ∧
           (twTable L m).im = -Real.sin (2 * Real.pi * m / L) := by
  have h := fftconvolve_eq_convFull cr a b hreal
  refine ⟨h, fun mode => by simp only [fftconvolveMode, convMode, h], le_fftSize _, fun L m => ?_⟩
  exact ⟨twiddle_pow_re L m, by rw [← twiddle_pow_im L m, twTable, neg_neg]⟩

/-- `crosscov` THROUGH the FFT path is `crosscov` with the direct sums, hence every entry of the
all-lags result is the lagged sum of the definition -/
theorem crosscov_fft_is_lagged_sum (cr : Bool) (x y : List ℂ) (h : x.length = y.length) (db nm : Bool)
    (hreal : cr = false → (∀ v ∈ x, conj v = v) ∧ (∀ v ∈ y, conj v = v)) :
    (∀ al, crosscovFftCore twTable cr x y al db nm = crosscovCore x y al db nm) ∧
    ∀ m, m < 2 * x.length - 1 →
      nth (crosscovFftCore twTable cr x y true db nm) m
        = nrm nm x.length (∑ n ∈ range x.length,
            if x.length - 1 ≤ n + m ∧ n + m - (x.length - 1) < x.length
            then nth (pre db x) (n + m - (x.length - 1)) * conj (nth (pre db y) n) else 0) := by
  refine ⟨fun al => crosscovFft_eq cr x y al db nm hreal, fun m hm => ?_⟩
  rw [crosscovFft_eq cr x y true db nm hreal]
  exact crosscov_is_lagged_sum x y h db nm hm

/-- `autocov` / `autocorr` through the FFT path equal the direct path -/
theorem autocov_fft_eq_direct (cr : Bool) (x : List ℂ) (al db nm : Bool)
    (hreal : cr = false → ∀ v ∈ x, conj v = v) :
    autocovFft1 twTable cr x al db nm = autocov1 x al db nm := autocovFft_eq cr x al db nm hreal

/-- `correlation_spectrum(norm=True)`: every bin is the un-normalised bin divided by the SUM of the full
un-normalised spectrum (= the Pearson coefficient, `corrspec_sums_to_pearson`) times 2, so that the full
normalised spectrum sums to 2 (its returned half, counted with the frequency-domain symmetry, to 1) whenever
that sum is not 0; any cosine / sine tables -/
theorem corrspec_norm_sums_to_two (c s : ℕ → ℝ) (a b : List ℝ) :
    correlationSpectrumFull c s a b true
      = (correlationSpectrumFull c s a b false).map
          (fun v => v / (∑ k ∈ range a.length, nth (correlationSpectrumFull c s a b false) k) * 2) ∧
    (correlationSpectrumFull c s a b true).length = a.length ∧
    ((∑ k ∈ range a.length, nth (correlationSpectrumFull c s a b false) k) ≠ 0 →
      ∑ k ∈ range a.length, nth (correlationSpectrumFull c s a b true) k = 2) := by
  have hlen : (correlationSpectrumFull c s a b false).length = a.length := by
    simp [correlationSpectrumFull]
  have h1 : correlationSpectrumFull c s a b true
      = (correlationSpectrumFull c s a b false).map
          (fun v => v / (∑ k ∈ range a.length, nth (correlationSpectrumFull c s a b false) k) * 2) := by
    rw [← sumRange_eq_r]
    rfl
  refine ⟨h1, by rw [h1, List.length_map, hlen], fun hS => ?_⟩
  rw [h1]
  have : ∀ k ∈ range a.length,
      nth ((correlationSpectrumFull c s a b false).map
        (fun v => v / (∑ k ∈ range a.length, nth (correlationSpectrumFull c s a b false) k) * 2)) k
      = nth (correlationSpectrumFull c s a b false) k
          / (∑ k ∈ range a.length, nth (correlationSpectrumFull c s a b false) k) * 2 := by
    intro k hk
    exact nth_map _ (by rw [hlen]; exact mem_range.mp hk)
  rw [sum_congr rfl this, ← sum_mul, ← sum_div, div_self hS, one_mul]

/-! ### `crosscov_vector` / `autocov_vector`, integer recordings -/

/-- `utils.crosscov_vector(x, y, nlags)` is the lagged AVERAGE of its definition: entry `(i, j, k)` is
`(1/(N-k))·Σ_{t<N-k} x_i[t+k]·conj(y_j[t])` (`N` = samples per channel), for every `k < nlags`
(`nlags = None` → `N`); the result has shape `(nc_x, nc_y, nlags)` -/
theorem crosscov_vector_is_lagged_average (x y : List (List ℂ)) (nl : Option ℕ) {i j k : ℕ}
    (hi : i < x.length) (hj : j < y.length) (hk : k < nl.getD (x.headD []).length) :
    nth (((crosscovVector x y nl).getD i []).getD j []) k
      = (∑ t ∈ range ((x.headD []).length - k), nth (x.getD i []) (t + k) * conj (nth (y.getD j []) t))
          / (((x.headD []).length - k : ℕ) : ℂ) ∧
    (crosscovVector x y nl).length = x.length ∧ ((crosscovVector x y nl).getD i []).length = y.length ∧
    (((crosscovVector x y nl).getD i []).getD j []).length = nl.getD (x.headD []).length :=
  ⟨nth_crosscovVector x y nl hi hj hk, length_crosscovVector x y nl hi hj⟩

/-- `autocov_vector(x) = crosscov_vector(x, x)`, and its zero-lag matrix is Hermitian:
`R_xx(0)[j,i] = conj R_xx(0)[i,j]` -/
theorem autocov_vector_zero_lag_hermitian (x : List (List ℂ)) (nl : Option ℕ) {i j : ℕ}
    (hi : i < x.length) (hj : j < x.length) (hk : 0 < nl.getD (x.headD []).length) :
    autocovVector x nl = crosscovVector x x nl ∧
    nth (((autocovVector x nl).getD j []).getD i []) 0
      = conj (nth (((autocovVector x nl).getD i []).getD j []) 0) := by
  refine ⟨rfl, ?_⟩
  unfold autocovVector
  rw [nth_crosscovVector x x nl hj hi hk, nth_crosscovVector x x nl hi hj hk, map_div₀, map_sum, map_natCast]
  congr 1
  refine sum_congr rfl fun t _ => ?_
  rw [map_mul, Complex.conj_conj, Nat.add_zero, mul_comm]

/-- integer / boolean recordings are read by their value: the embedding is the integer cast, a real number -/
theorem int_embedding_exact (z : ℤ) : (ofInt z : ℂ) = (z : ℂ) ∧ conj (ofInt z : ℂ) = ofInt z :=
  ⟨ofInt_c z, conj_ofInt z⟩

/-- the covariance family on INTEGER lanes: the code's FFT path (real branch) equals the direct path on the
embedded samples for every flag combination, and every all-lags entry (no debias) is the lagged sum
`Σ_n x[n+k]·y[n]` of the integer samples themselves (`/N` when normalised) — not a truncated value -/
theorem crosscov_int_fft_is_lagged_sum (x y : List ℤ) (h : x.length = y.length) (nm : Bool) :
    (∀ al db, crosscovFftCore twTable false (embed x) (embed y) al db nm = (crosscovInt x y al db nm : List ℂ)) ∧
    (∀ al db, (crosscovInt x y al db nm : List ℂ) = crosscovCore (embed x) (embed y) al db nm) ∧
    ∀ m, m < 2 * x.length - 1 →
      nth (crosscovInt x y true false nm : List ℂ) m
        = nrm nm x.length (∑ n ∈ range x.length,
            if x.length - 1 ≤ n + m ∧ n + m - (x.length - 1) < x.length
            then ((x.getD (n + m - (x.length - 1)) 0 : ℤ) : ℂ) * ((y.getD n 0 : ℤ) : ℂ) else 0) := by
  refine ⟨fun al db => crosscovInt_fft x y al db nm, fun _ _ => rfl, fun m hm => ?_⟩
  have hx : (embed x : List ℂ).length = x.length := length_embed x
  have hl : (embed x : List ℂ).length = (embed y : List ℂ).length := by simp [h]
  have := crosscov_is_lagged_sum (embed x) (embed y) hl false nm (m := m) (by rw [hx]; exact hm)
  unfold crosscovInt
  rw [this, hx]
  congr 1
  refine sum_congr rfl fun n hn => ?_
  have hn' : n < x.length := mem_range.mp hn
  split_ifs with hc
  · have e1 : nth (pre false (embed x : List ℂ)) (n + m - (x.length - 1))
        = ((x.getD (n + m - (x.length - 1)) 0 : ℤ) : ℂ) := nth_embed x hc.2
    have e2 : nth (pre false (embed y : List ℂ)) n = ((y.getD n 0 : ℤ) : ℂ) := nth_embed y (h ▸ hn')
    rw [e1, e2, map_intCast]
  · rfl

/-- `crosscov_vector` on integer channels is the lagged average of the integer samples (a rational
number, in general not an integer) -/
theorem crosscov_vector_int_is_lagged_average (x y : List (List ℤ)) (nl : Option ℕ) {i j k : ℕ}
    (hi : i < x.length) (hj : j < y.length) (hk : k < nl.getD (x.headD []).length) :
    nth (((crosscovVectorInt x y nl : List (List (List ℂ))).getD i []).getD j []) k
      = (∑ t ∈ range ((x.headD []).length - k),
          nth (embed (x.getD i []) : List ℂ) (t + k) * nth (embed (y.getD j []) : List ℂ) t)
          / (((x.headD []).length - k : ℕ) : ℂ) := by
  unfold crosscovVectorInt
  have hN : ((x.map (embed (K := ℂ))).headD []).length = (x.headD []).length := by
    cases x <;> simp
  rw [nth_crosscovVector _ _ nl (by simpa using hi) (by simpa using hj) (by rw [hN]; exact hk), hN]
  congr 1
  refine sum_congr rfl fun t _ => ?_
  have ex : (x.map (embed (K := ℂ))).getD i [] = embed (x.getD i []) := by
    simp [List.getD_eq_getElem?_getD, List.getElem?_map, List.getElem?_eq_getElem hi]
  have ey : (y.map (embed (K := ℂ))).getD j [] = embed (y.getD j []) := by
    simp [List.getD_eq_getElem?_getD, List.getElem?_map, List.getElem?_eq_getElem hj]
  rw [ex, ey]
  congr 1
  by_cases ht : t < (y.getD j []).length
  · rw [nth_embed _ ht, map_intCast]
  · rw [nth_embed_of_le _ (Nat.le_of_not_lt ht), map_zero]

/-- allocating the result of `crosscov_vector` in the integer type of the inputs (`np.result_type(x, y)`,
seeded change C11-8) is NOT the definition: one channel `[1, 2]` has the lag-0 average `5/2`, the integer
array stores `2` -/
theorem truncated_crosscov_vector_counterexample :
    (crosscovVectorInt [[1, 2]] [[1, 2]] none : List (List (List Rat))) = [[[5 / 2, 2]]] ∧
    crosscovVectorTrunc [[1, 2]] [[1, 2]] none = [[[2, 2]]] ∧
    (crosscovVectorTrunc [[1, 2]] [[1, 2]] none).map (fun r => r.map fun s => s.map fun z => (z : Rat))
      ≠ crosscovVectorInt [[1, 2]] [[1, 2]] none := by
  decide +kernel

/-- `autocov(x, axis=…)` / `autocorr`: every lane of the result along the axis is the 1-d auto-covariance of
the corresponding lane (so `autocorr_hermitian`, `autocov_zero_lag`, `autocov_fft_eq_direct` apply lane by lane) -/
theorem autocov_along_axis (x : ND ℂ) (axis : ℤ) (ax : ℕ) (hax : normAxis x.shape.length axis = some ax)
    (al db nm : Bool) {o i : ℕ} (ho : o < outerOf x.shape ax) (hi : i < innerOf x.shape ax) :
    ∃ r, autocovND x axis al db nm = .ok r ∧ lane r ax o i = autocov1 (lane x ax o i) al db nm := by
  unfold autocovND
  simp only [hax]
  exact ⟨_, rfl, lane_mapLanes (fun a => autocov1 a al db nm) (fun n => if al then 2 * n - 1 else n)
    (fun l => length_autocov1 l al db nm) x ax (normAxis_lt hax) ho hi⟩

/-! ### round 4 (L10): baselines and gains — the Pearson coefficient and the z-score are shift- and
scale-free; the one-pass raw-moment text is the same real function (`Lemmas/C20Invariance.lean`) -/

/-- additive baselines on the seed and on the target do not change `seed_corrcoef` (hence the
expectation of a run on level 2^b + fluctuation is the one of the fluctuation alone) -/
theorem pearson_shift_invariant (seed target : List ℝ) (c d : ℝ) :
    seedCorrcoef1 (seed.map (· + c)) (target.map (· + d)) = seedCorrcoef1 seed target ∧
    corrcoef1 (seed.map (· + c)) (target.map (· + d)) = corrcoef1 seed target :=
  ⟨seedCorrcoef1_shift seed target c d, seedCorrcoef1_shift seed target c d⟩

/-- positive gains (2^±250 in the runs) on either argument do not change it; a negative gain on one
argument flips the sign -/
theorem pearson_scale_invariant (seed target : List ℝ) {a b : ℝ} (ha : 0 < a) (hb : 0 < b) :
    seedCorrcoef1 (seed.map (a * ·)) (target.map (b * ·)) = seedCorrcoef1 seed target ∧
    seedCorrcoef1 seed (target.map (fun v => (-1) * v)) = - seedCorrcoef1 seed target :=
  ⟨seedCorrcoef1_scale seed target ha hb, seedCorrcoef1_neg seed target⟩

/-- the raw-moment rewrite `xy = Σ t·(s−s̄)`, `xx = Σ t² − n·t̄²` (seeded change C20-15) is THE SAME
real function as the code's two-pass text: no statement over ℝ separates them; the difference is
binary64 cancellation, visible only to the correspondence / the exact-rational oracle -/
theorem pearson_one_pass_eq_two_pass (seed target : List ℝ) (h : seed.length = target.length) :
    seedCorrcoefOnePass1 seed target = seedCorrcoef1 seed target :=
  seedCorrcoefOnePass1_eq seed target h

/-- the z-score does not see an additive baseline -/
theorem zscore_shift_invariant (x : List ℝ) (c : ℝ) : zscore1 (x.map (· + c)) = zscore1 x :=
  zscore1_shift x c

example : seedCorrcoef1 ([1, 2, 4].map (· + 1048576)) ([3, 5, 4].map (· + 16777216))
    = seedCorrcoef1 ([1, 2, 4] : List ℝ) [3, 5, 4] := (pearson_shift_invariant _ _ _ _).1
/-- exact instance of the raw-moment identity: level 2^20, fluctuation [1,2,4]: both sides 14/3 -/
example : (dot (removeBias [1048577, 1048578, 1048580]) (removeBias [1048577, 1048578, 1048580]) : Rat) = 14 / 3 ∧
    (dot [1048577, 1048578, 1048580] [1048577, 1048578, 1048580]
      - 3 * mean [1048577, 1048578, 1048580] * mean [1048577, 1048578, 1048580] : Rat) = 14 / 3 := by
  decide +kernel


/-! ### non-vacuity -/
example : (crosscovVector [[1, 2, 4]] [[3, 5, 4]] (some 2) : List (List (List Rat))) = [[[29 / 3, 13]]] := by
  decide +kernel
example : (crosscovInt [1, 2, 4] [3, 5, 4] true false false : List Rat) = [4, 13, 29, 26, 12] := by
  decide +kernel
example : (crosscovCore [1, 2, 4] [3, 5, 4] true false false : List Rat) = [4, 13, 29, 26, 12] := by
  decide +kernel
example : (crosscovCore [3, 5, 4] [1, 2, 4] true false false : List Rat) = [12, 26, 29, 13, 4] := by
  decide +kernel
example : normAxis 3 (-2) = some 1 ∧ outerOf [2, 5, 3] 1 = 2 ∧ innerOf [2, 5, 3] 1 = 3 := by decide
example : jointCounts (pairs (uniq [0, 1, 1, 0]) (uniq [5, 5, 7, 7])) ([0, 1, 1, 0].zip [5, 5, 7, 7])
    = [1, 1, 1, 1] := by decide

/-- the FFT path at the exact instance: length-2 DFT (twiddles 1, −1), `[1,2] * [3] = [3,6]`;
length 2 is too short for `[1,2] * [3,4]` (size 3): circular wrap-around, the hypothesis `size ≤ L`
is needed -/
example : (fftconvolveL (fun m => if m % 2 = 0 then 1 else -1) 2 true [1, 2] [3] : List Rat) = [3, 6] ∧
    (convFull [1, 2] [3] : List Rat) = [3, 6] ∧
    (convFull [1, 2] [3, 4] : List Rat) = [3, 10, 8] ∧
    (fftconvolveL (fun m => if m % 2 = 0 then 1 else -1) 2 true [1, 2] [3, 4] : List Rat) = [11, 10] := by
  decide +kernel
example : fftSize 1 = 1 ∧ fftSize 2 = 2 ∧ fftSize 3 = 4 ∧ fftSize 127 = 128 ∧ fftSize 128 = 128 ∧
    fftSize 129 = 256 := by decide

end Nitime.C20.Props
