/-
C04 (session 3) — theorems about the parts of the model added for the input-space classes L1–L3/L6:

* the GENERATED in-place write-sets / parameter views of the estimators (`Generated/SpecWrites.lean`, regenerated from
  the source on every run): no estimator modifies a name that may be (a view of) one of its parameters;
* the precomputed-transform branch `Sk=` of `periodogram` / `periodogram_csd` (`periodogramSk`, `periodogramCsdSk`):
  the estimator IS this branch applied to its own transform, so Parseval / fold / scaling / sign carry over, and they
  are stated for ANY supplied transform;
* call histories on ONE supplied transform (`skRun`): every output along every history is the output of that call on
  the original transform — in particular `csd(Sk); csd(Sk)` return equal results;
* `sides` / `normalize` option handling;
* typed (integer) input = exact embedding, the estimator theorems unchanged;
* the taper provider with a memo (`memoRun`): lookup = recomputation along every request history iff the key determines
  the result; the key `(N, NW, Kmax)` that forgets `interp_from` does not (counterexample).
-/
import Nitime.Props.C04
import Nitime.Lemmas.C04Sess
import Nitime.Generated.AnalyzerFs

namespace Nitime.C04.Props
open Finset Nitime.Num Nitime.Spectral Nitime.C04 Nitime.Generated.SpecIdx Nitime.Generated.SpecWrites

/-! ### generated write-sets -/

/-- none of the analysed estimators modifies, in place, a local name that may hold one of its parameters or a view of it
(`decide` over the tables generated from the source: an edit such as `Sk_loc /= …` re-opens this) -/
theorem estimators_do_not_write_parameters :
    ∀ fn ∈ functions, ∀ p ∈ params fn, writesAlias fn p = false := by decide

theorem sk_not_written : writesAlias "periodogram" "Sk" = false ∧ writesAlias "periodogram_csd" "Sk" = false ∧
    writesAlias "periodogram" "s" = false ∧ writesAlias "periodogram_csd" "s" = false := by decide

/-! ### histories on one supplied transform -/

section hist
variable {R K : Type} [RScalar R] [CScalar R K]

/-- the caller's transform is what it was after any of the calls -/
theorem skAfter_eq (c : SkCall) (Sk : ℕ → ℕ → K) : skAfter c Sk = Sk := by
  have h : writesAlias c.fn "Sk" = false := by
    cases c <;> simp only [SkCall.fn] <;> decide
  simp [skAfter, h]

/-- `history`: along EVERY program `f₁(Sk); f₂(Sk); …` on one buffer each output is the output of that call on the
original transform (induction over histories) -/
theorem skRun_eq_map (Fs : R) (n N M : ℕ) (cplx : Bool) (Sk : ℕ → ℕ → K) (h : List SkCall) :
    skRun Fs n N M cplx Sk h = h.map (skOut Fs n N M cplx Sk) := by
  induction h with
  | nil => rfl
  | cons c h ih => simp only [skRun, skAfter_eq, ih, List.map_cons]

/-- `csd(Sk); csd(Sk)` (any two uses, any options) return what two fresh calls return -/
theorem sk_used_twice (Fs : R) (n N M : ℕ) (cplx : Bool) (Sk : ℕ → ℕ → K) (c d : SkCall) :
    skRun Fs n N M cplx Sk [c, d] = [skOut Fs n N M cplx Sk c, skOut Fs n N M cplx Sk d] := by
  rw [skRun_eq_map]; rfl

theorem sk_same_call_twice_equal (Fs : R) (n N M : ℕ) (cplx : Bool) (Sk : ℕ → ℕ → K) (c : SkCall) :
    ∃ r, skRun Fs n N M cplx Sk [c, c] = [r, r] := ⟨_, sk_used_twice Fs n N M cplx Sk c c⟩

/-- a use after an arbitrary history equals a fresh use -/
theorem sk_use_after_history (Fs : R) (n N M : ℕ) (cplx : Bool) (Sk : ℕ → ℕ → K) (h : List SkCall) (c : SkCall) :
    (skRun Fs n N M cplx Sk (h ++ [c])).getLast? = some (skOut Fs n N M cplx Sk c) := by
  rw [skRun_eq_map]; simp

/-! ### the estimator is its precomputed-transform branch applied to its own transform -/

theorem periodogramAt_eq_Sk (tw : ℕ → K) (Fs : R) (n N : ℕ) (os : Bool) (x : ℕ → K) (k : ℕ) :
    periodogramAt tw Fs n N os x k = periodogramSk Fs n N os true (spec tw N n x) k := by
  simp [periodogramSk, periodogramAt]

theorem periodogramCsdAt_eq_Sk (tw : ℕ → K) (Fs : R) (n N : ℕ) (os : Bool) (x : ℕ → ℕ → K) (i j k : ℕ) :
    periodogramCsdAt tw Fs n N os x i j k
      = periodogramCsdSk Fs n N os true (fun i => spec tw N n (x i)) i j k := by
  simp [periodogramCsdSk, periodogramCsdAt]

theorem periodogramNormList_eq (tw : ℕ → K) (Fs : R) (n N : ℕ) (os nm : Bool) (x : ℕ → K) :
    periodogramNormList tw Fs n N os nm x
      = (List.range (outLen N os)).map (periodogramSk Fs n N os nm (spec tw N n x)) := by
  simp only [periodogramNormList, periodogramSkList, memoGet_fun]

theorem periodogramCsdNormList_eq (tw : ℕ → K) (Fs : R) (n N M : ℕ) (os nm : Bool) (x : ℕ → ℕ → K) :
    periodogramCsdNormList tw Fs n N M os nm x
      = matList M (csdOutLen N os) (periodogramCsdSk Fs n N os nm fun i => spec tw N n (x i)) := by
  simp only [periodogramCsdNormList, periodogramCsdSkList, memoGet2_fun]

end hist

/-! ### option handling -/

theorem onesidedOf_default (cplx : Bool) : onesidedOf "default" cplx = !cplx := by
  cases cplx <;> decide

theorem onesidedOf_explicit (cplx : Bool) :
    onesidedOf "onesided" cplx = true ∧ onesidedOf "twosided" cplx = false := by
  cases cplx <;> decide

/-! ### Parseval / fold / scaling / sign for ANY supplied transform -/

section math
variable {N : ℕ}

/-- `normalize=True` divides the `normalize=False` result by `Fs·n` (`n = s.shape[-1]`, NOT the transform length) -/
theorem periodogramSk_normalize (Fs : ℝ) (n : ℕ) (os : Bool) (Sk : ℕ → ℂ) (k : ℕ) :
    periodogramSk Fs n N os true Sk k = periodogramSk Fs n N os false Sk k / (Fs * n) := by
  simp [periodogramSk, periodogramOf, periodogramRaw]

/-- two-sided: `Σ_k P(k)·Fs/N = Σ_k |Sk(k)|² / (N·n)` for every supplied transform of length `N` -/
theorem periodogramSk_sum_twosided (hN : 0 < N) {n : ℕ} (hn : 0 < n) {Fs : ℝ} (hFs : Fs ≠ 0) (Sk : ℕ → ℂ) :
    ∑ k ∈ range (outLen N false), periodogramSk Fs n N false true Sk k * (Fs / N)
      = (∑ k ∈ range N, Complex.normSq (Sk k)) / (N * n) := by
  have hN' : (N : ℝ) ≠ 0 := Nat.cast_ne_zero.2 hN.ne'
  have hn' : (n : ℝ) ≠ 0 := Nat.cast_ne_zero.2 hn.ne'
  simp only [outLen, periodogramSk, periodogramOf, Bool.false_eq_true, if_false, if_true, sqmag_eq, ofNat_real]
  rw [← Finset.sum_mul, ← Finset.sum_div]
  field_simp

/-- one-sided output of the `Sk` branch = fold of its two-sided output, with or without normalisation -/
theorem periodogramSk_onesided_is_fold (Fs : ℝ) (n : ℕ) (nm : Bool) (Sk : ℕ → ℂ) {k : ℕ}
    (hk : k < outLen N true) :
    periodogramSk Fs n N true nm Sk k = foldOne N (periodogramSk Fs n N false nm Sk) k := by
  have hk' : k < N / 2 + 1 := by simpa [outLen, Fn, periodogram_Fn] using hk
  cases nm
  · have e : periodogramSk Fs n N true false Sk k = pgOne N Sk k := by
      simp [periodogramSk, periodogramRaw]
    rw [e, pgOne_eq_fold _ hk']
    unfold foldOne
    simp only [periodogramSk, periodogramRaw, Bool.false_eq_true, if_false, sqmag_eq]
  · have e : periodogramSk Fs n N true true Sk k = pgOne N Sk k / (Fs * n) := by
      simp [periodogramSk, periodogramOf]
    rw [e, pgOne_eq_fold _ hk']
    unfold foldOne
    simp only [periodogramSk, periodogramOf, Bool.false_eq_true, if_false, if_true, sqmag_eq, ofNat_real]
    split_ifs <;> ring

/-- one-sided Parseval on the `Sk` branch: a transform with `|Sk(N-k)| = |Sk(k)|` (that of a real signal) gives the same
integral one-sided and two-sided -/
theorem periodogramSk_sum_onesided (hN : 0 < N) {n : ℕ} (hn : 0 < n) {Fs : ℝ} (hFs : Fs ≠ 0) (Sk : ℕ → ℂ)
    (hsym : ∀ k, 0 < k → k < N → Complex.normSq (Sk (N - k)) = Complex.normSq (Sk k)) :
    ∑ k ∈ range (outLen N true), periodogramSk Fs n N true true Sk k * (Fs / N)
      = (∑ k ∈ range N, Complex.normSq (Sk k)) / (N * n) := by
  rw [← periodogramSk_sum_twosided hN hn hFs Sk, ← Finset.sum_mul, ← Finset.sum_mul]
  congr 1
  have hL : outLen N true = N / 2 + 1 := by simp [outLen, Fn, periodogram_Fn]
  have hL2 : outLen N false = N := by simp [outLen]
  rw [hL2, ← fold_sum_eq N hN (periodogramSk Fs n N false true Sk) (fun k hk0 hk => by
      simp only [periodogramSk, periodogramOf, Bool.false_eq_true, if_false, if_true, sqmag_eq, hsym k hk0 hk]), hL]
  refine sum_congr rfl fun k hk => ?_
  exact periodogramSk_onesided_is_fold Fs n true Sk (by rw [hL]; exact mem_range.1 hk)

/-- supplying the transform of `x` (zero-padded to any `N ≥ n`) gives the mean power of `x` (two-sided) -/
theorem periodogramSk_parseval_of_transform {ζ : ℂ} (hN : 0 < N) (hζ : IsPrimitiveRoot ζ N)
    (hc : (starRingEnd ℂ) ζ = ζ⁻¹) {n : ℕ} (hn : 0 < n) (hnN : n ≤ N) {Fs : ℝ} (hFs : Fs ≠ 0) (x : ℕ → ℂ) :
    ∑ k ∈ range (outLen N false), periodogramSk Fs n N false true (spec (tw ζ) N n x) k * (Fs / N)
      = (∑ j ∈ range n, Complex.normSq (x j)) / n := by
  simpa only [periodogramAt_eq_Sk] using periodogram_parseval_twosided hN hζ hc hn hnN hFs x

/-- … and one-sided for a real signal -/
theorem periodogramSk_parseval_of_transform_onesided {ζ : ℂ} (hN : 0 < N) (hζ : IsPrimitiveRoot ζ N)
    (hc : (starRingEnd ℂ) ζ = ζ⁻¹) {n : ℕ} (hn : 0 < n) (hnN : n ≤ N) {Fs : ℝ} (hFs : Fs ≠ 0) (x : ℕ → ℂ)
    (hx : ∀ j, (starRingEnd ℂ) (x j) = x j) :
    ∑ k ∈ range (outLen N true), periodogramSk Fs n N true true (spec (tw ζ) N n x) k * (Fs / N)
      = (∑ j ∈ range n, Complex.normSq (x j)) / n := by
  simpa only [periodogramAt_eq_Sk] using periodogram_parseval_onesided hN hζ hc hn hnN hFs x hx

/-- scaling the supplied transform by `a` (the transform of `a·x`) multiplies the density by `|a|²` -/
theorem periodogramSk_scale_sq (Fs : ℝ) (n : ℕ) (os nm : Bool) (a : ℂ) (Sk : ℕ → ℂ) (k : ℕ) :
    periodogramSk Fs n N os nm (fun k => a * Sk k) k = Complex.normSq a * periodogramSk Fs n N os nm Sk k := by
  simp only [periodogramSk, periodogramOf, periodogramRaw, pgOne, sqmag_eq, Complex.normSq_mul, ofNat_real]
  split_ifs <;> ring

theorem periodogramRaw_nonneg (os : Bool) (Sk : ℕ → ℂ) (k : ℕ) : 0 ≤ (periodogramRaw N os Sk k : ℝ) := by
  simp only [periodogramRaw, pgOne, sqmag_eq, ofNat_real]
  split_ifs <;>
    first
    | exact Complex.normSq_nonneg _
    | exact mul_nonneg (by positivity) (Complex.normSq_nonneg _)
    | simp

theorem periodogramSk_nonneg {Fs : ℝ} (hFs : 0 < Fs) (n : ℕ) (os nm : Bool) (Sk : ℕ → ℂ) (k : ℕ) :
    0 ≤ periodogramSk Fs n N os nm Sk k := by
  cases nm
  · simpa [periodogramSk] using periodogramRaw_nonneg os Sk k
  · rw [periodogramSk_normalize]
    exact div_nonneg (by simpa [periodogramSk] using periodogramRaw_nonneg os Sk k) (by positivity)

/-! ### typed input: integer recordings -/

theorem ofInt_real (z : ℤ) : (ofInt z : ℝ) = (z : ℝ) := by
  unfold ofInt
  split_ifs with h
  · have hz : ((z.natAbs : ℤ)) = -z := Int.ofNat_natAbs_of_nonpos (le_of_lt h)
    have : ((z.natAbs : ℕ) : ℝ) = -(z : ℝ) := by
      calc ((z.natAbs : ℕ) : ℝ) = (((z.natAbs : ℕ) : ℤ) : ℝ) := (Int.cast_natCast _).symm
        _ = ((-z : ℤ) : ℝ) := by rw [hz]
        _ = -(z : ℝ) := by push_cast; ring
    simp only [ofNat_real, this, neg_neg]
  · have hz : ((z.natAbs : ℤ)) = z := Int.natAbs_of_nonneg (not_lt.1 h)
    simp only [ofNat_real]
    calc ((z.natAbs : ℕ) : ℝ) = (((z.natAbs : ℕ) : ℤ) : ℝ) := (Int.cast_natCast _).symm
      _ = (z : ℝ) := by rw [hz]

theorem embedInt_complex (z : ℤ) : (embedInt z : ℂ) = ((z : ℝ) : ℂ) := by
  simp [embedInt, ofInt_real]

/-- an embedded integer signal is a real signal (so the one-sided theorems apply to it) -/
theorem embedInt_real (x : ℕ → ℤ) (j : ℕ) : (starRingEnd ℂ) (embedInt (x j) : ℂ) = embedInt (x j) := by
  rw [embedInt_complex]; exact Complex.conj_ofReal _

/-- the typed estimator is the float64 estimator on the embedded samples (definitionally) -/
theorem typed_eq {α β : Type} (embed : α → ℂ) (est : (ℕ → ℂ) → β) (x : ℕ → α) :
    typed embed est x = est (fun j => embed (x j)) := rfl

/-- Parseval for an integer recording: the density integrates to the mean of the squared INTEGER samples -/
theorem periodogram_int_parseval_twosided {ζ : ℂ} (hN : 0 < N) (hζ : IsPrimitiveRoot ζ N)
    (hc : (starRingEnd ℂ) ζ = ζ⁻¹) {n : ℕ} (hn : 0 < n) (hnN : n ≤ N) {Fs : ℝ} (hFs : Fs ≠ 0) (x : ℕ → ℤ) :
    ∑ k ∈ range (outLen N false),
        typed embedInt (fun y => periodogramAt (tw ζ) Fs n N false y k) x * (Fs / N)
      = ((∑ j ∈ range n, (x j) ^ 2 : ℤ) : ℝ) / n := by
  simp only [typed_eq]
  rw [periodogram_parseval_twosided hN hζ hc hn hnN hFs]
  congr 1
  push_cast
  refine sum_congr rfl fun j _ => ?_
  rw [embedInt_complex, Complex.normSq_ofReal]; ring

theorem periodogram_int_parseval_onesided {ζ : ℂ} (hN : 0 < N) (hζ : IsPrimitiveRoot ζ N)
    (hc : (starRingEnd ℂ) ζ = ζ⁻¹) {n : ℕ} (hn : 0 < n) (hnN : n ≤ N) {Fs : ℝ} (hFs : Fs ≠ 0) (x : ℕ → ℤ) :
    ∑ k ∈ range (outLen N true),
        typed embedInt (fun y => periodogramAt (tw ζ) Fs n N true y k) x * (Fs / N)
      = ((∑ j ∈ range n, (x j) ^ 2 : ℤ) : ℝ) / n := by
  simp only [typed_eq]
  rw [periodogram_parseval_onesided hN hζ hc hn hnN hFs _ (embedInt_real x)]
  congr 1
  push_cast
  refine sum_congr rfl fun j _ => ?_
  rw [embedInt_complex, Complex.normSq_ofReal]; ring

end math

/-! ### the taper provider with a memo -/

section memo
variable {ρ κ τ : Type} [DecidableEq κ]

theorem mlook_mem {k : κ} {v : τ} : ∀ {m : List (κ × τ)}, mlook k m = some v → (k, v) ∈ m
  | [], h => by simp [mlook] at h
  | (k', v') :: m, h => by
    unfold mlook at h
    split_ifs at h with hk
    · cases h; subst hk; exact List.mem_cons_self
    · exact List.mem_cons_of_mem _ (mlook_mem h)

/-- `lookup = recompute`: if the memo key determines the result and eviction only drops entries, a provider that starts
from a valid memo answers EVERY request history exactly like recomputation (induction over histories) -/
theorem memoRun_eq_map (compute : ρ → τ) (keyOf : ρ → κ) (evict : List (κ × τ) → List (κ × τ))
    (hkey : ∀ r r', keyOf r = keyOf r' → compute r = compute r')
    (hev : ∀ m e, e ∈ evict m → e ∈ m)
    (memo : List (κ × τ)) (hvalid : ∀ k v, (k, v) ∈ memo → ∀ r, keyOf r = k → v = compute r)
    (h : List ρ) : memoRun compute keyOf evict memo h = specTapers compute h := by
  induction h generalizing memo with
  | nil => rfl
  | cons r h ih =>
    simp only [memoRun, specTapers, List.map_cons]
    unfold memoStep
    cases hl : mlook (keyOf r) memo with
    | some v =>
      simp only
      rw [hvalid _ _ (mlook_mem hl) r rfl]
      exact congrArg _ (ih memo hvalid)
    | none =>
      simp only
      refine congrArg _ (ih _ ?_)
      intro k v hm r' hr'
      rcases List.mem_cons.1 hm with h1 | h1
      · cases h1; exact hkey r r' hr'.symm
      · exact hvalid k v (hev _ _ h1) r' hr'

/-- L7: with refusals in the history (requests `dpss_windows` rejects), a refused request leaves the memo unchanged and every
accepted request is still answered like recomputation -/
theorem memoRunE_eq_spec {κ τ : Type} [DecidableEq κ] (compute : TReq → τ) (keyOf : TReq → κ)
    (evict : List (κ × τ) → List (κ × τ))
    (hkey : ∀ r r', keyOf r = keyOf r' → compute r = compute r')
    (hev : ∀ m e, e ∈ evict m → e ∈ m)
    (memo : List (κ × τ)) (hvalid : ∀ k v, (k, v) ∈ memo → ∀ r, keyOf r = k → v = compute r)
    (h : List TReq) : memoRunE compute keyOf evict memo h = specTapersE compute h := by
  induction h generalizing memo with
  | nil => rfl
  | cons r h ih =>
    have ih' : ∀ memo', (∀ k v, (k, v) ∈ memo' → ∀ r, keyOf r = k → v = compute r) →
        memoRunE compute keyOf evict memo' h = List.map (fun r => if r.refused = true then none else some (compute r)) h :=
      fun memo' hv => ih memo' hv
    cases hr : r.refused with
    | true =>
      simp only [memoRunE, specTapersE, List.map_cons, hr, if_true]
      rw [ih' memo hvalid]
    | false =>
      simp only [memoRunE, specTapersE, List.map_cons, hr, Bool.false_eq_true, if_false]
      unfold memoStep
      cases hl : mlook (keyOf r) memo with
      | some v =>
        simp only
        rw [hvalid _ _ (mlook_mem hl) r rfl, ih' memo hvalid]
      | none =>
        simp only
        rw [ih' _ ?_]
        intro k v hm r' hr'
        rcases List.mem_cons.1 hm with h1 | h1
        · cases h1; exact hkey r r' hr'.symm
        · exact hvalid k v (hev _ _ h1) r' hr'

theorem memoRunE_fullkey {τ : Type} (compute : TReq → τ) (h : List TReq) :
    memoRunE compute id evict16 [] h = specTapersE compute h :=
  memoRunE_eq_spec compute id evict16 (fun _ _ e => by cases e; rfl)
    (fun m e he => List.mem_of_mem_take he) [] (by simp) h

/-- a refused request changes nothing: dropping it from the history leaves all other answers as they were -/
theorem refused_request_leaves_provider_unchanged {κ τ : Type} [DecidableEq κ] (compute : TReq → τ) (keyOf : TReq → κ)
    (evict : List (κ × τ) → List (κ × τ)) (memo : List (κ × τ)) (r : TReq) (hr : r.refused = true) (h : List TReq) :
    memoRunE compute keyOf evict memo (r :: h) = none :: memoRunE compute keyOf evict memo h := by
  simp [memoRunE, hr]

/-- the sound instance run by the driver: key = the whole request, 16-entry eviction, empty start -/
theorem memoRun_fullkey (compute : ρ → τ) [DecidableEq ρ] (h : List ρ) :
    memoRun compute id evict16 [] h = specTapers compute h :=
  memoRun_eq_map compute id evict16 (fun _ _ e => by cases e; rfl)
    (fun m e he => List.mem_of_mem_take he) [] (by simp) h

/-- a memo keyed by `(N, NW, Kmax)` forgets `interp_from`: after an interpolated request, the exact request with the
same `(N, NW, Kmax)` is answered with interpolated tapers -/
theorem memo_forgets_interp_counterexample :
    memoRun TReq.interpolated forgetfulKey evict16 [] [⟨64, 12, 6, 20, 0⟩, ⟨64, 12, 6, 0, 0⟩]
      ≠ specTapers TReq.interpolated [⟨64, 12, 6, 20, 0⟩, ⟨64, 12, 6, 0, 0⟩] := by decide

/-- … while on histories WITHOUT interpolated requests that memo is sound (which is why per-call checks on fresh
inputs never see the defect) -/
theorem memo_forgetful_partial (compute : TReq → τ) (h : List TReq) (hno : ∀ r ∈ h, r.interp = 0 ∧ r.kind = 0) :
    memoRun compute forgetfulKey evict16 [] h = specTapers compute h := by
  -- restrict `compute` to requests without interpolation: there the key determines the request
  have key : ∀ (memo : List ((ℕ × ℕ × ℕ) × τ)) (h : List TReq), (∀ r ∈ h, r.interp = 0 ∧ r.kind = 0) →
      (∀ k v, (k, v) ∈ memo → ∀ r, r.interp = 0 ∧ r.kind = 0 → forgetfulKey r = k → v = compute r) →
      memoRun compute forgetfulKey evict16 memo h = specTapers compute h := by
    intro memo h
    induction h generalizing memo with
    | nil => intros; rfl
    | cons r h ih =>
      intro hno hvalid
      have hr := hno r List.mem_cons_self
      have hno' : ∀ r ∈ h, r.interp = 0 ∧ r.kind = 0 := fun r' hr' => hno r' (List.mem_cons_of_mem _ hr')
      simp only [memoRun, specTapers, List.map_cons]
      unfold memoStep
      cases hl : mlook (forgetfulKey r) memo with
      | some v =>
        simp only
        rw [hvalid _ _ (mlook_mem hl) r hr rfl]
        exact congrArg _ (ih memo hno' hvalid)
      | none =>
        simp only
        refine congrArg _ (ih _ hno' ?_)
        intro k v hm r' hr0 hr'
        rcases List.mem_cons.1 hm with h1 | h1
        · cases h1
          have : r' = r := by
            cases r; cases r'
            simp only [forgetfulKey, Prod.mk.injEq] at hr'
            simp only at hr hr0
            obtain ⟨a, b, c⟩ := hr'
            simp [a, b, c, hr.1, hr.2, hr0.1, hr0.2]
          rw [this]
        · exact hvalid k v (List.mem_of_mem_take h1) r' hr0 hr'
  exact key [] h hno (by simp)

end memo

/-! ### non-vacuity -/

example : skRun (1 : ℝ) 4 4 2 false (fun _ _ => (1 : ℂ)) [.csd "default" true, .csd "onesided" true]
    = [skOut (1 : ℝ) 4 4 2 false (fun _ _ => (1 : ℂ)) (.csd "default" true),
       skOut (1 : ℝ) 4 4 2 false (fun _ _ => (1 : ℂ)) (.csd "onesided" true)] :=
  sk_used_twice _ _ _ _ _ _ _ _

example : ∑ k ∈ range (outLen 2 false), periodogramSk (1 : ℝ) 2 2 false true (fun _ => (1 : ℂ)) k * ((1 : ℝ) / (2 : ℕ))
    = (∑ k ∈ range 2, Complex.normSq ((fun _ => (1 : ℂ)) k)) / ((2 : ℕ) * (2 : ℕ)) :=
  periodogramSk_sum_twosided (by norm_num) (by norm_num) one_ne_zero _

/-! ### SpectralAnalyzer sessions: after any re-target every getter works at the rate of the series HELD -/
section ansess
open Nitime.C04.Sess Nitime.Generated

/-- the tie: in the CURRENT `analysis/spectral.py` every getter takes its sampling rate from the input it holds
(`self.input.sampling_rate`), or — `cpsd` — refreshes `self.method['Fs']` from it before handing the dict on; `set_input` is
`BaseAnalyzer.set_input` and leaves `self.method` alone.  An edit that makes a getter read the rate stored in the method
dict at construction changes `Generated.AnalyzerFs` and this stops checking. -/
theorem every_getter_takes_rate_from_held_input :
    (∀ g, usesHeld (AnalyzerFs.table g) = true) ∧ AnalyzerFs.setInputIsBase = true ∧ AnalyzerFs.ctor ≠ .unknown := by
  refine ⟨?_, by decide, by decide⟩
  intro g; cases g <;> decide

/-- **`psd` (and `cpsd`, `periodogram`, `spectrum_multi_taper`, `spectrum_fourier`) after a re-target use the held rate**: for an
analyzer built on ANY series with ANY method argument (None, a dict with or without `'Fs'`), along EVERY sequence of
`set_input` (to series of other rates / lengths), `reset` and reads in any order, each result is computed at the sampling
rate of the series held at that moment — so `Σ PSD · Fs/NFFT` with that series' `Fs` is its power
(`welch_parseval_*`, `periodogram_parseval_*`, `multitaper_parseval_*`). -/
theorem psd_after_retarget_uses_held_rate (inp : Inp) (userMethod : Option (Option ℚ)) (evs : List Ev) :
    Sess.run AnalyzerFs.table (init AnalyzerFs.ctor inp userMethod) evs = Sess.spec inp evs :=
  session_reads AnalyzerFs.table every_getter_takes_rate_from_held_input.1 evs _ (inv_init _ inp userMethod)

/-- for every table of getters with that discipline and every constructor behaviour -/
theorem retarget_uses_held_rate_of_discipline (table : Getter → GetterSpec) (hT : ∀ g, usesHeld (table g) = true)
    (c : CtorFs) (inp : Inp) (userMethod : Option (Option ℚ)) (evs : List Ev) :
    Sess.run table (init c inp userMethod) evs = Sess.spec inp evs :=
  session_reads table hT evs _ (inv_init c inp userMethod)

/-- non-vacuity + contrast, the two cooperating edits of seeded change C04-13 (`__init__` stores `'Fs'` always, `psd` reads
`self.method.get('Fs', …)`): built at 100 Hz, re-targeted to 250 Hz, `psd` answers at 100 Hz — unless `cpsd` was read first,
which rewrites the entry (why a check that reads `cpsd` before `psd` never sees it) -/
def c0413 : Getter → GetterSpec
  | .psd => ⟨.methodEntryOrHeld, false⟩
  | .cpsd => ⟨.methodEntry, true⟩
  | _ => ⟨.heldInput, false⟩

theorem stored_rate_counterexample :
    Sess.run c0413 (init .always ⟨100, 0⟩ (some none)) [.read .psd, .setInput ⟨250, 1⟩, .read .psd] = [(.psd, 100, 0), (.psd, 100, 1)] ∧
    Sess.spec ⟨100, 0⟩ [.read .psd, .setInput ⟨250, 1⟩, .read .psd] = [(.psd, 100, 0), (.psd, 250, 1)] ∧
    Sess.run c0413 (init .always ⟨100, 0⟩ (some none)) [.setInput ⟨250, 1⟩, .read .cpsd, .read .psd] = [(.cpsd, 250, 1), (.psd, 250, 1)] ∧
    usesHeld (c0413 .psd) = false := by
  refine ⟨?_, ?_, ?_, by decide⟩ <;> simp [Sess.run, Sess.read, Sess.spec, Sess.init, c0413, rateOf, setMemo]

example : Sess.run AnalyzerFs.table (init AnalyzerFs.ctor ⟨100, 0⟩ (some (some 7))) [.read .psd, .setInput ⟨250, 1⟩, .read .psd, .read .cpsd]
    = [(.psd, 100, 0), (.psd, 250, 1), (.cpsd, 250, 1)] := by
  rw [psd_after_retarget_uses_held_rate]; rfl

end ansess

end Nitime.C04.Props
