/-
C11, wave 6 — structured covariance sequences: ZERO reflection matrices and sparse exact recovery.

`lwr_solves` / `lwr_solves_concrete` (`Props/C11.lean`) hold for ALL covariance sequences whose error covariances `inv`
inverts — including sequences for which an intermediate reflection numerator `delta_{p+1}` vanishes.  This file makes
that explicit, about the same model text (`Model/C11.lean: lwrStep / lwrLoop / lwr`):

* `lwr_source_runs_every_pass` — the side condition: the source's order loop `for p in range(P)` has no `break` /
  `continue` / `return` / `raise`, no conditional, and is followed by `return a, sigf` (facts GENERATED from
  `lwr_recursion` by `harness/translate_c11.py: gen_lwr_flow`, `decide`).  An early exit re-opens this obligation.
* `lwrStep_delta` — the first `let` of `lwrStep` is `lwrDelta`.
* `lwr_zero_reflection_step` — a pass with `delta = 0` appends a zero coefficient to `a` and `b` and leaves every earlier
  coefficient, `sigf` and `sigb` unchanged: an ORDINARY pass, NOT a reason to stop.
  `lwr_zero_reflection_pass` — the same about the loop; `lwr_zero_reflection_invariant` — the block Yule–Walker system of
  the next order is still solved afterwards (and the recursion continues from there).
* `lwr_exact_recovery_sparse` — the exact covariances of `x(t) = B x(t−s) + e(t)` (`r(k) = 0` for `0 < k < s`,
  `r(k) = B·r(k−s)` for `s ≤ k ≤ P`) give back `a[s−1] = −B` (the code's sign convention) and `a[k−1] = 0` for every other
  `k ≤ P`, for EVERY `s ≥ 1` and every fitted order `P` (also `P < s`: all zero), every star ring, needing only that `inv`
  inverts `r(0)` from the right.  `lwr_exact_recovery_white` is `s > P`.
* `lwrBreak_stops_at_first_zero`, `early_break_counterexample` (one channel, `r = 1, 0, 1/2`: the recursion returns
  `a = (0, −1/2)`, `Σ = 3/4`; the early-exit variant returns `a = (0, 0)`, `Σ = 1`, Yule–Walker residual `1/2` at lag 2),
  `early_break_counterexample_two_channels` (a concrete 2-channel seasonal model in exact rational arithmetic, through the
  SAME `lwrExact` the driver's op `lwrq` runs: equations solved exactly, every inverse exists, the early exit differs),
  `early_break_partial` — the early-exit variant agrees with the recursion when no numerator vanishes before the last pass.
-/
import Nitime.Props.C11
import Nitime.Lemmas.LWRSparse

open Finset
open Nitime.AR Nitime.C11

namespace Nitime.C11.Props

/-- **generated side condition.** The order loop of `lwr_recursion` performs every pass. -/
theorem lwr_source_runs_every_pass : loopRunsEveryPass = true := by decide

section zero
variable {M : Type} [Ring M] [StarRing M] (inv : M → M) (r : ℕ → M)

theorem lwrStep_delta (p : ℕ) (s : LWRSt M) :
    @lwrStep M (ringOps inv) r p s =
      (let delta := @lwrDelta M (ringOps inv) r p s
       let ka := delta * inv s.sigb
       let kb := star delta * inv s.sigf
       ⟨(List.range p).map (fun i => s.a.getD i 0 - ka * s.b.getD (p - 1 - i) 0) ++ [-ka],
        (List.range p).map (fun i => s.b.getD i 0 - kb * s.a.getD (p - 1 - i) 0) ++ [-kb],
        (1 - ka * kb) * s.sigf, (1 - kb * ka) * s.sigb⟩) := rfl

lemma map_getD_range {α : Type} (l : List α) (d : α) : (List.range l.length).map (fun i => l.getD i d) = l := by
  apply List.ext_getElem
  · simp
  · intro i h1 h2
    simp at h1
    simp [List.getD_eq_getElem?_getD, List.getElem?_eq_getElem h1]

/-- **a zero reflection matrix is an ordinary pass.** -/
theorem lwr_zero_reflection_step (p : ℕ) (s : LWRSt M) (hla : s.a.length = p) (hlb : s.b.length = p)
    (hd : @lwrDelta M (ringOps inv) r p s = 0) :
    @lwrStep M (ringOps inv) r p s = ⟨s.a ++ [0], s.b ++ [0], s.sigf, s.sigb⟩ := by
  rw [lwrStep_delta, hd]
  simp only [zero_mul, star_zero, sub_zero, neg_zero, mul_zero, one_mul]
  subst hla
  rw [map_getD_range, ← hlb, map_getD_range]

/-- the loop: if the numerator of pass `p` vanishes, pass `p` appends zeros and keeps both covariances -/
theorem lwr_zero_reflection_pass (p : ℕ)
    (hd : @lwrDelta M (ringOps inv) r p (@lwrLoop M (ringOps inv) r p) = 0) :
    @lwrLoop M (ringOps inv) r (p + 1) =
      ⟨(@lwrLoop M (ringOps inv) r p).a ++ [0], (@lwrLoop M (ringOps inv) r p).b ++ [0],
       (@lwrLoop M (ringOps inv) r p).sigf, (@lwrLoop M (ringOps inv) r p).sigb⟩ := by
  obtain ⟨hla, hlb, _⟩ := lwrLoop_spec inv r p
  exact lwr_zero_reflection_step inv r p _ hla hlb hd

/-- … and the invariant is intact: after that pass the coefficients solve the block Yule–Walker system of order `p + 1`
(the hypothesis on the inverses is the one of `lwr_solves`; nothing is asked of the vanishing numerator) -/
theorem lwr_zero_reflection_invariant (h0 : star (r 0) = r 0) (p : ℕ) (hinv : InvOK inv r (p + 1))
    (_hd : @lwrDelta M (ringOps inv) r p (@lwrLoop M (ringOps inv) r p) = 0) :
    ∀ k : ℕ, 1 ≤ k → k ≤ p + 1 →
      ∑ i ∈ range (p + 2), coefA (@lwr M (ringOps inv) r (p + 1)).1 i * Rext r ((k : ℤ) - i) = 0 :=
  (lwr_solves inv r h0 (p + 1) hinv).1

/-- **sparse exact recovery.** -/
theorem lwr_exact_recovery_sparse (s P : ℕ) (hs : 1 ≤ s) (Bm : M)
    (hzero : ∀ k, 1 ≤ k → k < s → r k = 0)
    (hseason : ∀ k, s ≤ k → k ≤ P → r k = Bm * r (k - s))
    (hinv0 : r 0 * inv (r 0) = 1) :
    (@lwr M (ringOps inv) r P).1.length = P ∧
    ∀ i, i < P → (@lwr M (ringOps inv) r P).1.getD i 0 = if i + 1 = s then -Bm else 0 := by
  refine ⟨lwr_length inv r P, fun i hi => ?_⟩
  obtain ⟨_, _, ha, _, _, _⟩ := lwrLoop_spec inv r P
  show (@lwrLoop M (ringOps inv) r P).a.getD i 0 = _
  rw [ha i hi]
  have hz : ∀ k : ℕ, 1 ≤ k → k < s → Rext r (k : ℤ) = 0 := fun k h1 h2 => by rw [Rext_nat]; exact hzero k h1 h2
  by_cases hPs : s ≤ P
  · have hse : ∀ k : ℕ, s ≤ k → k ≤ P → Rext r (k : ℤ) = Bm * Rext r ((k : ℤ) - s) := by
      intro k h1 h2
      have : (k : ℤ) - s = ((k - s : ℕ) : ℤ) := by omega
      rw [this, Rext_nat, Rext_nat]
      exact hseason k h1 h2
    have h00 : Rext r 0 * inv (Rext r 0) = 1 := by rw [Rext_zero]; exact hinv0
    rw [LWR.lwr_sparse_A (R := Rext r) inv s P Bm hs hz hse h00 P hPs le_rfl (i + 1)]
    simp [LWR.sparseA]
  · obtain ⟨hA, _⟩ := LWR.lwr_sparse_pre (R := Rext r) inv s hz P (by omega)
    rw [hA (i + 1)]
    have : i + 1 ≠ s := by omega
    simp [LWR.unitA, this]

/-- non-vacuity: one channel, `r = (1, 0, ½)`, `s = P = 2`, `B = ½`: the hypotheses hold and `a[1] = −½` -/
example : (@lwr ℂ (ringOps (fun x => x⁻¹)) (fun k => if k = 0 then 1 else if k = 2 then 1 / 2 else 0) 2).1.getD 1 0
    = -(1 / 2 : ℂ) := by
  have := (lwr_exact_recovery_sparse (fun x : ℂ => x⁻¹) (fun k => if k = 0 then 1 else if k = 2 then 1 / 2 else 0) 2 2
    (by norm_num) (1 / 2)
    (by intro k h1 h2; have : k = 1 := by omega
        subst this; simp)
    (by intro k h1 h2; have : k = 2 := by omega
        subst this; simp)
    (by simp)).2 1 (by norm_num)
  simpa using this

/-- the same with its side condition spelled out: the SOURCE's order loop performs every pass (generated fact), and the
recursion that performs every pass recovers the seasonal model -/
theorem lwr_source_exact_recovery_sparse (s P : ℕ) (hs : 1 ≤ s) (Bm : M)
    (hzero : ∀ k, 1 ≤ k → k < s → r k = 0)
    (hseason : ∀ k, s ≤ k → k ≤ P → r k = Bm * r (k - s))
    (hinv0 : r 0 * inv (r 0) = 1) :
    loopRunsEveryPass = true ∧
    ∀ i, i < P → (@lwr M (ringOps inv) r P).1.getD i 0 = if i + 1 = s then -Bm else 0 :=
  ⟨lwr_source_runs_every_pass, (lwr_exact_recovery_sparse inv r s P hs Bm hzero hseason hinv0).2⟩

/-- white sequences (all partial correlations zero): every coefficient matrix is zero -/
theorem lwr_exact_recovery_white (P : ℕ) (hzero : ∀ k, 1 ≤ k → k ≤ P → r k = 0) :
    ∀ i, i < P → (@lwr M (ringOps inv) r P).1.getD i 0 = 0 := by
  intro i hi
  obtain ⟨_, _, ha, _, _, _⟩ := lwrLoop_spec inv r P
  show (@lwrLoop M (ringOps inv) r P).a.getD i 0 = _
  rw [ha i hi]
  have hz : ∀ k : ℕ, 1 ≤ k → k < P + 1 → Rext r (k : ℤ) = 0 := fun k h1 h2 => by
    rw [Rext_nat]; exact hzero k h1 (by omega)
  obtain ⟨hA, _⟩ := LWR.lwr_sparse_pre (R := Rext r) inv (P + 1) hz P (by omega)
  rw [hA (i + 1)]
  simp [LWR.unitA]

end zero

/-! ### the early-exit discipline (seed C11-12) is NOT the recursion -/

section brk
variable {M : Type} [MatOps M]

/-- the variant leaves the loop at the first pass whose numerator it judges to vanish -/
theorem lwrBreak_stops_at_first_zero (isZero : M → Bool) (r : ℕ → M) (fuel p : ℕ) (s : LWRSt M)
    (h : isZero (lwrDelta r p s) = true) : lwrBreakFrom isZero r (fuel + 1) p s = s := by
  simp [lwrBreakFrom, h]

/-- … and is the recursion as long as no numerator vanishes -/
theorem early_break_partial (isZero : M → Bool) (r : ℕ → M) :
    ∀ (fuel p : ℕ), (∀ j, j < fuel → isZero (lwrDelta r (p + j) (lwrLoop r (p + j))) = false) →
      lwrBreakFrom isZero r fuel p (lwrLoop r p) = lwrLoop r (p + fuel) := by
  intro fuel
  induction fuel with
  | zero => intro p _; rfl
  | succ fuel ih =>
    intro p h
    have h0 := h 0 (by omega)
    simp only [Nat.add_zero] at h0
    rw [lwrBreakFrom, h0]
    simp only [Bool.false_eq_true, if_false]
    have : lwrStep r p (lwrLoop r p) = lwrLoop r (p + 1) := rfl
    rw [this, ih (p + 1) (fun j hj => by
      have := h (j + 1) (by omega)
      rwa [show p + (j + 1) = p + 1 + j by omega] at this)]
    congr 1; omega

end brk

/-- one channel, `x(t) = ½·x(t−2) + e(t)`, `r = (1, 0, ½)` -/
def seasonal2 : ℕ → ℚ := fun k => if k = 0 then 1 else if k = 2 then 1 / 2 else 0

/-- **counterexample.** On the exact covariances of a seasonal model the recursion returns `a = (0, −½)`, `Σ = ¾` (the model's
coefficients); the variant that leaves the loop when `delta_1 = r(1) = 0` returns `a = (0, 0)`, `Σ = 1`, and its
Yule–Walker residual at lag 2, `r(2) + a(1)·r(1) + a(2)·r(0)`, is `½`. -/
theorem early_break_counterexample :
    lwr seasonal2 2 = ([0, (-1 / 2 : ℚ)], 3 / 4) ∧
    lwrBreak (fun d : ℚ => d == 0) seasonal2 2 = ([0, 0], 1) ∧
    seasonal2 2 + (lwrBreak (fun d : ℚ => d == 0) seasonal2 2).1.getD 0 0 * seasonal2 1
      + (lwrBreak (fun d : ℚ => d == 0) seasonal2 2).1.getD 1 0 * seasonal2 0 = 1 / 2 := by
  have h1 : lwr seasonal2 2 = ([0, (-1 / 2 : ℚ)], 3 / 4) := by
    simp [lwr, lwrLoop, lwrStep, foldAdd, seasonal2, MatOps.add, MatOps.sub, MatOps.mul, MatOps.neg, MatOps.inv,
      MatOps.star, MatOps.one, MatOps.zero, List.range_succ]
    norm_num
  have h2 : lwrBreak (fun d : ℚ => d == 0) seasonal2 2 = ([0, 0], 1) := by
    simp [lwrBreak, lwrBreakFrom, lwrDelta, foldAdd, seasonal2, MatOps.zero]
  refine ⟨h1, h2, ?_⟩
  rw [h2]
  simp [seasonal2]

/-- two channels, `x(t) = B x(t−2) + e(t)` with `B = [[1/2, 0], [1/4, −1/2]]`, `R(0) = I`: lags `I, 0, B` -/
def seasonal2x2 : List (List (List Nitime.C10.CQ)) :=
  [[[⟨1, 0⟩, ⟨0, 0⟩], [⟨0, 0⟩, ⟨1, 0⟩]],
   [[⟨0, 0⟩, ⟨0, 0⟩], [⟨0, 0⟩, ⟨0, 0⟩]],
   [[⟨1 / 2, 0⟩, ⟨0, 0⟩], [⟨1 / 4, 0⟩, ⟨-1 / 2, 0⟩]]]

/-- **counterexample, two channels, exact rational arithmetic** (the function the driver's op `lwrq` runs): the block
Yule–Walker equations hold exactly, `Σ = Σ_i A(i)R(−i)`, every inverse exists — and the early-exit variant does NOT return
the recursion's coefficients. -/
theorem early_break_counterexample_two_channels :
    (lwrExact (K := Nitime.C10.CQ) 2 seasonal2x2).2 = [true, true, true, false] := by
  decide +kernel

end Nitime.C11.Props
