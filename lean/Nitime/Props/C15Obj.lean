/-
C15, round 2 (classes L7 failure paths, L8 aliasing) — theorems about `Model/C15Obj.lean`.

L7 — analyzers as objects whose one-time results come from a per-item loop that may fail part-way:
* `failed_read_leaves_object_unchanged` — today's discipline (`Loop.localDict`): a read that raises leaves the object
  exactly as it was (nothing half-built is stored anywhere).
* `retarget_after_any_history` — for EVERY history of reads (failing or not) and `set_input`s on one object, every read
  returns what the all-or-nothing loop of the algorithm layer gives on the input held at that moment (`run = ref`).
* `read_after_failures_and_set_input` — the last read after `… ; set_input(d') ; read` is the algorithm layer on `d'`.
* `view_of_fitAll` — and that answer shows, for every item, `fit d' item` (no item carries another input's fit).
* `kept_partial_counterexample` — the "resume" discipline (dict under construction kept in a plain attribute, fitted
  items skipped): pair 2 of 3 fails on input 0, `set_input(1)`, read → pair 1 still shows input 0's fit.
* `kept_partial_right_without_failures` — that discipline is right as long as no read ever failed before (fresh object).
* `granger_reads_fresh_after_any_history` — composition with the GrangerAnalyzer object model of `Lemmas/GrangerObj.lean`
  (`_model` → `_granger_causality` → matrices, `frequencies`): instantiated with the per-pair loop as its `fit`.
* `analyzers_keep_no_plain_state`, `attr_item_writes_pinned` — GENERATED facts about today's source.

L8 — seed/target correspondence as a function of values:
* `seed_coherency_depends_on_values_not_on_memory` — the result does not depend on the memory descriptor, and ANY seed
  whose rows equal in value the target rows `idx` (strided, reversed, repeated, any order) gets the rows `idx` of the
  dense result.
* `by_address_counterexample` — taking seed i's transform from target row `first + i`: seed = target[1::2] of 4 rows gives
  rows 1, 2 instead of 1, 3.   `by_address_right_on_consecutive_rows` — right only for step 1.
* `analyzers_never_probe_memory` — GENERATED.

Complex recordings (wave-6 class): `fftshift_matches_labels` (position k of `fftshift(fft x)` shows the DFT bin that the label
`(k − n//2)·Fs/n` names, every n), `ifftshift_matches_labels_iff_even` (the `ifftshift` reading is right iff n is even, n > 1),
`ifftshift_odd_counterexample`, `spectrum_shift_is_fftshift` (GENERATED).
-/
import Nitime.Model.C15Obj
import Nitime.Lemmas.GrangerObj
import Mathlib.Tactic.NormNum

namespace Nitime.C15.Props
open Nitime.C15.Obj

section
set_option linter.unusedSectionVars false
variable {D K R : Type} [DecidableEq K] (fit : D → K → Option R) (items : D → List K)

/-- nothing in a plain attribute; the one-time cache, if present, is the loop's result on the CURRENT input -/
def ObjInv (s : St D K R) : Prop :=
  s.kept = none ∧ ∀ m, s.cache = some m → fitAll fit s.input (items s.input) = some m

theorem objInv_construct (d : D) : ObjInv fit items (construct d : St D K R) :=
  ⟨rfl, by intro m h; simp [construct] at h⟩

theorem objInv_setInput (d : D) (s : St D K R) (h : ObjInv fit items s) : ObjInv fit items (setInput d s) :=
  ⟨h.1, by intro m hm; simp [setInput] at hm⟩

/-- one read under today's discipline: the answer is the algorithm layer's, the invariant and the input are kept -/
theorem read_localDict_spec (s : St D K R) (h : ObjInv fit items s) :
    (read fit items .localDict s).2 = (fitAll fit s.input (items s.input)).map (view (items s.input)) ∧
    ObjInv fit items (read fit items .localDict s).1 ∧ (read fit items .localDict s).1.input = s.input := by
  unfold Obj.read
  cases hc : s.cache with
  | some m =>
    have := h.2 m hc
    simp [this, h]
  | none =>
    cases hf : fitAll fit s.input (items s.input) with
    | none => simp [h]
    | some m =>
      refine ⟨by simp, ⟨h.1, ?_⟩, rfl⟩
      intro m' hm'
      simp at hm'
      simpa [hm'] using hf

/-- L7: a read that raises leaves the object exactly as it was -/
theorem failed_read_leaves_object_unchanged (s : St D K R)
    (hfail : (read fit items .localDict s).2 = none) : (read fit items .localDict s).1 = s := by
  unfold Obj.read at *
  cases hc : s.cache with
  | some m => simp
  | none =>
    cases hf : fitAll fit s.input (items s.input) with
    | none => simp
    | some m => simp [hc, hf] at hfail

theorem run_eq_ref_of_inv (ops : List (Op D)) :
    ∀ s : St D K R, ObjInv fit items s → run fit items .localDict ops s = ref fit items ops s.input := by
  induction ops with
  | nil => intro s _; rfl
  | cons o os ih =>
    intro s h
    cases o with
    | setInput d =>
      simp only [run, step, ref]
      rw [ih _ (objInv_setInput fit items d s h)]; rfl
    | read =>
      obtain ⟨e, i, ei⟩ := read_localDict_spec fit items s h
      simp only [run, step, ref]
      rw [ih _ i, e, ei]

/-- L7, HISTORY THEOREM: whatever was read before — reads that raised part-way included — and however often the object
was re-targeted, every read answers with the algorithm layer on the input held at that moment -/
theorem retarget_after_any_history (ops : List (Op D)) (d : D) :
    run fit items .localDict ops (construct d : St D K R) = ref fit items ops d :=
  run_eq_ref_of_inv fit items ops _ (objInv_construct fit items d)

/-- the input held after a history -/
def curInput : List (Op D) → D → D
  | [], d => d
  | .setInput d' :: os, _ => curInput os d'
  | .read :: os, d => curInput os d

theorem ref_append (os os' : List (Op D)) (d : D) :
    ref fit items (os ++ os') d = ref fit items os d ++ ref fit items os' (curInput os d) := by
  induction os generalizing d with
  | nil => rfl
  | cons o os ih => cases o <;> simp [ref, curInput, ih]

/-- after ANY history (`pre`), `set_input(d')` and a read give the algorithm layer's answer for `d'` -/
theorem read_after_failures_and_set_input (pre : List (Op D)) (d0 d' : D) :
    run fit items .localDict (pre ++ [.setInput d', .read]) (construct d0 : St D K R)
      = ref fit items pre d0 ++ [none, some ((fitAll fit d' (items d')).map (view (items d')))] := by
  rw [retarget_after_any_history, ref_append]; rfl

/-- every fitted item of the loop's result is `fit d item` -/
theorem fitAll_lookup (d : D) (ks : List K) (m : List (K × R)) (h : fitAll fit d ks = some m) :
    ∀ k ∈ ks, m.lookup k = fit d k := by
  induction ks generalizing m with
  | nil => intro k hk; simp at hk
  | cons k0 ks ih =>
    unfold fitAll at h
    cases hf : fit d k0 with
    | none => simp [hf] at h
    | some r =>
      cases hr : fitAll fit d ks with
      | none => simp [hf, hr] at h
      | some m' =>
        simp [hf, hr] at h
        subst h
        intro k hk
        by_cases hkk : k = k0
        · subst hkk; simp [List.lookup, hf]
        · have hb : (k == k0) = false := by simpa using hkk
          have : k ∈ ks := by simpa [hkk] using hk
          simp only [List.lookup, hb]
          exact ih m' hr k this

/-- so the answer shows, item by item, the fit of the input held NOW (never another input's) -/
theorem view_of_fitAll (d : D) (m : List (K × R)) (h : fitAll fit d (items d) = some m) :
    view (items d) m = (items d).map fun k => (k, fit d k) := by
  unfold view
  apply List.map_congr_left
  intro k hk
  rw [fitAll_lookup fit d (items d) m h k hk]

/-- the resume discipline started on a fresh object whose loop completes gives the same as today's -/
theorem fitKeep_of_fitAll (d : D) (ks : List K) (m : List (K × R)) (h : fitAll fit d ks = some m) (hn : ks.Nodup) :
    ∀ acc : List (K × R), (∀ k ∈ ks, acc.lookup k = none) → fitKeep fit d ks acc = (acc ++ m, true) := by
  induction ks generalizing m with
  | nil => intro acc _; simp [fitAll] at h; subst h; simp [fitKeep]
  | cons k0 ks ih =>
    intro acc hacc
    unfold fitAll at h
    cases hf : fit d k0 with
    | none => simp [hf] at h
    | some r =>
      cases hr : fitAll fit d ks with
      | none => simp [hf, hr] at h
      | some m' =>
        simp [hf, hr] at h
        subst h
        have h0 : acc.lookup k0 = none := hacc k0 (by simp)
        have hnd := List.nodup_cons.mp hn
        unfold fitKeep
        simp only [h0, Option.isSome_none, Bool.false_eq_true, ↓reduceIte, hf]
        rw [ih m' hr hnd.2 (acc ++ [(k0, r)])]
        · simp
        · intro k hk
          have hne : k ≠ k0 := by rintro rfl; exact hnd.1 hk
          have hb : (k == k0) = false := by simpa using hne
          rw [List.lookup_append, hacc k (by simp [hk])]
          simp [List.lookup, hb]

theorem kept_partial_right_without_failures (d : D) (m : List (K × R))
    (h : fitAll fit d (items d) = some m) (hn : (items d).Nodup) :
    (read fit items .keptPartial (construct d : St D K R)).2 = (read fit items .localDict (construct d : St D K R)).2 := by
  have := fitKeep_of_fitAll fit d (items d) m h hn [] (by intro k _; rfl)
  simp [Obj.read, construct, h, this]

end

/-- L7 COUNTEREXAMPLE (the resume discipline): items 0, 1, 2; `fit` fails for item 1 of input 0 only.  A read on input 0
raises; `set_input(1)`; the read then shows item 0 with INPUT 0's fit — today's discipline shows input 1's for all -/
theorem kept_partial_counterexample :
    run (tagFit [(0, 1)]) (fun _ => [0, 1, 2]) .keptPartial [.read, .setInput 1, .read]
        (construct 0 : St Nat Nat (Nat × Nat))
      = [some none, none, some (some [(0, some (0, 0)), (1, some (1, 1)), (2, some (1, 2))])] ∧
    run (tagFit [(0, 1)]) (fun _ => [0, 1, 2]) .localDict [.read, .setInput 1, .read]
        (construct 0 : St Nat Nat (Nat × Nat))
      = [some none, none, some (some [(0, some (1, 0)), (1, some (1, 1)), (2, some (1, 2))])] := by
  constructor <;> rfl

/-- composition with the GrangerAnalyzer object model (`_model`, `_granger_causality`, `frequencies` as three one-time
entries): with the per-pair loop as its `fit`, every read of every history is the fresh analyzer's on the input held -/
theorem granger_reads_fresh_after_any_history {D K R G A : Type} [DecidableEq K] (fit : D → K → Option R)
    (items : D → List K) (spec : D → List (K × R) → G) (axis : D → A) (ops : List (Nitime.GrangerObj.Op D)) (d : D) :
    Nitime.GrangerObj.run (fun d => fitAll fit d (items d)) spec axis ops (Nitime.GrangerObj.construct d)
      = Nitime.GrangerObj.ref (fun d => fitAll fit d (items d)) spec axis ops d :=
  Nitime.GrangerObj.run_eq_ref _ spec axis ops d

/-- GENERATED: outside `__init__` / `set_input` no method of an analyzer class creates, rebinds or deletes an attribute
of `self` or touches the instance dict — except the two recorded, input-independent rebinds — and every `set_input`
override resets the one-time attributes first -/
theorem analyzers_keep_no_plain_state :
    (Nitime.Generated.AnalyzerState.plainStores.all (allowedPlainStores.contains ·)) = true ∧
    Nitime.Generated.AnalyzerState.setInputWithoutReset = [] ∧ codeVouched = true := by
  refine ⟨by decide, by decide, by decide⟩

/-- the writes INTO attribute-held objects that today's code has: the `Fs` stamps of the method dicts (each re-stamped
from the current input: `fs_sites_all_from_input`) and `cpsd`'s `this_method` -/
def allowedItemWrites : List String :=
  ["CoherenceAnalyzer.set_input: self.method['Fs']", "SeedCoherenceAnalyzer.frequencies: self.method['Fs']",
   "SparseCoherenceAnalyzer.frequencies: self.method['Fs']", "SparseCoherenceAnalyzer.set_input: self.method['Fs']",
   "SpectralAnalyzer.cpsd: self.welch_method['Fs']", "SpectralAnalyzer.cpsd: self.welch_method['this_method']"]

/-- GENERATED: no other method writes into an object held in an attribute (a per-item dict filled across calls, a cache
list appended to, … would show up here) -/
theorem attr_item_writes_pinned :
    (Nitime.Generated.AnalyzerState.attrItemWrites.all (allowedItemWrites.contains ·)) = true := by
  decide

/-! ### L8: seeds that are views of the target -/
open Nitime.C15.Seed

section
variable {V C : Type} (pair : V → V → C)

/-- L8: (1) the answer does not depend on where the seed lives; (2) a seed whose rows are, in value, the target rows
`idx` — any selection: row-strided, reversed, repeated, permuted — gets exactly the rows `idx` of the dense result -/
theorem seed_coherency_depends_on_values_not_on_memory (seed target : List V) (m1 m2 : Mem) (idx : List Nat) :
    seedResult pair .values seed m1 target = seedResult pair .values seed m2 target ∧
    seedResult pair .values (idx.filterMap fun i => target[i]?) m1 target
      = idx.filterMap fun i => (dense pair target)[i]? := by
  constructor
  · cases m1 <;> cases m2 <;> rfl
  · have h : seedResult pair .values (idx.filterMap fun i => target[i]?) m1 target
        = (idx.filterMap fun i => target[i]?).map fun s => target.map (pair s) := by cases m1 <;> rfl
    rw [h, List.map_filterMap]
    congr 1
    funext i
    simp [dense, List.getElem?_map]

/-- two seeds with equal VALUES (whatever their memory) give equal answers -/
theorem seed_result_congr (s1 s2 target : List V) (m1 m2 : Mem) (h : s1 = s2) :
    seedResult pair .values s1 m1 target = seedResult pair .values s2 m2 target := by
  subst h; exact (seed_coherency_depends_on_values_not_on_memory pair s1 target m1 m2 []).1

end

/-- L8 COUNTEREXAMPLE (transforms taken from the target cache by ADDRESS, consecutive rows assumed): target rows
0,1,2,3, seed = target[1::2] (rows 1, 3): the variant pairs seed 1 with row 2; today's code with row 3 -/
theorem by_address_counterexample :
    seedResult (fun s (_ : Nat) => s) .byAddress [1, 3] (.viewOf 1 2) [0, 1, 2, 3]
      = [[1, 1, 1, 1], [2, 2, 2, 2]] ∧
    seedResult (fun s (_ : Nat) => s) .values [1, 3] (.viewOf 1 2) [0, 1, 2, 3]
      = [[1, 1, 1, 1], [3, 3, 3, 3]] := by
  constructor <;> decide

/-- the by-address variant is right exactly when the seed rows ARE the consecutive target rows from `first` on (what one
would try: seed = target[first : first + k], the whole target) -/
theorem by_address_right_on_consecutive_rows {V C : Type} (pair : V → V → C) (seed target : List V) (first : Nat)
    (step : Int) (h : ∀ i, i < seed.length → target[first + i]? = seed[i]?) :
    seedResult pair .byAddress seed (.viewOf first step) target
      = seedResult pair .values seed (.viewOf first step) target := by
  unfold seedResult
  apply List.ext_getElem?
  intro i
  by_cases hi : i < seed.length
  · have h1 := h i hi
    have h2 : seed[i]? = some seed[i] := List.getElem?_eq_getElem hi
    simp [hi, h1]
  · have : seed.length ≤ i := Nat.le_of_not_lt hi
    simp [hi]

/-! ### complex-valued recordings: the two-sided Fourier spectrum against its frequency axis -/
open Nitime.C15.Shift

theorem add_mod_small (n k a : Nat) (hk : k < n) (ha : a ≤ n) :
    (k + a) % n = if k + a < n then k + a else k + a - n := by
  split
  · next h => exact Nat.mod_eq_of_lt h
  · next h =>
    rw [Nat.mod_eq_sub_mod (by omega)]
    exact Nat.mod_eq_of_lt (by omega)

theorem labelBin_eq (n k : Nat) (hk : k < n) :
    labelBin n k = if n / 2 ≤ k then k - n / 2 else k + n - n / 2 := by
  unfold labelBin
  generalize hm : n / 2 = m
  have hmn : m ≤ n := hm ▸ Nat.div_le_self n 2
  split
  · next h =>
    have : ((k : Int) - (m : Int)) % (n : Int) = (k : Int) - (m : Int) := Int.emod_eq_of_lt (by omega) (by omega)
    rw [this]; omega
  · next h =>
    have : ((k : Int) - (m : Int)) % (n : Int) = (k : Int) - (m : Int) + (n : Int) := by
      rw [← Int.add_emod_right ((k : Int) - (m : Int)) (n : Int)]
      exact Int.emod_eq_of_lt (by omega) (by omega)
    rw [this]; omega

theorem fftshift_matches_labels (n k : Nat) (hk : k < n) : fftshiftSrc n k = labelBin n k := by
  rw [labelBin_eq n k hk]
  unfold fftshiftSrc
  rw [add_mod_small n k (n - n / 2) hk (Nat.sub_le _ _)]
  have := Nat.div_le_self n 2
  split <;> split <;> omega

theorem ifftshift_matches_labels_iff_even (n k : Nat) (hn : 1 < n) (hk : k < n) :
    ifftshiftSrc n k = labelBin n k ↔ n % 2 = 0 := by
  rw [labelBin_eq n k hk]
  unfold ifftshiftSrc
  rw [add_mod_small n k (n / 2) hk (Nat.div_le_self n 2)]
  by_cases h1 : k + n / 2 < n <;> by_cases h2 : n / 2 ≤ k <;> simp only [h1, h2, if_true, if_false]
  all_goals (constructor <;> intro h <;> omega)

/-- GENERATED: the only spectrum re-ordering call of the analyzers is `fftshift` (so `fftshift_matches_labels` applies:
position k of the two-sided spectrum shows the DFT bin its frequency label names, for EVERY length, odd or even) -/
theorem spectrum_shift_is_fftshift :
    Nitime.Generated.AnalyzerState.shiftCalls.map Prod.snd = ["fftshift"] ∧ Shift.codeVouched = true := by
  refine ⟨by decide, by decide⟩

/-- the `ifftshift` reading is off by one bin for odd lengths: n = 5, position 0 is labelled bin 3 (−2·Fs/5) and shows bin 2 -/
theorem ifftshift_odd_counterexample : ifftshiftSrc 5 0 = 2 ∧ labelBin 5 0 = 3 ∧ fftshiftSrc 5 0 = 3 := by
  refine ⟨by decide, by decide, by decide⟩

/-- GENERATED: no analyzer (and not the reader) looks at `.base`, `.strides`, addresses, `shares_memory` or object identity -/
theorem analyzers_never_probe_memory :
    Nitime.Generated.AnalyzerState.memoryProbes = [] ∧ Seed.codeVouched = true := by
  refine ⟨by decide, by decide⟩

/-- non-vacuity: a history with a failing read, on the provenance instance the driver runs -/
example : run (tagFit [(0, 1)]) (fun _ => List.range 3) .localDict [.read, .setInput 1, .read]
    (construct 0 : St Nat Nat (Nat × Nat)) = ref (tagFit [(0, 1)]) (fun _ => List.range 3) [.read, .setInput 1, .read] 0 :=
  retarget_after_any_history _ _ _ _
example : seedResult (fun s (_ : Nat) => s) .values [1, 3] (.viewOf 1 2) [0, 1, 2, 3]
    = [1, 3].filterMap fun i => (dense (fun s (_ : Nat) => s) [0, 1, 2, 3])[i]? :=
  (seed_coherency_depends_on_values_not_on_memory _ [1, 3] [0, 1, 2, 3] (.viewOf 1 2) .own [1, 3]).2

end Nitime.C15.Props
