/-
C15 — the file reader's filter options over HISTORIES of calls (model `Nitime.C15.Opts`, generated table
`Nitime.Generated.ReaderOpts` extracted from `nitime/fmri/io.py` on every run).

* `reader_options_depend_on_own_call` — per-call defaults (today's code): after ANY history of earlier calls with ANY
  dicts, the keyword arguments a call hands to FilterAnalyzer are the documented defaults overridden by THAT call's
  dict only (`effective defaults call`), i.e. the k-th result of `run` depends on the k-th dict alone.
* `effective_lookup` — what "overridden by" means, key by key.
* `shared_table_counterexample` — a module-level table of defaults that calls update in place (NOT today's code):
  a call with `filt_order=8, lb=…` changes what the next, default, call gets.
* `shared_table_agrees_when_no_option_given` — …and that variant is only right while nobody passes an option.
* `reader_defaults_documented`, `reader_module_never_written` — GENERATED facts about today's source: the table
  extracted from the `filter.get('<key>', <literal>)` sites is the documented one; no function of the module writes a
  module-level name and no module-level container is read inside a function.  An edit that moves the defaults into
  module state breaks these (and `codeVouched` turns the driver's answer into an error).
-/
import Nitime.Model.C15Opts
import Mathlib.Tactic.NormNum

namespace Nitime.C15.Props
open Nitime.C15.Opts

/-- the k-th call of any history gets `effective defaults (its own dict)`, whatever the table and the other calls -/
theorem run_perCall (defaults table : Dict) (calls : List Dict) :
    run .perCall defaults table calls = calls.map (effective defaults) := by
  induction calls generalizing table with
  | nil => rfl
  | cons c cs ih => simp [run, callStep, ih]

/-- HISTORY THEOREM: two histories whose k-th calls carry the same dict give the k-th call the same keyword
arguments — the documented defaults overridden by that call's own dict — whatever was called before (other filter
methods, other orders, other pass-bands, …) -/
theorem reader_options_depend_on_own_call (defaults t1 t2 : Dict) (h1 h2 : List Dict) (k : ℕ) (c : Dict)
    (hk1 : h1[k]? = some c) (hk2 : h2[k]? = some c) :
    (run .perCall defaults t1 h1)[k]? = some (effective defaults c) ∧
    (run .perCall defaults t2 h2)[k]? = some (effective defaults c) := by
  simp [run_perCall, List.getElem?_map, hk1, hk2]

/-- key by key: the call's own value when it gives one, else the default -/
theorem effective_lookup (table call : Dict) (k dv : String) (hk : table.lookup k = some dv) :
    (effective table call).lookup k = some ((call.lookup k).getD dv) := by
  unfold effective
  induction table with
  | nil => simp at hk
  | cons kv rest ih =>
    obtain ⟨k', v'⟩ := kv
    by_cases h : k = k'
    · subst h
      simp [List.lookup] at hk
      simp [getD, hk]
    · have hb : (k == k') = false := by simpa using h
      simp only [List.lookup, hb] at hk
      simp only [List.map_cons, List.lookup, hb]
      exact ih hk

theorem effective_keys (table call : Dict) : (effective table call).map Prod.fst = table.map Prod.fst := by
  simp [effective, List.map_map, Function.comp_def]

/-- a call that gives no option gets the table itself (needs nothing about the keys) -/
theorem effective_empty (table : Dict) : effective table [] = table := by
  unfold effective getD
  simp

/-- COUNTEREXAMPLE for the shared-table variant: first a call with `filt_order=8, lb=0.05`, then a call that gives
no design option: the second call's FilterAnalyzer gets `filt_order=8, lb=0.05` instead of the documented 64 and 0 -/
theorem shared_table_counterexample :
    (run .sharedTable documented documented [[("filt_order", "8"), ("lb", "0.05")], []])[1]?
        = some [("lb", "0.05"), ("ub", "None"), ("boxcar_iterations", "2"), ("filt_order", "8"), ("gpass", "1"),
                ("gstop", "60"), ("iir_ftype", "'ellip'"), ("fir_win", "'hamming'")] ∧
    (run .perCall documented documented [[("filt_order", "8"), ("lb", "0.05")], []])[1]? = some documented := by
  constructor <;> decide

/-- the shared-table variant agrees with today's code as long as no call ever gives a design option -/
theorem shared_table_agrees_when_no_option_given (defaults : Dict) (n : ℕ) :
    run .sharedTable defaults defaults (List.replicate n []) = run .perCall defaults defaults (List.replicate n []) := by
  rw [run_perCall]
  induction n with
  | zero => rfl
  | succ n ih =>
    simp only [List.replicate_succ, run, callStep, List.map_cons, effective_empty]
    rw [ih]

/-- GENERATED: the defaults the helper writes at its `filter.get` sites are the documented ones -/
theorem reader_defaults_documented : Nitime.Generated.ReaderOpts.defaults = documented := by decide

/-- GENERATED: no function of the reader module writes a module-level name (rebinding, in-place mutation, through a
local alias or directly) and none reads a module-level container: nothing outlives a call -/
theorem reader_module_never_written :
    Nitime.Generated.ReaderOpts.writtenModuleNames = [] ∧ Nitime.Generated.ReaderOpts.sharedTables = [] ∧
    codeVouched = true := by
  refine ⟨by decide, by decide, by decide⟩

example : effective documented [("method", "'fir'"), ("filt_order", "16")] =
    [("lb", "0"), ("ub", "None"), ("boxcar_iterations", "2"), ("filt_order", "16"), ("gpass", "1"), ("gstop", "60"),
     ("iir_ftype", "'ellip'"), ("fir_win", "'hamming'")] := by decide

end Nitime.C15.Props
