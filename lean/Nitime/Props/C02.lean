/-
C02 — property theorems for the sampling-specification model (`Nitime.C02`).
-/
import Nitime.Model.C02
import Nitime.Lemmas.F64

namespace Nitime.C02.Props
open Nitime Nitime.C02 Nitime.Generated

/-- the documented argument combinations (docstring of `UniformTime`), as a predicate on the
presence of (interval, rate, length, duration) and of an existing axis -/
def documented (iv rate len dur withAxis : Bool) : Bool :=
  (iv && !rate && len && !dur) || (iv && !rate && !len && dur) || (!iv && rate && len && !dur) ||
  (!iv && rate && !len && dur) || (!iv && !rate && len && dur) ||
  (withAxis && ((!iv && !rate && !len && !dur) || (iv && !rate && !len && !dur) ||
    (!iv && rate && !len && !dur) || (!iv && !rate && len && !dur) || (!iv && !rate && !len && dur)))

/-- the tables regenerated from the source accept exactly the documented combinations -/
theorem accepts_iff_documented (iv rate len dur withAxis : Bool) :
    (validTspecs withAxis).contains [iv, rate, len, dur] = documented iv rate len dur withAxis := by
  revert iv rate len dur withAxis; decide

end Nitime.C02.Props
