/-
C02 — property theorems for the sampling-specification model (`Nitime.C02`).

Full-strength statements are about variant `.intended` (the code with the proposed repairs, which
the correspondence compares the implementation with); `…_counterexample` theorems exhibit exact
binary64 witnesses on variant `.current` (the unchanged tree) and `…_partial` theorems state what
does hold for `.current`.  Helper lemmas live in `Nitime/Lemmas/C02.lean`.
-/
import Nitime.Model.C02
import Nitime.Lemmas.F64
import Nitime.Lemmas.C02
import Nitime.Lemmas.C02Heap
import Nitime.Lemmas.C02Series
import Nitime.Lemmas.C02Parts

namespace Nitime.C02.Props
open Nitime Nitime.C02 Nitime.Generated
open Nitime.C01 (Num toPs)

def countOf (r : Except Err Axis) : Option Nat := r.toOption.map (·.n)
def dtOf (r : Except Err Axis) : Option Int := r.toOption.map (·.dt)
def durOf (r : Except Err Axis) : Option Int := r.toOption.map (·.dur)

/-! ### argument combinations -/

/-- the documented argument combinations (docstring of `UniformTime`), as a predicate on the
presence of (interval, rate, length, duration) and of an existing axis -/
def documented (iv rate len dur withAxis : Bool) : Bool :=
  (iv && !rate && len && !dur) || (iv && !rate && !len && dur) || (!iv && rate && len && !dur) ||
  (!iv && rate && !len && dur) || (!iv && !rate && len && dur) ||
  (withAxis && ((!iv && !rate && !len && !dur) || (iv && !rate && !len && !dur) ||
    (!iv && rate && !len && !dur) || (!iv && !rate && len && !dur) || (!iv && !rate && !len && dur)))

/-- series: exactly one of interval / rate, or a duration alone -/
def documentedSeries (iv rate dur : Bool) : Bool :=
  (iv && !rate) || (!iv && rate) || (!iv && !rate && dur)

/-- the tables regenerated from the source accept exactly the documented combinations
(16 patterns without, 16 with an existing axis) -/
theorem accepts_iff_documented (iv rate len dur withAxis : Bool) :
    (validTspecs withAxis).contains [iv, rate, len, dur] = documented iv rate len dur withAxis := by
  revert iv rate len dur withAxis; decide

theorem series_accepts_iff_documented (iv rate dur : Bool) :
    seriesTspecOk iv rate dur = documentedSeries iv rate dur := by
  revert iv rate dur; decide

/-- the names the inheritance block uses are the five extra patterns, in the documented order -/
theorem wd_table : wd 0 = [false, false, false, false] ∧ wd 1 = [true, false, false, false] ∧
    wd 2 = [false, true, false, false] ∧ wd 3 = [false, false, true, false] ∧
    wd 4 = [false, false, false, true] := by decide

/-- incomplete or over-determined argument combinations are rejected with `ValueError`, whatever
the values, in both variants, before anything else is looked at -/
theorem rejects_documented (v : Variant) (s : Spec)
    (h : documented s.interval.isSome s.rate.isSome s.length.isSome s.duration.isSome s.data.isSome = false) :
    mkUniform v s = .error .valueError := by
  have : (validTspecs s.data.isSome).contains (tspecOf s) = false := by
    rw [tspecOf, accepts_iff_documented]; exact h
  simp only [mkUniform, checkTspec, this, bind, Except.bind, Bool.false_eq_true, ↓reduceIte]

/-- and nothing is rejected for its argument pattern when the pattern is documented -/
theorem accepts_documented (s : Spec)
    (h : documented s.interval.isSome s.rate.isSome s.length.isSome s.duration.isSome s.data.isSome = true) :
    checkTspec s = .ok () := by
  have : (validTspecs s.data.isSome).contains (tspecOf s) = true := by
    rw [tspecOf, accepts_iff_documented]; exact h
  simp only [checkTspec, this, ↓reduceIte]

theorem series_rejects_documented (v : Variant) (n : Nat) (t0 iv : Option TArg) (rate : Option RArg)
    (dur : Option TArg) (u : UArg) (h : documentedSeries iv.isSome rate.isSome dur.isSome = false) :
    mkSeries v n t0 iv rate dur u = .error .valueError := by
  have : seriesTspecOk iv.isSome rate.isSome dur.isSome = false := by
    rw [series_accepts_iff_documented]; exact h
  simp [mkSeries, this, bind, Except.bind, throw, throwThe, MonadExceptOf.throw]

/-! ### the samples -/

/-- sample `i` lies exactly at `t0 + i·Δ`, and there are `n` of them -/
theorem samples_affine (a : Axis) :
    (samples a).length = a.n ∧ ∀ i, i < a.n → (samples a)[i]? = some (a.t0 + (i : Int) * a.dt) := by
  refine ⟨by simp [samples], fun i hi => ?_⟩
  simp [samples, sampleAt, hi]

/-- consecutive samples differ by exactly `Δ` (what `np.diff` shows) -/
theorem samples_diff (a : Axis) (i : Nat) : sampleAt a (i + 1) - sampleAt a i = a.dt := by
  simp only [sampleAt]; push_cast; ring

/-! ### accepted specifications: what the axis is -/

/-- every accepted specification went through validation, resolution and layout -/
theorem mkUniform_ok {v : Variant} {s : Spec} {a : Axis} (h : mkUniform v s = .ok a) :
    checkTspec s = .ok () ∧ ∃ r, resolve v s = .ok r ∧ build v s.length r = .ok a :=
  mkUniform_inv h

/-- `len_eq_length`: a requested length is the number of samples, exactly — whatever the
interval, rate, unit and start, whole picoseconds or not -/
theorem len_eq_length {s : Spec} {a : Axis} {l : Nat}
    (h : mkUniform .intended s = .ok a) (hl : s.length = some l) : a.n = l := by
  obtain ⟨_, r, _, hb⟩ := mkUniform_inv h
  rw [hl] at hb
  exact (build_intended hb).2.2.2.2.2.2

/-- `len_duration_only`: with no length, sample `i` exists iff the `i`-th multiple of the interval
lies before the requested duration -/
theorem len_duration_only {s : Spec} {a : Axis}
    (h : mkUniform .intended s = .ok a) (hl : s.length = none) :
    ∃ r, resolve .intended s = .ok r ∧ a.dt = r.dt ∧ ∀ i : Nat, i < a.n ↔ (i : Int) * a.dt < r.durReq := by
  obtain ⟨_, r, hr, hb⟩ := mkUniform_inv h
  rw [hl] at hb
  obtain ⟨hpos, _, hdt, _, _, _, hn⟩ := build_intended hb
  refine ⟨r, hr, hdt, fun i => ?_⟩
  rw [hn, hdt]
  exact countBefore_spec r.durReq r.dt hpos i

/-- `attrs_describe_axis` (start, interval, duration): the axis starts at the resolved start, its
interval is the stored whole-picosecond interval (positive), and the reported duration covers
exactly the `n` intervals -/
theorem attrs_describe_axis {s : Spec} {a : Axis} (h : mkUniform .intended s = .ok a) :
    0 < a.dt ∧ a.dur = (a.n : Int) * a.dt ∧
    ∃ r, resolve .intended s = .ok r ∧ a.t0 = r.t0 ∧ a.dt = r.dt ∧ a.rate = r.rate ∧ a.unit = r.unit := by
  obtain ⟨_, r, hr, hb⟩ := mkUniform_inv h
  obtain ⟨hpos, h0, hdt, hrate, hu, hdur, _⟩ := build_intended hb
  exact ⟨hdt ▸ hpos, hdur, r, hr, h0, hdt, hrate, hu⟩

/-- the last sample lies one interval before the end of the reported duration -/
theorem last_sample_before_end {s : Spec} {a : Axis} (h : mkUniform .intended s = .ok a) (hn : 0 < a.n) :
    sampleAt a (a.n - 1) + a.dt = a.t0 + a.dur := by
  obtain ⟨_, hdur, _⟩ := attrs_describe_axis h
  rw [hdur, sampleAt]
  have : ((a.n - 1 : Nat) : Int) = (a.n : Int) - 1 := by omega
  rw [this]; ring

/-- `len_eq_data`: the lazily built time axis of a series has exactly as many samples as the data
has along its last axis, and starts / steps as the series says -/
theorem len_eq_data {n : Nat} {t0 iv : Option TArg} {rate : Option RArg} {dur : Option TArg} {u : UArg}
    {sr : Series} (h : mkSeries .intended n t0 iv rate dur u = .ok sr) :
    sr.time.n = n ∧ sr.time.t0 = sr.t0 ∧ sr.time.dt = sr.dt ∧ sr.time.unit = sr.unit ∧
    sr.time.dur = (n : Int) * sr.dt := by
  obtain ⟨ax, hax, h0, hdt, hu⟩ := mkSeries_inv h
  have hn : sr.time.n = n := by rw [← hax.2] ; exact len_eq_length hax.1 rfl
  obtain ⟨_, hdur, _⟩ := attrs_describe_axis hax.1
  refine ⟨hn, ?_, ?_, ?_, ?_⟩
  · rw [← hax.2]; exact h0
  · rw [← hax.2]; exact hdt
  · rw [← hax.2]; exact hu
  · rw [← hax.2, hdur, hax.2, hn, ← hax.2, hdt]

/-- the same for a series built on an existing axis -/
theorem len_eq_data_from_time {ax : Axis} {n : Nat} {t0 : Option TArg} {u : UArg} {sr : Series}
    (h : mkSeriesFromTime .intended ax n t0 u = .ok sr) :
    sr.time.n = n ∧ sr.time.dt = ax.dt ∧ sr.dt = ax.dt ∧ sr.rate = ax.rate ∧
    (t0 = none → sr.time.t0 = ax.t0) := by
  exact mkSeriesFromTime_inv h

/-! ### unit, start and inherited duration -/

/-- unit and start of an axis specified from scratch: the unit is the requested one, else the
unit of a duration given as a time object, else that of an interval given as a time object, else
seconds; the start is the `t0` argument cast in that unit (0 when absent) -/
theorem unit_and_start_plain {s : Spec} {a : Axis} (h : mkUniform .intended s = .ok a)
    (hd : s.data = none) :
    ∃ uo, checkUnit s.unit = .ok uo ∧ a.unit = inferUnit uo s.duration s.interval ∧
      a.t0 = targPs a.unit (s.t0.getD (.num (.int 0))) := by
  obtain ⟨_, r, hr, hb⟩ := mkUniform_inv h
  obtain ⟨_, e0, _, _, eu, _, _⟩ := build_intended hb
  obtain ⟨uo, h1, h2, h3, _⟩ := resolve_after_inherit (inherit_none hd) hr
  exact ⟨uo, h1, by rw [eu, h2], by rw [e0, eu, h3]⟩

/-- unit and start of an axis built from an existing one: the requested unit, else the source's;
the requested start (cast in that unit), else the source's start -/
theorem unit_and_start_from_axis {s : Spec} {a d : Axis} (h : mkUniform .intended s = .ok a)
    (hd : s.data = some d) :
    (∀ u, s.unit = .ok u → a.unit = u) ∧ (s.unit = .none → a.unit = d.unit) ∧
    (s.t0 = none → a.t0 = d.t0) ∧ (∀ t, s.t0 = some t → a.t0 = targPs a.unit t) := by
  obtain ⟨_, r, hr, hb⟩ := mkUniform_inv h
  obtain ⟨_, e0, _, _, eu, _, _⟩ := build_intended hb
  cases hi : inherit .intended s with
  | error e => simp [resolve, hi, bind, Except.bind] at hr
  | ok s' =>
    obtain ⟨f1, f2⟩ := inherit_intended_fields hd hi
    obtain ⟨uo, h1, h2, h3, _⟩ := resolve_after_inherit hi hr
    refine ⟨?_, ?_, ?_, ?_⟩
    · intro u hu
      rw [hu] at f1
      rw [f1] at h1
      simp only [checkUnit, Except.ok.injEq] at h1
      subst h1
      rw [eu, h2]; rfl
    · intro hu
      rw [hu] at f1
      rw [f1] at h1
      simp only [checkUnit, Except.ok.injEq] at h1
      subst h1
      rw [eu, h2]; rfl
    · intro ht
      rw [ht] at f2
      rw [e0, h3, f2]; rfl
    · intro t ht
      rw [ht] at f2
      rw [e0, eu, h3, f2]; rfl

/-- an axis built from an existing one with a new interval or rate (or nothing) and neither length
nor duration covers the source's duration: sample `i` exists iff `i·Δ` lies before it -/
theorem from_axis_keeps_duration {s : Spec} {a d : Axis} (h : mkUniform .intended s = .ok a)
    (hd : s.data = some d) (hl : s.length = none) (hdur : s.duration = none) :
    ∀ i : Nat, i < a.n ↔ (i : Int) * a.dt < d.dur := by
  obtain ⟨hc, r, hr, hb⟩ := mkUniform_inv h
  obtain ⟨r', hr', hdt, hn⟩ := len_duration_only h hl
  rw [hr] at hr'; cases hr'
  cases hi : inherit .intended s with
  | error e => simp [resolve, hi, bind, Except.bind] at hr
  | ok s' =>
    obtain ⟨f1, f2⟩ := inherit_intended_duration hd hl hdur hc hi
    obtain ⟨uo, _, _, _, iv, hz, _, hD, _, _⟩ := resolve_after_inherit hi hr
    rw [f1] at hD
    simp only [durationPs, targPs, Except.ok.injEq] at hD
    intro i
    rw [hn i, ← hD]

/-! ### the same sampling written differently -/

/-- an interval given as a time object is stored as it is, whatever its display unit and whatever
the unit of the axis (any unit pair) -/
theorem interval_object_any_unit (u : TimeUnit) (ps : Int) (iu : TimeUnit) :
    targPs u (.tobj ps iu) = ps := rfl

/-- whole-number intervals that denote the same time in two units give the same stored interval -/
theorem same_interval_any_unit_pair (u u' : TimeUnit) (k k' : Int)
    (h : k * (factor u : Int) = k' * (factor u' : Int)) :
    targPs u (.num (.int k)) = targPs u' (.num (.int k')) := by
  simpa [targPs, toPs, C01.toPsF] using h

/-- two accepted specifications that resolve to the same start and interval and ask for the same
length are the same axis (start, interval, count, duration) — in particular an interval `x` and
the rate `1/x` whenever the period of that rate rounds back to the same picosecond -/
theorem same_sampling_same_axis {s s' : Spec} {a a' : Axis} {r r' : Resolved} {l : Nat}
    (h : mkUniform .intended s = .ok a) (h' : mkUniform .intended s' = .ok a')
    (hr : resolve .intended s = .ok r) (hr' : resolve .intended s' = .ok r')
    (hl : s.length = some l) (hl' : s'.length = some l)
    (h0 : r.t0 = r'.t0) (hdt : r.dt = r'.dt) :
    a.t0 = a'.t0 ∧ a.dt = a'.dt ∧ a.n = a'.n ∧ a.dur = a'.dur ∧ samples a = samples a' := by
  obtain ⟨_, hd, q, hq, e0, edt, _, _⟩ := attrs_describe_axis h
  obtain ⟨_, hd', q', hq', e0', edt', _, _⟩ := attrs_describe_axis h'
  rw [hr] at hq; rw [hr'] at hq'
  cases hq; cases hq'
  have hn : a.n = a'.n := by rw [len_eq_length h hl, len_eq_length h' hl']
  have ht : a.t0 = a'.t0 := by rw [e0, e0', h0]
  have hdd : a.dt = a'.dt := by rw [edt, edt', hdt]
  refine ⟨ht, hdd, hn, by rw [hd, hd', hn, hdd], ?_⟩
  simp only [samples, hn]
  apply List.map_congr_left
  intro i _
  simp [sampleAt, ht, hdd]

/-- `attrs_describe_axis` (rate), interval path: for every positive binary64 interval `x` and every
unit the stored interval and the reported rate describe the same sampling,
`|Δ − 10¹²/rate| ≤ 1/2 + 5·(10¹²/rate)·2⁻⁵³` — within 1 ps whenever the period is below 2⁴⁹ ps
(≈ 9.4 min), within binary64 resolution of the rate beyond -/
theorem attrs_rate_interval_path {s : Spec} {a : Axis} {x : Rat} {u : TimeUnit}
    (h : mkUniform .intended s = .ok a) (hd : s.data = none)
    (hi : s.interval = some (.num (.flt x))) (hr : s.rate = none) (hu : s.unit = .ok u) (hx : 0 < x) :
    0 < a.rate ∧ |(a.dt : Rat) - 10 ^ 12 / a.rate| ≤ 1 / 2 + 5 * (10 ^ 12 / a.rate) / 2 ^ 53 ∧
    (10 ^ 12 / a.rate ≤ 2 ^ 49 → |(a.dt : Rat) - 10 ^ 12 / a.rate| < 1) := by
  obtain ⟨_, r, hr', hb⟩ := mkUniform_inv h
  obtain ⟨_, _, hdt, hrate, _, _, _⟩ := build_intended hb
  obtain ⟨_, e1, e2, _, _⟩ := resolve_interval_flt hr' hd hi hr hu
  rw [hdt, hrate, e1, e2]
  obtain ⟨c1, c2⟩ := interval_rate_close u x hx
  refine ⟨c1, c2, fun hP => lt_of_le_of_lt c2 ?_⟩
  have : 5 * (10 ^ 12 / frequency (F64.fdiv 1 x) u) / 2 ^ 53 ≤ 5 * 2 ^ 49 / 2 ^ 53 := by
    apply div_le_div_of_nonneg_right _ (by positivity)
    linarith
  norm_num at this ⊢
  linarith

/-- `attrs_describe_axis` (rate), rate path (a `Frequency` object, e.g. another axis' rate): the
reported rate is the given one and the stored interval is within one picosecond, plus binary64
resolution, of its period: `|Δ − 10¹²/rate| ≤ 1 + 7·(10¹²/rate + 1)·2⁻⁵³` -/
theorem attrs_rate_rate_path {s : Spec} {a : Axis} {hz : Rat} {u : TimeUnit}
    (h : mkUniform .intended s = .ok a) (hd : s.data = none) (hi : s.interval = none)
    (hr : s.rate = some (.freq hz)) (hu : s.unit = .ok u) (hhz : 0 < hz) :
    a.rate = hz ∧ |(a.dt : Rat) - 10 ^ 12 / a.rate| ≤ 1 + 7 * (10 ^ 12 / a.rate + 1) / 2 ^ 53 := by
  obtain ⟨_, r, hres, hb⟩ := mkUniform_inv h
  obtain ⟨_, _, hdt, hrate, _, _, _⟩ := build_intended hb
  obtain ⟨x, ex, e1, e2, _, _⟩ := resolve_rate_freq hres hd hi hr hu
  obtain ⟨x', ex', c⟩ := rate_interval_close u hz hhz
  rw [ex] at ex'
  cases ex'
  rw [hdt, hrate, e1, e2]
  exact ⟨rfl, c⟩

/-- `same_sampling_same_axis`, interval vs. its reciprocal rate, any unit: when `x` (in unit `u`)
is a whole number `k < 2⁴⁹` of picoseconds, the axis specified by the interval `x` and the axis
specified by the rate that the first one reports are identical (start, interval, count,
duration, every sample), and the interval is exactly `k` -/
theorem same_sampling_interval_vs_rate {l : Nat} {t : Option TArg} {u : TimeUnit} {x : Rat} {k : Int}
    {a a' : Axis}
    (h : mkUniform .intended { length := some l, interval := some (.num (.flt x)), t0 := t, unit := .ok u } = .ok a)
    (h' : mkUniform .intended { length := some l, rate := some (.freq (frequency (F64.fdiv 1 x) u)), t0 := t,
                                unit := .ok u } = .ok a')
    (hx : 0 < x) (hk : x * (factor u : Rat) = k) (hlt : k < 2 ^ 49) :
    a.dt = k ∧ a'.rate = a.rate ∧
    a.t0 = a'.t0 ∧ a.dt = a'.dt ∧ a.n = a'.n ∧ a.dur = a'.dur ∧ samples a = samples a' := by
  obtain ⟨_, r, hr, hb⟩ := mkUniform_inv h
  obtain ⟨_, r', hr', hb'⟩ := mkUniform_inv h'
  obtain ⟨_, e1, e2, _, e4⟩ := resolve_interval_flt hr rfl rfl rfl rfl
  obtain ⟨x', ex, f1, f2, _, f4⟩ := resolve_rate_freq hr' rfl rfl rfl rfl
  obtain ⟨k1, x'', ex'', k2⟩ := same_sampling_interval_rate u x k hx hk hlt
  rw [ex] at ex''
  cases ex''
  obtain ⟨_, _, hdt, hrate, _, _, _⟩ := build_intended hb
  obtain ⟨_, _, _, hrate', _, _, _⟩ := build_intended hb'
  refine ⟨by rw [hdt, e1, k1], by rw [hrate, hrate', e2, f2], ?_⟩
  exact same_sampling_same_axis h h' hr hr' rfl rfl (by rw [e4, f4]) (by rw [e1, f1, k1, k2])

/-- non-vacuity of the hypotheses above: 0.5 s = 5·10¹¹ ps, and the 2 Hz axis it reports -/
example :
    dtOf (mkUniform .intended { length := some 4, interval := some (.num (.flt (1 / 2))), unit := .ok .s }) = some 500000000000 ∧
    mkUniform .intended { length := some 4, rate := some (.freq (frequency (F64.fdiv 1 (1 / 2)) .s)), unit := .ok .s }
      = mkUniform .intended { length := some 4, interval := some (.num (.flt (1 / 2))), unit := .ok .s } := by
  decide +kernel

/-- `attrs_describe_axis` (rate), bare-number rate: a positive binary64 rate `hz` (Hz) given as a
plain number is reported unchanged and the stored interval is within one picosecond, plus binary64
resolution, of its period -/
theorem attrs_rate_bare_number {s : Spec} {a : Axis} {hz : Rat} {u : TimeUnit}
    (h : mkUniform .intended s = .ok a) (hd : s.data = none) (hi : s.interval = none)
    (hr : s.rate = some (.num (.flt hz))) (hu : s.unit = .ok u) (hhz : 0 < hz) (hrep : F64.rne hz = hz) :
    a.rate = hz ∧ |(a.dt : Rat) - 10 ^ 12 / a.rate| ≤ 1 + 7 * (10 ^ 12 / a.rate + 1) / 2 ^ 53 := by
  obtain ⟨_, r, hres, hb⟩ := mkUniform_inv h
  obtain ⟨_, _, hdt, hrate, _, _, _⟩ := build_intended hb
  obtain ⟨x, ex, e1, e2, _, _⟩ := resolve_rate_num hres hd hi hr hu
  have hf : frequency (numToF (.flt hz)) .s = hz := frequency_s_of_repr hz hrep
  rw [hf] at ex e2
  obtain ⟨x', ex', c⟩ := rate_interval_close u hz hhz
  rw [ex] at ex'
  cases ex'
  rw [hdt, hrate, e1, e2]
  exact ⟨rfl, c⟩

/-- the same for a rate given as a python integer below 2⁵³ (e.g. `sampling_rate=1000`) -/
theorem attrs_rate_int {s : Spec} {a : Axis} {k : Nat} {u : TimeUnit}
    (h : mkUniform .intended s = .ok a) (hd : s.data = none) (hi : s.interval = none)
    (hr : s.rate = some (.num (.int k))) (hu : s.unit = .ok u) (hk : 0 < k) (hlt : k < 2 ^ 53) :
    a.rate = k ∧ |(a.dt : Rat) - 10 ^ 12 / a.rate| ≤ 1 + 7 * (10 ^ 12 / a.rate + 1) / 2 ^ 53 := by
  obtain ⟨_, r, hres, hb⟩ := mkUniform_inv h
  obtain ⟨_, _, hdt, hrate, _, _, _⟩ := build_intended hb
  obtain ⟨x, ex, e1, e2, _, _⟩ := resolve_rate_num hres hd hi hr hu
  have hnum : numToF (.int k) = (k : Rat) := C02F.ofInt_natCast k hlt
  have hf : frequency (numToF (.int k)) .s = (k : Rat) := by
    rw [hnum]; exact frequency_s_of_repr _ (C02F.rne_natCast k hlt)
  rw [hf] at ex e2
  have hkpos : (0 : Rat) < k := by exact_mod_cast hk
  obtain ⟨x', ex', c⟩ := rate_interval_close u (k : Rat) hkpos
  rw [ex] at ex'
  cases ex'
  rw [hdt, hrate, e1, e2]
  exact ⟨rfl, c⟩

/-- `same_sampling`, non-whole intervals: for every positive binary64 interval `x` whose reported
rate has a period of at most 2⁴⁸ ps (≈ 4.7 min), the interval stored for `x` and the interval stored
for the rate that `x` reports differ by at most one picosecond -/
theorem same_sampling_within_one (u : TimeUnit) (x : Rat) (hx : 0 < x)
    (hP : 10 ^ 12 / frequency (F64.fdiv 1 x) u ≤ 2 ^ 48) :
    ∃ x', intervalOfRate .intended u (frequency (F64.fdiv 1 x) u) = .ok x' ∧
      |toPs u (.flt x) - toPs u (.flt x')| ≤ 1 := by
  obtain ⟨hpos, c1⟩ := interval_rate_close u x hx
  obtain ⟨x', ex', c2⟩ := rate_interval_close u _ hpos
  refine ⟨x', ex', ?_⟩
  have Ppos : (0 : Rat) < 10 ^ 12 / frequency (F64.fdiv 1 x) u := by positivity
  generalize (10 : Rat) ^ 12 / frequency (F64.fdiv 1 x) u = P at *
  have hlt : |((toPs u (.flt x) : Int) : Rat) - ((toPs u (.flt x') : Int) : Rat)| < 2 := by
    have e : ((toPs u (.flt x) : Int) : Rat) - ((toPs u (.flt x') : Int) : Rat)
        = (((toPs u (.flt x) : Int) : Rat) - P) - (((toPs u (.flt x') : Int) : Rat) - P) := by ring
    rw [e]
    have := abs_sub (((toPs u (.flt x) : Int) : Rat) - P) (((toPs u (.flt x') : Int) : Rat) - P)
    have h5 : 5 * P / 2 ^ 53 ≤ 5 * 2 ^ 48 / 2 ^ 53 := by
      apply div_le_div_of_nonneg_right _ (by positivity); linarith
    have h7 : 7 * (P + 1) / 2 ^ 53 ≤ 7 * (2 ^ 48 + 1) / 2 ^ 53 := by
      apply div_le_div_of_nonneg_right _ (by positivity); linarith
    norm_num at h5 h7
    linarith
  have : |toPs u (.flt x) - toPs u (.flt x')| < 2 := by exact_mod_cast hlt
  omega

/-- `same_sampling`, EVERY positive binary64 interval and every unit (no bound on the period; covers
the non-whole intervals and the periods in [2⁴⁸, 2⁵³) and beyond): the interval stored for `x` and
the interval stored for the rate that `x` reports differ by at most `3/2 + (12·P + 7)·2⁻⁵³`
picoseconds, `P = 10¹²/rate` — i.e. by at most one picosecond plus the binary64 resolution of the
rate (two integers that differ by less than 2 differ by at most 1 as long as `P ≤ 2⁴⁸`:
`same_sampling_within_one`) -/
theorem same_sampling_any_period (u : TimeUnit) (x : Rat) (hx : 0 < x) :
    ∃ x', intervalOfRate .intended u (frequency (F64.fdiv 1 x) u) = .ok x' ∧
      |((toPs u (.flt x) : Int) : Rat) - ((toPs u (.flt x') : Int) : Rat)|
        ≤ 3 / 2 + (12 * (10 ^ 12 / frequency (F64.fdiv 1 x) u) + 7) / 2 ^ 53 := by
  obtain ⟨hpos, c1⟩ := interval_rate_close u x hx
  obtain ⟨x', ex', c2⟩ := rate_interval_close u _ hpos
  refine ⟨x', ex', ?_⟩
  generalize (10 : Rat) ^ 12 / frequency (F64.fdiv 1 x) u = P at *
  have e : ((toPs u (.flt x) : Int) : Rat) - ((toPs u (.flt x') : Int) : Rat)
      = (((toPs u (.flt x) : Int) : Rat) - P) - (((toPs u (.flt x') : Int) : Rat) - P) := by ring
  rw [e]
  have := abs_sub (((toPs u (.flt x) : Int) : Rat) - P) (((toPs u (.flt x') : Int) : Rat) - P)
  have e2 : 3 / 2 + (12 * P + 7) / 2 ^ 53 = (1 / 2 + 5 * P / 2 ^ 53) + (1 + 7 * (P + 1) / 2 ^ 53) := by ring
  rw [e2]
  linarith

/-! ### the series' own interval and rate; intervals given as time objects -/

/-- series, interval given as a bare binary64 number `x` of the series' unit (any unit): the series'
own `sampling_interval` is the interval of its time axis, and its `sampling_rate` describes it —
`|Δ − 10¹²/rate| ≤ 1/2 + 5·(10¹²/rate)·2⁻⁵³`, below 1 ps while the period is at most 2⁴⁹ ps -/
theorem series_rate_interval_path {n : Nat} {t0 dur : Option TArg} {x : Rat} {u : TimeUnit} {sr : Series}
    (h : mkSeries .intended n t0 (some (.num (.flt x))) none dur (.ok u) = .ok sr) (hx : 0 < x) :
    sr.time.dt = sr.dt ∧ 0 < sr.rate ∧
    |(sr.dt : Rat) - 10 ^ 12 / sr.rate| ≤ 1 / 2 + 5 * (10 ^ 12 / sr.rate) / 2 ^ 53 ∧
    (10 ^ 12 / sr.rate ≤ 2 ^ 49 → |(sr.dt : Rat) - 10 ^ 12 / sr.rate| < 1) := by
  obtain ⟨_, _, hdt, _, _⟩ := len_eq_data h
  obtain ⟨uo, ivr, hz, huo, eu, hd, e1, e2, _⟩ := mkSeries_attrs h
  simp only [checkUnit, Except.ok.injEq] at huo
  subst huo
  simp only [inferUnit] at eu
  rw [eu] at hd e1
  have hx0 : numToF (.flt x) ≠ 0 := by simp [numToF, hx.ne']
  simp only [deriveIntervalRate, hx0, if_false, Except.ok.injEq, Prod.mk.injEq] at hd
  obtain ⟨rfl, rfl⟩ := hd
  obtain ⟨c1, c2⟩ := interval_rate_close u x hx
  simp only [targPs] at e1
  rw [e1, e2]
  simp only [numToF]
  refine ⟨hdt.trans e1, c1, c2, fun hP => lt_of_le_of_lt c2 ?_⟩
  have : 5 * (10 ^ 12 / frequency (F64.fdiv 1 x) u) / 2 ^ 53 ≤ 5 * 2 ^ 49 / 2 ^ 53 := by
    apply div_le_div_of_nonneg_right _ (by positivity)
    linarith
  norm_num at this ⊢
  linarith

/-- series, rate given as a `Frequency` object (e.g. another series' `sampling_rate`): the series
reports that rate and its interval (= the interval of its time axis) is within one picosecond, plus
binary64 resolution, of its period -/
theorem series_rate_rate_path {n : Nat} {t0 dur : Option TArg} {hz : Rat} {u : TimeUnit} {sr : Series}
    (h : mkSeries .intended n t0 none (some (.freq hz)) dur (.ok u) = .ok sr) (hhz : 0 < hz) :
    sr.time.dt = sr.dt ∧ sr.rate = hz ∧
    |(sr.dt : Rat) - 10 ^ 12 / sr.rate| ≤ 1 + 7 * (10 ^ 12 / sr.rate + 1) / 2 ^ 53 := by
  obtain ⟨_, _, hdt, _, _⟩ := len_eq_data h
  obtain ⟨uo, ivr, hz', huo, eu, hd, e1, e2, _⟩ := mkSeries_attrs h
  simp only [checkUnit, Except.ok.injEq] at huo
  subst huo
  simp only [inferUnit] at eu
  rw [eu] at hd e1
  obtain ⟨x', ex', c⟩ := rate_interval_close u hz hhz
  simp only [deriveIntervalRate, ex', Except.ok.injEq, Prod.mk.injEq] at hd
  obtain ⟨rfl, rfl⟩ := hd
  simp only [targPs] at e1
  rw [e1, e2]
  exact ⟨hdt.trans e1, rfl, c⟩

/-- series, interval given as a TIME OBJECT of `ps` picoseconds with ANY display unit `iu`, the
series in ANY unit (given, or inferred): the stored interval is exactly `ps` (also on the time axis)
and the reported rate describes it up to binary64 resolution,
`|ps − 10¹²/rate| ≤ (5/2·ps + 7/2·10¹²/rate)·2⁻⁵³` (< 1 ps up to 2⁵⁰ ps) — the units of the interval
object and of the series play no role -/
theorem series_rate_interval_object {n : Nat} {t0 dur : Option TArg} {ps : Int} {iu : TimeUnit} {u : UArg}
    {sr : Series} (h : mkSeries .intended n t0 (some (.tobj ps iu)) none dur u = .ok sr) (hps : 0 < ps) :
    sr.dt = ps ∧ sr.time.dt = ps ∧ 0 < sr.rate ∧
    |(ps : Rat) - 10 ^ 12 / sr.rate| ≤ ((5 / 2) * (ps : Rat) + (7 / 2) * (10 ^ 12 / sr.rate)) / 2 ^ 53 := by
  obtain ⟨_, _, hdt, _, _⟩ := len_eq_data h
  obtain ⟨uo, ivr, hz, _, _, hd, e1, e2, _⟩ := mkSeries_attrs h
  obtain ⟨hne, rpos, c⟩ := tobj_rate_close iu ps hps
  simp only [deriveIntervalRate, hne, if_false, Except.ok.injEq, Prod.mk.injEq] at hd
  obtain ⟨rfl, rfl⟩ := hd
  simp only [targPs] at e1
  rw [e2]
  exact ⟨e1, hdt.trans e1, rpos, c⟩

/-- the same for an axis: interval given as a time object, any unit argument (also none: inferred) -/
theorem attrs_rate_interval_object {s : Spec} {a : Axis} {ps : Int} {iu : TimeUnit}
    (h : mkUniform .intended s = .ok a) (hd : s.data = none) (hi : s.interval = some (.tobj ps iu))
    (hr : s.rate = none) (hps : 0 < ps) :
    a.dt = ps ∧ 0 < a.rate ∧
    |(ps : Rat) - 10 ^ 12 / a.rate| ≤ ((5 / 2) * (ps : Rat) + (7 / 2) * (10 ^ 12 / a.rate)) / 2 ^ 53 := by
  obtain ⟨_, r, hres, hb⟩ := mkUniform_inv h
  obtain ⟨_, _, hdt, hrate, _, _, _⟩ := build_intended hb
  obtain ⟨uo, _, _, _, iv, hz, hder, _, edt, erate⟩ := resolve_after_inherit (inherit_none hd) hres
  obtain ⟨hne, rpos, c⟩ := tobj_rate_close iu ps hps
  rw [hi, hr] at hder
  simp only [deriveIntervalRate, hne, if_false, Except.ok.injEq, Prod.mk.injEq] at hder
  obtain ⟨rfl, rfl⟩ := hder
  simp only [targPs] at edt
  rw [hrate, erate]
  exact ⟨hdt.trans edt, rpos, c⟩

/-- non-vacuity (the seeded-change class "rate of an interval object scaled by the wrong unit"): a
5 ms interval object on a series in seconds — interval 5·10⁹ ps, rate exactly 200 Hz -/
example :
    (mkSeries .intended 4 none (some (.tobj 5000000000 .ms)) none none (.ok .s)).toOption.map
      (fun sr => (sr.dt, sr.rate, sr.time.dt, sr.time.n)) = some (5000000000, 200, 5000000000, 4) := by
  decide +kernel

/-- int64: inside the property's domain (|t0| and the extent n·Δ below 2⁶²) nothing the constructor
lays out wraps: every sample, the duration and the end of the axis are below 2⁶³ in magnitude -/
theorem fits62_no_wrap_axis (a : Axis) (hdt : 0 < a.dt) (hdur : a.dur = (a.n : Int) * a.dt)
    (h0 : |a.t0| < 2 ^ 62) (hext : (a.n : Int) * a.dt < 2 ^ 62) :
    (∀ i, i < a.n → |sampleAt a i| < 2 ^ 63) ∧ 0 ≤ a.dur ∧ a.dur < 2 ^ 63 ∧ |a.t0 + a.dur| < 2 ^ 63 := by
  have hn : (0 : Int) ≤ a.n := Int.natCast_nonneg _
  have hd0 : 0 ≤ (a.n : Int) * a.dt := mul_nonneg hn hdt.le
  rw [abs_lt] at h0
  refine ⟨fun i hi => ?_, by rw [hdur]; exact hd0, by rw [hdur]; omega, by rw [hdur, abs_lt]; constructor <;> omega⟩
  have hi' : (i : Int) * a.dt ≤ (a.n : Int) * a.dt :=
    mul_le_mul_of_nonneg_right (by exact_mod_cast hi.le) hdt.le
  have hi0 : 0 ≤ (i : Int) * a.dt := mul_nonneg (Int.natCast_nonneg _) hdt.le
  simp only [sampleAt]
  rw [abs_lt]; constructor <;> omega

/-- the same for every accepted specification -/
theorem fits62_no_wrap {s : Spec} {a : Axis} (h : mkUniform .intended s = .ok a)
    (h0 : |a.t0| < 2 ^ 62) (hext : (a.n : Int) * a.dt < 2 ^ 62) :
    (∀ i, i < a.n → |sampleAt a i| < 2 ^ 63) ∧ 0 ≤ a.dur ∧ a.dur < 2 ^ 63 ∧ |a.t0 + a.dur| < 2 ^ 63 := by
  obtain ⟨hdt, hdur, _⟩ := attrs_describe_axis h
  exact fits62_no_wrap_axis a hdt hdur h0 hext

/-- `rebuilt_axis_identical`: an axis rebuilt from an existing well-formed axis with no further
specification is that axis (start, interval, count, duration, rate, unit — hence every sample), for
EVERY interval (no bound: the exact integer interval is inherited, nothing is re-derived from the
binary64 rate); with `time_unit=u` only the unit label changes; with `length=l` only the count and
the duration it covers change -/
theorem rebuilt_axis_identical (a : Axis) (hdt : 0 < a.dt) (hdur : a.dur = (a.n : Int) * a.dt) :
    mkUniform .intended { data := some a } = .ok a ∧
    (∀ u, mkUniform .intended { data := some a, unit := .ok u } = .ok { a with unit := u }) ∧
    (∀ l : Nat, mkUniform .intended { data := some a, length := some l }
        = .ok { a with n := l, dur := (l : Int) * a.dt }) := by
  have hv0 : [false, false, false, false] ∈ validTspecs true := by decide
  have hv3 : [false, false, true, false] ∈ validTspecs true := by decide
  obtain ⟨w0, w1, w2, w3, w4⟩ := wd_table
  have hnot : ¬ a.dt ≤ 0 := by omega
  have hcb : countBefore a.dur a.dt = a.n := by rw [hdur]; exact countBefore_mul _ _ hdt
  refine ⟨?_, ?_, ?_⟩
  · simp [mkUniform, checkTspec, tspecOf, hv0, resolve, inherit, w0, checkUnit, inferUnit,
      deriveIntervalRate, durationPs, targPs, build, hnot, hcb, bind, Except.bind, pure, Except.pure]
    rw [← hdur]
  · intro u
    simp [mkUniform, checkTspec, tspecOf, hv0, resolve, inherit, w0, checkUnit, inferUnit,
      deriveIntervalRate, durationPs, targPs, build, hnot, hcb, bind, Except.bind, pure, Except.pure]
    exact hdur.symm
  · intro l
    simp [mkUniform, checkTspec, tspecOf, hv3, resolve, inherit, w0, w1, w2, w3, checkUnit, inferUnit,
      deriveIntervalRate, durationPs, targPs, build, hnot, bind, Except.bind, pure, Except.pure]


/-! ### two live objects: an axis built FROM another object shares no mutable state with it

Objects are entries of a store (`Heap`); constructors allocate a new entry, in-place operators
(`+= -= *= /=` with scalar or ramp operands, `__setitem__`) rewrite the entry they are applied to.
`runH` runs a program and skips commands that raise. -/

/-- frame rule, any configuration: an axis that no in-place operator of the program is applied to
is at the end exactly what it was at the start — whatever is done to any other object, and whatever
is constructed from it in between -/
theorem inplace_touches_only_its_object (cfg : HCfg) (h : Heap) (cs : List Cmd) (j : Nat)
    (hj : j < h.axes.length) (hc : ∀ c ∈ cs, c.target ≠ some j) :
    (runH cfg h cs).axes[j]? = h.axes[j]? := runH_axes cfg cs h j hj hc

/-- `UniformTime(axis[, time_unit][, length])` is a NEW object (its id is not the source's, nor any
existing one), its value is what `mkUniform` says (for a well-formed source and nothing else: the
source's own `(t0, Δ, n)`, see `rebuilt_axis_identical`), and afterwards the two are independent:
for EVERY program that applies no operator to the product — in particular every sequence of
in-place operators on the source — the product is unchanged, and for every program that applies no
operator to the source, the source is unchanged -/
theorem rebuilt_axis_independent {h h' : Heap} {src : Nat} {u : UArg} {l : Option Nat} {r : Res}
    (he : exec hIntended h (.rebuild src u l) = .ok (h', r)) :
    ∃ d a, h.axes[src]? = some d ∧
      mkUniform .intended { data := some d, unit := u, length := l } = .ok a ∧
      r = .axis h.axes.length ∧ src < h.axes.length ∧
      h'.axes[h.axes.length]? = some a ∧ h'.axes[src]? = some d ∧
      (∀ cs, (∀ c ∈ cs, c.target ≠ some h.axes.length) →
        (runH hIntended h' cs).axes[h.axes.length]? = some a) ∧
      (∀ cs, (∀ c ∈ cs, c.target ≠ some src) → (runH hIntended h' cs).axes[src]? = some d) := by
  simp only [exec] at he
  split at he
  · cases he
  · rename_i d hd
    split at he
    · cases he
    · rename_i a ha
      simp only [hIntended, Bool.false_and, Bool.false_eq_true, ↓reduceIte, Heap.allocAxis,
        Except.ok.injEq, Prod.mk.injEq] at he
      obtain ⟨rfl, rfl⟩ := he
      have hlt : (src : Nat) < h.axes.length := (List.getElem?_eq_some_iff.mp hd).1
      have hp : (h.axes ++ [a])[h.axes.length]? = some a := by simp
      have hs : (h.axes ++ [a])[src]? = some d := by rw [List.getElem?_append_left hlt]; exact hd
      refine ⟨d, a, hd, ha, rfl, hlt, hp, hs, fun cs hc => ?_, fun cs hc => ?_⟩
      · rw [runH_axes _ cs _ h.axes.length (by simp) hc]; exact hp
      · rw [runH_axes _ cs _ src (by simp; omega) hc]; exact hs

/-- the same for `axis.copy()` -/
theorem copied_axis_independent {h h' : Heap} {src : Nat} {r : Res}
    (he : exec hIntended h (.copy src) = .ok (h', r)) :
    ∃ d, h.axes[src]? = some d ∧ r = .axis h.axes.length ∧ src < h.axes.length ∧
      h'.axes[h.axes.length]? = some d ∧ h'.axes[src]? = some d ∧
      (∀ cs, (∀ c ∈ cs, c.target ≠ some h.axes.length) →
        (runH hIntended h' cs).axes[h.axes.length]? = some d) ∧
      (∀ cs, (∀ c ∈ cs, c.target ≠ some src) → (runH hIntended h' cs).axes[src]? = some d) := by
  simp only [exec] at he
  split at he
  · cases he
  · rename_i d hd
    simp only [Heap.allocAxis, Except.ok.injEq, Prod.mk.injEq] at he
    obtain ⟨rfl, rfl⟩ := he
    have hlt : (src : Nat) < h.axes.length := (List.getElem?_eq_some_iff.mp hd).1
    have hp : (h.axes ++ [d])[h.axes.length]? = some d := by simp
    have hs : (h.axes ++ [d])[src]? = some d := by rw [List.getElem?_append_left hlt]; exact hd
    refine ⟨d, hd, rfl, hlt, hp, hs, fun cs hc => ?_, fun cs hc => ?_⟩
    · rw [runH_axes _ cs _ h.axes.length (by simp) hc]; exact hp
    · rw [runH_axes _ cs _ src (by simp; omega) hc]; exact hs

/-- `TimeSeries(data, time=axis)`: whatever program `cs1` runs between the construction and the first
read of `.time` (any in-place operators on the axis it was given, on anything else, further
constructions — only this series' `.time` is not read), the axis then read is a NEW object with
exactly `m = data.shape[-1]` samples, starting and stepping as the SOURCE DID WHEN THE SERIES WAS
BUILT, its duration covering the `m` intervals; and for every later program `cs2` that applies no
operator to that axis itself (so: every operator sequence on the source or on any other series'
axis) it stays exactly that, the series keeps holding that same object, and the series' own
`t0` / interval agree with it -/
theorem series_axis_independent {h h1 : Heap} {src : Nat} {m : Nat} {u : UArg} {r : Res}
    (he : exec hIntended h (.series src m u) = .ok (h1, r)) :
    ∃ d, h.axes[src]? = some d ∧ r = .series h.series.length ∧
    ∀ cs1, (∀ c ∈ cs1, c ≠ .time h.series.length ∧ c ≠ .seriesCopy h.series.length) →
    ∀ h3 r', exec hIntended (runH hIntended h1 cs1) (.time h.series.length) = .ok (h3, r') →
      ∃ p a, r' = .axis p ∧ p = (runH hIntended h1 cs1).axes.length ∧ src < p ∧
        h3.axes[p]? = some a ∧ a.n = m ∧ a.t0 = d.t0 ∧ a.dt = d.dt ∧ a.dur = (m : Int) * d.dt ∧
        ∀ cs2, (∀ c ∈ cs2, c.target ≠ some p) →
          (runH hIntended h3 cs2).axes[p]? = some a ∧
          ∃ s, (runH hIntended h3 cs2).series[h.series.length]? = some s ∧ s.time = some p ∧
            s.t0 = a.t0 ∧ s.dt = a.dt ∧ s.n = a.n := by
  simp only [exec] at he
  split at he
  · cases he
  · rename_i d hd
    obtain ⟨hax, hr, sr, s, hsr, hser, e0, edt, _, eu, en, etime⟩ := newSeries_spec he
    have hlt : (src : Nat) < h.axes.length := (List.getElem?_eq_some_iff.mp hd).1
    refine ⟨d, hd, hr, fun cs1 hc1 h3 r' ht => ?_⟩
    have hs1 : h1.series[h.series.length]? = some s := by rw [hser]; simp
    have hs2 := runH_series_unread hIntended cs1 h1 hs1 hc1
    have hlen := runH_length hIntended cs1 h1
    rw [hax] at hlen
    generalize runH hIntended h1 cs1 = h2 at *
    simp only [exec] at ht
    split at ht
    · cases ht
    · rename_i h3' p hrt
      simp only [Except.ok.injEq, Prod.mk.injEq] at ht
      obtain ⟨rfl, rfl⟩ := ht
      obtain ⟨s', hs', hcase⟩ := readTime_spec hrt
      rw [hs2] at hs'
      cases hs'
      rcases hcase with ⟨hsome, _⟩ | ⟨_, rfl, a, ha, hax3, hser3⟩
      · rw [etime rfl] at hsome; cases hsome
      · obtain ⟨htime, t0eq, dteq⟩ := mkSeriesFromTime_time hsr
        have haeq : a = sr.time := by
          have : seriesAxis s = .ok sr.time := by
            unfold seriesAxis; rw [e0, edt, eu, en]; exact htime
          rw [this] at ha; cases ha; rfl
        obtain ⟨i1, i2, i3, _, i5⟩ := mkSeriesFromTime_inv hsr
        obtain ⟨_, hdur, _⟩ := attrs_describe_axis htime
        have hp3 : h3'.axes[h2.axes.length]? = some a := by rw [hax3]; simp
        have hsid : h.series.length < h2.series.length := by
          by_contra hge
          rw [List.getElem?_eq_none (by omega)] at hs2
          cases hs2
        have hs3 : h3'.series[h.series.length]? = some { s with time := some h2.axes.length } := by
          rw [hser3]; simp [hsid]
        refine ⟨h2.axes.length, a, rfl, rfl, by omega, hp3, by rw [haeq]; exact i1,
          by rw [haeq]; exact i5 rfl, by rw [haeq]; exact i2,
          by rw [haeq, hdur, i1, i2], fun cs2 hc2 => ⟨?_, ?_⟩⟩
        · rw [runH_axes _ cs2 _ h2.axes.length (by rw [hax3]; simp) hc2]; exact hp3
        · refine ⟨_, runH_series_cached hIntended cs2 h3' hs3 rfl, rfl, ?_, ?_, ?_⟩
          · show s.t0 = a.t0
            rw [e0, t0eq, haeq, i5 rfl]
          · show s.dt = a.dt
            rw [edt, dteq, haeq, i2]
          · show s.n = a.n
            rw [en, haeq, i1]

/-- an 8-sample, 0.5 s axis starting at −1 s (2 Hz) -/
def axHalf : Axis :=
  { t0 := -1000000000000, dt := 500000000000, n := 8, dur := 4000000000000, rate := 2, unit := .s }

/-- the caller's program: a series on its axis, read its time, then `axis += 3` -/
def progShift : List Cmd := [.series 0 8 (.ok .s), .time 0, .inplace 0 (.addS .int 3)]

/-- the class of change "the series stores the axis object it was given" (`seriesKeepsAxis`): the
series' `time` IS the caller's object 0, and after the caller's `axis += 3` it starts at 2 s while the
series still says −1 s.  Without the short-cut the series' axis is object 1 and still starts at −1 s. -/
theorem series_keeps_axis_counterexample :
    let bad := runH ⟨true, false⟩ { axes := [axHalf], series := [] } progShift
    let good := runH hIntended { axes := [axHalf], series := [] } progShift
    (bad.series[0]?.bind (·.time) = some 0 ∧ bad.series[0]?.map (·.t0) = some (-1000000000000) ∧
      bad.axes[0]?.map (·.t0) = some 2000000000000 ∧ bad.axes.length = 1) ∧
    (good.series[0]?.bind (·.time) = some 1 ∧ good.axes[1]?.map (·.t0) = some (-1000000000000) ∧
      good.axes[0]?.map (·.t0) = some 2000000000000) := by
  decide +kernel

/-- the class of change "`UniformTime(axis)` hands back the axis it was given"
(`rebuildReturnsSource`): `b = UniformTime(a); a *= 2` doubles `b`'s interval too (it is `a`) -/
theorem rebuild_returns_source_counterexample :
    (exec ⟨false, true⟩ { axes := [axHalf], series := [] } (.rebuild 0 .none none)).toOption.map (·.2)
      = some (.axis 0) ∧
    (exec hIntended { axes := [axHalf], series := [] } (.rebuild 0 .none none)).toOption.map (·.2)
      = some (.axis 1) ∧
    ((runH hIntended { axes := [axHalf], series := [] } [.rebuild 0 .none none, .inplace 0 (.mul 2)]).axes.map
      (·.dt)) = [1000000000000, 500000000000] := by
  decide +kernel

/-! ### below object granularity: sample buffers (session 3) -/

/-- after ANY program of constructions (`UniformTime(axis…)`, `.copy()`, `TimeSeries(…, time=axis)`, reads of
`.time`, `series.copy()`) and in-place operators on any of the objects: no two axis objects view one sample
buffer, and the buffer of EVERY axis holds exactly the grid its own attributes describe (first sample `t0`,
step `Δ`, `n` samples) — an in-place operator writes through the buffer of its target and through no other -/
theorem buffers_private (a0 : Axis) (cs : List Cmd) :
    (runHP false (startHP a0) cs).2.parts.length = (runHP false (startHP a0) cs).1.axes.length ∧
    (runHP false (startHP a0) cs).2.parts.Nodup ∧
    ∀ (j : Nat) (a : Axis) (b : Nat), (runHP false (startHP a0) cs).1.axes[j]? = some a →
      (runHP false (startHP a0) cs).2.parts[j]? = some b →
      (runHP false (startHP a0) cs).2.read b = (a.t0, a.dt, a.n) := by
  have hi := PInv.run cs (PInv.start a0)
  exact ⟨hi.len, hi.nodup, hi.holds⟩

/-- the object layer of the two-layer run is the object store of `runH` (the theorems about `runH` apply) -/
theorem runHP_objects (share : Bool) (hp : Heap × PHeap) (cs : List Cmd) :
    (runHP share hp cs).1 = runH hIntended hp.1 cs := by
  induction cs generalizing hp with
  | nil => rfl
  | cons c cs ih =>
    simp only [runHP, runH, List.foldl_cons] at ih ⊢
    rw [ih]
    congr 1
    simp only [stepHP, stepH]
    cases he : exec hIntended hp.1 c with
    | error e => rfl
    | ok res =>
      obtain ⟨h', r⟩ := res
      cases c <;> simp only <;> split <;> rfl

/-- COUNTEREXAMPLE for the class "the sample grid is memoised and handed out as a view" (`share = true`): `b =
UniformTime(a)` gets `a`'s buffer, `a += 3 ps` then moves `b`'s samples while `b` still says it starts at 0;
without the memo the two buffers differ and `b` keeps its grid -/
theorem shared_grid_counterexample :
    (let hp := runHP true ({ axes := [axHalf], series := [] }, PHeap.empty.alloc true axHalf.grid)
        [.rebuild 0 .none none, .inplace 0 (.addS .time 3)]
     hp.2.parts = [0, 0] ∧ (hp.1.axes.map (·.t0)) = [axHalf.t0 + 3, axHalf.t0] ∧
     hp.2.read 0 = (axHalf.t0 + 3, axHalf.dt, axHalf.n)) ∧
    (let hp := runHP false (startHP axHalf) [.rebuild 0 .none none, .inplace 0 (.addS .time 3)]
     hp.2.parts = [0, 1] ∧ hp.2.read 1 = (axHalf.t0, axHalf.dt, axHalf.n) ∧
     hp.2.read 0 = (axHalf.t0 + 3, axHalf.dt, axHalf.n)) := by
  decide +kernel

/-- non-vacuity: the programs above do run (nothing is skipped), and every in-place operator is
accepted on this axis at least once -/
example :
    ((runH hIntended { axes := [axHalf], series := [] }
      [.rebuild 0 .none none, .inplace 0 (.addR .time 5 7 8), .inplace 1 (.subR .int 1 0 8),
       .inplace 0 (.subS .time 12), .inplace 1 (.div 4), .series 1 8 .none, .seriesCopy 0,
       .time 1]).axes.map fun a => (a.t0, a.dt, a.n)) =
      [(-999999999995 - 12, 500000000007, 8), (-500000000000, 125000000000, 8),
       (-500000000000, 125000000000, 8), (-500000000000, 125000000000, 8)] := by
  decide +kernel

/-- interval / rate selection inside the inheritance block, duration pattern: an axis rebuilt from a
well-formed axis with a new `duration` (a bare number of the source's unit or a time object) keeps the
source's start, exact interval, rate and unit; its samples are the multiples of that interval before
the new duration, and the reported duration covers exactly those -/
theorem rebuilt_axis_with_duration (a : Axis) (D : TArg) (hdt : 0 < a.dt) :
    mkUniform .intended { data := some a, duration := some D }
      = .ok { a with n := countBefore (targPs a.unit D) a.dt,
                     dur := (countBefore (targPs a.unit D) a.dt : Int) * a.dt } ∧
    ∀ i : Nat, i < countBefore (targPs a.unit D) a.dt ↔ (i : Int) * a.dt < targPs a.unit D := by
  have hv4 : [false, false, false, true] ∈ validTspecs true := by decide
  obtain ⟨w0, w1, w2, w3, w4⟩ := wd_table
  have hnot : ¬ a.dt ≤ 0 := by omega
  refine ⟨?_, fun i => countBefore_spec _ _ hdt i⟩
  simp [mkUniform, checkTspec, tspecOf, hv4, resolve, inherit, w0, w1, w2, w3, w4, checkUnit, inferUnit,
    deriveIntervalRate, durationPs, targPs, build, hnot, bind, Except.bind, pure, Except.pure]

/-- the in-place operators keep an axis well-formed: the number of samples and the unit stay, the
reported duration covers exactly the `n` new intervals, and the rate is the one `_set_sampling`
derives from the new interval (so samples `t0 + i·Δ`, `samples_affine`, are again described by the
attributes) -/
theorem inplace_keeps_axis_well_formed {a a' : Axis} {op : IOp} (h : applyIOp a op = .ok a') :
    a'.n = a.n ∧ a'.unit = a.unit ∧ a'.dur = (a'.n : Int) * a'.dt ∧
    (a'.dt ≠ 0 → a'.rate = rateOfInterval a'.unit a'.dt) := by
  have key : ∀ t0 dt : Int, (setSampling a t0 dt).n = a.n ∧ (setSampling a t0 dt).unit = a.unit ∧
      (setSampling a t0 dt).dur = ((setSampling a t0 dt).n : Int) * (setSampling a t0 dt).dt ∧
      ((setSampling a t0 dt).dt ≠ 0 →
        (setSampling a t0 dt).rate = rateOfInterval (setSampling a t0 dt).unit (setSampling a t0 dt).dt) := by
    intro t0 dt
    refine ⟨rfl, rfl, rfl, fun hne => ?_⟩
    simp only [setSampling] at hne ⊢
    simp [hne]
  have ramp : ∀ sgn v0 d : Int, ∀ cnt : Nat, rampOp a sgn v0 d cnt = .ok a' →
      a'.n = a.n ∧ a'.unit = a.unit ∧ a'.dur = (a'.n : Int) * a'.dt ∧
      (a'.dt ≠ 0 → a'.rate = rateOfInterval a'.unit a'.dt) := by
    intro sgn v0 d cnt hr
    unfold rampOp at hr
    split at hr
    · cases hr
    · split at hr
      · cases hr; exact key _ _
      · split at hr
        · cases hr
        · cases hr; exact key _ _
  cases op with
  | addS k v => simp only [applyIOp, Except.ok.injEq] at h; subst h; exact key _ _
  | subS k v => simp only [applyIOp, Except.ok.injEq] at h; subst h; exact key _ _
  | addR k v0 d cnt => exact ramp _ _ _ _ h
  | subR k v0 d cnt => exact ramp _ _ _ _ h
  | mul k =>
    simp only [applyIOp] at h
    split at h
    · cases h
    · cases h; exact key _ _
  | div k =>
    simp only [applyIOp] at h
    split at h
    · cases h
    · cases h; exact key _ _
  | setitem => cases h

/-- a 3-sample axis with interval 2⁵³+1 ps (not a binary64 value), with the rate it reports -/
def axBig : Axis :=
  { t0 := 5, dt := 2 ^ 53 + 1, n := 3, dur := 3 * (2 ^ 53 + 1),
    rate := frequency (F64.fdiv 1 (F64.fdiv (F64.ofInt (2 ^ 53 + 1)) (cf .ps))) .ps, unit := .ps }

/-- re-deriving the interval from the source's binary64 rate (what the code did before the repair
`C02-from-axis-interval.diff`) loses a picosecond and gains a sample; inheriting it does not -/
theorem rebuilt_axis_counterexample :
    dtOf (mkUniform .current { data := some axBig }) = some (2 ^ 53) ∧
    countOf (mkUniform .current { data := some axBig }) = some 4 ∧
    mkUniform .intended { data := some axBig } = .ok axBig := by
  decide +kernel

/-! ### exact binary64 witnesses: what today's code does, and what the intended model does -/

/-- 2.2 as a double -/
def x2_2 : Rat := F64.ofBits 0x400199999999999a
/-- 1/3 as a double -/
def x1_3 : Rat := F64.ofBits 0x3fd5555555555555
/-- 0.81327 and its reciprocal as doubles -/
def x0_81327 : Rat := F64.ofBits 0x3fea064ece9a2c67
def r0_81327 : Rat := F64.ofBits 0x3ff3ac752f8f559e


/-- today: 100 samples of 2.2 min requested, 101 delivered (duration computed in binary64:
13200000000000002 ps) -/
theorem len_eq_length_counterexample :
    countOf (mkUniform .current { length := some 100, interval := some (.num (.flt x2_2)), unit := .ok .m }) = some 101 ∧
    durOf (mkUniform .current { length := some 100, interval := some (.num (.flt x2_2)), unit := .ok .m }) = some 13200000000000002 := by
  decide +kernel

/-- today: 5000 samples of 1/3 µs requested, 5001 delivered; 7 samples over 10 s requested, 8 delivered -/
theorem len_eq_length_counterexample2 :
    countOf (mkUniform .current { length := some 5000, interval := some (.num (.flt x1_3)), unit := .ok .us }) = some 5001 ∧
    countOf (mkUniform .current { length := some 7, duration := some (.num (.int 10)) }) = some 8 := by
  decide +kernel

/-- the intended model on the same inputs -/
example :
    countOf (mkUniform .intended { length := some 100, interval := some (.num (.flt x2_2)), unit := .ok .m }) = some 100 ∧
    durOf (mkUniform .intended { length := some 100, interval := some (.num (.flt x2_2)), unit := .ok .m }) = some 13200000000000000 ∧
    countOf (mkUniform .intended { length := some 5000, interval := some (.num (.flt x1_3)), unit := .ok .us }) = some 5000 ∧
    countOf (mkUniform .intended { length := some 7, duration := some (.num (.int 10)) }) = some 7 := by
  decide +kernel

/-- today: an interval and its reciprocal rate give different axes (period truncated) -/
theorem same_sampling_counterexample :
    dtOf (mkUniform .current { length := some 3, interval := some (.num (.flt x0_81327)) }) = some 813270000000 ∧
    dtOf (mkUniform .current { length := some 3, rate := some (.num (.flt r0_81327)) }) = some 813269999999 := by
  decide +kernel

example :
    dtOf (mkUniform .intended { length := some 3, interval := some (.num (.flt x0_81327)) }) = some 813270000000 ∧
    dtOf (mkUniform .intended { length := some 3, rate := some (.num (.flt r0_81327)) }) = some 813270000000 := by
  decide +kernel

/-- today: a duration-only axis reports the requested duration (10 s) although its 4 samples of
3 s cover 12 s -/
theorem attrs_describe_axis_counterexample :
    countOf (mkUniform .current { duration := some (.num (.int 10)), interval := some (.num (.int 3)) }) = some 4 ∧
    durOf (mkUniform .current { duration := some (.num (.int 10)), interval := some (.num (.int 3)) }) = some 10000000000000 := by
  decide +kernel

example :
    durOf (mkUniform .intended { duration := some (.num (.int 10)), interval := some (.num (.int 3)) }) = some 12000000000000 := by
  decide +kernel

/-- a 10-sample, 2 ms axis starting at 3 ms (rate 500 Hz) -/
def axMs : Axis := { t0 := 3000000000, dt := 2000000000, n := 10, dur := 20000000000, rate := 500, unit := .ms }

/-- today, construction from an existing axis: with `sampling_interval=` it raises `TypeError`;
with `sampling_rate=4000` the interval is 250 ns (1/4000 of a millisecond) instead of 250 µs; the
start of the source is dropped -/
theorem from_axis_counterexample :
    mkUniform .current { data := some axMs, interval := some (.num (.int 1)) } = .error .typeError ∧
    dtOf (mkUniform .current { data := some axMs, rate := some (.num (.int 4000)) }) = some 250000 ∧
    (mkUniform .current { data := some axMs }).toOption.map (·.t0) = some 0 := by
  decide +kernel

/-- intended: the same calls give 20 samples of 1 ms, 80 samples of 250 µs, and a copy of the axis -/
example :
    (mkUniform .intended { data := some axMs, interval := some (.num (.int 1)) }).toOption.map
      (fun a => (a.t0, a.dt, a.n)) = some (3000000000, 1000000000, 20) ∧
    (mkUniform .intended { data := some axMs, rate := some (.num (.int 4000)) }).toOption.map
      (fun a => (a.t0, a.dt, a.n)) = some (3000000000, 250000000, 80) ∧
    mkUniform .intended { data := some axMs } = .ok axMs := by
  decide +kernel

/-- non-vacuity of `rebuilt_axis_with_duration`: 7 ms of the 2 ms axis are 4 samples covering 8 ms -/
example :
    (mkUniform .intended { data := some axMs, duration := some (.num (.int 7)) }).toOption.map
      (fun a => (a.t0, a.dt, a.n, a.dur)) = some (3000000000, 2000000000, 4, 8000000000) := by
  decide +kernel

/-- today: a duration given as a time object with a length is read as a bare number of the unit -/
theorem duration_object_counterexample :
    dtOf (mkUniform .current { length := some 7, duration := some (.tobj 50000000000 .ms) }) = some 7142857142857142272 := by
  decide +kernel

example :
    dtOf (mkUniform .intended { length := some 7, duration := some (.tobj 50000000000 .ms) }) = some 7142857143 := by
  decide +kernel

/-- today (before the repair), even exact integer inputs lose a sample count beyond 2⁵³ ps: 300 samples of
977781009731899 ps (a series' lazily built axis passes its interval as a time object) come out as 301,
because numpy's `arange` length is the ceiling of a binary64 quotient -/
theorem len_eq_data_counterexample :
    arangeLen (300 * 977781009731899) 977781009731899 = 301 ∧
    (mkSeries .current 300 none (some (.tobj 977781009731899 .s)) none none (.ok .s)).toOption.map (·.time.n) = some 301 ∧
    (mkSeries .intended 300 none (some (.tobj 977781009731899 .s)) none none (.ok .s)).toOption.map (·.time.n) = some 300 := by
  decide +kernel

/-! ### what does hold for the unchanged tree -/

/-- `_partial`: today's code accepts and rejects the same argument patterns (the validity check is
shared) and lays its samples out affinely; what fails is the count, the period and the
inheritance from an existing axis -/
theorem rejects_documented_partial (s : Spec) :
    (mkUniform .current s = .error .valueError ∨ checkTspec s = .ok ()) := by
  unfold mkUniform
  cases h : checkTspec s with
  | ok u => right; rfl
  | error e =>
    left
    have : e = .valueError := by
      unfold checkTspec at h; split at h <;> simp_all
    subst this
    simp [bind, Except.bind]

/-- `len_eq_length_partial`: today's count is numpy's `arange` length of the binary64 quotient;
it equals the requested length whenever the duration is the exact product `l·Δ` and that product
is below 2^53 ps (the path taken by `TimeSeries.time`, which passes the interval as a time object) -/
theorem len_eq_length_partial (l : Nat) (dt : Int) (hdt : 0 < dt) (hl : 0 < l)
    (hfit : (l : Int) * dt < 2 ^ 53) : arangeLen ((l : Int) * dt) dt = l :=
  arangeLen_exact l dt hdt hl hfit

/-! ### round 4 (class L9): the length check of `TimeSeries(data, time=axis)` as an exact predicate

`mkSeriesFromTime` refuses exactly when the lengths differ AND the axis' rate is not bit-for-bit the
reconciling rate `float(m·c)/duration`; whatever the lengths are.  A relative tolerance in that
comparison (`mkSeriesFromTimeTol`, numpy's `isclose` defaults) has a reach that grows with the length:
from 10⁵ samples on an axis off by one sample is accepted. -/

/-- the start a series built with `time=` reports: the axis' own, or the `t0` argument cast in the series' unit -/
def fromTimeT0 (ax : Axis) (u : TimeUnit) : Option TArg → Int
  | none => ax.t0
  | some t => targPs u t

/-- the axis a series built with `time=` lays out: `m` samples from that start at the axis' interval -/
def fromTimeSpec (ax : Axis) (m : Nat) (u : TimeUnit) (t0 : Option TArg) : Spec :=
  { length := some m, t0 := some (.tobj (fromTimeT0 ax u t0) u), interval := some (.tobj ax.dt u), unit := .ok u }

/-- `TimeSeries(data_m, time=axis[, t0][, time_unit])`, no rate / interval / duration given, unit accepted, the axis of
`m` samples can be laid out (Δ > 0): the call is ACCEPTED iff the axis has `m` samples or its rate is bit-for-bit
the reconciling rate, and it raises `ValueError` iff the lengths differ and the rate is not that one — an exact
predicate, the same at every length -/
theorem length_mismatch_rejected_exactly {v : Variant} {ax : Axis} {m : Nat} {t0 : Option TArg} {u : UArg}
    {uo : Option TimeUnit} (hu : checkUnit u = .ok uo)
    (hlay : ∃ time, mkUniform v (fromTimeSpec ax m (uo.getD ax.unit) t0) = .ok time) :
    ((∃ sr, mkSeriesFromTime v ax m t0 u = .ok sr) ↔ (ax.n = m ∨ ax.rate = reconcilingRate v ax m)) ∧
    (mkSeriesFromTime v ax m t0 u = .error .valueError ↔
      (ax.n ≠ m ∧ ax.rate ≠ reconcilingRate v ax m)) := by
  obtain ⟨time, htime⟩ := hlay
  unfold mkSeriesFromTime
  simp only [hu, bind, Except.bind, pure, Except.pure]
  by_cases hc : ax.n ≠ m ∧ ax.rate ≠ reconcilingRate v ax m
  · rw [if_pos hc]
    simp only [throw, throwThe, MonadExceptOf.throw]
    refine And.intro (Iff.intro (fun h => ?_) (fun h => ?_)) (Iff.intro (fun _ => hc) (fun _ => trivial))
    · obtain ⟨sr, h⟩ := h
      cases h
    · rcases h with h | h
      · exact absurd h hc.1
      · exact absurd h hc.2
  · rw [if_neg hc]
    have hor : ax.n = m ∨ ax.rate = reconcilingRate v ax m := by
      by_cases h1 : ax.n = m
      · exact .inl h1
      · by_cases h2 : ax.rate = reconcilingRate v ax m
        · exact .inr h2
        · exact absurd ⟨h1, h2⟩ hc
    cases t0 <;> simp only [fromTimeSpec, fromTimeT0] at htime <;> simp only [htime] <;>
      exact And.intro (Iff.intro (fun _ => hor) (fun _ => ⟨_, rfl⟩))
        (Iff.intro (fun h => by cases h) (fun h => absurd h hc))

/-- an axis of `n` samples at 1000 Hz from 0 s (interval 10⁹ ps), as the constructor reports it -/
def axKHz (n : Nat) : Axis :=
  { t0 := 0, dt := 1000000000, n := n, dur := (n : Int) * 1000000000, rate := 1000, unit := .s }

example : mkUniform .intended { length := some 100000, rate := some (.num (.flt 1000)), unit := .ok .s }
    = .ok (axKHz 100000) := by decide +kernel

/-- non-vacuity of `length_mismatch_rejected_exactly` (its hypotheses hold on the 10⁵-sample axis) -/
example : mkSeriesFromTime .intended (axKHz 100000) 100001 none (.ok .s) = .error .valueError :=
  (length_mismatch_rejected_exactly (uo := some .s) rfl ⟨axKHz 100001, by decide +kernel⟩).2.2
    ⟨by decide, by decide +kernel⟩

/-- today's check at the lengths where a relative tolerance would start to matter: 10⁵ vs 10⁵ ± 1, 10⁶+1 vs 10⁶ are
refused, equal lengths give an axis of exactly `m` samples lasting `m·Δ` -/
theorem length_mismatch_large_rejected :
    mkSeriesFromTime .intended (axKHz 100000) 100001 none (.ok .s) = .error .valueError ∧
    mkSeriesFromTime .intended (axKHz 100000) 99999 none (.ok .s) = .error .valueError ∧
    mkSeriesFromTime .intended (axKHz 1000001) 1000000 none .none = .error .valueError ∧
    (mkSeriesFromTime .intended (axKHz 100000) 100000 none (.ok .s)).toOption.map
      (fun s => (s.time.n, s.time.dur, s.dt)) = some (100000, 100000000000000, 1000000000) := by
  decide +kernel

/-- the class of change "compare the rate up to rounding" (`isclose`, rtol 10⁻⁵): an axis off by one sample is accepted
from 10⁵ samples (off by ten from 10⁶), the series' axis then has `m` samples lasting `m·Δ` next to a source axis
lasting `n·Δ`; below ~10⁵ samples the tolerant and the exact check agree -/
theorem length_mismatch_tolerance_counterexample :
    -- with `isclose`: 10⁵+1 data samples on an axis of 10⁵ are ACCEPTED; the series' axis has 10⁵+1 samples
    -- covering (10⁵+1)·Δ while the axis it was given lasts 10⁵·Δ (what `series.duration` then reports)
    (mkSeriesFromTimeTol .intended (axKHz 100000) 100001 none (.ok .s)).toOption.map
      (fun s => (s.time.n, s.time.dur)) = some (100001, 100001000000000) ∧
    (axKHz 100000).dur = 100000000000000 ∧
    (mkSeriesFromTimeTol .intended (axKHz 1000000) 1000010 none (.ok .s)).toOption.map (·.time.n) = some 1000010 ∧
    -- the exact check refuses both
    mkSeriesFromTime .intended (axKHz 100000) 100001 none (.ok .s) = .error .valueError ∧
    mkSeriesFromTime .intended (axKHz 1000000) 1000010 none (.ok .s) = .error .valueError ∧
    -- at small lengths the two agree (why small refusal tests do not tell them apart)
    mkSeriesFromTimeTol .intended (axKHz 1000) 1001 none (.ok .s) = .error .valueError ∧
    mkSeriesFromTime .intended (axKHz 1000) 1001 none (.ok .s) = .error .valueError ∧
    mkSeriesFromTimeTol .intended (axKHz 99998) 99999 none (.ok .s) = .error .valueError ∧
    mkSeriesFromTimeTol .intended (axKHz 100000) 100000 none (.ok .s) =
      mkSeriesFromTime .intended (axKHz 100000) 100000 none (.ok .s) := by
  decide +kernel

/-- `TimeSeries(data_m, time=axis, sampling_rate=r …)`: with lengths that differ, the call is refused unless the
explicit rate is bit-for-bit the reconciling rate — and whatever is accepted passed that test -/
theorem explicit_rate_length_check {v : Variant} {ax : Axis} {m : Nat} {t0 : Option TArg} {r : RArg} {u : UArg} :
    (ax.n ≠ m → rateValue r ≠ reconcilingRate v ax m →
      mkSeriesFromTimeRate v ax m t0 r u = .error .valueError) ∧
    (∀ sr, mkSeriesFromTimeRate v ax m t0 r u = .ok sr → ax.n = m ∨ rateValue r = reconcilingRate v ax m) := by
  unfold mkSeriesFromTimeRate
  simp only [bind, Except.bind]
  constructor
  · intro h1 h2
    cases hu : checkUnit u with
    | error e => cases u <;> simp_all [checkUnit]
    | ok uo => simp [h1, h2, throw, throwThe, MonadExceptOf.throw]
  · intro sr h
    cases hu : checkUnit u with
    | error e => rw [hu] at h; cases h
    | ok uo =>
      rw [hu] at h
      by_cases hc : ax.n ≠ m ∧ rateValue r ≠ reconcilingRate v ax m
      · simp [hc, throw, throwThe, MonadExceptOf.throw] at h
      · by_cases h1 : ax.n = m
        · exact .inl h1
        · by_cases h2 : rateValue r = reconcilingRate v ax m
          · exact .inr h2
          · exact absurd ⟨h1, h2⟩ hc

/-- down-sampling 5·10⁵ samples at 1000 Hz to 10⁵ at 200 Hz is accepted (10⁵ samples lasting the same 500 s);
7 × the rate, or 10⁵+1 samples at 200 Hz, is refused -/
example :
    (mkSeriesFromTimeRate .intended (axKHz 500000) 100000 none (.num (.flt 200)) (.ok .s)).toOption.map
      (fun s => (s.time.n, s.time.dur, s.dt)) = some (100000, 500000000000000, 5000000000) ∧
    mkSeriesFromTimeRate .intended (axKHz 500000) 100000 none (.num (.flt 1400)) (.ok .s) = .error .valueError ∧
    mkSeriesFromTimeRate .intended (axKHz 500000) 100001 none (.num (.flt 200)) (.ok .s) = .error .valueError := by
  decide +kernel

/-- a 1000 Hz axis labelled in MILLISECONDS -/
def axKHzMs (n : Nat) : Axis :=
  { t0 := 0, dt := 1000000000, n := n, dur := (n : Int) * 1000000000, rate := 1000, unit := .ms }

/-- COUNTEREXAMPLE on `.current` (finding 7): today's length check forms the reconciling rate with the AXIS' conversion factor —
samples per millisecond on a millisecond axis — and compares it with a rate in Hz.  1000 samples at 1000 Hz, data of 200 samples
with `sampling_rate=200.0` (which fills the second exactly) is REFUSED, 250 samples with `sampling_rate=0.25` are ACCEPTED (250 samples
4 s apart next to an axis of one second), and data 1000 times longer than the axis are accepted with no rate given at all.  The intended
check (in Hz) accepts the first and refuses the other two; on seconds axes the two variants are the same function. -/
theorem from_time_rate_unit_counterexample :
    mkSeriesFromTimeRate .current (axKHzMs 1000) 200 none (.num (.flt 200)) .none = .error .valueError ∧
    (mkSeriesFromTimeRate .current (axKHzMs 1000) 250 none (.num (.flt (1/4))) .none).toOption.map (fun s => (s.time.n, s.dt)) =
      some (250, 4000000000000) ∧
    (mkSeriesFromTime .current (axKHzMs 250) 250000 none .none).toOption.map (·.time.n) = some 250000 ∧
    (mkSeriesFromTimeRate .intended (axKHzMs 1000) 200 none (.num (.flt 200)) .none).toOption.map (fun s => (s.time.n, s.dt)) =
      some (200, 5000000000) ∧
    mkSeriesFromTimeRate .intended (axKHzMs 1000) 250 none (.num (.flt (1/4))) .none = .error .valueError ∧
    mkSeriesFromTime .intended (axKHzMs 250) 250000 none .none = .error .valueError ∧
    (∀ ax m, ax.unit = .s → reconcilingRate .current ax m = reconcilingRate .intended ax m) := by
  refine ⟨by decide +kernel, by decide +kernel, by decide +kernel, by decide +kernel, by decide +kernel, by decide +kernel, ?_⟩
  intro ax m h
  simp [reconcilingRate, rateFactor, h]

end Nitime.C02.Props
