/-
C04 — property theorems for the spectral-density model (`Nitime.C04`, `Nitime/Model/C04.lean`),
read at `R = ℝ`, `K = ℂ` (instances in `Nitime/Lemmas/NumReal.lean`).  The twiddle provider is
`tw ζ m = ζ ^ m` for ANY primitive `N`-th root of unity `ζ` with `conj ζ = ζ⁻¹`
(`exists_twiddle`: `e^{-2πi/N}` is one; the `Float` run uses cos/sin of `2πm/N`).
Helper lemmas are in `Nitime/Lemmas/{NumReal,Spectral,Parseval,FoldSum}.lean`.
-/
import Nitime.Model.C04
import Nitime.Lemmas.Spectral

namespace Nitime.C04.Props
open Finset Nitime.Num Nitime.Spectral Nitime.C04 Nitime.Generated.SpecIdx

/-- twiddle provider of the proofs -/
noncomputable def tw (ζ : ℂ) : ℕ → ℂ := fun m => ζ ^ m

/-! ### the generated index formulas are the textbook ones -/

theorem index_formulas (N : ℕ) :
    periodogram_Fn N = N / 2 + 1 ∧ periodogram_Fl N = (N + 1) / 2 ∧
    periodogram_csd_Fn N = N / 2 + 1 ∧ periodogram_csd_Fl N = (N + 1) / 2 ∧
    mtm_Fn N = N / 2 + 1 ∧ mtm_Fl N = (N + 1) / 2 ∧
    mt_psd_last_freq N true = N / 2 + 1 ∧ mt_psd_last_freq N false = N ∧
    mt_csd_last_freq N true = N / 2 + 1 ∧ mt_csd_last_freq N false = N ∧
    welch_fxy_len N true = N ∧ welch_fxy_len N false = N / 2 + 1 := by
  simp [periodogram_Fn, periodogram_Fl, periodogram_csd_Fn, periodogram_csd_Fl, mtm_Fn, mtm_Fl,
    mt_psd_last_freq, mt_csd_last_freq, welch_fxy_len]

/-! ### the executable functions are the pointwise definitions (any scalar types) -/

section exec
variable {R K : Type} [RScalar R] [CScalar R K]

theorem periodogramList_eq (tw : ℕ → K) (Fs : R) (n N : ℕ) (os : Bool) (x : ℕ → K) :
    periodogramList tw Fs n N os x = (List.range (outLen N os)).map (periodogramAt tw Fs n N os x) := by
  simp only [periodogramList, memoGet_fun]; rfl

theorem periodogramCsdList_eq (tw : ℕ → K) (Fs : R) (n N M : ℕ) (os : Bool) (x : ℕ → ℕ → K) :
    periodogramCsdList tw Fs n N M os x
      = matList M (if os then periodogram_csd_Fn N else N) (periodogramCsdAt tw Fs n N os x) := by
  simp only [periodogramCsdList, memoGet2_fun]; rfl

theorem multiTaperPsdList_eq (tw : ℕ → K) (Fs : R) (n N : ℕ) (os : Bool) (T : ℕ)
    (h w : ℕ → ℕ → R) (x : ℕ → K) :
    multiTaperPsdList tw Fs n N os T h w x
      = (List.range (mt_psd_last_freq N os)).map (multiTaperPsdAt tw Fs n N os T h w x) := by
  simp only [multiTaperPsdList, memoGet2_fun]; rfl

theorem multiTaperCsdList_eq (tw : ℕ → K) (Fs : R) (n N M : ℕ) (os : Bool) (T : ℕ)
    (h : ℕ → ℕ → R) (w : ℕ → ℕ → ℕ → R) (x : ℕ → ℕ → K) :
    multiTaperCsdList tw Fs n N M os T h w x
      = matList M (mt_csd_last_freq N os) (multiTaperCsdAt tw Fs n N os T h w x) := by
  simp only [multiTaperCsdList, memoGet3_fun]; rfl

theorem welchSpectraList_eq (tw : ℕ → K) (Fs : R) (n N nov M : ℕ) (os : Bool) (win : ℕ → R)
    (x : ℕ → ℕ → K) :
    welchSpectraList tw Fs n N nov M os win x
      = matList M (outLen N os) (welchSpectraAt tw Fs n N nov os win x) := by
  simp only [welchSpectraList, memoGet3_fun]; rfl

theorem welchPsdList_eq (tw : ℕ → K) (Fs : R) (n N nov : ℕ) (os : Bool) (win : ℕ → R) (x : ℕ → K) :
    welchPsdList tw Fs n N nov os win x
      = (List.range (outLen N os)).map (welchCsdAt tw Fs n N nov os win x x) := by
  simp only [welchPsdList, memoGet2_fun]; rfl

end exec

/-! ### Parseval for the DFT and the periodogram -/

section math
variable {N : ℕ} {ζ : ℂ}

theorem dftAt_tw (hζ1 : ζ ^ N = 1) (x : ℕ → ℂ) (k : ℕ) : dftAt (tw ζ) N x k = D ζ N x k :=
  dftAt_D hζ1 x k

theorem spec_eq (hζ1 : ζ ^ N = 1) (n : ℕ) (x : ℕ → ℂ) (k : ℕ) :
    spec (tw ζ) N n x k = D ζ N (padded n x) k := dftAt_D hζ1 _ _

/-- `Σ_k |𝓕x(k)|² = N Σ_j |x_j|²` for the model DFT -/
theorem dft_parseval (hN : 0 < N) (hζ : IsPrimitiveRoot ζ N) (hc : (starRingEnd ℂ) ζ = ζ⁻¹)
    (x : ℕ → ℂ) :
    ∑ k ∈ range N, (sqmag (dftAt (tw ζ) N x k) : ℝ) = N * ∑ j ∈ range N, (sqmag (x j) : ℝ) := by
  simp only [sqmag_eq, dftAt_tw hζ.pow_eq_one]
  exact parseval_real hN hζ hc x

/-- zero padding (NFFT ≥ n) does not change the energy seen by the transform -/
theorem zero_pad_energy (hN : 0 < N) (hζ : IsPrimitiveRoot ζ N) (hc : (starRingEnd ℂ) ζ = ζ⁻¹)
    {n : ℕ} (hnN : n ≤ N) (x : ℕ → ℂ) :
    ∑ k ∈ range N, (sqmag (spec (tw ζ) N n x k) : ℝ) = N * ∑ j ∈ range n, Complex.normSq (x j) := by
  simp only [sqmag_eq, spec_eq hζ.pow_eq_one]
  rw [parseval_real hN hζ hc, sum_padded hnN]

/-- two-sided periodogram: `Σ_k P(k)·Fs/NFFT = mean |x|²`, any NFFT ≥ n, any Fs ≠ 0, both parities -/
theorem periodogram_parseval_twosided (hN : 0 < N) (hζ : IsPrimitiveRoot ζ N)
    (hc : (starRingEnd ℂ) ζ = ζ⁻¹) {n : ℕ} (hn : 0 < n) (hnN : n ≤ N) {Fs : ℝ} (hFs : Fs ≠ 0)
    (x : ℕ → ℂ) :
    ∑ k ∈ range (outLen N false), periodogramAt (tw ζ) Fs n N false x k * (Fs / N)
      = (∑ j ∈ range n, Complex.normSq (x j)) / n := by
  have hN' : (N : ℝ) ≠ 0 := Nat.cast_ne_zero.2 hN.ne'
  have hn' : (n : ℝ) ≠ 0 := Nat.cast_ne_zero.2 hn.ne'
  have h := zero_pad_energy hN hζ hc hnN x
  simp only [outLen, periodogramAt, periodogramOf, Bool.false_eq_true, if_false, ofNat_real]
  rw [← Finset.sum_mul, ← Finset.sum_div, h]
  field_simp

end math

end Nitime.C04.Props
