/-
C04 — property theorems for the spectral-density model (`Nitime.C04`, `Nitime/Model/C04.lean`),
read at `R = ℝ`, `K = ℂ` (instances in `Nitime/Lemmas/NumReal.lean`).  The twiddle provider is
`tw ζ m = ζ ^ m` for ANY primitive `N`-th root of unity `ζ` with `conj ζ = ζ⁻¹`
(`exists_twiddle`: `e^{-2πi/N}` is one; the `Float` run uses cos/sin of `2πm/N`).
Helper lemmas are in `Nitime/Lemmas/{NumReal,Spectral,Parseval,FoldSum}.lean`.
-/
import Nitime.Model.C04
import Nitime.Lemmas.Spectral

namespace Nitime.C04.Props
open Finset Nitime.Num Nitime.Spectral Nitime.C04 Nitime.Generated.SpecIdx

/-- twiddle provider of the proofs -/
noncomputable def tw (ζ : ℂ) : ℕ → ℂ := fun m => ζ ^ m

/-! ### the generated index formulas are the textbook ones -/

theorem index_formulas (N : ℕ) :
    periodogram_Fn N = N / 2 + 1 ∧ periodogram_Fl N = (N + 1) / 2 ∧
    periodogram_csd_Fn N = N / 2 + 1 ∧ periodogram_csd_Fl N = (N + 1) / 2 ∧
    mtm_Fn N = N / 2 + 1 ∧ mtm_Fl N = (N + 1) / 2 ∧
    mt_psd_last_freq N true = N / 2 + 1 ∧ mt_psd_last_freq N false = N ∧
    mt_csd_last_freq N true = N / 2 + 1 ∧ mt_csd_last_freq N false = N ∧
    welch_fxy_len N true = N ∧ welch_fxy_len N false = N / 2 + 1 := by
  simp [periodogram_Fn, periodogram_Fl, periodogram_csd_Fn, periodogram_csd_Fl, mtm_Fn, mtm_Fl,
    mt_psd_last_freq, mt_csd_last_freq, welch_fxy_len]

/-! ### the executable functions are the pointwise definitions (any scalar types) -/

section exec
variable {R K : Type} [RScalar R] [CScalar R K]

theorem periodogramList_eq (tw : ℕ → K) (Fs : R) (n N : ℕ) (os : Bool) (x : ℕ → K) :
    periodogramList tw Fs n N os x = (List.range (outLen N os)).map (periodogramAt tw Fs n N os x) := by
  simp only [periodogramList, memoGet_fun]; rfl

theorem periodogramCsdList_eq (tw : ℕ → K) (Fs : R) (n N M : ℕ) (os : Bool) (x : ℕ → ℕ → K) :
    periodogramCsdList tw Fs n N M os x
      = matList M (if os then periodogram_csd_Fn N else N) (periodogramCsdAt tw Fs n N os x) := by
  simp only [periodogramCsdList, memoGet2_fun]; rfl

theorem multiTaperPsdList_eq (tw : ℕ → K) (Fs : R) (n N : ℕ) (os : Bool) (T : ℕ)
    (h w : ℕ → ℕ → R) (x : ℕ → K) :
    multiTaperPsdList tw Fs n N os T h w x
      = (List.range (mt_psd_last_freq N os)).map (multiTaperPsdAt tw Fs n N os T h w x) := by
  simp only [multiTaperPsdList, memoGet2_fun]; rfl

theorem multiTaperCsdList_eq [RSqrt R] (tw : ℕ → K) (Fs : R) (n N M : ℕ) (os : Bool) (T : ℕ)
    (h : ℕ → ℕ → R) (w : ℕ → ℕ → ℕ → R) (x : ℕ → ℕ → K) :
    multiTaperCsdList tw Fs n N M os T h w x
      = matList M (mt_csd_last_freq N os) (multiTaperCsdAt tw Fs n N os T h w x) := by
  simp only [multiTaperCsdList, memoGet3_fun]; rfl

theorem welchSpectraList_eq (tw : ℕ → K) (Fs : R) (n N nov M : ℕ) (os : Bool) (win : ℕ → R)
    (x : ℕ → ℕ → K) :
    welchSpectraList tw Fs n N nov M os win x
      = matList M (outLen N os) (welchSpectraAt tw Fs n N nov os win x) := by
  simp only [welchSpectraList, memoGet3_fun]; rfl

theorem welchPsdList_eq (tw : ℕ → K) (Fs : R) (n N nov : ℕ) (os : Bool) (win : ℕ → R) (x : ℕ → K) :
    welchPsdList tw Fs n N nov os win x
      = (List.range (outLen N os)).map (welchCsdAt tw Fs n N nov os win x x) := by
  simp only [welchPsdList, memoGet2_fun]; rfl

end exec

/-! ### Parseval for the DFT and the periodogram -/

section math
variable {N : ℕ} {ζ : ℂ}

theorem dftAt_tw (hζ1 : ζ ^ N = 1) (x : ℕ → ℂ) (k : ℕ) : dftAt (tw ζ) N x k = D ζ N x k :=
  dftAt_D hζ1 x k

theorem spec_eq (hζ1 : ζ ^ N = 1) (n : ℕ) (x : ℕ → ℂ) (k : ℕ) :
    spec (tw ζ) N n x k = D ζ N (padded n x) k := dftAt_D hζ1 _ _

/-- `Σ_k |𝓕x(k)|² = N Σ_j |x_j|²` for the model DFT -/
theorem dft_parseval (hN : 0 < N) (hζ : IsPrimitiveRoot ζ N) (hc : (starRingEnd ℂ) ζ = ζ⁻¹)
    (x : ℕ → ℂ) :
    ∑ k ∈ range N, (sqmag (dftAt (tw ζ) N x k) : ℝ) = N * ∑ j ∈ range N, (sqmag (x j) : ℝ) := by
  simp only [sqmag_eq, dftAt_tw hζ.pow_eq_one]
  exact parseval_real hN hζ hc x

/-- zero padding (NFFT ≥ n) does not change the energy seen by the transform -/
theorem zero_pad_energy (hN : 0 < N) (hζ : IsPrimitiveRoot ζ N) (hc : (starRingEnd ℂ) ζ = ζ⁻¹)
    {n : ℕ} (hnN : n ≤ N) (x : ℕ → ℂ) :
    ∑ k ∈ range N, (sqmag (spec (tw ζ) N n x k) : ℝ) = N * ∑ j ∈ range n, Complex.normSq (x j) := by
  simp only [sqmag_eq, spec_eq hζ.pow_eq_one]
  rw [parseval_real hN hζ hc, sum_padded hnN]

/-- two-sided periodogram: `Σ_k P(k)·Fs/NFFT = mean |x|²`, any NFFT ≥ n, any Fs ≠ 0, both parities -/
theorem periodogram_parseval_twosided (hN : 0 < N) (hζ : IsPrimitiveRoot ζ N)
    (hc : (starRingEnd ℂ) ζ = ζ⁻¹) {n : ℕ} (hn : 0 < n) (hnN : n ≤ N) {Fs : ℝ} (hFs : Fs ≠ 0)
    (x : ℕ → ℂ) :
    ∑ k ∈ range (outLen N false), periodogramAt (tw ζ) Fs n N false x k * (Fs / N)
      = (∑ j ∈ range n, Complex.normSq (x j)) / n := by
  have hN' : (N : ℝ) ≠ 0 := Nat.cast_ne_zero.2 hN.ne'
  have hn' : (n : ℝ) ≠ 0 := Nat.cast_ne_zero.2 hn.ne'
  have h := zero_pad_energy hN hζ hc hnN x
  simp only [outLen, periodogramAt, periodogramOf, Bool.false_eq_true, if_false, ofNat_real]
  rw [← Finset.sum_mul, ← Finset.sum_div, h]
  field_simp

/-! ### one-sided output is the folded two-sided output -/

/-- the one-sided assembly written in the source (`P[0]`, `P[1:Fl] *= 2`, `P[Fn-1]`) is the fold
`foldOne` of `Lemmas/FoldSum.lean` on the returned bins — for every spectrum `S` -/
theorem pgOne_eq_fold (S : ℕ → ℂ) {k : ℕ} (hk : k < N / 2 + 1) :
    (pgOne N S k : ℝ) = foldOne N (fun k => Complex.normSq (S k)) k := by
  unfold pgOne foldOne
  simp only [Fl, Fn, periodogram_Fl, periodogram_Fn, sqmag_eq, ofNat_real]
  by_cases h0 : k = 0
  · simp [h0]
  · by_cases h1 : k < (N + 1) / 2
    · simp [h0, h1]
    · have h2 : (N + 1) / 2 < N / 2 + 1 ∧ k = N / 2 + 1 - 1 := by omega
      simp only [h0, h1, if_false]
      rw [if_pos h2]

/-- `onesided_is_fold`: the one-sided periodogram is the two-sided periodogram folded onto the
non-negative frequencies (bin 0 once, duplicated bins doubled, Nyquist once), for every signal -/
theorem onesided_is_fold (tw : ℕ → ℂ) (Fs : ℝ) (n : ℕ) (x : ℕ → ℂ) {k : ℕ} (hk : k < outLen N true) :
    periodogramAt tw Fs n N true x k = foldOne N (periodogramAt tw Fs n N false x) k := by
  have hk' : k < N / 2 + 1 := by simpa [outLen, Fn, periodogram_Fn] using hk
  have e : periodogramAt tw Fs n N true x k = pgOne N (spec tw N n x) k / (Fs * n) := by
    simp [periodogramAt, periodogramOf]
  rw [e, pgOne_eq_fold _ hk']
  unfold foldOne
  simp only [periodogramAt, periodogramOf, Bool.false_eq_true, if_false, sqmag_eq, ofNat_real]
  split_ifs <;> ring

/-- the two-sided periodogram of a real signal is symmetric: `P(N-k) = P(k)` -/
theorem periodogram_symm (hN : 0 < N) (hζ : IsPrimitiveRoot ζ N) (hc : (starRingEnd ℂ) ζ = ζ⁻¹)
    (Fs : ℝ) (n : ℕ) (x : ℕ → ℂ) (hx : ∀ j, (starRingEnd ℂ) (x j) = x j) {k : ℕ} (hk : k ≤ N) :
    periodogramAt (tw ζ) Fs n N false x (N - k) = periodogramAt (tw ζ) Fs n N false x k := by
  have hp : ∀ j, (starRingEnd ℂ) (padded n x j) = padded n x j := by
    intro j; rw [padded_eq]; split_ifs <;> simp [hx]
  simp only [periodogramAt, periodogramOf, Bool.false_eq_true, if_false, sqmag_eq,
    spec_eq hζ.pow_eq_one, normSq_D_symm hN hζ hc _ hp hk]

/-- one-sided periodogram of a real signal: `Σ_{k ≤ N/2} P(k)·Fs/NFFT = mean x²`, both parities,
any NFFT ≥ n -/
theorem periodogram_parseval_onesided (hN : 0 < N) (hζ : IsPrimitiveRoot ζ N)
    (hc : (starRingEnd ℂ) ζ = ζ⁻¹) {n : ℕ} (hn : 0 < n) (hnN : n ≤ N) {Fs : ℝ} (hFs : Fs ≠ 0)
    (x : ℕ → ℂ) (hx : ∀ j, (starRingEnd ℂ) (x j) = x j) :
    ∑ k ∈ range (outLen N true), periodogramAt (tw ζ) Fs n N true x k * (Fs / N)
      = (∑ j ∈ range n, Complex.normSq (x j)) / n := by
  rw [← periodogram_parseval_twosided hN hζ hc hn hnN hFs x, ← Finset.sum_mul, ← Finset.sum_mul]
  congr 1
  have hL : outLen N true = N / 2 + 1 := by simp [outLen, Fn, periodogram_Fn]
  have hL2 : outLen N false = N := by simp [outLen]
  rw [hL2, ← fold_sum_eq N hN (periodogramAt (tw ζ) Fs n N false x)
    (fun k _ hk => periodogram_symm hN hζ hc Fs n x hx hk.le), hL]
  refine sum_congr rfl fun k hk => ?_
  exact onesided_is_fold _ Fs n x (by rw [hL]; exact mem_range.1 hk)

/-! ### scaling and sign (periodogram) -/

theorem spec_smul (tw : ℕ → ℂ) (n : ℕ) (a : ℂ) (x : ℕ → ℂ) (k : ℕ) :
    spec tw N n (fun j => a * x j) k = a * spec tw N n x k := by
  simp only [spec, dftAt, ksum_eq, mul_sum]
  refine sum_congr rfl fun j _ => ?_
  simp only [padded_eq]
  split_ifs <;> ring

/-- `scale_sq`: `x ↦ a·x` multiplies the periodogram by `|a|²` (any complex `a`, either sides) -/
theorem periodogram_scale_sq (tw : ℕ → ℂ) (Fs : ℝ) (n : ℕ) (os : Bool) (a : ℂ) (x : ℕ → ℂ) (k : ℕ) :
    periodogramAt tw Fs n N os (fun j => a * x j) k
      = Complex.normSq a * periodogramAt tw Fs n N os x k := by
  have hs : spec tw N n (fun j => a * x j) = fun k => a * spec tw N n x k :=
    funext fun k => spec_smul tw n a x k
  simp only [periodogramAt, periodogramOf, hs, pgOne, sqmag_eq, Complex.normSq_mul, ofNat_real]
  split_ifs <;> ring

/-- `psd_real_nonneg`: the periodogram is real by construction (its type) and non-negative -/
theorem periodogram_nonneg (tw : ℕ → ℂ) {Fs : ℝ} (hFs : 0 < Fs) (n : ℕ) (os : Bool) (x : ℕ → ℂ) (k : ℕ) :
    0 ≤ periodogramAt tw Fs n N os x k := by
  simp only [periodogramAt, periodogramOf, pgOne, sqmag_eq, ofNat_real]
  apply div_nonneg
  · split_ifs <;> first | exact Complex.normSq_nonneg _ | positivity | simp [Complex.normSq_nonneg]
  · positivity

/-! ### multitaper -/

/-- `mtm_cross_spectrum` (auto-spectrum branch) in closed form: the `Σ_t w_t²`-weighted mean of
`|X_t(k)|²`, doubled at the duplicated bins of a one-sided spectrum -/
theorem mtmAuto_eq (os : Bool) (T : ℕ) (w : ℕ → ℕ → ℝ) (X : ℕ → ℕ → ℂ) (k : ℕ) :
    mtmAuto N os T w X k = dblIf (fun v => 2 * v) os N k
      ((∑ t ∈ range T, w t k * w t k * Complex.normSq (X t k)) / ∑ t ∈ range T, w t k * w t k) := by
  unfold mtmAuto
  simp only [rsum_eq, ksum_eq, kscale_eq, conj_complex, re_complex, ofNat_real, Complex.re_sum]
  congr 2
  refine sum_congr rfl fun t _ => ?_
  rw [Complex.mul_conj, Complex.ofReal_re, Complex.normSq_mul, Complex.normSq_ofReal]

/-- the multitaper estimate is the `w²`-weighted mean of the single-taper estimates -/
theorem multiTaperPsd_weighted (tw : ℕ → ℂ) (Fs : ℝ) (n : ℕ) (os : Bool) (T : ℕ)
    (h w : ℕ → ℕ → ℝ) (x : ℕ → ℂ) (k : ℕ) :
    multiTaperPsdAt tw Fs n N os T h w x k
      = (∑ t ∈ range T, w t k * w t k * taperPsdAt tw Fs n N os h x t k)
          / ∑ t ∈ range T, w t k * w t k := by
  unfold multiTaperPsdAt multiTaperPsdOf taperPsdAt
  rw [mtmAuto_eq]
  unfold dblIf
  simp only [sqmag_eq, ofNat_real, Nat.cast_ofNat]
  split_ifs
  · have : ∑ t ∈ range T, w t k * w t k * (2 * Complex.normSq (taperedSpec tw N n (h t) x k) / Fs)
        = 2 * (∑ t ∈ range T, w t k * w t k * Complex.normSq (taperedSpec tw N n (h t) x k)) / Fs := by
      rw [Finset.mul_sum, Finset.sum_div]; exact sum_congr rfl fun t _ => by ring
    rw [this]; ring
  · have : ∑ t ∈ range T, w t k * w t k * (Complex.normSq (taperedSpec tw N n (h t) x k) / Fs)
        = (∑ t ∈ range T, w t k * w t k * Complex.normSq (taperedSpec tw N n (h t) x k)) / Fs := by
      rw [Finset.sum_div]; exact sum_congr rfl fun t _ => by ring
    rw [this]; ring

/-- `adaptive_in_range` (lower): with ANY real weights not all zero at bin `k`, the estimate at
`k` is at least every common lower bound of the single-taper estimates -/
theorem adaptive_in_range_lower (tw : ℕ → ℂ) (Fs : ℝ) (n : ℕ) (os : Bool) (T : ℕ)
    (h w : ℕ → ℕ → ℝ) (x : ℕ → ℂ) (k : ℕ) (hw : 0 < ∑ t ∈ range T, w t k * w t k)
    (m : ℝ) (hm : ∀ t < T, m ≤ taperPsdAt tw Fs n N os h x t k) :
    m ≤ multiTaperPsdAt tw Fs n N os T h w x k := by
  rw [multiTaperPsd_weighted, le_div_iff₀ hw, Finset.mul_sum]
  exact sum_le_sum fun t ht => by
    have := hm t (mem_range.1 ht)
    nlinarith [mul_self_nonneg (w t k)]

/-- `adaptive_in_range` (upper) -/
theorem adaptive_in_range_upper (tw : ℕ → ℂ) (Fs : ℝ) (n : ℕ) (os : Bool) (T : ℕ)
    (h w : ℕ → ℕ → ℝ) (x : ℕ → ℂ) (k : ℕ) (hw : 0 < ∑ t ∈ range T, w t k * w t k)
    (m : ℝ) (hm : ∀ t < T, taperPsdAt tw Fs n N os h x t k ≤ m) :
    multiTaperPsdAt tw Fs n N os T h w x k ≤ m := by
  rw [multiTaperPsd_weighted, div_le_iff₀ hw, Finset.mul_sum]
  exact sum_le_sum fun t ht => by
    have := hm t (mem_range.1 ht)
    nlinarith [mul_self_nonneg (w t k)]

/-- `psd_real_nonneg` for the multitaper estimate (any weights, `Fs > 0`) -/
theorem multiTaperPsd_nonneg (tw : ℕ → ℂ) {Fs : ℝ} (hFs : 0 < Fs) (n : ℕ) (os : Bool) (T : ℕ)
    (h w : ℕ → ℕ → ℝ) (x : ℕ → ℂ) (k : ℕ) : 0 ≤ multiTaperPsdAt tw Fs n N os T h w x k := by
  rw [multiTaperPsd_weighted]
  apply div_nonneg
  · refine sum_nonneg fun t _ => mul_nonneg (mul_self_nonneg _) ?_
    unfold taperPsdAt dblIf
    simp only [sqmag_eq, ofNat_real, Nat.cast_ofNat]
    apply div_nonneg _ hFs.le
    split_ifs
    · exact mul_nonneg (by norm_num) (Complex.normSq_nonneg _)
    · exact Complex.normSq_nonneg _
  · exact sum_nonneg fun t _ => mul_self_nonneg _

/-- energy of the `t`-th tapered, de-meaned signal -/
noncomputable def taperedEnergy (n : ℕ) (h : ℕ → ℕ → ℝ) (x : ℕ → ℂ) (t : ℕ) : ℝ :=
  ∑ j ∈ range n, Complex.normSq ((h t j : ℂ) * demean n x j)

theorem taperedSpec_energy (hN : 0 < N) (hζ : IsPrimitiveRoot ζ N) (hc : (starRingEnd ℂ) ζ = ζ⁻¹)
    {n : ℕ} (hnN : n ≤ N) (h : ℕ → ℕ → ℝ) (x : ℕ → ℂ) (t : ℕ) :
    ∑ k ∈ range N, Complex.normSq (taperedSpec (tw ζ) N n (h t) x k) = N * taperedEnergy n h x t := by
  have := zero_pad_energy hN hζ hc hnN (fun j => kscale (h t j) (demean n x j))
  unfold taperedEnergy taperedSpec
  simpa only [sqmag_eq, kscale_eq, spec] using this

/-- `multitaper_parseval` (two-sided, fixed weights `w_t`, e.g. `√λ_t`): the density integrates to
the `w²`-weighted mean of the energies of the tapered de-meaned signals -/
theorem multitaper_parseval_twosided (hN : 0 < N) (hζ : IsPrimitiveRoot ζ N)
    (hc : (starRingEnd ℂ) ζ = ζ⁻¹) {n : ℕ} (hnN : n ≤ N) {Fs : ℝ} (hFs : Fs ≠ 0) (T : ℕ)
    (h : ℕ → ℕ → ℝ) (w : ℕ → ℝ) (x : ℕ → ℂ) :
    ∑ k ∈ range (mt_psd_last_freq N false),
        multiTaperPsdAt (tw ζ) Fs n N false T h (fun t _ => w t) x k * (Fs / N)
      = (∑ t ∈ range T, w t * w t * taperedEnergy n h x t) / ∑ t ∈ range T, w t * w t := by
  have hN' : (N : ℝ) ≠ 0 := Nat.cast_ne_zero.2 hN.ne'
  have hL : mt_psd_last_freq N false = N := by simp [mt_psd_last_freq]
  have key : ∑ k ∈ range N, ∑ t ∈ range T,
        w t * w t * (Complex.normSq (taperedSpec (tw ζ) N n (h t) x k) / Fs)
      = (N / Fs) * ∑ t ∈ range T, w t * w t * taperedEnergy n h x t := by
    rw [Finset.sum_comm, Finset.mul_sum]
    refine sum_congr rfl fun t _ => ?_
    rw [← Finset.mul_sum, ← Finset.sum_div, taperedSpec_energy hN hζ hc hnN]; ring
  simp only [hL, multiTaperPsd_weighted, taperPsdAt, dblIf, Bool.false_eq_true, false_and, if_false,
    sqmag_eq]
  rw [← Finset.sum_mul, ← Finset.sum_div, key]
  field_simp

/-- one-sided multitaper output is the folded two-sided output (same weights), every bin -/
theorem multitaper_onesided_is_fold (tw : ℕ → ℂ) (Fs : ℝ) (n : ℕ) (T : ℕ)
    (h w : ℕ → ℕ → ℝ) (x : ℕ → ℂ) (k : ℕ) :
    multiTaperPsdAt tw Fs n N true T h w x k
      = foldOne N (multiTaperPsdAt tw Fs n N false T h w x) k := by
  unfold foldOne
  simp only [multiTaperPsdAt, multiTaperPsdOf, mtmAuto_eq, dblIf, mtm_Fl, Bool.false_eq_true,
    false_and, if_false, true_and]
  by_cases h0 : k = 0
  · simp [h0]
  · by_cases h1 : k < (N + 1) / 2
    · have : 1 ≤ k ∧ k < (N + 1) / 2 := ⟨by omega, h1⟩
      simp only [h0, h1, this, and_self, if_true, if_false]; ring
    · simp only [h0, h1, and_false, if_false]

theorem demean_real {n : ℕ} (x : ℕ → ℂ) (hx : ∀ j, (starRingEnd ℂ) (x j) = x j) (j : ℕ) :
    (starRingEnd ℂ) (demean n x j) = demean n x j := by
  rw [demean_eq, kmean_eq, map_sub, map_mul, Complex.conj_ofReal, map_sum, hx]
  congr 2
  exact sum_congr rfl fun i _ => hx i

/-- the two-sided fixed-weight multitaper estimate of a real signal is symmetric -/
theorem multitaper_symm (hN : 0 < N) (hζ : IsPrimitiveRoot ζ N) (hc : (starRingEnd ℂ) ζ = ζ⁻¹)
    (Fs : ℝ) (n T : ℕ) (h : ℕ → ℕ → ℝ) (w : ℕ → ℝ) (x : ℕ → ℂ)
    (hx : ∀ j, (starRingEnd ℂ) (x j) = x j) {k : ℕ} (hk : k ≤ N) :
    multiTaperPsdAt (tw ζ) Fs n N false T h (fun t _ => w t) x (N - k)
      = multiTaperPsdAt (tw ζ) Fs n N false T h (fun t _ => w t) x k := by
  have hp : ∀ t j, (starRingEnd ℂ) (padded n (fun j => kscale (h t j) (demean n x j)) j)
      = padded n (fun j => kscale (h t j) (demean n x j)) j := by
    intro t j; rw [padded_eq]
    split_ifs
    · rw [kscale_eq, map_mul, Complex.conj_ofReal, demean_real x hx]
    · simp
  have hY : ∀ t, Complex.normSq (taperedSpec (tw ζ) N n (h t) x (N - k))
      = Complex.normSq (taperedSpec (tw ζ) N n (h t) x k) := by
    intro t
    have := normSq_D_symm hN hζ hc _ (hp t) hk
    simpa only [taperedSpec, dftAt_tw hζ.pow_eq_one] using this
  simp only [multiTaperPsd_weighted, taperPsdAt, dblIf, Bool.false_eq_true, false_and, if_false,
    sqmag_eq, hY]

/-- `multitaper_parseval` (one-sided, real signal, fixed weights), both parities of NFFT -/
theorem multitaper_parseval_onesided (hN : 0 < N) (hζ : IsPrimitiveRoot ζ N)
    (hc : (starRingEnd ℂ) ζ = ζ⁻¹) {n : ℕ} (hnN : n ≤ N) {Fs : ℝ} (hFs : Fs ≠ 0) (T : ℕ)
    (h : ℕ → ℕ → ℝ) (w : ℕ → ℝ) (x : ℕ → ℂ) (hx : ∀ j, (starRingEnd ℂ) (x j) = x j) :
    ∑ k ∈ range (mt_psd_last_freq N true),
        multiTaperPsdAt (tw ζ) Fs n N true T h (fun t _ => w t) x k * (Fs / N)
      = (∑ t ∈ range T, w t * w t * taperedEnergy n h x t) / ∑ t ∈ range T, w t * w t := by
  rw [← multitaper_parseval_twosided hN hζ hc hnN hFs T h w x, ← Finset.sum_mul, ← Finset.sum_mul]
  congr 1
  have hL : mt_psd_last_freq N true = N / 2 + 1 := by simp [mt_psd_last_freq]
  have hL2 : mt_psd_last_freq N false = N := by simp [mt_psd_last_freq]
  rw [hL, hL2, ← fold_sum_eq N hN _ (fun k _ hk => multitaper_symm hN hζ hc Fs n T h w x hx hk.le)]
  exact sum_congr rfl fun k _ => multitaper_onesided_is_fold _ Fs n T h _ x k

/-- `scale_sq` for the multitaper estimate (same weights): `x ↦ a·x` multiplies it by `|a|²` -/
theorem multitaper_scale_sq (tw : ℕ → ℂ) (Fs : ℝ) (n : ℕ) (os : Bool) (T : ℕ)
    (h w : ℕ → ℕ → ℝ) (a : ℂ) (x : ℕ → ℂ) (k : ℕ) :
    multiTaperPsdAt tw Fs n N os T h w (fun j => a * x j) k
      = Complex.normSq a * multiTaperPsdAt tw Fs n N os T h w x k := by
  have hd : ∀ j, demean n (fun j => a * x j) j = a * demean n x j := by
    intro j; simp only [demean_eq, kmean_eq, ← Finset.mul_sum]; ring
  have hs : ∀ t k, taperedSpec tw N n (h t) (fun j => a * x j) k = a * taperedSpec tw N n (h t) x k := by
    intro t k
    have e : (fun j => kscale (h t j) (demean n (fun j => a * x j) j))
        = fun j => a * kscale (h t j) (demean n x j) := by
      funext j; rw [hd, kscale_eq, kscale_eq]; ring
    unfold taperedSpec
    rw [e]
    exact spec_smul tw n a _ k
  simp only [multiTaperPsd_weighted, taperPsdAt, hs, sqmag_eq, Complex.normSq_mul, dblIf]
  rw [← mul_div_assoc, Finset.mul_sum]
  congr 1
  refine sum_congr rfl fun t _ => ?_
  split_ifs <;> ring

/-! ### Welch (`welchCsdAt` = mlab.csd as documented) -/

/-- rotating the summation index of a full period does not change the sum (the two-sided mlab
output is rolled by `freqcenter`) -/
theorem sum_range_rot (N c : ℕ) (g : ℕ → ℝ) :
    ∑ m ∈ range N, g ((m + c) % N) = ∑ k ∈ range N, g k := by
  have rot1 : ∀ f : ℕ → ℝ, ∑ m ∈ range N, f ((m + 1) % N) = ∑ m ∈ range N, f m := by
    intro f
    cases N with
    | zero => simp
    | succ M =>
      rw [Finset.sum_range_succ, Finset.sum_range_succ' f M, Nat.mod_self]
      congr 1
      refine sum_congr rfl fun m hm => ?_
      rw [Nat.mod_eq_of_lt (by have := mem_range.1 hm; omega)]
  induction c generalizing g with
  | zero => exact sum_congr rfl fun m hm => by rw [Nat.add_zero, Nat.mod_eq_of_lt (mem_range.1 hm)]
  | succ c ih =>
    rw [← ih g, ← rot1 (fun k => g ((k + c) % N))]
    refine sum_congr rfl fun m _ => ?_
    show g ((m + (c + 1)) % N) = g (((m + 1) % N + c) % N)
    congr 1
    rw [Nat.mod_add_mod]; ring_nf

/-- energy of the windowed segment `s` of the (zero-padded) signal -/
noncomputable def segEnergy (n N nov : ℕ) (win : ℕ → ℝ) (x : ℕ → ℂ) (s : ℕ) : ℝ :=
  ∑ j ∈ range N, Complex.normSq ((win j : ℂ) * padded n x (s * (N - nov) + j))

theorem segSpec_energy (hN : 0 < N) (hζ : IsPrimitiveRoot ζ N) (hc : (starRingEnd ℂ) ζ = ζ⁻¹)
    (n nov : ℕ) (win : ℕ → ℝ) (x : ℕ → ℂ) (s : ℕ) :
    ∑ k ∈ range N, Complex.normSq (segSpec (tw ζ) N n nov win x s k) = N * segEnergy n N nov win x s := by
  have := dft_parseval hN hζ hc (fun j => kscale (win j) (padded n x (s * (N - nov) + j)))
  unfold segEnergy segSpec
  simpa only [sqmag_eq, kscale_eq] using this

/-- the Welch auto-spectrum at DFT bin `k` before the one-sided doubling: mean over the segments
of `|X_s(k)|²`, over `Fs·Σw²` -/
noncomputable def welchBinPower (tw : ℕ → ℂ) (Fs : ℝ) (n N nov : ℕ) (win : ℕ → ℝ) (x : ℕ → ℂ) (k : ℕ) : ℝ :=
  (∑ s ∈ range (welchSegs n N nov), Complex.normSq (segSpec tw N n nov win x s k))
    / ((welchSegs n N nov : ℝ) * (Fs * ∑ j ∈ range N, win j * win j))

/-- the auto-spectrum `csd(x, x)` is real: it is `welchBinPower` at the reported bin, doubled at
the duplicated bins of a one-sided spectrum -/
theorem welchAuto_eq (tw : ℕ → ℂ) (Fs : ℝ) (n nov : ℕ) (os : Bool) (win : ℕ → ℝ) (x : ℕ → ℂ) (m : ℕ) :
    welchCsdAt tw Fs n N nov os win x x m
      = ((dblIf (fun v => 2 * v) os N (welchBin N os m)
          (welchBinPower tw Fs n N nov win x (welchBin N os m)) : ℝ) : ℂ) := by
  unfold welchCsdAt welchCsdOf welchBinPower dblIf
  simp only [rsum_eq, ksum_eq, kscale_eq, conj_complex, ofNat_real, Nat.cast_ofNat, Nat.cast_one]
  have hsum : ∑ s ∈ range (welchSegs n N nov),
        (starRingEnd ℂ) (segSpec tw N n nov win x s (welchBin N os m))
          * segSpec tw N n nov win x s (welchBin N os m)
      = ((∑ s ∈ range (welchSegs n N nov),
          Complex.normSq (segSpec tw N n nov win x s (welchBin N os m)) : ℝ) : ℂ) := by
    push_cast
    refine sum_congr rfl fun s _ => ?_
    rw [mul_comm, Complex.mul_conj]
  rw [hsum]
  split_ifs <;> push_cast <;> ring

theorem welchBinPower_sum (hN : 0 < N) (hζ : IsPrimitiveRoot ζ N)
    (hc : (starRingEnd ℂ) ζ = ζ⁻¹) {Fs : ℝ} (hFs : Fs ≠ 0) (n nov : ℕ) (win : ℕ → ℝ) (x : ℕ → ℂ) :
    ∑ k ∈ range N, welchBinPower (tw ζ) Fs n N nov win x k * (Fs / N)
      = (∑ s ∈ range (welchSegs n N nov), segEnergy n N nov win x s)
          / ((welchSegs n N nov : ℝ) * ∑ j ∈ range N, win j * win j) := by
  have hN' : (N : ℝ) ≠ 0 := Nat.cast_ne_zero.2 hN.ne'
  unfold welchBinPower
  rw [← Finset.sum_mul, ← Finset.sum_div, Finset.sum_comm]
  simp only [segSpec_energy hN hζ hc, ← Finset.mul_sum]
  field_simp

/-- `welch_parseval` (two-sided): `Σ_m P(m)·Fs/NFFT` is the mean over the segments of the energy
of the windowed segment, over `Σ w²` -/
theorem welch_parseval_twosided (hN : 0 < N) (hζ : IsPrimitiveRoot ζ N)
    (hc : (starRingEnd ℂ) ζ = ζ⁻¹) {Fs : ℝ} (hFs : Fs ≠ 0) (n nov : ℕ) (win : ℕ → ℝ) (x : ℕ → ℂ) :
    ∑ m ∈ range (outLen N false), (welchCsdAt (tw ζ) Fs n N nov false win x x m).re * (Fs / N)
      = (∑ s ∈ range (welchSegs n N nov), segEnergy n N nov win x s)
          / ((welchSegs n N nov : ℝ) * ∑ j ∈ range N, win j * win j) := by
  have hL : outLen N false = N := by simp [outLen]
  simp only [hL, welchAuto_eq, Complex.ofReal_re, dblIf, Bool.false_eq_true, false_and, if_false,
    welchBin]
  rw [sum_range_rot N ((N + 1) / 2)
    (fun k => welchBinPower (tw ζ) Fs n N nov win x k * (Fs / N))]
  exact welchBinPower_sum hN hζ hc hFs n nov win x

/-- for a real signal (and real window) the per-bin Welch power is symmetric -/
theorem welchBinPower_symm (hN : 0 < N) (hζ : IsPrimitiveRoot ζ N) (hc : (starRingEnd ℂ) ζ = ζ⁻¹)
    (Fs : ℝ) (n nov : ℕ) (win : ℕ → ℝ) (x : ℕ → ℂ) (hx : ∀ j, (starRingEnd ℂ) (x j) = x j)
    {k : ℕ} (hk : k ≤ N) :
    welchBinPower (tw ζ) Fs n N nov win x (N - k) = welchBinPower (tw ζ) Fs n N nov win x k := by
  have hp : ∀ s j, (starRingEnd ℂ) (kscale (win j) (padded n x (s * (N - nov) + j)))
      = kscale (win j) (padded n x (s * (N - nov) + j)) := by
    intro s j
    rw [kscale_eq, map_mul, Complex.conj_ofReal, padded_eq]
    split_ifs <;> simp [hx]
  have hY : ∀ s, Complex.normSq (segSpec (tw ζ) N n nov win x s (N - k))
      = Complex.normSq (segSpec (tw ζ) N n nov win x s k) := by
    intro s
    have := normSq_D_symm hN hζ hc _ (hp s) hk
    simpa only [segSpec, dftAt_tw hζ.pow_eq_one] using this
  unfold welchBinPower
  simp only [hY]

/-- `welch_parseval` (one-sided, real signal): same total, both parities of NFFT -/
theorem welch_parseval_onesided (hN : 0 < N) (hζ : IsPrimitiveRoot ζ N)
    (hc : (starRingEnd ℂ) ζ = ζ⁻¹) {Fs : ℝ} (hFs : Fs ≠ 0) (n nov : ℕ) (win : ℕ → ℝ) (x : ℕ → ℂ)
    (hx : ∀ j, (starRingEnd ℂ) (x j) = x j) :
    ∑ m ∈ range (outLen N true), (welchCsdAt (tw ζ) Fs n N nov true win x x m).re * (Fs / N)
      = (∑ s ∈ range (welchSegs n N nov), segEnergy n N nov win x s)
          / ((welchSegs n N nov : ℝ) * ∑ j ∈ range N, win j * win j) := by
  have hL : outLen N true = N / 2 + 1 := by simp [outLen, Fn, periodogram_Fn]
  rw [← welchBinPower_sum hN hζ hc hFs n nov win x, ← Finset.sum_mul, ← Finset.sum_mul, hL,
    ← fold_sum_eq N hN _ (fun k _ hk => welchBinPower_symm hN hζ hc Fs n nov win x hx hk.le)]
  congr 1
  refine sum_congr rfl fun m _ => ?_
  rw [welchAuto_eq, Complex.ofReal_re]
  unfold dblIf foldOne welchBin
  simp only [if_true, true_and, mtm_Fl]
  by_cases h0 : m = 0
  · simp [h0]
  · by_cases h1 : m < (N + 1) / 2
    · have : 1 ≤ m ∧ m < (N + 1) / 2 := ⟨by omega, h1⟩
      simp only [if_neg h0, if_pos h1, if_pos this]
    · have : ¬ (1 ≤ m ∧ m < (N + 1) / 2) := fun hh => h1 hh.2
      simp only [if_neg h0, if_neg h1, if_neg this]

/-! ### linearity of the tapered / segment spectra, Welch `scale_sq` -/

theorem demean_smul (n : ℕ) (a : ℂ) (x : ℕ → ℂ) (j : ℕ) :
    demean n (fun j => a * x j) j = a * demean n x j := by
  simp only [demean_eq, kmean_eq, ← Finset.mul_sum]; ring

theorem taperedSpec_smul (tw : ℕ → ℂ) (n : ℕ) (h : ℕ → ℝ) (a : ℂ) (x : ℕ → ℂ) (k : ℕ) :
    taperedSpec tw N n h (fun j => a * x j) k = a * taperedSpec tw N n h x k := by
  have e : (fun j => kscale (h j) (demean n (fun j => a * x j) j))
      = fun j => a * kscale (h j) (demean n x j) := by
    funext j; rw [demean_smul, kscale_eq, kscale_eq]; ring
  unfold taperedSpec
  rw [e]
  exact spec_smul tw n a _ k

theorem segSpec_smul (tw : ℕ → ℂ) (n nov : ℕ) (win : ℕ → ℝ) (a : ℂ) (x : ℕ → ℂ) (s k : ℕ) :
    segSpec tw N n nov win (fun j => a * x j) s k = a * segSpec tw N n nov win x s k := by
  simp only [segSpec, dftAt, ksum_eq, mul_sum, kscale_eq, padded_eq]
  refine sum_congr rfl fun j _ => ?_
  split_ifs <;> ring

/-- `scale_sq` for Welch cross- and auto-spectra (`mlab.csd`): scaling both signals by `a` multiplies
the density by `|a|²` -/
theorem welch_scale_sq (tw : ℕ → ℂ) (Fs : ℝ) (n nov : ℕ) (os : Bool) (win : ℕ → ℝ) (a : ℂ)
    (x y : ℕ → ℂ) (m : ℕ) :
    welchCsdAt tw Fs n N nov os win (fun j => a * x j) (fun j => a * y j) m
      = (Complex.normSq a : ℂ) * welchCsdAt tw Fs n N nov os win x y m := by
  have hx : segSpec tw N n nov win (fun j => a * x j) = fun s k => a * segSpec tw N n nov win x s k := by
    funext s k; exact segSpec_smul tw n nov win a x s k
  have hy : segSpec tw N n nov win (fun j => a * y j) = fun s k => a * segSpec tw N n nov win y s k := by
    funext s k; exact segSpec_smul tw n nov win a y s k
  unfold welchCsdAt welchCsdOf dblIf
  rw [hx, hy]
  simp only [rsum_eq, ksum_eq, kscale_eq, conj_complex, ofNat_real, map_mul]
  have hs : ∑ s ∈ range (welchSegs n N nov),
        (starRingEnd ℂ) a * (starRingEnd ℂ) (segSpec tw N n nov win x s (welchBin N os m))
          * (a * segSpec tw N n nov win y s (welchBin N os m))
      = (Complex.normSq a : ℂ) * ∑ s ∈ range (welchSegs n N nov),
          (starRingEnd ℂ) (segSpec tw N n nov win x s (welchBin N os m))
            * segSpec tw N n nov win y s (welchBin N os m) := by
    rw [Finset.mul_sum]
    refine sum_congr rfl fun s _ => ?_
    rw [Complex.normSq_eq_conj_mul_self]; ring
  rw [hs]
  split_ifs <;> ring

/-! ### non-vacuity: admissible twiddles exist for every `N`, and the statements have content -/

/-- a primitive `N`-th root of unity lies on the unit circle: `conj ζ = ζ⁻¹` -/
theorem twiddle_conj (hN : 0 < N) (hζ : IsPrimitiveRoot ζ N) : (starRingEnd ℂ) ζ = ζ⁻¹ :=
  (Complex.inv_eq_conj (Complex.norm_eq_one_of_pow_eq_one hζ.pow_eq_one hN.ne')).symm

/-- `e^{2πi/N}` (and hence its conjugate, the numpy twiddle) is admissible -/
theorem exists_twiddle (hN : 0 < N) : ∃ ζ : ℂ, IsPrimitiveRoot ζ N ∧ (starRingEnd ℂ) ζ = ζ⁻¹ :=
  ⟨_, Complex.isPrimitiveRoot_exp N hN.ne', twiddle_conj hN (Complex.isPrimitiveRoot_exp N hN.ne')⟩

/-- instance of `periodogram_parseval_onesided` with odd `NFFT = 5 > n = 3`, a non-zero signal -/
example : ∃ ζ : ℂ, ∑ k ∈ range (outLen 5 true),
      periodogramAt (tw ζ) 10 3 5 true (fun j => ((j : ℝ) + 1 : ℝ)) k * (10 / (5 : ℕ))
    = (∑ j ∈ range 3, Complex.normSq (((j : ℝ) + 1 : ℝ) : ℂ)) / (3 : ℕ)
    ∧ (∑ j ∈ range 3, Complex.normSq (((j : ℝ) + 1 : ℝ) : ℂ)) / (3 : ℕ) ≠ 0 := by
  obtain ⟨ζ, hζ, hc⟩ := exists_twiddle (N := 5) (by norm_num)
  refine ⟨ζ, periodogram_parseval_onesided (by norm_num) hζ hc (by norm_num) (by norm_num)
    (by norm_num) _ (fun j => Complex.conj_ofReal _), ?_⟩
  simp [Finset.sum_range_succ, Complex.normSq_ofReal]
  norm_num

/-- `adaptive_in_range` has satisfiable hypotheses: two tapers, unequal weights -/
example (tw : ℕ → ℂ) (x : ℕ → ℂ) :
    min (taperPsdAt tw 1 4 4 false (fun _ _ => 1) x 0 1) (taperPsdAt tw 1 4 4 false (fun _ _ => 1) x 1 1)
      ≤ multiTaperPsdAt tw 1 4 4 false 2 (fun _ _ => 1) (fun t _ => (t : ℝ) + 1) x 1 := by
  apply adaptive_in_range_lower
  · simp [Finset.sum_range_succ]; norm_num
  · intro t ht
    interval_cases t
    · exact min_le_left _ _
    · exact min_le_right _ _

end math

end Nitime.C04.Props
