/-
C07 — property theorems (Slepian tapers; tridiagonal solver).  Statements only; the fold →
recurrence lemmas are in `Lemmas/TridiFold.lean`, the recurrence → `A·x = b` core in
`Lemmas/Tridiag.lean`.

PARTIAL BY DESIGN (DESIGN §7 C07): not proved here — that the tridiagonal matrix commutes with
the sinc kernel (Slepian), simplicity/ordering of its spectrum, convergence of the inverse
iteration, LAPACK's `eigvals_banded`.  Those clauses are decided per run by residual
certificates in the correspondence (harness/c07.py) and are reported as certificate checks.
-/
import Nitime.Model.C07
import Nitime.Generated.Tridi
import Nitime.Lemmas.TridiFold
import Nitime.Lemmas.Dpss

set_option linter.unusedSectionVars false
namespace Nitime.C07.Props
open Nitime Nitime.Tridi Nitime.C07

/-! ### the solver -/

section generated
set_option linter.unusedSectionVars false
variable {K : Type} [Inhabited K] [Add K] [Sub K] [Mul K] [Div K]

/-- the loop bodies extracted from the CURRENT `_utils.pyx` are the model's -/
theorem generated_eq_model_pyx (d e b : Array K) :
    Generated.Tridi.solvePyx d e b = tridisolve d e b := rfl

/-- the loop bodies extracted from the CURRENT pure-Python fallback in `utils.py` are the model's -/
theorem generated_eq_model_py (d e b : Array K) :
    Generated.Tridi.solvePy d e b = tridisolve d e b := rfl

/-- both forms work on copies of `d`, `e` and touch `b` in place exactly when asked to -/
theorem generated_copies :
    Generated.Tridi.solvePyxCopies = (true, true, true) ∧
    Generated.Tridi.solvePyCopies = (true, true, true) := ⟨rfl, rfl⟩
end generated

section solves
variable {K : Type} [Field K] [Inhabited K]

/-- **the solver solves**: over any field, when the pivots the code divides by are non-zero,
the returned vector has the length of `b` and satisfies every row of `A·x = b`, `A` the
symmetric tridiagonal matrix with main diagonal `d` and off-diagonal `e[:-1]` -/
theorem tridisolve_solves (d e b : Array K) (hN : 1 ≤ b.size) (hd : b.size ≤ d.size)
    (he : b.size ≤ e.size + 1) (hp : ∀ k, k < b.size → get (pivots d e b) k ≠ 0) :
    (tridisolve d e b).size = b.size ∧
    ∀ i, i < b.size → mulRow d e (tridisolve d e b) b.size i = get b i := by
  obtain ⟨hsz, hsw⟩ := sweep_of_model d e b hN hd he hp
  refine ⟨hsz, fun i hi => ?_⟩
  unfold mulRow
  by_cases h1 : b.size = 1
  · rw [if_pos h1]
    have : i = 0 := by omega
    subst this
    have := _root_.Tridi.row_single (h1 ▸ hsw)
    exact this
  · rw [if_neg h1]
    by_cases h0 : i = 0
    · subst h0; rw [if_pos rfl]
      exact _root_.Tridi.row_first hsw (by omega)
    · rw [if_neg h0]
      obtain ⟨k, rfl⟩ : ∃ k, i = k + 1 := ⟨i - 1, by omega⟩
      by_cases hl : k + 1 + 1 = b.size
      · rw [if_pos hl]
        exact _root_.Tridi.row_last hsw (by omega)
      · rw [if_neg hl]
        exact _root_.Tridi.row_mid hsw (by omega)

/-- the same as an equation between arrays: `A · tridisolve(d, e, b) = b` -/
theorem tridisolve_mul_eq (d e b : Array K) (hN : 1 ≤ b.size) (hd : b.size ≤ d.size)
    (he : b.size ≤ e.size + 1) (hp : ∀ k, k < b.size → get (pivots d e b) k ≠ 0) :
    tridiagMul d e (tridisolve d e b) = b := by
  obtain ⟨hsz, hrow⟩ := tridisolve_solves d e b hN hd he hp
  apply Array.ext
  · simp [tridiagMul, hsz]
  · intro i h1 h2
    simp only [tridiagMul, Array.getElem_ofFn, hsz]
    rw [hrow i h2]
    simp [Tridi.get, Array.getD_eq_getD_getElem?, h2]

/-- uniqueness side: a vector with `A·x = b` row by row is the one returned, given the
solver's own output also satisfies the rows — stated as: two solutions of the recurrences agree
(the returned vector is determined by `d, e, b` alone; no dependence on `overwrite_b`) -/
theorem tridisolve_deterministic (d e b : Array K) :
    tridisolve d e b = (bwd b.size (lastDiv b.size (fwd b.size (elim b.size ⟨d, e, b⟩)))).x := rfl

end solves

/-! ### sign convention -/
section signs
variable {K : Type} [Field K] [LinearOrder K] [IsStrictOrderedRing K]

/-- every row of the output is the input row or its negative (so norms, orthogonality and
eigen-residual magnitudes are untouched), and the number of rows is unchanged -/
theorem fixSigns_pm (N : ℕ) (rows : List (List K)) :
    (fixSigns N rows).length = rows.length ∧
    ∀ i (h : i < rows.length), ∃ h' : i < (fixSigns N rows).length,
      (fixSigns N rows)[i] = rows[i] ∨ (fixSigns N rows)[i] = negRow rows[i] := by
  refine ⟨by simp [fixSigns], fun i h => ⟨by simp [fixSigns, h], ?_⟩⟩
  simp only [fixSigns, List.getElem_mapIdx, fixRow, fixEven, fixOdd]
  split_ifs <;> simp

/-- flipping a row changes neither its energy nor (up to sign) its inner products -/
theorem fixSigns_norm (N i : ℕ) (r : List K) : sumSq (fixRow N i r) = sumSq r := by
  simp only [fixRow, fixEven, fixOdd]
  split_ifs <;> simp [sumSq_negRow]

/-- the convention the code enforces: even-order rows end with a non-negative sum; odd-order rows
with a non-negative slope sum up to the first (largest) extremum of the first half.  (When that
extremum is the first sample the slope sum is empty and the rule decides nothing.) -/
theorem fixSigns_convention (N i : ℕ) (r : List K) :
    (i % 2 = 0 → 0 ≤ sumList (fixRow N i r)) ∧
    (i % 2 ≠ 0 → 0 ≤ sumList ((fixRow N i r).take (peak N (fixRow N i r)))) := by
  constructor
  · intro hi
    simp only [fixRow, hi, if_true, fixEven]
    split_ifs with h
    · rw [sumList_negRow]; linarith
    · exact not_lt.1 h
  · intro hi
    simp only [fixRow, hi, if_false, fixOdd]
    split_ifs with h
    · rw [peak_negRow, take_negRow, sumList_negRow]; linarith
    · exact not_lt.1 h

/-- the convention is a fixed point: applying it twice changes nothing -/
theorem fixSigns_idem (N i : ℕ) (r : List K) : fixRow N i (fixRow N i r) = fixRow N i r := by
  have hc := fixSigns_convention N i r
  by_cases hi : i % 2 = 0
  · have := hc.1 hi
    simp only [fixRow, hi, if_true] at this ⊢
    rw [fixEven, if_neg (not_lt.2 this)]
  · have := hc.2 hi
    simp only [fixRow, hi, if_false] at this ⊢
    rw [fixOdd, if_neg (not_lt.2 this)]

end signs

/-! ### concentration, rescaling, low-bias selection -/
section conc
variable {K : Type} [Field K]

/-- **the returned concentration is the Rayleigh quotient numerator** `vᵀ·S·v` of the Toeplitz
kernel `S[m,n] = s(|m−n|)` whenever `r[0] = s(0)` and `r[k] = 2·s(k)` — which is how the code
builds `r` from the sinc kernel (`r[0] = 2W`, `r[k] = 4W·sinc(2Wk) = 2·sin(2πWk)/(πk)`).
For a unit-norm `v` this is the Rayleigh quotient itself. -/
theorem concentration_is_rayleigh (N : ℕ) (v r s : ℕ → K) (h0 : r 0 = s 0)
    (hk : ∀ k, 1 ≤ k → r k = 2 * s k) :
    quadAutocorr N v r = ∑ m ∈ Finset.range N, ∑ n ∈ Finset.range N, v m * v n * s (m - n + (n - m)) := by
  unfold quadAutocorr autocorrN
  rw [sumN_eq]
  simp_rw [sumN_eq]
  exact quad_reindex v r s h0 hk N

/-- rescaling by a square root of the energy gives unit energy -/
theorem interpRescale_unit (s : K) (l : List K) (hs : s * s = sumSq l) (h0 : s ≠ 0) :
    sumSq (rescale s l) = 1 := by
  have key : ∀ l : List K, sumSq (rescale s l) = sumSq l / (s * s) := by
    intro l
    unfold sumSq rescale
    rw [sumList_eq, sumList_eq, List.map_map]
    induction l with
    | nil => simp
    | cons a t ih =>
      simp only [List.map_cons, List.sum_cons, Function.comp] at ih ⊢
      rw [ih]; field_simp
  rw [key, ← hs]; field_simp

end conc

section lowbias
variable {K : Type} [LT K] [DecidableLT K]

/-- `low_bias`: exactly the (taper, concentration) pairs with concentration above the threshold
are kept, in their original order, and tapers stay aligned with their concentrations -/
theorem lowBias_spec (thr : K) (tapers : List (List K)) (eig : List K) :
    let kept := (tapers.zip eig).filter fun p => thr < p.2
    lowBias thr tapers eig = (kept.map (·.1), kept.map (·.2)) ∧
    kept.Sublist (tapers.zip eig) ∧
    (∀ p, p ∈ kept ↔ p ∈ tapers.zip eig ∧ thr < p.2) ∧
    (∀ l ∈ (lowBias thr tapers eig).2, thr < l) := by
  refine ⟨rfl, List.filter_sublist, fun p => by simp [List.mem_filter], ?_⟩
  intro l hl
  simp only [lowBias, List.mem_map, List.mem_filter] at hl
  obtain ⟨p, ⟨_, hp⟩, rfl⟩ := hl
  simpa using hp

end lowbias

/-! ### sign flips do not touch orthonormality or eigen-residuals -/
section flipinv
variable {K : Type} [Field K] [LinearOrder K] [IsStrictOrderedRing K]

/-- a fixed row is `σ·row` with `σ = ±1`, as index functions -/
theorem fixRow_sign (N i : ℕ) (r : List K) :
    ∃ σ : K, (σ = 1 ∨ σ = -1) ∧ ∀ m, fnL (fixRow N i r) m = σ * fnL r m := by
  simp only [fixRow, fixEven, fixOdd]
  split_ifs
  · exact ⟨-1, .inr rfl, fun m => by rw [fnL_negRow]; ring⟩
  · exact ⟨1, .inl rfl, fun m => by ring⟩
  · exact ⟨-1, .inr rfl, fun m => by rw [fnL_negRow]; ring⟩
  · exact ⟨1, .inl rfl, fun m => by ring⟩

/-- **Gram matrix**: every entry of the Gram matrix of the sign-fixed rows is `±` the entry of the
original rows, and the diagonal is unchanged — orthonormal rows stay orthonormal -/
theorem fixSigns_gram (N M i j : ℕ) (r1 r2 : List K) :
    (∃ σ : K, (σ = 1 ∨ σ = -1) ∧
      dot M (fnL (fixRow N i r1)) (fnL (fixRow N j r2)) = σ * dot M (fnL r1) (fnL r2)) ∧
    dot M (fnL (fixRow N i r1)) (fnL (fixRow N i r1)) = dot M (fnL r1) (fnL r1) := by
  obtain ⟨σ, hσ, h1⟩ := fixRow_sign N i r1
  obtain ⟨τ, hτ, h2⟩ := fixRow_sign N j r2
  refine ⟨⟨σ * τ, ?_, ?_⟩, ?_⟩
  · rcases hσ with rfl | rfl <;> rcases hτ with rfl | rfl <;> simp
  · simp only [dot_eq, h1, h2, Finset.mul_sum]
    exact Finset.sum_congr rfl fun n _ => by ring
  · simp only [dot_eq, h1]
    have : σ * σ = 1 := by rcases hσ with rfl | rfl <;> simp
    refine Finset.sum_congr rfl fun n _ => ?_
    calc σ * fnL r1 n * (σ * fnL r1 n) = (σ * σ) * (fnL r1 n * fnL r1 n) := by ring
      _ = fnL r1 n * fnL r1 n := by rw [this, one_mul]

/-- **eigen-residual**: the residual vector `S·v − λ·v` of a sign-fixed row is `σ` times the
original residual with one global `σ = ±1`: zero residuals stay zero, magnitudes are unchanged -/
theorem fixSigns_residual (N M i : ℕ) (s : ℕ → K) (lam : K) (r : List K) :
    ∃ σ : K, (σ = 1 ∨ σ = -1) ∧
      ∀ m, kernelResidual M s lam (fnL (fixRow N i r)) m = σ * kernelResidual M s lam (fnL r) m := by
  obtain ⟨σ, hσ, h⟩ := fixRow_sign N i r
  refine ⟨σ, hσ, fun m => ?_⟩
  simp only [kernelResidual, h]
  rw [mul_sub, Finset.mul_sum]
  congr 1
  · exact Finset.sum_congr rfl fun n _ => by ring
  · ring

/-- **the concentration of a unit vector lies in [0, 1]** whenever the kernel's quadratic form is
between 0 and the identity's (`0 ≤ Sinc_W ≤ I` — HYPOTHESIS here; for the sinc kernel it is the
statement that a spectrum's energy in [−W, W] is between 0 and its total energy; not proved) -/
theorem concentration_unit_interval (N : ℕ) (v r s : ℕ → K) (h0 : r 0 = s 0)
    (hk : ∀ k, 1 ≤ k → r k = 2 * s k)
    (hpsd : 0 ≤ ∑ m ∈ Finset.range N, ∑ n ∈ Finset.range N, v m * v n * s (m - n + (n - m)))
    (hle : ∑ m ∈ Finset.range N, ∑ n ∈ Finset.range N, v m * v n * s (m - n + (n - m))
            ≤ ∑ m ∈ Finset.range N, v m * v m)
    (hunit : ∑ m ∈ Finset.range N, v m * v m = 1) :
    0 ≤ quadAutocorr N v r ∧ quadAutocorr N v r ≤ 1 := by
  rw [concentration_is_rayleigh N v r s h0 hk]
  exact ⟨hpsd, hunit ▸ hle⟩

end flipinv

/-! ### one step of inverse iteration -/
section invit
variable {K : Type} [Field K] [Inhabited K]

/-- **inverse iteration, one step**: let `y = tridisolve(d − μ, e, x)` (non-zero pivots).  For every
eigenpair `(λ, u)` of the symmetric tridiagonal operator, the coefficient of `y` along `u` is the
coefficient of `x` divided by `λ − μ`:  `(λ − μ)·⟨y, u⟩ = ⟨x, u⟩`.  With an orthonormal eigenbasis this
is the eigen-expansion `y = Σ_i c_i/(λ_i − μ)·u_i`; convergence of `tridi_inverse_iteration` then
follows from a spectral-gap certificate (|λ_k − μ| ≪ |λ_i − μ|, i ≠ k), checked per run. -/
theorem inverse_iteration_step (d e x : Array K) (mu lam : K) (u : ℕ → K)
    (hN : 1 ≤ x.size) (hd : x.size ≤ d.size) (he : x.size ≤ e.size + 1)
    (hp : ∀ k, k < x.size → get (pivots (d.map (· - mu)) e x) k ≠ 0)
    (heig : ∀ m, m < x.size → triOp (get d) (get e) x.size u m = lam * u m) :
    (lam - mu) * ∑ m ∈ Finset.range x.size, get (tridisolve (d.map (· - mu)) e x) m * u m
      = ∑ m ∈ Finset.range x.size, get x m * u m := by
  have hd' : x.size ≤ (d.map (· - mu)).size := by simpa using hd
  obtain ⟨_, hrow⟩ := tridisolve_solves (d.map (· - mu)) e x hN hd' he hp
  set y := tridisolve (d.map (· - mu)) e x with hy
  -- on the first N coordinates the shifted diagonal is `d − μ`
  have hget : ∀ m, m < x.size → get (d.map (· - mu)) m = get d m - mu := by
    intro m hm
    have : m < d.size := by omega
    simp [Tridi.get, Array.getD_eq_getD_getElem?, this]
  -- the operator only reads the diagonal at `m < N`
  have hop : ∀ m, m < x.size →
      triOp (get (d.map (· - mu))) (get e) x.size (get y) m
        = triOp (get d) (get e) x.size (get y) m - mu * get y m := by
    intro m hm
    unfold triOp; rw [hget m hm]; ring
  refine invit_coeff x.size (triOp (get d) (get e) x.size) mu lam (get x) (get y) u ?_
    (triOp_symm _ _ _ _ _) heig
  intro m hm
  rw [← hop m hm, ← mulRow_eq_triOp _ _ _ _ _ hm]
  exact hrow m hm

end invit

/-- non-vacuity: signs (rows with negative sums are flipped), selection, Rayleigh on a 3-vector -/
example : fixSigns 4 ([[-1, -2, -2, -1], [-1, -3, 3, 1], [1, 2, 2, 1]] : List (List Rat))
    = [[1, 2, 2, 1], [1, 3, -3, -1], [1, 2, 2, 1]] := by decide +kernel
example : lowBias (9/10 : Rat) [[1], [2], [3]] [1, 95/100, 1/2] = ([[1], [2]], [1, 95/100]) := by
  decide +kernel
example : quadAutocorr 3 (fun i => ([1, 2, 3] : List Rat).getD i 0) (fun k => ([5, 2, 4] : List Rat).getD k 0)
    = 70 + 16 + 12 := by decide +kernel

/-- non-vacuity: a 3×3 rational system with non-zero pivots, solved exactly -/
example : tridisolve (#[4, 5, 6] : Array Rat) #[1, 2, 0] #[1, 2, 3] = #[10/49, 9/49, 43/98] := by
  decide +kernel

end Nitime.C07.Props
