/-
C07 — property theorems (Slepian tapers; tridiagonal solver).  Statements only; the fold →
recurrence lemmas are in `Lemmas/TridiFold.lean`, the recurrence → `A·x = b` core in
`Lemmas/Tridiag.lean`.

PARTIAL BY DESIGN (DESIGN §7 C07): not proved here — that the tridiagonal matrix commutes with
the sinc kernel (Slepian), simplicity/ordering of its spectrum, convergence of the inverse
iteration, LAPACK's `eigvals_banded`.  Those clauses are decided per run by residual
certificates in the correspondence (harness/c07.py) and are reported as certificate checks.
-/
import Nitime.Model.C07
import Nitime.Generated.Tridi
import Nitime.Lemmas.TridiFold

namespace Nitime.C07.Props
open Nitime Nitime.Tridi Nitime.C07

/-! ### the solver -/

section generated
set_option linter.unusedSectionVars false
variable {K : Type} [Inhabited K] [Add K] [Sub K] [Mul K] [Div K]

/-- the loop bodies extracted from the CURRENT `_utils.pyx` are the model's -/
theorem generated_eq_model_pyx (d e b : Array K) :
    Generated.Tridi.solvePyx d e b = tridisolve d e b := rfl

/-- the loop bodies extracted from the CURRENT pure-Python fallback in `utils.py` are the model's -/
theorem generated_eq_model_py (d e b : Array K) :
    Generated.Tridi.solvePy d e b = tridisolve d e b := rfl

/-- both forms work on copies of `d`, `e` and touch `b` in place exactly when asked to -/
theorem generated_copies :
    Generated.Tridi.solvePyxCopies = (true, true, true) ∧
    Generated.Tridi.solvePyCopies = (true, true, true) := ⟨rfl, rfl⟩
end generated

section solves
variable {K : Type} [Field K] [Inhabited K]

/-- **the solver solves**: over any field, when the pivots the code divides by are non-zero,
the returned vector has the length of `b` and satisfies every row of `A·x = b`, `A` the
symmetric tridiagonal matrix with main diagonal `d` and off-diagonal `e[:-1]` -/
theorem tridisolve_solves (d e b : Array K) (hN : 1 ≤ b.size) (hd : b.size ≤ d.size)
    (he : b.size ≤ e.size + 1) (hp : ∀ k, k < b.size → get (pivots d e b) k ≠ 0) :
    (tridisolve d e b).size = b.size ∧
    ∀ i, i < b.size → mulRow d e (tridisolve d e b) b.size i = get b i := by
  obtain ⟨hsz, hsw⟩ := sweep_of_model d e b hN hd he hp
  refine ⟨hsz, fun i hi => ?_⟩
  unfold mulRow
  by_cases h1 : b.size = 1
  · rw [if_pos h1]
    have : i = 0 := by omega
    subst this
    have := _root_.Tridi.row_single (h1 ▸ hsw)
    exact this
  · rw [if_neg h1]
    by_cases h0 : i = 0
    · subst h0; rw [if_pos rfl]
      exact _root_.Tridi.row_first hsw (by omega)
    · rw [if_neg h0]
      obtain ⟨k, rfl⟩ : ∃ k, i = k + 1 := ⟨i - 1, by omega⟩
      by_cases hl : k + 1 + 1 = b.size
      · rw [if_pos hl]
        exact _root_.Tridi.row_last hsw (by omega)
      · rw [if_neg hl]
        exact _root_.Tridi.row_mid hsw (by omega)

/-- the same as an equation between arrays: `A · tridisolve(d, e, b) = b` -/
theorem tridisolve_mul_eq (d e b : Array K) (hN : 1 ≤ b.size) (hd : b.size ≤ d.size)
    (he : b.size ≤ e.size + 1) (hp : ∀ k, k < b.size → get (pivots d e b) k ≠ 0) :
    tridiagMul d e (tridisolve d e b) = b := by
  obtain ⟨hsz, hrow⟩ := tridisolve_solves d e b hN hd he hp
  apply Array.ext
  · simp [tridiagMul, hsz]
  · intro i h1 h2
    simp only [tridiagMul, Array.getElem_ofFn, hsz]
    rw [hrow i h2]
    simp [Tridi.get, Array.getD_eq_getD_getElem?, h2]

/-- uniqueness side: a vector with `A·x = b` row by row is the one returned, given the
solver's own output also satisfies the rows — stated as: two solutions of the recurrences agree
(the returned vector is determined by `d, e, b` alone; no dependence on `overwrite_b`) -/
theorem tridisolve_deterministic (d e b : Array K) :
    tridisolve d e b = (bwd b.size (lastDiv b.size (fwd b.size (elim b.size ⟨d, e, b⟩)))).x := rfl

end solves

/-- non-vacuity: a 3×3 rational system with non-zero pivots, solved exactly -/
example : tridisolve (#[4, 5, 6] : Array Rat) #[1, 2, 0] #[1, 2, 3] = #[10/49, 9/49, 43/98] := by
  decide +kernel

end Nitime.C07.Props
