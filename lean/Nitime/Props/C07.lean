/-
C07 — property theorems (Slepian tapers; tridiagonal solver).  Statements only; the fold →
recurrence lemmas are in `Lemmas/TridiFold.lean`, the recurrence → `A·x = b` core in
`Lemmas/Tridiag.lean`.

PROVED since the second build session (section `slepian` below): the tridiagonal matrix whose entries
are GENERATED from the current `dpss_windows` commutes with the sinc kernel (Slepian), its
eigenspaces are one-dimensional, hence each of its eigenvectors is an eigenvector of the
band-limiting operator; eigenvectors of different eigenvalues are orthogonal; the concentration
of a unit vector lies in [0, 1] (Fourier integral).
STILL PARTIAL (DESIGN §7 C07): not proved here — that inverse iteration converges to an
eigenvector of the tridiagonal matrix, the ORDER of the concentrations (largest tridiagonal
eigenvalue ↔ largest concentration), strictness of 0 < λ < 1, LAPACK's `eigvals_banded`.  Those
clauses are decided per run by residual certificates in the correspondence (harness/c07.py).
-/
import Nitime.Model.C07
import Nitime.Generated.Tridi
import Nitime.Lemmas.TridiFold
import Nitime.Lemmas.Dpss
import Nitime.Generated.Dpss
import Nitime.Lemmas.SlepianReal
import Nitime.Lemmas.C07Hist

set_option linter.unusedSectionVars false
namespace Nitime.C07.Props
open Nitime Nitime.Tridi Nitime.C07

/-! ### the solver -/

section generated
set_option linter.unusedSectionVars false
variable {K : Type} [Inhabited K] [Add K] [Sub K] [Mul K] [Div K]

/-- the loop bodies extracted from the CURRENT `_utils.pyx` are the model's -/
theorem generated_eq_model_pyx (d e b : Array K) :
    Generated.Tridi.solvePyx d e b = tridisolve d e b := rfl

/-- the loop bodies extracted from the CURRENT pure-Python fallback in `utils.py` are the model's -/
theorem generated_eq_model_py (d e b : Array K) :
    Generated.Tridi.solvePy d e b = tridisolve d e b := rfl

/-- both forms work on copies of `d`, `e` and touch `b` in place exactly when asked to -/
theorem generated_copies :
    Generated.Tridi.solvePyxCopies = (true, true, true) ∧
    Generated.Tridi.solvePyCopies = (true, true, true) := ⟨rfl, rfl⟩
end generated

section solves
variable {K : Type} [Field K] [Inhabited K]

/-- **the solver solves**: over any field, when the pivots the code divides by are non-zero,
the returned vector has the length of `b` and satisfies every row of `A·x = b`, `A` the
symmetric tridiagonal matrix with main diagonal `d` and off-diagonal `e[:-1]` -/
theorem tridisolve_solves (d e b : Array K) (hN : 1 ≤ b.size) (hd : b.size ≤ d.size)
    (he : b.size ≤ e.size + 1) (hp : ∀ k, k < b.size → get (pivots d e b) k ≠ 0) :
    (tridisolve d e b).size = b.size ∧
    ∀ i, i < b.size → mulRow d e (tridisolve d e b) b.size i = get b i := by
  obtain ⟨hsz, hsw⟩ := sweep_of_model d e b hN hd he hp
  refine ⟨hsz, fun i hi => ?_⟩
  unfold mulRow
  by_cases h1 : b.size = 1
  · rw [if_pos h1]
    have : i = 0 := by omega
    subst this
    have := _root_.Tridi.row_single (h1 ▸ hsw)
    exact this
  · rw [if_neg h1]
    by_cases h0 : i = 0
    · subst h0; rw [if_pos rfl]
      exact _root_.Tridi.row_first hsw (by omega)
    · rw [if_neg h0]
      obtain ⟨k, rfl⟩ : ∃ k, i = k + 1 := ⟨i - 1, by omega⟩
      by_cases hl : k + 1 + 1 = b.size
      · rw [if_pos hl]
        exact _root_.Tridi.row_last hsw (by omega)
      · rw [if_neg hl]
        exact _root_.Tridi.row_mid hsw (by omega)

/-- the same as an equation between arrays: `A · tridisolve(d, e, b) = b` -/
theorem tridisolve_mul_eq (d e b : Array K) (hN : 1 ≤ b.size) (hd : b.size ≤ d.size)
    (he : b.size ≤ e.size + 1) (hp : ∀ k, k < b.size → get (pivots d e b) k ≠ 0) :
    tridiagMul d e (tridisolve d e b) = b := by
  obtain ⟨hsz, hrow⟩ := tridisolve_solves d e b hN hd he hp
  apply Array.ext
  · simp [tridiagMul, hsz]
  · intro i h1 h2
    simp only [tridiagMul, Array.getElem_ofFn, hsz]
    rw [hrow i h2]
    simp [Tridi.get, Array.getD_eq_getD_getElem?, h2]

/-- uniqueness side: a vector with `A·x = b` row by row is the one returned, given the
solver's own output also satisfies the rows — stated as: two solutions of the recurrences agree
(the returned vector is determined by `d, e, b` alone; no dependence on `overwrite_b`) -/
theorem tridisolve_deterministic (d e b : Array K) :
    tridisolve d e b = (bwd b.size (lastDiv b.size (fwd b.size (elim b.size ⟨d, e, b⟩)))).x := rfl

end solves

/-! ### sign convention -/
section signs
variable {K : Type} [Field K] [LinearOrder K] [IsStrictOrderedRing K]

/-- every row of the output is the input row or its negative (so norms, orthogonality and
eigen-residual magnitudes are untouched), and the number of rows is unchanged -/
theorem fixSigns_pm (N : ℕ) (rows : List (List K)) :
    (fixSigns N rows).length = rows.length ∧
    ∀ i (h : i < rows.length), ∃ h' : i < (fixSigns N rows).length,
      (fixSigns N rows)[i] = rows[i] ∨ (fixSigns N rows)[i] = negRow rows[i] := by
  refine ⟨by simp [fixSigns], fun i h => ⟨by simp [fixSigns, h], ?_⟩⟩
  simp only [fixSigns, List.getElem_mapIdx, fixRow, fixEven, fixOdd]
  split_ifs <;> simp

/-- flipping a row changes neither its energy nor (up to sign) its inner products -/
theorem fixSigns_norm (N i : ℕ) (r : List K) : sumSq (fixRow N i r) = sumSq r := by
  simp only [fixRow, fixEven, fixOdd]
  split_ifs <;> simp [sumSq_negRow]

/-- the convention the code enforces: even-order rows end with a non-negative sum; odd-order rows
with a non-negative slope sum up to the first (largest) extremum of the first half.  (When that
extremum is the first sample the slope sum is empty and the rule decides nothing.) -/
theorem fixSigns_convention (N i : ℕ) (r : List K) :
    (i % 2 = 0 → 0 ≤ sumList (fixRow N i r)) ∧
    (i % 2 ≠ 0 → 0 ≤ sumList ((fixRow N i r).take (peak N (fixRow N i r)))) := by
  constructor
  · intro hi
    simp only [fixRow, hi, if_true, fixEven]
    split_ifs with h
    · rw [sumList_negRow]; linarith
    · exact not_lt.1 h
  · intro hi
    simp only [fixRow, hi, if_false, fixOdd]
    split_ifs with h
    · rw [peak_negRow, take_negRow, sumList_negRow]; linarith
    · exact not_lt.1 h

/-- the convention is a fixed point: applying it twice changes nothing -/
theorem fixSigns_idem (N i : ℕ) (r : List K) : fixRow N i (fixRow N i r) = fixRow N i r := by
  have hc := fixSigns_convention N i r
  by_cases hi : i % 2 = 0
  · have := hc.1 hi
    simp only [fixRow, hi, if_true] at this ⊢
    rw [fixEven, if_neg (not_lt.2 this)]
  · have := hc.2 hi
    simp only [fixRow, hi, if_false] at this ⊢
    rw [fixOdd, if_neg (not_lt.2 this)]

end signs

/-! ### concentration, rescaling, low-bias selection -/
section conc
variable {K : Type} [Field K]

/-- **the returned concentration is the Rayleigh quotient numerator** `vᵀ·S·v` of the Toeplitz
kernel `S[m,n] = s(|m−n|)` whenever `r[0] = s(0)` and `r[k] = 2·s(k)` — which is how the code
builds `r` from the sinc kernel (`r[0] = 2W`, `r[k] = 4W·sinc(2Wk) = 2·sin(2πWk)/(πk)`).
For a unit-norm `v` this is the Rayleigh quotient itself. -/
theorem concentration_is_rayleigh (N : ℕ) (v r s : ℕ → K) (h0 : r 0 = s 0)
    (hk : ∀ k, 1 ≤ k → r k = 2 * s k) :
    quadAutocorr N v r = ∑ m ∈ Finset.range N, ∑ n ∈ Finset.range N, v m * v n * s (m - n + (n - m)) := by
  unfold quadAutocorr autocorrN
  rw [sumN_eq]
  simp_rw [sumN_eq]
  exact quad_reindex v r s h0 hk N

/-- rescaling by a square root of the energy gives unit energy -/
theorem interpRescale_unit (s : K) (l : List K) (hs : s * s = sumSq l) (h0 : s ≠ 0) :
    sumSq (rescale s l) = 1 := by
  have key : ∀ l : List K, sumSq (rescale s l) = sumSq l / (s * s) := by
    intro l
    unfold sumSq rescale
    rw [sumList_eq, sumList_eq, List.map_map]
    induction l with
    | nil => simp
    | cons a t ih =>
      simp only [List.map_cons, List.sum_cons, Function.comp] at ih ⊢
      rw [ih]; field_simp
  rw [key, ← hs]; field_simp

end conc

section lowbias
variable {K : Type} [LT K] [DecidableLT K]

/-- `low_bias`: exactly the (taper, concentration) pairs with concentration above the threshold
are kept, in their original order, and tapers stay aligned with their concentrations -/
theorem lowBias_spec (thr : K) (tapers : List (List K)) (eig : List K) :
    let kept := (tapers.zip eig).filter fun p => thr < p.2
    lowBias thr tapers eig = (kept.map (·.1), kept.map (·.2)) ∧
    kept.Sublist (tapers.zip eig) ∧
    (∀ p, p ∈ kept ↔ p ∈ tapers.zip eig ∧ thr < p.2) ∧
    (∀ l ∈ (lowBias thr tapers eig).2, thr < l) := by
  refine ⟨rfl, List.filter_sublist, fun p => by simp [List.mem_filter], ?_⟩
  intro l hl
  simp only [lowBias, List.mem_map, List.mem_filter] at hl
  obtain ⟨p, ⟨_, hp⟩, rfl⟩ := hl
  simpa using hp

end lowbias

/-! ### sign flips do not touch orthonormality or eigen-residuals -/
section flipinv
variable {K : Type} [Field K] [LinearOrder K] [IsStrictOrderedRing K]

/-- a fixed row is `σ·row` with `σ = ±1`, as index functions -/
theorem fixRow_sign (N i : ℕ) (r : List K) :
    ∃ σ : K, (σ = 1 ∨ σ = -1) ∧ ∀ m, fnL (fixRow N i r) m = σ * fnL r m := by
  simp only [fixRow, fixEven, fixOdd]
  split_ifs
  · exact ⟨-1, .inr rfl, fun m => by rw [fnL_negRow]; ring⟩
  · exact ⟨1, .inl rfl, fun m => by ring⟩
  · exact ⟨-1, .inr rfl, fun m => by rw [fnL_negRow]; ring⟩
  · exact ⟨1, .inl rfl, fun m => by ring⟩

/-- **Gram matrix**: every entry of the Gram matrix of the sign-fixed rows is `±` the entry of the
original rows, and the diagonal is unchanged — orthonormal rows stay orthonormal -/
theorem fixSigns_gram (N M i j : ℕ) (r1 r2 : List K) :
    (∃ σ : K, (σ = 1 ∨ σ = -1) ∧
      dot M (fnL (fixRow N i r1)) (fnL (fixRow N j r2)) = σ * dot M (fnL r1) (fnL r2)) ∧
    dot M (fnL (fixRow N i r1)) (fnL (fixRow N i r1)) = dot M (fnL r1) (fnL r1) := by
  obtain ⟨σ, hσ, h1⟩ := fixRow_sign N i r1
  obtain ⟨τ, hτ, h2⟩ := fixRow_sign N j r2
  refine ⟨⟨σ * τ, ?_, ?_⟩, ?_⟩
  · rcases hσ with rfl | rfl <;> rcases hτ with rfl | rfl <;> simp
  · simp only [dot_eq, h1, h2, Finset.mul_sum]
    exact Finset.sum_congr rfl fun n _ => by ring
  · simp only [dot_eq, h1]
    have : σ * σ = 1 := by rcases hσ with rfl | rfl <;> simp
    refine Finset.sum_congr rfl fun n _ => ?_
    calc σ * fnL r1 n * (σ * fnL r1 n) = (σ * σ) * (fnL r1 n * fnL r1 n) := by ring
      _ = fnL r1 n * fnL r1 n := by rw [this, one_mul]

/-- **eigen-residual**: the residual vector `S·v − λ·v` of a sign-fixed row is `σ` times the
original residual with one global `σ = ±1`: zero residuals stay zero, magnitudes are unchanged -/
theorem fixSigns_residual (N M i : ℕ) (s : ℕ → K) (lam : K) (r : List K) :
    ∃ σ : K, (σ = 1 ∨ σ = -1) ∧
      ∀ m, kernelResidual M s lam (fnL (fixRow N i r)) m = σ * kernelResidual M s lam (fnL r) m := by
  obtain ⟨σ, hσ, h⟩ := fixRow_sign N i r
  refine ⟨σ, hσ, fun m => ?_⟩
  simp only [kernelResidual, h]
  rw [mul_sub, Finset.mul_sum]
  congr 1
  · exact Finset.sum_congr rfl fun n _ => by ring
  · ring

/-- **the concentration of a unit vector lies in [0, 1]** whenever the kernel's quadratic form is
between 0 and the identity's (`0 ≤ Sinc_W ≤ I` — HYPOTHESIS here; for the sinc kernel it is the
statement that a spectrum's energy in [−W, W] is between 0 and its total energy; not proved) -/
theorem concentration_unit_interval (N : ℕ) (v r s : ℕ → K) (h0 : r 0 = s 0)
    (hk : ∀ k, 1 ≤ k → r k = 2 * s k)
    (hpsd : 0 ≤ ∑ m ∈ Finset.range N, ∑ n ∈ Finset.range N, v m * v n * s (m - n + (n - m)))
    (hle : ∑ m ∈ Finset.range N, ∑ n ∈ Finset.range N, v m * v n * s (m - n + (n - m))
            ≤ ∑ m ∈ Finset.range N, v m * v m)
    (hunit : ∑ m ∈ Finset.range N, v m * v m = 1) :
    0 ≤ quadAutocorr N v r ∧ quadAutocorr N v r ≤ 1 := by
  rw [concentration_is_rayleigh N v r s h0 hk]
  exact ⟨hpsd, hunit ▸ hle⟩

end flipinv

/-! ### one step of inverse iteration -/
section invit
variable {K : Type} [Field K] [Inhabited K]

/-- **inverse iteration, one step**: let `y = tridisolve(d − μ, e, x)` (non-zero pivots).  For every
eigenpair `(λ, u)` of the symmetric tridiagonal operator, the coefficient of `y` along `u` is the
coefficient of `x` divided by `λ − μ`:  `(λ − μ)·⟨y, u⟩ = ⟨x, u⟩`.  With an orthonormal eigenbasis this
is the eigen-expansion `y = Σ_i c_i/(λ_i − μ)·u_i`; convergence of `tridi_inverse_iteration` then
follows from a spectral-gap certificate (|λ_k − μ| ≪ |λ_i − μ|, i ≠ k), checked per run. -/
theorem inverse_iteration_step (d e x : Array K) (mu lam : K) (u : ℕ → K)
    (hN : 1 ≤ x.size) (hd : x.size ≤ d.size) (he : x.size ≤ e.size + 1)
    (hp : ∀ k, k < x.size → get (pivots (d.map (· - mu)) e x) k ≠ 0)
    (heig : ∀ m, m < x.size → triOp (get d) (get e) x.size u m = lam * u m) :
    (lam - mu) * ∑ m ∈ Finset.range x.size, get (tridisolve (d.map (· - mu)) e x) m * u m
      = ∑ m ∈ Finset.range x.size, get x m * u m := by
  have hd' : x.size ≤ (d.map (· - mu)).size := by simpa using hd
  obtain ⟨_, hrow⟩ := tridisolve_solves (d.map (· - mu)) e x hN hd' he hp
  set y := tridisolve (d.map (· - mu)) e x with hy
  -- on the first N coordinates the shifted diagonal is `d − μ`
  have hget : ∀ m, m < x.size → get (d.map (· - mu)) m = get d m - mu := by
    intro m hm
    have : m < d.size := by omega
    simp [Tridi.get, Array.getD_eq_getD_getElem?, this]
  -- the operator only reads the diagonal at `m < N`
  have hop : ∀ m, m < x.size →
      triOp (get (d.map (· - mu))) (get e) x.size (get y) m
        = triOp (get d) (get e) x.size (get y) m - mu * get y m := by
    intro m hm
    unfold triOp; rw [hget m hm]; ring
  refine invit_coeff x.size (triOp (get d) (get e) x.size) mu lam (get x) (get y) u ?_
    (triOp_symm _ _ _ _ _) heig
  intro m hm
  rw [← hop m hm, ← mulRow_eq_triOp _ _ _ _ _ hm]
  exact hrow m hm

end invit

/-- non-vacuity: signs (rows with negative sums are flipped), selection, Rayleigh on a 3-vector -/
example : fixSigns 4 ([[-1, -2, -2, -1], [-1, -3, 3, 1], [1, 2, 2, 1]] : List (List Rat))
    = [[1, 2, 2, 1], [1, 3, -3, -1], [1, 2, 2, 1]] := by decide +kernel
example : lowBias (9/10 : Rat) [[1], [2], [3]] [1, 95/100, 1/2] = ([[1], [2]], [1, 95/100]) := by
  decide +kernel
example : quadAutocorr 3 (fun i => ([1, 2, 3] : List Rat).getD i 0) (fun k => ([5, 2, 4] : List Rat).getD k 0)
    = 70 + 16 + 12 := by decide +kernel

/-- non-vacuity: a 3×3 rational system with non-zero pivots, solved exactly -/
example : tridisolve (#[4, 5, 6] : Array Rat) #[1, 2, 0] #[1, 2, 3] = #[10/49, 9/49, 43/98] := by
  decide +kernel

/-! ### Slepian: the tridiagonal matrix the code builds and the band-limiting operator -/
section slepian
open Finset Real

/-- the matrix entries extracted from the CURRENT `dpss_windows` source are Slepian's:
`diagonal[n] = ((N-1-2n)/2)²·cos(2πW)`, `off_diag[n] = (n+1)(N-1-n)/2` -/
theorem generated_matrix_is_slepian {K : Type} [Field K] (N n : ℕ) (cw : K) :
    Generated.Dpss.diagGen (N : K) (n : K) cw = slepD N cw n ∧
    Generated.Dpss.offGen (N : K) ((n : K) + 1) = slepE N n := by
  unfold Generated.Dpss.diagGen Generated.Dpss.offGen slepD slepE
  constructor <;> (push_cast; ring)

/-- how the CURRENT source wires the pieces together: `W = NW/N`, `nidx = arange(N)`, the
diagonals go to LAPACK's banded storage as they are, the `Kmax` largest eigenvalues are selected
and reversed (largest first), and inverse iteration is run on `(diagonal, off_diag, w[k])` -/
theorem generated_structure :
    Generated.Dpss.wIsNWoverN = true ∧ Generated.Dpss.nidxIsArange = true ∧
    Generated.Dpss.bandedStorage = true ∧ Generated.Dpss.selectsTopKmax = true ∧
    Generated.Dpss.reversesEigs = true ∧ Generated.Dpss.inverseIterationArgs = true := by decide

/-- numpy's normalised sinc -/
noncomputable def npSincR (x : ℝ) : ℝ := if x = 0 then 1 else Real.sin (π * x) / (π * x)

/-- the autocorrelation weights extracted from the CURRENT source are `r[0] = s(0)`, `r[k] = 2·s(k)`
for the sinc kernel `s(k) = sin(2πWk)/(πk)`, `s(0) = 2W` — the hypotheses of
`concentration_is_rayleigh` -/
theorem generated_r_is_twice_sinc (W : ℝ) (hW : W ≠ 0) :
    Generated.Dpss.r0Gen W = sincK W 0 ∧
    ∀ k : ℕ, 1 ≤ k → Generated.Dpss.rGen W (k : ℝ) npSincR = 2 * sincK W (k : ℤ) := by
  refine ⟨by simp [Generated.Dpss.r0Gen, sincK], fun k hk => ?_⟩
  have hk0 : (k : ℝ) ≠ 0 := by exact_mod_cast (by omega : k ≠ 0)
  have hkz : ((k : ℕ) : ℤ) ≠ 0 := by exact_mod_cast (by omega : k ≠ 0)
  have hx : (2 : ℝ) * W * k ≠ 0 := by positivity
  unfold Generated.Dpss.rGen npSincR sincK
  push_cast
  rw [if_neg hx, if_neg hkz]
  have hpi := Real.pi_ne_zero
  have e : π * (2 * W * (k : ℝ)) = 2 * π * W * ((k : ℤ) : ℝ) := by push_cast; ring
  rw [e]; push_cast
  field_simp
  ring

/-- **Slepian's commutation theorem for the generated matrix**: for every `N`, `W`, vector `v` and
row `m < N`, `T·(S·v) = S·(T·v)`, `T` the tridiagonal matrix of the current source, `S` the sinc
kernel (band-limiting) operator. -/
theorem dpss_matrix_commutes_with_sinc (N : ℕ) (W : ℝ) (v : ℕ → ℝ) (m : ℕ) (hm : m < N) :
    let D := fun n : ℕ => Generated.Dpss.diagGen (N : ℝ) (n : ℝ) (Real.cos (2 * π * W))
    let E := fun n : ℕ => Generated.Dpss.offGen (N : ℝ) ((n : ℝ) + 1)
    triOp D E N (kerOp (sincK W) N v) m = kerOp (sincK W) N (triOp D E N v) m := by
  intro D E
  have hD : D = slepD N (Real.cos (2 * π * W)) := funext fun n => (generated_matrix_is_slepian N n _).1
  have hE : E = slepE N := funext fun n => (generated_matrix_is_slepian (K := ℝ) N n 0).2
  rw [hD, hE]
  exact slepian_commute_real N W v m hm

/-- **taper ⇒ eigenvector of the band-limiting operator**: any non-zero eigenvector of the
tridiagonal matrix the code builds (which is what inverse iteration converges to) is an eigenvector
of the sinc-kernel operator — for every `N` and `W`. -/
theorem taper_is_sinc_eigvec (N : ℕ) (W lam : ℝ) (u : ℕ → ℝ)
    (hu : ∀ m, m < N →
      triOp (fun n : ℕ => Generated.Dpss.diagGen (N : ℝ) (n : ℝ) (Real.cos (2 * π * W)))
        (fun n : ℕ => Generated.Dpss.offGen (N : ℝ) ((n : ℝ) + 1)) N u m = lam * u m)
    (hne : ∃ m, m < N ∧ u m ≠ 0) :
    ∃ mu : ℝ, ∀ m, m < N → kerOp (sincK W) N u m = mu * u m := by
  have hD : (fun n : ℕ => Generated.Dpss.diagGen (N : ℝ) (n : ℝ) (Real.cos (2 * π * W)))
      = slepD N (Real.cos (2 * π * W)) := funext fun n => (generated_matrix_is_slepian N n _).1
  have hE : (fun n : ℕ => Generated.Dpss.offGen (N : ℝ) ((n : ℝ) + 1)) = slepE N :=
    funext fun n => (generated_matrix_is_slepian (K := ℝ) N n 0).2
  rw [hD, hE] at hu
  exact tri_eigvec_is_sinc_eigvec N W lam u hu hne

/-- **the spectrum of the generated matrix is simple**: two eigenvectors for one eigenvalue are
proportional, so `Kmax` different tapers belong to `Kmax` different eigenvalues -/
theorem taper_eigenspace_one_dim (N : ℕ) (W lam : ℝ) (u w : ℕ → ℝ)
    (hu : ∀ m, m < N → triOp (slepD N (Real.cos (2 * π * W))) (slepE N) N u m = lam * u m)
    (hw : ∀ m, m < N → triOp (slepD N (Real.cos (2 * π * W))) (slepE N) N w m = lam * w m)
    (hne : ∃ m, m < N ∧ u m ≠ 0) :
    ∀ m, m < N → w m = (w 0 / u 0) * u m :=
  tri_eigvec_unique _ _ N (fun j hj => slepE_ne_zero N j hj) lam u w hu hw
    (tri_eigvec_first_ne _ _ N (fun j hj => slepE_ne_zero N j hj) lam u hu hne)

/-- **tapers of different orders are orthogonal** (eigenvectors of the symmetric tridiagonal matrix
for different eigenvalues) -/
theorem tapers_orthogonal (N : ℕ) (W lam mu : ℝ) (u w : ℕ → ℝ)
    (hu : ∀ m, m < N → triOp (slepD N (Real.cos (2 * π * W))) (slepE N) N u m = lam * u m)
    (hw : ∀ m, m < N → triOp (slepD N (Real.cos (2 * π * W))) (slepE N) N w m = mu * w m)
    (hne : lam ≠ mu) : ∑ m ∈ range N, u m * w m = 0 :=
  tri_eigvec_orthogonal _ _ N lam mu u w hu hw hne

/-- **the concentration of a unit vector lies in [0, 1]** — now without hypotheses on the kernel: the
number `dpss_windows` reports (`autocorr·N` dotted with the generated `r`) is the energy of the
taper's spectrum inside [−W, W], for every `N` and every `0 < W ≤ 1/2` -/
theorem concentration_in_unit_interval (N : ℕ) (W : ℝ) (hW : 0 < W) (hW2 : W ≤ 1 / 2) (v : ℕ → ℝ)
    (hunit : ∑ m ∈ range N, v m * v m = 1) :
    let r : ℕ → ℝ := fun k => if k = 0 then Generated.Dpss.r0Gen W else Generated.Dpss.rGen W (k : ℝ) npSincR
    0 ≤ quadAutocorr N v r ∧ quadAutocorr N v r ≤ 1 := by
  intro r
  obtain ⟨h0, hk⟩ := generated_r_is_twice_sinc W hW.ne'
  have hr0 : r 0 = (fun k : ℕ => sincK W (k : ℤ)) 0 := by simp [r, h0]
  have hrk : ∀ k, 1 ≤ k → r k = 2 * (fun k : ℕ => sincK W (k : ℤ)) k := by
    intro k hk1
    have : k ≠ 0 := by omega
    simp only [r, if_neg this]
    exact hk k hk1
  rw [concentration_is_rayleigh N v r (fun k : ℕ => sincK W (k : ℤ)) hr0 hrk]
  have hq : ∑ m ∈ range N, ∑ n ∈ range N, v m * v n * sincK W (((m - n + (n - m) : ℕ)) : ℤ)
      = sincQuad W N v := by
    unfold sincQuad
    refine Finset.sum_congr rfl fun m _ => Finset.sum_congr rfl fun n _ => ?_
    congr 1
    rcases Nat.le_total m n with h | h
    · have : ((m - n + (n - m) : ℕ) : ℤ) = -((m : ℤ) - (n : ℤ)) := by omega
      rw [this, sincK_even]
    · have : ((m - n + (n - m) : ℕ) : ℤ) = (m : ℤ) - (n : ℤ) := by omega
      rw [this]
  rw [hq]
  exact ⟨sincQuad_nonneg W hW.le N v, hunit ▸ sincQuad_le W hW.le hW2 N v⟩

/-- non-vacuity: N = 2 — the generated matrix is [[c/4, 1/2], [1/2, c/4]], its eigenvector (1, 1)
is an eigenvector of the 2×2 sinc matrix -/
example (W : ℝ) : ∃ mu : ℝ, ∀ m, m < 2 → kerOp (sincK W) 2 (fun _ => 1) m = mu * 1 := by
  refine taper_is_sinc_eigvec 2 W (Real.cos (2 * π * W) / 4 + 1 / 2) (fun _ => 1) ?_ ⟨0, by norm_num, by norm_num⟩
  intro m hm
  have : m = 0 ∨ m = 1 := by omega
  rcases this with rfl | rfl <;>
    simp [triOp, Generated.Dpss.diagGen, Generated.Dpss.offGen] <;> ring

end slepian

/-! ### interpolated tapers: unit norm for EVERY `interp_kind` (was a per-run certificate) -/
section interpkinds

/-- whatever `interp1d(kind=…)` returned (`y`, any kind: linear, nearest, zero, slinear, quadratic, cubic, spline order),
as long as it is not identically zero, the row the code hands out — `y / sqrt(sum(y**2))`, then possibly multiplied
by −1 by the sign convention — has unit energy.  (`interpRescale_unit` with its two hypotheses discharged over ℝ.) -/
theorem interpolated_unit_norm_all_kinds (y : List ℝ) (hy : ∃ x ∈ y, x ≠ 0) :
    sumSq (rescale (Real.sqrt (sumSq y)) y) = 1 ∧
    sumSq ((rescale (Real.sqrt (sumSq y)) y).map fun x => -x) = 1 := by
  have hnn : ∀ l : List ℝ, 0 ≤ sumSq l := by
    intro l; unfold sumSq; rw [sumList_eq]
    exact List.sum_nonneg (by intro x hx; obtain ⟨a, _, rfl⟩ := List.mem_map.1 hx; exact mul_self_nonneg a)
  have hpos : 0 < sumSq y := by
    obtain ⟨x, hx, hx0⟩ := hy
    unfold sumSq; rw [sumList_eq]
    have hmem : x * x ∈ y.map fun x => x * x := List.mem_map.2 ⟨x, hx, rfl⟩
    have hle : x * x ≤ (y.map fun x => x * x).sum :=
      List.single_le_sum (by intro z hz; obtain ⟨a, _, rfl⟩ := List.mem_map.1 hz; exact mul_self_nonneg a) _ hmem
    exact lt_of_lt_of_le (mul_self_pos.2 hx0) hle
  have h1 := interpRescale_unit (Real.sqrt (sumSq y)) y (Real.mul_self_sqrt hpos.le) (Real.sqrt_ne_zero'.2 hpos)
  refine ⟨h1, ?_⟩
  rw [← h1]
  unfold sumSq
  rw [List.map_map]
  congr 1
  apply List.map_congr_left
  intro a _
  simp

/-- non-vacuity -/
example : sumSq (rescale (Real.sqrt (sumSq [3, 4])) ([3, 4] : List ℝ)) = 1 :=
  (interpolated_unit_norm_all_kinds [3, 4] ⟨3, by simp, by norm_num⟩).1

end interpkinds

/-! ### call histories of `dpss_windows`: a result memo in front of a pure function (object model `Model/C07Hist.lean`) -/
section histories
open Nitime.C07.Hist

/-- **lookup = recompute for every history iff the key determines all arguments the result depends on** (memo with ANY
key function, lookup guard, store guard and serve function, handing out copies; histories of requests, evictions and
callers overwriting what they were handed) -/
theorem memo_lookup_eq_recompute_iff {A R Key : Type} [DecidableEq Key] (D : Discipline A R Key) (f : A → R)
    (hal : D.alias = false) :
    (∀ h : List (Ev A R Key), run D f Store.empty h = h.map (expected f)) ↔ Det D f :=
  memo_correct_iff D f hal

/-- today's `dpss_windows` (nothing filed): every request of every history gets the recomputed value -/
theorem dpss_today_history_independent (f : Req → List Row) (h : List (Ev Req (List Row) Req)) :
    run today f Store.empty h = h.map (expected f) := today_history_independent f h

theorem dpss_memo_full_key_correct (f : Req → List Row) (h : List (Ev Req (List Row) Req)) :
    run full f Store.empty h = h.map (expected f) := full_key_correct f h

/-- key (N, NW, Kmax), lookup at the top, store at the common exit: interpolated request, then the plain one -/
theorem dpss_memo_key_forgets_interp_counterexample (f : Req → List Row) (a b : Req)
    (hN : a.N = b.N) (hW : a.NW = b.NW) (hK : a.K = b.K) (hne : f a ≠ f b) :
    run nnwk f Store.empty [Ev.call a, Ev.call b]
      ≠ ([Ev.call a, Ev.call b] : List (Ev Req (List Row) (Nat × Nat × Nat))).map (expected f) :=
  nnwk_counterexample f a b hN hW hK hne

/-- the same key with the lookup guarded by `interp_from is None` but the store in the shared tail -/
theorem dpss_memo_unguarded_store_counterexample (f : Req → List Row) (a b : Req)
    (hN : a.N = b.N) (hW : a.NW = b.NW) (hK : a.K = b.K) (hb : b.M = 0) (hne : f a ≠ f b) :
    run nnwk9 f Store.empty [Ev.call a, Ev.call b]
      ≠ ([Ev.call a, Ev.call b] : List (Ev Req (List Row) (Nat × Nat × Nat))).map (expected f) :=
  nnwk9_counterexample f a b hN hW hK hb hne

/-- … repaired by guarding the store as well -/
theorem dpss_memo_guarded_store_correct (f : Req → List Row)
    (hf : ∀ a b : Req, a.N = b.N → a.NW = b.NW → a.K = b.K → a.M = 0 → b.M = 0 → f a = f b)
    (h : List (Ev Req (List Row) (Nat × Nat × Nat))) :
    run { nnwk9 with guardS := fun a => a.M == 0 } f Store.empty h = h.map (expected f) :=
  nnwk_guarded_correct f hf h

/-- a memo that serves the first K rows of a larger filed set is correct with copies … -/
theorem dpss_memo_prefix_copy_correct (f : Req → List Row) (hlen : ∀ a, (f a).length = a.K)
    (hpre : ∀ a b : Req, a.N = b.N → a.NW = b.NW → a.M = b.M → a.kind = b.kind → b.K ≤ a.K → (f a).take b.K = f b)
    (h : List (Ev Req (List Row) (Nat × Nat × Nat × Nat))) :
    run prefixCopy f Store.empty h = h.map (expected f) := prefix_copy_correct f hlen hpre h

/-- … and wrong when the miss hands out the filed buffers themselves -/
theorem dpss_memo_alias_on_miss_counterexample (f : Req → List Row) (a : Req) (r' : List Row)
    (hlen : r'.length = a.K) (hne : r' ≠ f a) :
    run prefix7 f Store.empty [Ev.call a, Ev.scribble (prefix7.key a) r', Ev.call a]
      ≠ ([Ev.call a, Ev.scribble (prefix7.key a) r', Ev.call a] : List (Ev Req (List Row) (Nat × Nat × Nat × Nat))).map (expected f) :=
  prefix7_counterexample f a r' hlen hne

/-- non-vacuity: the symbolic result function the driver runs satisfies the prefix hypotheses -/
example (h : List (Ev Req (List Row) (Nat × Nat × Nat × Nat))) :
    run prefixCopy symbolic Store.empty h = h.map (expected symbolic) := by
  refine dpss_memo_prefix_copy_correct symbolic (by intro a; simp [symbolic]) ?_ h
  intro a b hN hW hM hk hle
  simp only [symbolic, ← List.map_take, List.take_range, Nat.min_eq_left hle, hN, hW, hM, hk]

end histories

end Nitime.C07.Props
