/-
C06 (round 4, class L9) — the one-sided multitaper cross-spectral matrix assembled in blocks of `b` frequencies.
`mtm_cross_spectrum` doubles `sf[1:Fl]`; an implementation that walks the retained bins in consecutive blocks (all pairs
at once, work arrays of `b` bins) returns the same matrix iff each block doubles its local range offset by the block
start (`C04.Props.fold_blockwise_eq`); here: the model's one-sided `mtmCross` / `multiTaperCsdOf` ARE the block-wise
assembly with the offset bound, for every block size, every weights (fixed or adaptive), every scalar type.
-/
import Nitime.Props.C04Block
import Nitime.Model.C06

namespace Nitime.C06.Props
open Nitime.Num Nitime.C04 Nitime.C04.Props Nitime.Generated.SpecIdx

section generic
variable {R K : Type} [RScalar R] [CScalar R K] [RSqrt R]

/-- the doubling of `mtm_cross_spectrum` is the un-blocked fold of its two-sided output -/
theorem mtmCross_onesided_is_fold (N T : ℕ) (wx wy : ℕ → ℕ → R) (X Y : ℕ → ℕ → K) (k : ℕ) :
    mtmCross N true T wx wy X Y k = foldWith (kscale (ofNat 2)) N (mtmCross N false T wx wy X Y) k := by
  unfold foldWith
  simp only [mtmCross, dblIf, mtm_Fl, Bool.false_eq_true, false_and, if_false, true_and]
  by_cases h0 : k = 0
  · simp [h0]
  · by_cases h1 : k < (N + 1) / 2
    · have : 1 ≤ k ∧ k < (N + 1) / 2 := ⟨by omega, h1⟩
      simp only [h0, h1, this, and_self, if_true, if_false]
    · simp only [h0, h1, and_false, if_false]

/-- … hence the block-wise assembly with the lower bound offset by the block start, for every block size `b` -/
theorem mtmCross_onesided_blockwise (N b T : ℕ) (wx wy : ℕ → ℕ → R) (X Y : ℕ → ℕ → K) (k : ℕ) :
    mtmCross N true T wx wy X Y k = blockFoldLo (kscale (ofNat 2)) N b loOffset (mtmCross N false T wx wy X Y) k := by
  rw [fold_blockwise_offset, mtmCross_onesided_is_fold]

/-- the whole one-sided matrix (all pairs) is the completed block-wise assembly of the two-sided pair spectra -/
theorem multiTaperCsd_onesided_blockwise (b : ℕ) (Fs : R) (N T : ℕ) (w : ℕ → ℕ → ℕ → R) (Y : ℕ → ℕ → ℕ → K) (i j k : ℕ) :
    multiTaperCsdOf Fs N true T w Y i j k =
      kscale (ofNat 1 / Fs) (completeHermitian (lowerPairs fun i j k =>
        blockFoldLo (kscale (ofNat 2)) N b loOffset (mtmCross N false T (w i) (w j) (Y i) (Y j)) k) i j k) := by
  unfold multiTaperCsdOf
  simp only [mtmCross_onesided_blockwise N b]

end generic

end Nitime.C06.Props
