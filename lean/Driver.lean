def main : IO Unit := IO.println "placeholder"
