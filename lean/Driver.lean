/-
Line-protocol driver: one operation per input line, one result per output line.
`<property id> <op> <args…>`; imports core-only model modules so it links as a native exe.
-/
import Nitime.Model.Registry

partial def loop (h : IO.FS.Stream) (out : IO.FS.Stream) : IO Unit := do
  let line ← h.getLine
  if line.isEmpty then return ()
  let toks := (line.trimAscii.toString.splitOn " ").filter (· ≠ "")
  out.putStrLn (Nitime.dispatch toks)
  loop h out

def main : IO Unit := do
  let out ← IO.getStdout
  loop (← IO.getStdin) out
  out.flush
