"""C15 round 5 (wave 8): two classes.

* L1 across RUNS — `concat_dtype_*`: "concatenating runs equals concatenating the data in time" for runs whose dtypes DIFFER
  (int16 / int32 / uint8 / float32 / float64 / complex64 / complex128, every ordered pair over the quick seeds, narrow
  first and wide first), 2-4 runs, 1-d / 2-d, different lengths, different t0.  Expectation = np.concatenate of the
  float64 / complex128 EMBEDDINGS of the stored samples (exact), so a block allocated with the first run's dtype shows
  as lost fractions / single-precision rounding / dropped imaginary parts.  Real-valued combinations also go to the Lean
  model (`C15 concat ...`, the existing `concatData`); complex ones are oracle only.  Also through
  `time_series_from_file` with 2-3 files whose STORED dtypes differ (int16 / uint8 / float32 / float64).
* L2 across OBJECTS — `cross_*`: for every output of every analyzer class: series A, then series B that differs from A
  ONLY in the sampling rate (then only in the length, only in the unit, only in t0), same analyzer class, same
  parameters IN HZ, two live objects; this process evaluates A then B, a FRESH interpreter evaluates B then A; every
  output must agree between the two processes (a process-wide memo with an incomplete key makes the second evaluation
  of a pair wrong in one process and the other member wrong in the other), and FilterAnalyzer / Normalization / Hilbert /
  SNR / Correlation / periodogram / cpsd / coherence outputs must equal the direct algorithm call on the object's own data
  and rate.  The reader twice with the same filter dict and different TR likewise (direct design + filtfilt).
"""
import os
import pickle
import sys

import numpy as np

import common
from common import Case, Failure

PID = 'C15'
HERE = os.path.dirname(os.path.abspath(__file__))


def _c15():
    import c15
    return c15


# ------------------------------------------------------------------------------------------------ mixed dtypes across runs
REAL_DT = ['int16', 'int32', 'uint8', 'float32', 'float64']
ALL_DT = REAL_DT + ['complex64', 'complex128']


def run_data(dt, shape, sd):
    rs = np.random.RandomState(sd)
    k = np.dtype(dt).kind
    if k in 'iu':
        return np.clip(np.round(rs.randn(*shape) * 40 + 100), 0, 250).astype(dt)
    if k == 'c':
        return (rs.randn(*shape) * 3.7 + 1j * (rs.randn(*shape) * 2.3 + 0.5)).astype(dt)
    return (rs.randn(*shape) * 3.7 + 0.123456789).astype(dt)


def concat_dtype_specs(seed, tier, real_only=False):
    """every ORDERED pair of distinct dtypes appears as (first run, a later run) within 2 consecutive seeds"""
    pool = REAL_DT if real_only else ALL_DT
    pairs = [(a, b) for a in pool for b in pool if a != b]
    out = []
    reps = 1 if tier == 'quick' else 4
    for r in range(reps):
        for k, (a, b) in enumerate(pairs):
            if tier == 'quick' and (k + seed) % 2 and not ({a, b} & {'complex64', 'complex128'} and np.dtype(a).kind != 'c'):
                continue
            nruns = 2 + (k + seed + r) % 3
            dts = [a, b] + [pool[(k + 3 * j + seed) % len(pool)] for j in range(nruns - 2)]
            lens = [7 + (5 * k + 11 * j + seed) % 23 for j in range(nruns)]
            out.append(dict(dts=dts, lens=lens, rows=[None, 3, 2][(k + r) % 3], sd=1000 * seed + 37 * k + r,
                            units=[['s', 'ms', 'us'][(k + j) % 3] for j in range(nruns)] if k % 4 == 0 else ['ms'] * nruns,
                            t0s=[float((3 * j + k) % 7) for j in range(nruns)]))
    return out


def concat_runs(spec):
    TS = _c15().nt()
    runs = []
    for j, dt in enumerate(spec['dts']):
        shape = ([spec['rows']] if spec['rows'] else []) + [spec['lens'][j]]
        runs.append(TS.TimeSeries(run_data(dt, shape, spec['sd'] + j), sampling_interval=2.0, time_unit=spec['units'][j], t0=spec['t0s'][j]))
    return runs


def concat_dtype_experiments(spec):
    TS = _c15().nt()
    runs = concat_runs(spec)
    label = '%s-then-%s' % (np.dtype(spec['dts'][0]).name, np.dtype(spec['dts'][1]).name)
    meta = {'op': 'concat-dtype', 'spec': spec}
    what = ' [runs dtypes=%s lengths=%s rows=%s]' % (spec['dts'], spec['lens'], spec['rows'])
    wide = complex if any(np.dtype(d).kind == 'c' for d in spec['dts']) else float
    stored = [np.array(r.data, copy=True) for r in runs]
    want = np.concatenate([np.asarray(s, dtype=wide) for s in stored], -1)
    try:
        R = TS.concatenate_time_series(runs)
    except Exception as e:  # noqa
        return [Failure('concatenate_time_series/mixed-dtype/%s/raises' % label, 'raised %r%s' % (e, what), {'meta': meta})]
    fails = []
    got = np.asarray(R.data)
    if got.shape != want.shape:
        fails.append(Failure('concatenate_time_series/mixed-dtype/%s/shape' % label, 'shape %s, runs appended in time have %s%s' % (got.shape, want.shape, what), {'meta': meta}))
    elif not np.array_equal(np.asarray(got, dtype=complex), np.asarray(want, dtype=complex)):
        bad = np.argwhere(np.asarray(got, dtype=complex) != np.asarray(want, dtype=complex))[0]
        fails.append(Failure('concatenate_time_series/mixed-dtype/%s/data' % label,
                             'sample %s is %r, the stored sample of the run is %r (exact embedding into %s)%s' % (
                                 tuple(int(b) for b in bad), got[tuple(bad)], want[tuple(bad)], wide.__name__, what), {'meta': meta}))
    for r, s in zip(runs, stored):
        if r.data.dtype != s.dtype or not np.array_equal(r.data, s):
            fails.append(Failure('concatenate_time_series/mixed-dtype/%s/run-mutated' % label, 'a run was changed by the concatenation' + what, {'meta': meta}))
            break
    a = _c15().axis_of(R)
    if a['n'] != sum(spec['lens']) or a['dt'] != _c15().axis_of(runs[-1])['dt']:
        fails.append(Failure('concatenate_time_series/mixed-dtype/%s/axis' % label, 'length / interval of the result are not those of the runs' + what, {'meta': meta}))
    return fails


def concat_dtype_cases(rng, tier, seed):
    """real-valued combinations through the Lean model (existing `concat` op: data cross as exact float64)"""
    c15 = _c15()
    out = []
    specs = concat_dtype_specs(seed, tier, real_only=True)
    for k, sp in enumerate(specs[:: (2 if tier == 'quick' else 1)]):
        C = sp['rows'] or 2
        ss = []
        for j, dt in enumerate(sp['dts'][:3]):
            s = dict(unit='ms', iv=2.0, t0=sp['t0s'][j], shape=[C, sp['lens'][j]], seed=sp['sd'] + j)
            if dt != 'float64':
                s['dtype'] = dt
            ss.append(s)
        out.append(c15.concat_case(ss))
    return out


# reader: files whose STORED dtypes differ
FILE_DT = ['int16', 'float64', 'float32', 'uint8']


def reader_dtype_specs(seed, tier):
    n = 2 if tier == 'quick' else 8
    return [dict(sd=500 + 10 * seed + i, dts=[FILE_DT[(seed + i + j * (1 + i % 3)) % 4] for j in range(2 + (seed + i) % 2)], lens=[9 + (seed + 3 * i + 4 * j) % 7 for j in range(3)],
                 roi=bool(i % 2)) for i in range(n)]


def reader_dtype_experiments(spec):
    import nibabel as nib
    import nitime.fmri.io as io
    c15 = _c15()
    meta = {'op': 'reader-dtype', 'spec': spec}
    files, truth = [], []
    for j, dt in enumerate(spec['dts']):
        rs = np.random.RandomState(spec['sd'] + j)
        shape = (3, 4, 2, spec['lens'][j])
        if np.dtype(dt).kind in 'iu':
            d = rs.randint(3, 250, size=shape).astype(dt)
        else:
            d = (rs.rand(*shape) * 1000 + 0.123456789).astype(dt)
        p = os.path.join(c15.tmpdir(), 'r5_%d_%d_%s.nii' % (spec['sd'], j, dt))
        img = nib.Nifti1Image(d, np.eye(4))
        img.header.set_data_dtype(np.dtype(dt))
        img.header.set_zooms((1, 1, 1, 2.0))
        nib.save(img, p)
        files.append(p)
        truth.append(d.astype(float))
    coords = np.array([[0, 2, 1], [1, 3, 0], [0, 1, 1]])
    what = ' [files stored as %s, lengths %s]' % (spec['dts'], spec['lens'][:len(files)])
    label = '-'.join(spec['dts'][:2])
    try:
        R = io.time_series_from_file(files, [coords, coords[:, :2]] if spec['roi'] else coords, TR=2.0)
    except Exception as e:  # noqa
        return [Failure('time_series_from_file/mixed-file-dtypes/%s/raises' % label, 'raised %r%s' % (e, what), {'meta': meta})]
    fails = []
    for R1, co in zip(R if spec['roi'] else [R], [coords, coords[:, :2]] if spec['roi'] else [coords]):
        want = np.concatenate([t[co[0], co[1], co[2]] for t in truth], -1)
        got = np.asarray(R1.data)
        if got.shape != want.shape or not np.array_equal(np.asarray(got, dtype=float), want):
            fails.append(Failure('time_series_from_file/mixed-file-dtypes/%s/data' % label, 'the series is not the stored voxel data of the files appended in time' + what, {'meta': meta}))
            break
    return fails


# ------------------------------------------------------------------------------------------------ two live objects that differ in ONE respect
VARIANTS = ['rate', 'length', 'unit', 't0', 'rate-up']


def cross_specs(seed, tier):
    c15 = _c15()
    out = []
    for i, name in enumerate(c15.ALL_ANALYZERS):
        for v, var in enumerate(VARIANTS):
            if tier == 'quick' and name not in ('FilterAnalyzer',) and (i + v + seed) % 3 == 2:
                continue
            unit = c15.UNITS[(seed + i + v) % 3]
            out.append(dict(name=name, var=var, unit=unit, iv=c15.GOOD_IV[unit][(i + v) % 3], t0=c15.T0S[(i + v) % len(c15.T0S)], seed=7000 + 100 * seed + 10 * i + v,
                            n=[96, 97, 101, 122][(i + v + seed) % 4]))
    return out


def cross_pair(spec):
    """A and the series B that differs from A in ONE respect; the parameter rate (Hz) valid for both"""
    c15 = _c15()
    TS = c15.nt()
    name, var = spec['name'], spec['var']
    A = c15.hist_input(spec, name)
    ps = c15.ps_of(A.sampling_interval)
    d = np.array(A.data, copy=True)
    unit, t0ps = A.time_unit, c15.ps_of(A.t0)

    def mk(data, ps_iv, u, t0_ps):
        iv = TS.TimeArray(np.int64(ps_iv), time_unit='ps')
        iv.convert_unit(u)
        t0 = TS.TimeArray(np.int64(t0_ps), time_unit='ps')
        t0.convert_unit(u)
        return TS.TimeSeries(data, sampling_interval=iv, time_unit=u, t0=t0)
    if var == 'rate':
        B = mk(d, 2 * ps, unit, t0ps)
    elif var == 'rate-up':
        B = mk(d, ps // 4 * 5 if ps % 4 == 0 else ps * 5, unit, t0ps)
    elif var == 'length':
        B = mk(d[..., :d.shape[-1] - 17], ps, unit, t0ps)
    elif var == 'unit':
        B = mk(d, ps, 'us' if unit != 'us' else 'ms', t0ps)
    else:
        B = mk(d, ps, unit, t0ps + 5 * ps)
    A = mk(np.array(d, copy=True), ps, unit, t0ps)
    fs = min(float(A.sampling_rate), float(B.sampling_rate))
    return A, B, fs


def direct_filter(getter, d, Fs, lb, ub, order=8, win='hamming'):
    import scipy.signal as signal
    import nitime.algorithms as tsa

    def ff(b, a, x):
        x2 = np.atleast_2d(x)
        o = np.empty(x2.shape)
        for i in range(x2.shape[0]):
            y = signal.filtfilt(b, a, x2[i])
            o[i] = y - y.mean() + x2[i].mean()
        return o.reshape(x.shape)
    if getter == 'filtered_boxcar':
        return tsa.boxcar_filter(np.copy(d), lb=lb / Fs, ub=ub / Fs, n_iterations=2)
    if getter == 'filtered_fourier':
        n = d.shape[-1]
        freqs = np.arange(n // 2 + 1) * Fs / n
        p = np.fft.fft(d)
        idx = np.hstack([np.where(freqs < lb)[0], np.where(freqs > ub)[0]])
        dc = np.copy(p[..., 0])
        p[..., idx] = 0
        p[..., -1 * idx] = 0
        p[..., 0] = dc
        return np.real(np.fft.ifft(p))
    lf, uf = lb / (Fs / 2), ub / (Fs / 2)
    if getter == 'iir':
        b, a = signal.iirdesign([lf, uf], [max(lf - 0.1, 0.001), min(uf + 0.1, 0.999)], 1, 60, ftype='ellip')
        return ff(b, a, d)
    if getter == 'fir':
        b1 = signal.firwin(order + 1, uf, window=win)
        x = ff(b1, [1], d)
        b2 = -1 * signal.firwin(order + 1, lf, window=win)
        b2[order // 2] += 1
        return ff(b2, [1], x)
    return None


def direct_for(name, g, T, fs_param):
    c15 = _c15()
    Fs = 10.0 ** 12 / c15.axis_of(T)['dt']
    d = np.asarray(T.data)
    if name == 'FilterAnalyzer':
        return direct_filter(g, d, Fs, 0.0537 * fs_param, 0.3071 * fs_param)
    judged = {'NormalizationAnalyzer': ['percent_change', 'z_score'], 'HilbertAnalyzer': ['analytic', 'amplitude', 'phase', 'real', 'imag'], 'SNRAnalyzer': ['signal', 'noise']}
    if name in judged:
        return c15.direct_data(name, g, T, {}, Fs) if g in judged[name] else None
    return c15.direct_array(name, g, T, Fs)


def cross_eval(spec, order):
    """-> {('A'|'B', getter): snapshot | ('err', kind)} evaluating the two objects in the given order ('AB' | 'BA');
    both objects stay alive until the end"""
    c15 = _c15()
    A, B, fs = cross_pair(spec)
    S = {'A': A, 'B': B}
    objs, res = [], {}
    for w in order:
        for g in c15.output_names(c15.hist_analyzer(spec['name'], S[w], fs)):
            an = c15.hist_analyzer(spec['name'], S[w], fs)
            objs.append(an)
            st, v = c15.read(an, g)
            res[(w, g)] = c15.snap(v) if st == 'ok' else ('err', v)
    return res, S, fs


def cross_child(path_in, path_out):
    """fresh interpreter: every pair in the order B then A"""
    import warnings
    warnings.simplefilter('ignore')
    with open(path_in, 'rb') as f:
        specs = pickle.load(f)
    out = []
    for sp in specs:
        try:
            out.append(cross_eval(sp, 'BA')[0])
        except Exception as e:  # noqa
            out.append({'raised': repr(e)})
    with open(path_out, 'wb') as f:
        pickle.dump(out, f)


def fresh_process(func, payload):
    import subprocess
    import tempfile
    td = tempfile.mkdtemp(prefix='c15r5_')
    pin, pout = os.path.join(td, 'in.pkl'), os.path.join(td, 'out.pkl')
    try:
        with open(pin, 'wb') as f:
            pickle.dump(payload, f)
        code = ('import sys; sys.path.insert(0, %r); import common; sys.path.insert(0, common.REPO); import c15_r5 as X; X.%s(%r, %r)' % (HERE, func, pin, pout))
        p = subprocess.run([sys.executable, '-W', 'ignore', '-c', code], capture_output=True, text=True, timeout=900)
        if not os.path.exists(pout):
            return None, (p.stderr or p.stdout)[-400:]
        with open(pout, 'rb') as f:
            return pickle.load(f), ''
    finally:
        import shutil
        shutil.rmtree(td, ignore_errors=True)


def cross_judge(spec, here, S, fs, there):
    c15 = _c15()
    name, var = spec['name'], spec['var']
    meta = {'op': 'cross', 'spec': spec}
    fails = []
    aA, aB = c15.axis_of(S['A']), c15.axis_of(S['B'])
    what = ' [A: unit=%s t0=%d ps interval=%d ps n=%d; B differs only in %s: unit=%s t0=%d ps interval=%d ps n=%d; parameters in Hz fixed from %r Hz]' % (
        aA['unit'], aA['t0'], aA['dt'], aA['n'], var, aB['unit'], aB['t0'], aB['dt'], aB['n'], fs)
    for (w, g), v in sorted(here.items()):
        if isinstance(v, tuple) and v and v[0] == 'err':
            continue
        # (1) the direct algorithm call on the object's own data and rate
        want = direct_for(name, g, S[w], fs)
        if want is not None and not c15.same_snap([x for x in v if x[0] != 'axis'], c15.snap(want), 1e-8):
            fails.append(Failure('two-objects/%s/%s/only-%s/%s/value' % (name, g, var, 'first' if w == 'A' else 'second'),
                                 '%s.%s on series %s (evaluated %s of two live objects) differs from the direct algorithm call on its own data and rate%s' % (
                                     name, g, w, 'first' if w == 'A' else 'second', what), {'meta': meta}))
        # (2) the same pair evaluated in the other order in a fresh interpreter
        if there is not None and (w, g) in there:
            o = there[(w, g)]
            if isinstance(o, tuple) and o and o[0] == 'err':
                continue
            if not c15.same_snap(v, o):
                fails.append(Failure('two-objects/%s/%s/only-%s/order-dependent' % (name, g, var),
                                     '%s.%s on series %s: evaluated %s in this process and %s in a fresh process, the answers differ%s' % (
                                         name, g, w, 'first' if w == 'A' else 'after the object on the other series', 'after the object on the other series' if w == 'A' else 'first', what),
                                     {'meta': meta}))
    return fails


def cross_experiments(specs):
    fails = []
    heres = []
    for sp in specs:
        try:
            heres.append(cross_eval(sp, 'AB'))
        except Exception as e:  # noqa
            heres.append(None)
            fails.append(Failure('two-objects/%s/only-%s/valid-call-raises' % (sp['name'], sp['var']), 'raised %r' % e, {'meta': {'op': 'cross', 'spec': sp}}))
    theres, err = fresh_process('cross_child', specs)
    if theres is None:
        fails.append(Failure('two-objects/fresh-process/raises', 'the fresh process failed: ' + err, {'meta': {'op': 'cross-all', 'specs': specs}}))
        theres = [None] * len(specs)
    for sp, h, t in zip(specs, heres, theres):
        if h is None:
            continue
        if isinstance(t, dict) and 'raised' in t:
            t = None
        fails += cross_judge(sp, h[0], h[1], h[2], t)
    return fails


# the reader twice: same filter dict, other TR
def reader_twice_specs(seed, tier):
    out = []
    for i in range(2 if tier == 'quick' else 8):
        m = ['fir', 'iir', 'fourier', 'boxcar'][(i + seed) % 4] if i else 'fir'
        out.append(dict(sd=900 + 10 * seed + i, method=m, n=[120, 131, 150][(i + seed) % 3], trs=[[2.0, 1.25], [1.0, 2.5], [1.5, 0.75]][(i + seed) % 3],
                        order=[16, 12, 20][(seed + i) % 3]))
    return out


def reader_twice_experiments(spec):
    import nibabel as nib
    import nitime.fmri.io as io
    c15 = _c15()
    meta = {'op': 'reader-twice', 'spec': spec}
    rs = np.random.RandomState(spec['sd'])
    d = rs.rand(3, 3, 2, spec['n']) * 100 + 500
    p = os.path.join(c15.tmpdir(), 'r5tw_%d.nii' % spec['sd'])
    nib.save(nib.Nifti1Image(d, np.eye(4)), p)
    coords = np.array([[0, 1, 2], [1, 2, 0], [0, 1, 1]])
    x = d[coords[0], coords[1], coords[2]]
    lb, ub = 0.0213, 0.1187       # off every DFT grid of the (n, TR) pool: no ulp ties at the band edges
    fd = dict(method=spec['method'], lb=lb, ub=ub, filt_order=spec['order'])
    fails = []
    g = c15.OUT_OF[spec['method']]
    for k, tr in enumerate(spec['trs']):
        try:
            R = io.time_series_from_file(p, coords, TR=tr if k == 0 else c15.nt().TimeArray(tr * 1000.0, time_unit='ms'), filter=dict(fd))
        except Exception as e:  # noqa
            fails.append(Failure('time_series_from_file/same-filter-other-TR/%s/raises' % spec['method'], 'raised %r' % e, {'meta': meta}))
            continue
        want = direct_filter(g, x, 1.0 / tr, lb, ub, spec['order'])
        if not c15.close(np.asarray(R.data), want, 1e-8):
            fails.append(Failure('time_series_from_file/same-filter-other-TR/%s/%s/data' % (spec['method'], 'first' if k == 0 else 'second'),
                                 'read %d of the same file with filter %r and TR=%r s differs from the direct design + filtfilt at %r Hz (reads so far: TR %s)' % (
                                     k + 1, fd, tr, 1.0 / tr, spec['trs'][:k + 1]), {'meta': meta}))
    return fails


# ------------------------------------------------------------------------------------------------ model correspondence: `firhist`, `concatdt`
WINS = ['hamming', 'blackman', 'hann']
FIR_RATES = [1000000, 250000, 500000, 200000]        # mHz
FIR_BANDS = [(5000, 40000), (10000, 60000), (2500, 30000)]


def firhist_reqs(rng, k):
    """histories of `.fir` requests by different objects: the same taps / band / window at DIFFERENT rates, repeats, other taps"""
    lb, ub = FIR_BANDS[k % 3]
    taps, win = [9, 17, 13][k % 3], k % 3
    base = [[taps, lb, ub, win, FIR_RATES[(k + j) % 4]] for j in range(3)]
    extra = [[[9, 17, 13][(k + 1) % 3], lb, ub, win, FIR_RATES[k % 4]], list(base[0]), [taps, lb, ub, (win + 1) % 3, FIR_RATES[(k + 1) % 4]], list(base[1])]
    reqs = base + extra[:2 + k % 3]
    if k % 2:
        rng.shuffle(reqs)
    return reqs


def fir_answer(req, d):
    TS, A = _c15().nt(), _c15().na()
    taps, lb, ub, win, rate = req
    T = TS.TimeSeries(np.array(d, copy=True), sampling_rate=rate / 1000.0)
    return np.asarray(A.FilterAnalyzer(T, lb=lb / 1000.0, ub=ub / 1000.0, filt_order=taps - 1, fir_win=WINS[win]).fir.data)


def firhist_run(reqs, sd):
    d = np.random.RandomState(sd).randn(2, 200)
    prov = []
    for r in reqs:
        y = fir_answer(r, d)
        j = len(reqs)
        for i, q in enumerate(reqs):
            w = direct_filter('fir', d, q[4] / 1000.0, q[1] / 1000.0, q[2] / 1000.0, q[0] - 1, WINS[q[3]])
            if y.shape == w.shape and np.abs(y - w).max() <= 1e-8 * np.abs(w).max():
                j = i
                break
        prov.append(j)
    return prov


def firhist_case(reqs, sd):
    line = 'C15 firhist code ' + ';'.join(','.join(str(x) for x in r) for r in reqs)
    impl = common.call(lambda: 'ok ' + ','.join(str(j) for j in firhist_run(reqs, sd)))
    return Case(line, impl, 'FilterAnalyzer/fir/request-history', meta={'op': 'firhist', 'reqs': reqs, 'sd': sd})


def judge_firhist(c):
    reqs, sd = c.meta['reqs'], c.meta['sd']
    try:
        prov = firhist_run(reqs, sd)
    except Exception as e:  # noqa
        return [Failure('FilterAnalyzer/fir/request-history/raises', 'raised %r' % e, {'meta': c.meta}, case=c)]
    want = [reqs.index(r) for r in reqs]
    for i, (p, w) in enumerate(zip(prov, want)):
        if p != w:
            return [Failure('FilterAnalyzer/fir/request-history/answered-with-another-design',
                            'request %d %s (taps, lb mHz, ub mHz, window, rate mHz) of the history %s is answered with %s' % (
                                i, reqs[i], reqs, 'the design of request %d %s' % (p, reqs[p]) if p < len(reqs) else 'no design of this history'), {'meta': c.meta}, case=c)]
    return []


CDT = ['int16', 'float32', 'float64', 'complex128']


def concatdt_runs(rng, k):
    runs = []
    for j in range(2 + k % 3):
        dt = CDT[(k + j * (1 + k % 3)) % 4] if j else CDT[k % 4]
        n = 2 + (k + j) % 3
        vals = []
        for _ in range(n):
            re, im = rng.randrange(-20000, 20000), 0
            if dt == 'int16':
                re = re // 256 * 256
            elif dt == 'float32':
                re = re // 16 * 16
            elif dt == 'complex128':
                im = rng.randrange(-20000, 20000)
            vals.append([re, im])
        runs.append([dt, vals])
    return runs


def concatdt_impl(runs):
    TS = _c15().nt()
    ss = []
    for dt, vals in runs:
        a = np.array([complex(re / 256.0, im / 256.0) for re, im in vals])
        ss.append(TS.TimeSeries((a if dt == 'complex128' else a.real).astype(dt), sampling_interval=1.0))
    R = TS.concatenate_time_series(ss)
    x = np.asarray(R.data)
    out = np.asarray(x, dtype=complex) * 256
    if not np.array_equal(out, np.round(out.real) + 1j * np.round(out.imag)):
        return 'err not-on-grid'
    return 'ok %s %s' % (x.dtype.name, ','.join('%d/%d' % (int(v.real), int(v.imag)) for v in out))


def concatdt_case(runs):
    line = 'C15 concatdt ' + ';'.join('%s:%s' % (dt, ','.join('%d/%d' % (re, im) for re, im in vals)) for dt, vals in runs)
    return Case(line, common.call(lambda: concatdt_impl(runs)), 'concatenate_time_series/mixed-dtype', meta={'op': 'concatdt', 'runs': runs})


def judge_concatdt(c):
    runs = c.meta['runs']
    want = 'ok x ' + ','.join('%d/%d' % (re, im) for _, vals in runs for re, im in vals)
    got = common.call(lambda: concatdt_impl(runs))
    if got.split(' ')[0] != 'ok' or got.split(' ')[2] != want.split(' ')[2]:
        return [Failure('concatenate_time_series/mixed-dtype/exact-samples', 'runs %s (dtype, samples in units of 2^-8 as re/im): the result %s is not the samples appended in time' % (runs, got[:200]),
                        {'meta': c.meta}, case=c)]
    return []


R5_JUDGES = {'firhist': judge_firhist, 'concatdt': judge_concatdt}


# ------------------------------------------------------------------------------------------------ hooks
def r5_cases(rng, tier, seed):
    out = concat_dtype_cases(rng, tier, seed)
    for k in range({'quick': 6, 'thorough': 40}[tier]):
        out.append(firhist_case(firhist_reqs(rng, k + seed), 4000 + 10 * seed + k))
    for k in range({'quick': 12, 'thorough': 120}[tier]):
        out.append(concatdt_case(concatdt_runs(rng, k + seed)))
    return out


def r5_oracle(rng, tier, seed):
    fails = []
    cs = concat_dtype_specs(seed, tier)
    for sp in cs:
        fails += concat_dtype_experiments(sp)
    rd = reader_dtype_specs(seed, tier)
    for sp in rd:
        fails += reader_dtype_experiments(sp)
    xs = cross_specs(seed, tier)
    fails += cross_experiments(xs)
    tw = reader_twice_specs(seed, tier)
    for sp in tw:
        fails += reader_twice_experiments(sp)
    return fails, {'concat_mixed_dtype': len(cs), 'reader_mixed_file_dtypes': len(rd), 'two_object_pairs': len(xs), 'reader_twice': len(tw)}


def r5_replay(m):
    if m['op'] == 'concat-dtype':
        return concat_dtype_experiments(m['spec'])
    if m['op'] == 'reader-dtype':
        return reader_dtype_experiments(m['spec'])
    if m['op'] == 'cross':
        return cross_experiments([m['spec']])
    if m['op'] == 'cross-all':
        return cross_experiments(m['specs'])
    if m['op'] == 'reader-twice':
        return reader_twice_experiments(m['spec'])
    return []
