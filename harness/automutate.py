#!/venv/bin/python
"""automutate.py — systematic self-test of the checks with machine-made source mutants.

  automutate.py list <repo-relative file>                 -> the mutants of that file (one per line)
  automutate.py run  <repo-relative file> [--jobs J] [--max M] [--seed S] [--checks C04,C05] [--out DIR]

Every mutant is a one-site AST-located edit of /repo's CURRENT source, applied to a scratch copy of the tree
(never to /repo).  For each mutant: (1) the repository's pinned suite must still pass (a mutant the suite kills is
not interesting: `suite-kills`); (2) every check of a property anchored in that file (properties.jsonl anchors, or
--checks) is run in its quick tier against the scratch copy with an isolated Lean project and evidence directory;
result per check: V (VIOLATION with input), nfi (VIOLATION no-failing-input-found), MISS (exit 0), INFRA (exit 2).
A mutant that survives the suite and every check is either EQUIVALENT (behaviour preserving inside the properties'
domains) or a detection gap: the list of those is what a human reads.  Results: <out>/<file>.jsonl.

Operators: cmp (< <-> <=, > <-> >=), addsub (+ <-> -), const (integer literal in a slice / index / range ±1),
nocopy (x.copy() -> x, np.array(x) -> np.asarray(x), np.copy(x) -> x), noconj (x.conj() / np.conj(x) /
np.conjugate(x) -> x), flag (True <-> False as a keyword argument), dropaug (augmented assignment removed),
floordiv (// <-> /), eq (== <-> !=)."""
import ast, sys, os, json, random, subprocess, shutil, tempfile, argparse, re
from concurrent.futures import ThreadPoolExecutor

V = os.path.dirname(os.path.dirname(os.path.abspath(__file__)))
REPO = '/repo'


class Site:
    def __init__(self, op, node, new, what):
        self.op, self.new, self.what = op, new, what
        self.l0, self.c0, self.l1, self.c1 = node.lineno, node.col_offset, node.end_lineno, node.end_col_offset


def seg(src_lines, n):
    if n.lineno == n.end_lineno:
        return src_lines[n.lineno - 1][n.col_offset:n.end_col_offset]
    parts = [src_lines[n.lineno - 1][n.col_offset:]] + src_lines[n.lineno:n.end_lineno - 1] + [src_lines[n.end_lineno - 1][:n.end_col_offset]]
    return '\n'.join(parts)


def is_np(node, names):
    return isinstance(node, ast.Attribute) and node.attr in names and isinstance(node.value, ast.Name) and node.value.id in ('np', 'numpy')


def strish(n):
    return isinstance(n, (ast.JoinedStr,)) or (isinstance(n, ast.Constant) and isinstance(n.value, str))


def sites(path):
    src = open(path).read()
    lines = src.split('\n')
    tree = ast.parse(src)
    out = []
    # nodes inside docstrings are Constants only; function bodies only
    for fn in ast.walk(tree):
        if not isinstance(fn, (ast.FunctionDef,)):
            continue
        for node in ast.walk(fn):
            if isinstance(node, ast.FunctionDef) and node is not fn:
                continue
            if isinstance(node, ast.Compare) and len(node.ops) == 1:
                a, b = node.left, node.comparators[0]
                sw = {ast.Lt: '<=', ast.LtE: '<', ast.Gt: '>=', ast.GtE: '>', ast.Eq: '!=', ast.NotEq: '=='}.get(type(node.ops[0]))
                if sw and not strish(a) and not strish(b) and not (isinstance(b, ast.Constant) and b.value is None):
                    opn = 'eq' if sw in ('!=', '==') else 'cmp'
                    out.append(Site(opn, node, '%s %s %s' % (seg(lines, a), sw, seg(lines, b)), '%s -> %s' % (seg(lines, node)[:60], sw)))
            if isinstance(node, ast.BinOp) and isinstance(node.op, (ast.Add, ast.Sub)) and not strish(node.left) and not strish(node.right):
                sw = '-' if isinstance(node.op, ast.Add) else '+'
                l, r = seg(lines, node.left), seg(lines, node.right)
                if isinstance(node.right, ast.BinOp) and isinstance(node.right.op, (ast.Add, ast.Sub)):
                    r = '(%s)' % r
                out.append(Site('addsub', node, '%s %s %s' % (l, sw, r), '%s -> %s' % (seg(lines, node)[:60], sw)))
            if isinstance(node, ast.BinOp) and isinstance(node.op, (ast.FloorDiv, ast.Div)):
                sw = '/' if isinstance(node.op, ast.FloorDiv) else '//'
                l, r = seg(lines, node.left), seg(lines, node.right)
                if isinstance(node.right, ast.BinOp):
                    r = '(%s)' % r
                if isinstance(node.left, ast.BinOp) and isinstance(node.left.op, (ast.Add, ast.Sub)):
                    l = '(%s)' % l
                out.append(Site('floordiv', node, '%s %s %s' % (l, sw, r), '%s -> %s' % (seg(lines, node)[:60], sw)))
            if isinstance(node, (ast.Subscript,)):
                for c in ast.walk(node.slice):
                    if isinstance(c, ast.Constant) and isinstance(c.value, int) and not isinstance(c.value, bool):
                        for d in (1, -1):
                            if c.value + d >= -1:
                                out.append(Site('const', c, str(c.value + d), 'index/slice constant %d -> %d in %s' % (c.value, c.value + d, seg(lines, node)[:50])))
            if isinstance(node, ast.Call) and isinstance(node.func, ast.Name) and node.func.id in ('range', 'xrange'):
                for a in node.args:
                    for c in ast.walk(a):
                        if isinstance(c, ast.Constant) and isinstance(c.value, int) and not isinstance(c.value, bool):
                            out.append(Site('const', c, str(c.value + 1), 'range constant %d -> %d in %s' % (c.value, c.value + 1, seg(lines, node)[:50])))
            if isinstance(node, ast.Call) and isinstance(node.func, ast.Attribute) and node.func.attr == 'copy' and not node.args and not node.keywords:
                out.append(Site('nocopy', node, seg(lines, node.func.value), '%s without the copy' % seg(lines, node)[:60]))
            if isinstance(node, ast.Call) and is_np(node.func, ('array',)) and node.args:
                out.append(Site('nocopy', node.func, 'np.asarray', 'np.array -> np.asarray in %s' % seg(lines, node)[:60]))
            if isinstance(node, ast.Call) and is_np(node.func, ('copy',)) and len(node.args) == 1 and not node.keywords:
                out.append(Site('nocopy', node, seg(lines, node.args[0]), '%s without the copy' % seg(lines, node)[:60]))
            if isinstance(node, ast.Call) and isinstance(node.func, ast.Attribute) and node.func.attr in ('conj', 'conjugate') and not node.args \
                    and not is_np(node.func, ('conj', 'conjugate')):
                out.append(Site('noconj', node, seg(lines, node.func.value), '%s without the conjugate' % seg(lines, node)[:60]))
            if isinstance(node, ast.Call) and is_np(node.func, ('conj', 'conjugate')) and len(node.args) == 1 and not node.keywords:
                out.append(Site('noconj', node, '(%s)' % seg(lines, node.args[0]), '%s without the conjugate' % seg(lines, node)[:60]))
            if isinstance(node, ast.Call):
                for k in node.keywords:
                    if isinstance(k.value, ast.Constant) and isinstance(k.value.value, bool):
                        out.append(Site('flag', k.value, str(not k.value.value), 'keyword %s=%s flipped in %s' % (k.arg, k.value.value, seg(lines, node)[:50])))
            if isinstance(node, ast.AugAssign):
                out.append(Site('dropaug', node, 'pass', 'statement removed: %s' % seg(lines, node)[:70]))
    # unique by position + replacement, stable order
    seen, uniq = set(), []
    for s in sorted(out, key=lambda s: (s.l0, s.c0, s.op, s.new)):
        k = (s.l0, s.c0, s.l1, s.c1, s.new)
        if k not in seen:
            seen.add(k)
            uniq.append(s)
    return src, uniq


def apply(src, s):
    lines = src.split('\n')
    if s.l0 == s.l1:
        ln = lines[s.l0 - 1]
        lines[s.l0 - 1] = ln[:s.c0] + s.new + ln[s.c1:]
    else:
        first, last = lines[s.l0 - 1], lines[s.l1 - 1]
        lines[s.l0 - 1:s.l1] = [first[:s.c0] + s.new + last[s.c1:]]
    return '\n'.join(lines)


def checks_for(rel):
    out = []
    for l in open(os.path.join(V, 'properties.jsonl')):
        d = json.loads(l)
        if rel in d['anchors']['files']:
            out.append(d['id'])
    return out


def run_one(rel, idx, s, src, checks, outdir):
    S = tempfile.mkdtemp(prefix='am_', dir='/tmp')
    rec = {'file': rel, 'index': idx, 'op': s.op, 'line': s.l0, 'what': s.what}
    try:
        subprocess.run(['rsync', '-a', '--exclude', '.git', REPO + '/', S + '/'], check=True)
        new = apply(src, s)
        try:
            ast.parse(new)
        except SyntaxError:
            rec['result'] = 'syntax-error'
            return rec
        open(os.path.join(S, rel), 'w').write(new)
        b = subprocess.run(['/venv/bin/python', os.path.join(V, 'harness', 'baseline.py'), S], capture_output=True, text=True, timeout=1800)
        if b.returncode != 0:
            rec['result'] = 'suite-kills'
            return rec
        rec['checks'] = {}
        for p in checks:
            L = S + '.lean.' + p
            subprocess.run(['cp', '-a', os.path.join(V, 'lean'), L], check=True)
            env = dict(os.environ, NITIME_REPO=S, VERIF_LEAN=L, VERIF_EVIDENCE_DIR=S + '.ev', VERIF_SEED='1')
            try:
                c = subprocess.run([os.path.join(V, 'check'), p, 'quick'], capture_output=True, text=True, cwd=V, env=env, timeout=1500)
                o = c.stdout
                rec['checks'][p] = 'nfi' if 'no-failing-input-found' in o else 'V' if c.returncode == 1 else 'MISS' if c.returncode == 0 else 'INFRA(%d)' % c.returncode
                if c.returncode == 1:
                    v = [l for l in o.splitlines() if l.startswith('VIOLATION')]
                    rec.setdefault('lines', {})[p] = v[0][:200] if v else ''
            except subprocess.TimeoutExpired:
                rec['checks'][p] = 'TIMEOUT'
            shutil.rmtree(L, ignore_errors=True)
            shutil.rmtree(S + '.ev', ignore_errors=True)
        rec['result'] = 'caught' if any(v in ('V', 'nfi') for v in rec['checks'].values()) else 'SURVIVES'
        return rec
    except Exception as e:
        rec['result'] = 'error: %r' % (e,)
        return rec
    finally:
        shutil.rmtree(S, ignore_errors=True)
        with open(os.path.join(outdir, rel.replace('/', '_') + '.jsonl'), 'a') as f:
            f.write(json.dumps(rec) + '\n')


def main():
    ap = argparse.ArgumentParser()
    ap.add_argument('cmd', choices=['list', 'run'])
    ap.add_argument('file')
    ap.add_argument('--jobs', type=int, default=4)
    ap.add_argument('--max', type=int, default=40)
    ap.add_argument('--seed', type=int, default=1)
    ap.add_argument('--checks', default='')
    ap.add_argument('--out', default='/tmp/am_results')
    ap.add_argument('--only', default='', help='comma-separated operator names')
    a = ap.parse_args()
    src, ss = sites(os.path.join(REPO, a.file))
    if a.only:
        ss = [s for s in ss if s.op in a.only.split(',')]
    if a.cmd == 'list':
        for i, s in enumerate(ss):
            print(i, s.op, 'L%d' % s.l0, s.what)
        print(len(ss), 'mutants')
        return
    os.makedirs(a.out, exist_ok=True)
    checks = a.checks.split(',') if a.checks else checks_for(a.file)
    idx = list(range(len(ss)))
    rng = random.Random(a.seed)
    # stratified sample: round-robin over operators
    byop = {}
    for i in idx:
        byop.setdefault(ss[i].op, []).append(i)
    for v in byop.values():
        rng.shuffle(v)
    pick = []
    while len(pick) < a.max and any(byop.values()):
        for op in sorted(byop):
            if byop[op] and len(pick) < a.max:
                pick.append(byop[op].pop())
    with ThreadPoolExecutor(a.jobs) as ex:
        futs = [ex.submit(run_one, a.file, i, ss[i], src, checks, a.out) for i in sorted(pick)]
        for f in futs:
            r = f.result()
            print(json.dumps(r)[:300], flush=True)


if __name__ == '__main__':
    main()
