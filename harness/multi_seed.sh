#!/bin/bash
# multi_seed.sh "<seeds>" [tier] : every check on the unchanged tree for several VERIF_SEED values (false-alarm hunt)
# evidence goes to a scratch dir so committed evidence is not disturbed
SEEDS=${1:-"11 12 13"}; TIER=${2:-quick}
cd /verif
E=$(mktemp -d /tmp/nt_ms_XXXXXX)
for sd in $SEEDS; do
  for i in $(seq -w 1 20); do
    P=C$i
    s=$(date +%s)
    VERIF_SEED=$sd VERIF_EVIDENCE_DIR=$E timeout 3600 ./check $P $TIER > $E/$P.$sd.log 2>&1; rc=$?
    e=$(( $(date +%s) - s ))
    k=$(grep -c "^KNOWN-FINDING" $E/$P.$sd.log)
    echo "seed=$sd $P rc=$rc ${e}s known=$k $(grep -E '^VIOLATION|INFRASTRUCTURE' $E/$P.$sd.log | head -2 | tr '\n' ' ')"
    if [ $rc != 0 ]; then cp $E/$P.$sd.log /tmp/alarm_$P.$sd.log; fi
  done
done
rm -rf $E
