#!/bin/bash
# sweep_all.sh [jobs] [seeds] : every archived seeded change against its own check, <jobs> at a time (default 5), recorded in
# seeded/<id>/meta.json (final_sweep) by record_sweep.py.  Isolated scratch copies; /repo and the committed evidence untouched.
J=${1:-5}; SEEDS=${2:-"1 5"}
OUT=$(mktemp /tmp/nt_sweepall_XXXXXX)
ls /verif/seeded | grep -E '^C[0-9]+-[0-9]+$' | xargs -P $J -I{} /verif/harness/seed_sweep.sh "$SEEDS" {} > $OUT 2>&1
grep -v 'seed[0-9]*=V seed[0-9]*=V$' $OUT
/venv/bin/python /verif/harness/record_sweep.py $OUT
echo "full output: $OUT"
