"""Input families shared by the C10 / C11 / C12 harnesses (session 3): the SAME numbers handed to the implementation in
other representations (integer dtypes, float32 / complex64, big-endian, Fortran order, strided and read-only views).

The protocol line (Lean model) and the oracle always work from the float64 / complex128 VALUES; `variant` only changes
how the implementation receives them.  For the integer / float32 kinds the caller first makes the values representable
(`quantise`, `to_f32`) so that the conversion back to float64 is exact — "dtype conversion = exact embedding".
"""
import numpy as np

INT_KINDS = ('int16', 'int32', 'int64', 'uint8')
LAYOUT_KINDS = ('F', 'strided', 'readonly', 'bigendian', 'rowstrided')
LOWP_KINDS = ('float32', 'complex64')          # results carry single-precision rounding: compared at 2e-5
# largest |sample| per integer kind: (nearly) the full range of the narrow types — their pairwise products do NOT fit
# the type, so a routine that multiplies integer recordings in their own dtype wraps around and is seen; sums of N <= 4096
# products stay below 2^53 (exact in binary64)
INT_RANGE = {'int16': 30000, 'int32': 1000000, 'int64': 1000000, 'uint8': 250}


def quantise(x, kind, nrng=None):
    """float64 array of integer values that fit `kind` (and whose pairwise products fit it too)"""
    x = np.asarray(x, dtype=float)
    hi = INT_RANGE[kind]
    m = float(np.abs(x).max()) or 1.0
    if kind == 'uint8':
        lo, up = float(x.min()), float(x.max())
        q = np.round((x - lo) / ((up - lo) or 1.0) * hi)
    else:
        q = np.round(x / m * hi)
    return q.astype(float)


def to_f32(x):
    """values representable in single precision (as float64 / complex128)"""
    x = np.asarray(x)
    return x.astype(np.complex64).astype(complex) if np.iscomplexobj(x) else x.astype(np.float32).astype(float)


def prepare(x, kind, nrng=None):
    """the float64 values a case of this kind is about"""
    if kind in INT_KINDS:
        return quantise(x, kind, nrng)
    if kind in LOWP_KINDS:
        return to_f32(x)
    return np.asarray(x)


def variant(x, kind):
    """what the implementation is handed: same values, other representation (fresh object every call)"""
    x = np.asarray(x)
    if kind in (None, '', 'f8'):
        return np.array(x, copy=True)
    if kind in INT_KINDS:
        y = x.astype(kind)
        assert np.array_equal(y.astype(float), x), 'values not representable in ' + kind
        return y
    if kind == 'float32':
        y = x.astype(np.float32)
        assert np.array_equal(y.astype(float), x)
        return y
    if kind == 'complex64':
        return x.astype(np.complex64)
    if kind == 'F':
        return np.asfortranarray(x) if x.ndim >= 2 else np.array(x, copy=True)
    if kind == 'strided':
        big = np.full(x.shape[:-1] + (2 * x.shape[-1],), 7.5, dtype=x.dtype)
        big[..., ::2] = x
        return big[..., ::2]
    if kind == 'rowstrided':
        if x.ndim < 2:
            big = np.full((2 * x.shape[0],), -3.25, dtype=x.dtype)
            big[::2] = x
            return big[::2]
        big = np.full((2 * x.shape[0],) + x.shape[1:], -3.25, dtype=x.dtype)
        big[::2] = x
        return big[::2]
    if kind == 'readonly':
        y = np.array(x, copy=True)
        y.flags.writeable = False
        return y
    if kind == 'bigendian':
        return x.astype(x.dtype.newbyteorder('>'))
    raise ValueError(kind)


def lowp(kind):
    return kind in LOWP_KINDS


def tol_factor(*kinds):
    """how much looser a single-precision representation is judged (values are exact, arithmetic is float32)"""
    return 2e4 if any(k in LOWP_KINDS for k in kinds) else 1.0
