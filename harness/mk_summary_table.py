#!/usr/bin/env python3
"""Regenerates the per-property summary table of DESIGN.md §11.6 (between the AUTO:SUMMARY markers) from the evidence
files of the last quick runs and harness/claims.py."""
import json, os, sys, re
V = os.path.dirname(os.path.dirname(os.path.abspath(__file__)))
sys.path.insert(0, os.path.join(V, 'harness'))
from claims import CLAIMED, TB
from claims_s3 import S3
rows = ['| id | theorems (audited) | quick: cases / wall | Lean files (model, lemmas, generated) | partial / not proved (decided per run only) |', '|---|---|---|---|---|']
for i in sorted(CLAIMED):
    try:
        e = json.load(open(os.path.join(V, 'evidence', i + '.json')))
    except Exception:
        rows.append('| %s | ? | ? | ? | ? |' % i)
        continue
    c = e['coverage']
    files = [f.split('/')[-1] for f in c.get('lean_files', []) if '/Props/' not in f and '/Audit/' not in f]
    note = (CLAIMED[i][2].replace(TB, '').strip() + ' ' + S3.get(i, '')).strip()
    kf = c.get('known_findings_reproduced') or []
    if kf:
        note += ' KNOWN-FINDING reproduced: ' + '; '.join(sorted({(k if isinstance(k, str) else k.get('key', '?')) for k in kf}))[:200]
    rows.append('| %s | %s | %s / %.0f s | %s | %s |' % (i, c.get('obligations', '?'), c.get('evaluations', '?'), e.get('wall_s', 0),
                                                       ', '.join(sorted(set(files))), note.replace('|', '\\|')))
s = open(os.path.join(V, 'DESIGN.md')).read()
a, b = '<!-- AUTO:SUMMARY -->', '<!-- /AUTO:SUMMARY -->'
assert a in s and b in s
s = s[:s.index(a) + len(a)] + '\n' + '\n'.join(rows) + '\n' + s[s.index(b):]
open(os.path.join(V, 'DESIGN.md'), 'w').write(s)
print('summary rows', len(rows) - 2)
