"""Translator pass for C11: how many lagged covariances the estimators ask `autocov_vector` for.

Pure `ast` walking of nitime/algorithms/autoregressive.py and nitime/analysis/granger.py (no repo code is executed).

  MAR_est_LWR:   Rxx = utils.autocov_vector(x, nlags=<expr in order>)              -> `marNlags : Nat → Nat`
  fit_model, `if order is not None:` branch
                 lag = <expr in order>
                 Rxx = utils.autocov_vector(np.vstack([x1, x2]), nlags=lag)        -> `fixedLags : Nat → Nat`
                 coef, ecov = alg.lwr_recursion(np.array(Rxx).transpose(2, 0, 1))
  fit_model, else branch
                 for lag in range(<const>, max_order):                             -> `loopStart : Nat`, `loopStopIsMaxOrder : Bool`
                     Rxx_new = utils.autocov_vector(np.vstack([x1, x2]), nlags=lag) -> `loopLagsIsLag : Bool`

into `lean/Nitime/Generated/FitModel.lean`.  `Model/C11.lean` takes `marLags` and the fixed-order lag count of `fitPlan`
from these definitions, and `Props/C11.lean` proves `marEst_order`, `fitModel_reports_its_order`, `fitModel_loop_shape`
ABOUT them: an edit of these statements (another lag count; covariances sliced out of a shared array instead of being
requested per order; another loop range) is re-translated on the next run, and either the generated formula changes —
the theorems then fail to check — or the statement leaves the supported fragment and is emitted as 0 / false, with the
same effect (broken obligation, never by itself a violation).
"""
import ast
import translate as tr


def nat_expr(node, var):
    """Lean `Nat` expression of a python integer expression in the single variable `var` (+, -, *, literals)"""
    if isinstance(node, ast.Name) and node.id == var:
        return var
    if isinstance(node, ast.Constant) and isinstance(node.value, int) and not isinstance(node.value, bool) and node.value >= 0:
        return str(node.value)
    if isinstance(node, ast.BinOp) and isinstance(node.op, (ast.Add, ast.Sub, ast.Mult)):
        a, b = nat_expr(node.left, var), nat_expr(node.right, var)
        if a is None or b is None:
            return None
        return '(%s %s %s)' % (a, {ast.Add: '+', ast.Sub: '-', ast.Mult: '*'}[type(node.op)], b)
    return None


def is_autocov_call(node):
    return isinstance(node, ast.Call) and isinstance(node.func, ast.Attribute) and node.func.attr == 'autocov_vector'


def nlags_of(call):
    for k in call.keywords:
        if k.arg == 'nlags':
            return k.value
    return call.args[1] if len(call.args) > 1 else None


def stacked_pair(call):
    """first argument is np.vstack([x1, x2]) of the two parameters"""
    a = call.args[0] if call.args else None
    return (isinstance(a, ast.Call) and isinstance(a.func, ast.Attribute) and a.func.attr == 'vstack' and a.args
            and isinstance(a.args[0], ast.List) and [getattr(e, 'id', None) for e in a.args[0].elts] == ['x1', 'x2'])


def assigns(body, name):
    return [s for s in body if isinstance(s, ast.Assign) and len(s.targets) == 1 and isinstance(s.targets[0], ast.Name) and s.targets[0].id == name]


def gen_fit_model():
    info = {'source': 'nitime/algorithms/autoregressive.py:MAR_est_LWR, nitime/analysis/granger.py:fit_model'}
    mar, fixed, start, stop_ok, loop_ok = '0', '0', '0', 'false', 'false'
    try:
        fn = tr.find_func(tr.parse('nitime/algorithms/autoregressive.py'), 'MAR_est_LWR')
        rx = assigns(fn.body, 'Rxx')
        if len(rx) == 1 and is_autocov_call(rx[0].value) and isinstance(rx[0].value.args[0], ast.Name) and rx[0].value.args[0].id == 'x':
            e = nat_expr(nlags_of(rx[0].value), 'order')
            info['MAR_est_LWR.nlags'] = ast.unparse(nlags_of(rx[0].value))
            # what goes into lwr_recursion must be that array (transposed), nothing else
            uses = [s for s in fn.body if isinstance(s, ast.Assign) and isinstance(s.value, ast.Call)
                    and getattr(s.value.func, 'id', getattr(s.value.func, 'attr', '')) == 'lwr_recursion']
            if e and len(uses) == 1 and ast.unparse(uses[0].value.args[0]) == 'Rxx.transpose(2, 0, 1)':
                mar = e
    except Exception as ex:  # noqa
        info['error_mar'] = repr(ex)
    try:
        fn = tr.find_func(tr.parse('nitime/analysis/granger.py'), 'fit_model')
        # no covariance may be computed outside the two branches (a shared array sliced per order is another algorithm)
        top_cov = [s for s in fn.body if isinstance(s, ast.Assign) and any(is_autocov_call(n) for n in ast.walk(s.value))]
        branch = [s for s in fn.body if isinstance(s, ast.If) and ast.unparse(s.test) == 'order is not None']
        if len(branch) == 1 and not top_cov:
            body, orelse = branch[0].body, branch[0].orelse
            lag = assigns(body, 'lag')
            rx = assigns(body, 'Rxx')
            info['fit_model.fixed'] = '; '.join(ast.unparse(s) for s in body)
            if len(lag) == 1 and len(rx) == 1 and is_autocov_call(rx[0].value) and stacked_pair(rx[0].value):
                nl = nlags_of(rx[0].value)
                uses = [s for s in body if isinstance(s, ast.Assign) and isinstance(s.value, ast.Call)
                        and getattr(s.value.func, 'attr', '') == 'lwr_recursion']
                if isinstance(nl, ast.Name) and nl.id == 'lag' and len(uses) == 1 \
                        and ast.unparse(uses[0].value.args[0]) == 'np.array(Rxx).transpose(2, 0, 1)':
                    fixed = nat_expr(lag[0].value, 'order') or '0'
            loops = [s for s in orelse if isinstance(s, ast.For)]
            if len(loops) == 1 and isinstance(loops[0].target, ast.Name) and loops[0].target.id == 'lag':
                it = loops[0].iter
                info['fit_model.loop'] = ast.unparse(it)
                if isinstance(it, ast.Call) and getattr(it.func, 'id', '') == 'range' and len(it.args) == 2:
                    s0 = nat_expr(it.args[0], '_')
                    if s0 is not None:
                        start = s0
                    stop_ok = 'true' if isinstance(it.args[1], ast.Name) and it.args[1].id == 'max_order' else 'false'
                rn = assigns(loops[0].body, 'Rxx_new')
                if len(rn) == 1 and is_autocov_call(rn[0].value) and stacked_pair(rn[0].value):
                    nl = nlags_of(rn[0].value)
                    uses = [s for s in loops[0].body if isinstance(s, ast.Assign) and isinstance(s.value, ast.Call)
                            and getattr(s.value.func, 'attr', '') == 'lwr_recursion']
                    if isinstance(nl, ast.Name) and nl.id == 'lag' and len(uses) == 1 \
                            and ast.unparse(uses[0].value.args[0]) == 'np.array(Rxx_new).transpose(2, 0, 1)':
                        loop_ok = 'true'
    except Exception as ex:  # noqa
        info['error_fit'] = repr(ex)
    info.update(marNlags=mar, fixedLags=fixed, loopStart=start, loopStopIsMaxOrder=stop_ok, loopLagsIsLag=loop_ok)
    text = '\n'.join([
        '-- GENERATED by harness/translate_c11.py from nitime/algorithms/autoregressive.py (MAR_est_LWR) and',
        '-- nitime/analysis/granger.py (fit_model). DO NOT EDIT.',
        'namespace Nitime.Generated.FitModel', '',
        '/-- `nlags` that `MAR_est_LWR(x, order)` passes to `autocov_vector` (0 = statement outside the supported fragment) -/',
        'def marNlags (order : Nat) : Nat := %s' % mar, '',
        '/-- `lag` of the `order is not None` branch of `fit_model`: the number of lags requested from `autocov_vector` and',
        'handed, all of them, to `lwr_recursion` (0 = outside the fragment, e.g. sliced out of a shared array) -/',
        'def fixedLags (order : Nat) : Nat := %s' % fixed, '',
        '/-- `for lag in range(loopStart, max_order)` -/',
        'def loopStart : Nat := %s' % start,
        'def loopStopIsMaxOrder : Bool := %s' % stop_ok, '',
        '/-- each pass requests exactly `lag` lags for the stacked pair and hands them to `lwr_recursion` -/',
        'def loopLagsIsLag : Bool := %s' % loop_ok, '',
        'end Nitime.Generated.FitModel', ''])
    return 'FitModel.lean', text, info


GENERATORS = [gen_fit_model]


# ---------------------------------------------------------------------------------------------------------------------
# Round 2 (L7): which instance attributes of GrangerAnalyzer are written OUTSIDE __init__ / set_input and are not
# one-time properties.  A one-time property (`@desc.setattr_on_read`) is removed by `reset()` (called by
# `BaseAnalyzer.set_input`); any other attribute written by a getter / helper survives a change of input (and a failed
# read).  `Lemmas/GrangerObj.lean: retarget_after_failed_fit_is_fresh` needs the set to be empty (today it is).
SELF_WRITERS = ('setattr', 'delattr', 'vars')


def _is_self(node):
    return isinstance(node, ast.Name) and node.id == 'self'


def written_attrs(fn):
    """names of `self` attributes a method may write: `self.x = / += / del self.x`, `setattr(self, 'x', …)`, and ANY use of
    `self.__dict__` / `vars(self)` (reported as `__dict__`, plus the string literals passed to its methods / subscripts)"""
    out = []
    for node in ast.walk(fn):
        targets = []
        if isinstance(node, ast.Assign):
            targets = node.targets
        elif isinstance(node, (ast.AugAssign, ast.AnnAssign)):
            targets = [node.target]
        elif isinstance(node, ast.Delete):
            targets = node.targets
        elif isinstance(node, (ast.For, ast.AsyncFor)):
            targets = [node.target]
        elif isinstance(node, ast.With):
            targets = [i.optional_vars for i in node.items if i.optional_vars is not None]
        elif isinstance(node, ast.NamedExpr):
            targets = [node.target]
        for t in targets:
            for sub in ast.walk(t):
                if isinstance(sub, ast.Attribute) and _is_self(sub.value):
                    out.append(sub.attr)
        if isinstance(node, ast.Call) and isinstance(node.func, ast.Name) and node.func.id in SELF_WRITERS \
                and node.args and _is_self(node.args[0]):
            lit = [a.value for a in node.args[1:2] if isinstance(a, ast.Constant) and isinstance(a.value, str)]
            out += lit or ['__dict__']
        if isinstance(node, ast.Attribute) and node.attr == '__dict__' and _is_self(node.value):
            out.append('__dict__')
        if isinstance(node, ast.Call) and isinstance(node.func, ast.Attribute) and isinstance(node.func.value, ast.Attribute) \
                and node.func.value.attr == '__dict__' and _is_self(node.func.value.value):
            out += [a.value for a in node.args[:1] if isinstance(a, ast.Constant) and isinstance(a.value, str)]
    return out


def gen_granger_attrs():
    info = {'source': 'nitime/analysis/granger.py:GrangerAnalyzer'}
    survivors, onetime, local_acc = ['<untranslated>'], [], 'false'
    try:
        tree = tr.parse('nitime/analysis/granger.py')
        cls = [n for n in ast.walk(tree) if isinstance(n, ast.ClassDef) and n.name == 'GrangerAnalyzer'][0]
        survivors = []
        for fn in cls.body:
            if not isinstance(fn, ast.FunctionDef):
                continue
            deco = [ast.unparse(d) for d in fn.decorator_list]
            if any(d.endswith('setattr_on_read') or d.endswith('OneTimeProperty') for d in deco):
                onetime.append(fn.name)
            if fn.name in ('__init__', 'set_input'):
                continue
            for a in written_attrs(fn):
                tag = '%s:%s' % (fn.name, a)
                if tag not in survivors:
                    survivors.append(tag)
        # the accumulator of `_model`'s loop is a local built from literals (not reached through `self`)
        fm = tr.find_func(tree, '_model', cls='GrangerAnalyzer')
        acc = assigns(fm.body, 'model')
        if len(acc) == 1 and not any(_is_self(n) for n in ast.walk(acc[0].value)):
            rets = [n for n in ast.walk(fm) if isinstance(n, ast.Return)]
            if len(rets) == 1 and isinstance(rets[0].value, ast.Name) and rets[0].value.id == 'model':
                local_acc = 'true'
        info['_model.accumulator'] = ast.unparse(acc[0].value) if acc else None
    except Exception as ex:  # noqa
        info['error'] = repr(ex)
        survivors = survivors or ['<untranslated>']
    info.update(survivors=survivors, onetime=onetime, modelAccumulatorIsLocal=local_acc)
    q = lambda l: '[' + ', '.join('"%s"' % x for x in l) + ']'
    text = '\n'.join([
        '-- GENERATED by harness/translate_c11.py from nitime/analysis/granger.py (class GrangerAnalyzer). DO NOT EDIT.',
        'namespace Nitime.Generated.GrangerAttrs', '',
        '/-- `method:attribute` for every instance attribute written (assigned, deleted, reached through `self.__dict__` /',
        '`setattr` / `vars`) by a method other than `__init__` / `set_input`.  One-time properties store their value through the',
        'descriptor, not in their body, so a clean class has none. -/',
        'def survivors : List String := %s' % q(survivors), '',
        '/-- the methods declared as one-time properties (deleted by `reset()`, hence by `set_input`) -/',
        'def oneTime : List String := %s' % q(onetime), '',
        '/-- `_model` collects the per-pair fits in a local built without `self` and returns it -/',
        'def modelAccumulatorIsLocal : Bool := %s' % local_acc, '',
        'end Nitime.Generated.GrangerAttrs', ''])
    return 'GrangerAttrs.lean', text, info


GENERATORS.append(gen_granger_attrs)


# ---------------------------------------------------------------------------------------------------------------------
# Wave 6: the CONTROL FLOW of the order loop of `lwr_recursion`.  The theorems (`lwr_solves`, `lwr_exact_recovery_sparse`)
# are about a recursion that performs EVERY pass p = 0..P-1: a vanishing reflection numerator is an ordinary pass
# (`lwr_zero_reflection_step`), not a reason to stop.  Generated: the loop header, every statement inside the loop that
# leaves it early (`break`, `continue`, `return`, `raise`, and conditionals guarding the updates), and what follows it.
def _exits(node, depth=0):
    """(kind, lineno-free description) of every statement below `node` that ends a pass or the loop early"""
    out = []
    for sub in ast.iter_child_nodes(node):
        if isinstance(sub, (ast.FunctionDef, ast.Lambda, ast.ClassDef)):
            continue
        if isinstance(sub, (ast.Break, ast.Continue, ast.Return, ast.Raise)):
            out.append(type(sub).__name__.lower())
        out += _exits(sub, depth + 1)
    return out


def gen_lwr_flow():
    info = {'source': 'nitime/algorithms/autoregressive.py:lwr_recursion'}
    exits, guards, over_range_p, ret_after, whiles = ['<untranslated>'], ['<untranslated>'], 'false', 'false', 0
    try:
        tree = tr.parse('nitime/algorithms/autoregressive.py')
        fn = tr.find_func(tree, 'lwr_recursion')
        loops = [s for s in fn.body if isinstance(s, ast.For)]
        whiles = len([n for n in ast.walk(fn) if isinstance(n, ast.While)])
        if len(loops) == 1:
            lp = loops[0]
            exits = _exits(lp) + (['else-clause'] if lp.orelse else [])
            # conditionals at any depth inside the order loop: a guarded update is a skipped update
            guards = [ast.unparse(n.test) for n in ast.walk(lp) if isinstance(n, (ast.If, ast.IfExp))]
            guards += ['try'] * len([n for n in ast.walk(lp) if isinstance(n, ast.Try)])
            # `for p in range(P)` with `P = r.shape[0] - 1` assigned once before the loop
            it = lp.iter
            pa = assigns(fn.body, 'P')
            if (isinstance(lp.target, ast.Name) and lp.target.id == 'p' and isinstance(it, ast.Call) and getattr(it.func, 'id', None) == 'range'
                    and len(it.args) == 1 and not it.keywords and isinstance(it.args[0], ast.Name) and it.args[0].id == 'P'
                    and len(pa) == 1 and ast.unparse(pa[0].value).replace(' ', '') == 'r.shape[0]-1'
                    and fn.body.index(pa[0]) < fn.body.index(lp)
                    and not any(isinstance(t, ast.Name) and t.id in ('p', 'P') for n in ast.walk(lp) if isinstance(n, (ast.Assign, ast.AugAssign))
                                for t in (n.targets if isinstance(n, ast.Assign) else [n.target]))):
                over_range_p = 'true'
            # the loop is followed directly by `return a, sigf`, the only return of the function
            after = fn.body[fn.body.index(lp) + 1:]
            rets = [n for n in ast.walk(fn) if isinstance(n, ast.Return)]
            if len(after) == 1 and isinstance(after[0], ast.Return) and len(rets) == 1 and ast.unparse(after[0].value).replace(' ', '') in ('a,sigf', '(a,sigf)'):
                ret_after = 'true'
            info['loop'] = 'for %s in %s' % (ast.unparse(lp.target), ast.unparse(it))
        else:
            exits = ['<%d top-level for loops>' % len(loops)]
    except Exception as ex:  # noqa
        info['error'] = repr(ex)
    info.update(orderLoopExits=exits, orderLoopGuards=guards, orderLoopOverRangeP=over_range_p, returnsAfterLoop=ret_after, whileLoops=whiles)
    q = lambda l: '[' + ', '.join('"%s"' % x.replace('\\', '\\\\').replace('"', '\\"') for x in l) + ']'
    text = '\n'.join([
        '-- GENERATED by harness/translate_c11.py from nitime/algorithms/autoregressive.py (lwr_recursion). DO NOT EDIT.',
        'namespace Nitime.Generated.LwrFlow', '',
        '/-- every `break` / `continue` / `return` / `raise` (and a `for … else`) inside the order loop `for p in range(P)`,',
        'nested loops included -/',
        'def orderLoopExits : List String := %s' % q(exits), '',
        '/-- the test of every `if` / conditional expression (and `try`) inside the order loop: a guarded update is a skipped update -/',
        'def orderLoopGuards : List String := %s' % q(guards), '',
        '/-- the loop header is `for p in range(P)` with `P = r.shape[0] - 1` assigned once before it; neither is reassigned inside -/',
        'def orderLoopOverRangeP : Bool := %s' % over_range_p, '',
        '/-- the loop is followed directly by the only `return`, of `(a, sigf)` -/',
        'def returnsAfterLoop : Bool := %s' % ret_after, '',
        '/-- `while` loops anywhere in the function -/',
        'def whileLoops : Nat := %d' % whiles, '',
        'end Nitime.Generated.LwrFlow', ''])
    return 'LwrFlow.lean', text, info


GENERATORS.append(gen_lwr_flow)
