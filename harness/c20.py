"""C20 — correlation, normalisation and information measures obey their definitions.

Correspondence: utils.crosscov/crosscorr/autocov/autocorr (FFT based), utils.fftconvolve, utils.zscore,
utils.percent_change, utils.crosscov_vector/autocov_vector, algorithms.seed_corrcoef, CorrelationAnalyzer.xcorr/xcorr_norm,
SeedCorrelationAnalyzer, NormalizationAnalyzer, algorithms.correlation_spectrum and the entropy family on the real code vs the Lean model
`Nitime.C20` (direct sums, exact joint counts; for the 1-d covariance lanes and fftconvolve ALSO the
model's FFT path = naive DFT of the zero-padded inputs, product, inverse, as the code does it).
Generators are stratified over storage dtypes and amplitude decades (see RULE); every judgement is
relative to the data's own scale.
Oracle (independent of the Lean model): O(N^2) lagged sums with np.vdot, numpy reductions,
collections.Counter + math.log2, metamorphic identities (lag reversal, relabelling, permutation).
"""
import math
from collections import Counter
import numpy as np
from common import Case, Failure, flist, clist, ilist, parse_flist, parse_clist, parse_ilist, call, close_vec

PID = 'C20'
LEAN_TARGETS = ['Nitime.Props.C20']
RULE = ('cases from one PRNG state: {crosscov,crosscorr,autocov,autocorr} x {real,complex} x 1..3 dims x every axis (incl. negative) x '
        'all_lags/debias/normalize flags, lane length 2..64 (thorough: ..256); zscore / percent_change along every axis; seed_corrcoef with '
        '1..5 targets; CorrelationAnalyzer.xcorr / xcorr_norm with 2..4 channels; correlation_spectrum; entropy (1..3 variables), '
        'conditional_entropy, mutual_information, entropy_cc, transfer_entropy (lags 1..5) over alphabets of size 1..6 with arbitrary integer '
        'labels, lengths 2..60 (thorough ..200). Every numeric clause is STRATIFIED over (a) the storage dtype float64 / float32 / complex128 / '
        'complex64 / int16 / int32 / int64 / uint8 (entropy labels: int8..int64, uint8, float32, float64, bool-like, huge/tiny floats) and (b) the '
        'amplitude decade of the data: 10^e with e cycling through a fixed grid that spans the whole range in which the second moments of the data '
        'are normal numbers of the dtype (|e| <= 140 for 64-bit, <= 13 for 32-bit; percent_change, linear in the data: |e| <= 300 / 35), '
        'each argument scaled independently where the definition is scale-free per argument; every comparison is relative to the '
        "data's own scale; utils.fftconvolve on pairs of sequences of unequal lengths and all four covariance functions on 1-d lanes of every "
        'length 2..70 are compared with BOTH the model FFT path (naive DFT, padded power-of-two length) and the direct sums; '
        'crosscov_vector / autocov_vector on (1..3, N) channels with nlags None / left out / 0 / 1 / N / between; storage dtypes also boolean; every '
        'call under a discipline drawn per case: plain, Fortran, strided, reuse, read-only, big-endian, the same for the LAST argument only, or SANDWICH '
        '(call, ~40 other calls of the family with other options on the same arrays, every handed-out array overwritten, call again: equal; more calls: the '
        'result still holds); keywords left out when they have their default value; near-constant (relative spread 1e-4) and constant channels where the '
        'clause has a verdict; Seed/Normalization/CorrelationAnalyzer over the dtype cycle, re-read through NEW analyzers; '
        'round 4 (L10, own PRNG streams, c20_l10.py): every scale-/shift-free clause — seed_corrcoef (function and SeedCorrelationAnalyzer), '
        'CorrelationAnalyzer.corrcoef / xcorr_norm, zscore, percent_change (functions and NormalizationAnalyzer), debiased crosscov / autocov — on COUNT-VALUED data '
        'riding on an additive baseline 2^10..2^30 with +-1..+-3 fluctuation (another level per row / lane / channel, float64 or int64 storage) and with power-of-two '
        'gains 2^+-250 (percent_change 2^+-500; another gain per argument, the second row / lane / channel 2^-30 of the others), judged against EXACT RATIONAL arithmetic '
        '(fractions.Fraction, one rounding at the end) at tol = 1e-9 + 16 eps max|x|/sigma (the forward error of a backward-stable evaluation; the unchanged code stays below '
        '5 % of it, raw-moment one-pass forms exceed it from level 2^12 on). Over the reals the one-pass Pearson formula IS the two-pass one (theorem '
        'pearson_one_pass_eq_two_pass) and the coefficient is shift-/scale-free (pearson_shift_invariant, pearson_scale_invariant): no theorem can see such a rewrite, '
        'only the correspondence (implementation vs the binary64 run of the two-pass model text on the same numbers) and this oracle do; '
        'distinct = distinct protocol line; non-trivial = non-constant input')
ASSUMPTIONS = ['zscore / seed_corrcoef inputs have non-zero variance along the axis (relative to their own magnitude; the L10 baseline strata: sigma >= 0.3 EXACTLY, on levels up to 2^30, tolerance 1e-9 + 16 eps max|x|/sigma), percent_change inputs have non-zero mean (monitored: generators avoid them, the count of skipped degenerate lanes is reported)',
               'amplitude domain: N*max|x|^2 and the smallest squares that matter are NORMAL numbers of the working dtype (float64: data in 1e-140..1e142, float32: 1e-13..1e15) — outside it even numpy\'s own mean/std/dot of the definition over- or underflow; percent_change (linear) is exercised over 1e-300..1e300',
               'binary64 / binary32 rounding inside the routines is not modelled: numeric outputs are compared at 1e-9 (64-bit data) or 2e-4 (32-bit data) of the largest magnitude (+ an absolute term proportional to the input scale for FFT round-off)']
TRUSTED_EXTRA = ['scipy.fftpack.fft/ifft inside utils.fftconvolve are modelled by their documented semantics (naive O(L^2) DFT of the zero-padded input, inverse with 1/L); the convolution theorem for THAT model is proved (fftconvolve_is_linear_convolution, crosscov_fft_is_lagged_sum); that scipy computes the DFT is trusted and checked per run by correspondence (ops fftconv / covfft)',
                 'np.correlate(a, v, "full") = linear convolution of a with conj(reversed v); np.corrcoef = Pearson coefficient; np.mean/np.std (population) ; np.roll; itertools.product(set(x)…) — by their documented semantics',
                 'the theorems are about the R / C instances of the Scalar-polymorphic model text; the driver runs the Float / Float-pair instances of the same definitions (parametricity unproved); data stored in narrower dtypes are run by the model as the binary64 values they denote (integer / boolean data: the model embeds the integers, `ofInt`)']


def U():
    import nitime.utils as u
    return u


def TSA():
    import nitime.algorithms as a
    return a


# ------------------------------------------------------------------ helpers
def arr_tok(a):
    a = np.ascontiguousarray(a)
    return ilist(a.shape), (clist(a.reshape(-1)) if np.iscomplexobj(a) else flist(a.reshape(-1)))


def canon_nd(r, cplx=False):
    if isinstance(r, str):
        return r
    r = np.asarray(r)
    if cplx and not np.iscomplexobj(r):
        r = r.astype(complex)     # complex input: a real result is compared as complex with zero imaginary part
    sh, d = arr_tok(r)
    return 'ok %s %s' % (sh, d)


def parse_nd(s, cplx):
    """'ok shape data' -> (shape, values) ; else None"""
    if not s.startswith('ok '):
        return None
    t = s.split(' ')
    if len(t) != 3:
        return None
    sh = parse_ilist(t[1])
    vals = parse_clist(t[2]) if cplx else parse_flist(t[2])
    return sh, vals


def cmp_nd(cplx, atol, rtol=1e-9):
    def f(impl, model):
        if impl.startswith('err') or model.startswith('err'):
            return impl == model
        a, b = parse_nd(impl, cplx), parse_nd(model, cplx)
        if a is None or b is None or a[0] != b[0]:
            return False
        return close_c(a[1], b[1], rtol, atol)
    return f


def close_c(a, b, rtol, atol):
    if len(a) != len(b):
        return False
    a = np.asarray(a, dtype=complex)
    b = np.asarray(b, dtype=complex)
    if not len(a):
        return True
    bad_a, bad_b = ~np.isfinite(a), ~np.isfinite(b)
    if bad_a.any() or bad_b.any():
        return bool((bad_a == bad_b).all() and close_c(list(a[~bad_a]), list(b[~bad_b]), rtol, atol))
    scale = max(np.abs(a).max(), np.abs(b).max())
    return bool((np.abs(a - b) <= rtol * scale + atol).all())


def cmp_scalar(atol, rtol=1e-9):
    def f(impl, model):
        if not (impl.startswith('ok ') and model.startswith('ok ')):
            return impl == model
        return close_c(parse_flist(impl[3:]), parse_flist(model[3:]), rtol, atol)
    return f


def cmp_ecc(impl, model):
    """entropy_cc = sqrt(MI / mean entropy): round-off of 1e-16 in MI = 0 (independent variables) is 1e-8 after the root, or
    nan when it is negative; the comparison is made on the SQUARES (abs 1e-9), a nan is accepted against a square <= 1e-9"""
    if not (impl.startswith('ok ') and model.startswith('ok ')):
        return impl == model
    a, b = parse_flist(impl[3:])[0], parse_flist(model[3:])[0]
    if a != a or b != b:
        return (a != a and b != b) or (a != a and b * b <= 1e-9) or (b != b and a * a <= 1e-9)
    return abs(a * a - b * b) <= 1e-9


def cmp_two_paths(cplx, atol, rtol):
    """model line 'ok <FFT path> ; <direct path>' (flat vectors): the implementation must agree with BOTH model
    paths and the two model paths with each other"""
    pr = parse_clist if cplx else parse_flist

    def f(impl, model):
        a = parse_nd(impl, cplx)
        if a is None or not (model.startswith('ok ') and ' ; ' in model):
            return False
        a = a[1]
        p1, p2 = [pr(t) for t in model[3:].split(' ; ')]
        return close_c(a, p1, rtol, atol) and close_c(a, p2, rtol, atol) and close_c(p1, p2, 1e-9, atol)
    return f


def gen_array(nr, shape, cplx, kind, offsets=(10.0, -3.0, 100.0), spread=1e-4):
    n = int(np.prod(shape))
    if kind == 'int':
        a = nr.randint(-5, 6, size=n).astype(float)
    elif kind == 'offset':
        a = nr.randn(n) + nr.choice(list(offsets))
    elif kind == 'nearconst':      # an ALMOST constant channel: relative spread 1e-4 (3e-2 for 32-bit storage: ~1e6 ulp either way),
        a = nr.choice([1.0, -2.5]) * (1.0 + spread * nr.randn(n))      # inside every sigma != 0 / mean != 0 guard
    elif kind == 'const':          # a constant channel (only where the clause has a verdict for it)
        a = np.full(n, nr.choice([2.5, -1.0, 0.0]))
    else:
        a = nr.randn(n)
    if cplx:
        a = a + 1j * (nr.randint(-5, 6, size=n).astype(float) if kind == 'int' else nr.randn(n))
    return a.reshape(shape)


# ------------------------------------------------------------------ dtype / amplitude strata
# Every definitional clause is scale-free or scale-covariant, so it is exercised over the whole range of
# amplitudes in which the data's second moments are normal numbers of the storage dtype, and over the
# storage dtypes; all judgements are relative to the data's own magnitude.
DT = {'f8': np.float64, 'f4': np.float32, 'c16': np.complex128, 'c8': np.complex64,
      'i2': np.int16, 'i4': np.int32, 'i8': np.int64, 'u1': np.uint8, 'b1': np.bool_}
REAL_DT = ['f8', 'f4', 'f8', 'i2', 'f8', 'f4', 'i8', 'b1', 'f8', 'u1', 'f8', 'i4']
CPLX_DT = ['c16', 'c8', 'c16']
DT_NAME = {'f8': 'real', 'c16': 'complex', 'f4': 'float32', 'c8': 'complex64', 'i2': 'int', 'i4': 'int', 'i8': 'int', 'u1': 'int', 'b1': 'bool'}
# decades for quantities QUADRATIC in the data (second moments must stay normal numbers of the dtype)
EXP2 = {'d': [0, -16, 140, -7, 3, -140, 9, -100, 0, 100, -30, 30, -60, 60, -9, 6, -3, -120, 120, -13, 16, -80, 80, -45, 45, -20, 20],
        's': [0, -7, 13, -13, 3, -3, 6, -10, 0, 10, -5, 9]}
# decades for quantities LINEAR in the data (percent_change)
EXP1 = {'d': [0, -300, 300, -16, 9, -200, 200, -7, 100, -100, 3, -250, 250, -50, 50, -150, 150],
        's': [0, -35, 35, -7, 9, -20, 20, 3, -30, 30]}
INT_HI = {'i2': [5, 300, 30000], 'i4': [5, 10 ** 4, 10 ** 6], 'i8': [5, 10 ** 6, 10 ** 9], 'u1': [5, 255, 100]}
RTOL = {'d': 1e-9, 's': 2e-4}
ATOLF = {'d': 1e-12, 's': 2e-6}


def dt_name(dts, cplx):
    """clause suffix for a pair of storage dtypes"""
    if dts[0] == dts[1]:
        return DT_NAME[dts[0]]
    if 'c8' in dts and 'c16' not in dts:
        return 'complex64'          # the only complex argument is single precision
    return ('complex-mixed' if cplx else 'real-mixed')


def prec(dt):
    return 's' if dt in ('f4', 'c8') else 'd'


class Cycle:
    """deterministic stratification: walks through `items` (start position from the run's PRNG), so that every
    stratum occurs in every run as soon as there are len(items) draws"""

    def __init__(self, items, rng):
        self.items, self.i = list(items), rng.randrange(len(items))

    def __call__(self):
        self.i += 1
        return self.items[self.i % len(self.items)]


def gen_data(nr, shape, cplx, kind, dt, e, positive=False):
    """an array of storage dtype `dt`: float kinds = gen_array(...) * 10**e cast to the dtype; integer kinds =
    integers of a magnitude class chosen by e"""
    n = int(np.prod(shape))
    if dt == 'b1':
        return (nr.rand(n) < (0.75 if positive else 0.5)).reshape(shape)
    if dt[0] in 'iu':
        hi = INT_HI[dt][e % 3]
        lo = 1 if positive else (0 if dt == 'u1' else -hi)
        return nr.randint(lo, hi + 1, size=n).astype(DT[dt]).reshape(shape)
    a = gen_array(nr, shape, cplx, kind, offsets=(10.0, -3.0, 100.0) if prec(dt) == 'd' else (4.0, -3.0), spread=1e-4 if prec(dt) == 'd' else 3e-2)
    if positive:
        a = np.abs(a) + 0.5
    with np.errstate(all='ignore'):
        return (a * 10.0 ** e).astype(DT[dt])


def wide(a):
    """the stored values as binary64 / complex128 (exact)"""
    a = np.asarray(a)
    return a.astype(complex) if np.iscomplexobj(a) else a.astype(float)


def magnitude(*arrs):
    m = 1.0
    for a in arrs:
        m *= float(np.abs(wide(a)).max())
    return m


def gen_shape(rng, tier, nmax):
    ndim = rng.choice([1, 1, 2, 2, 3])
    ax = rng.randrange(ndim)
    n = rng.choice([2, 3, 4, 5, 7, 8, 9, 16, 17, rng.randint(2, nmax)])
    shape = [rng.randint(1, 3) for _ in range(ndim)]
    shape[ax] = n
    axis = ax if rng.random() < 0.6 else ax - ndim
    return shape, axis, ax


# ------------------------------------------------------------------ calling disciplines
# '<layout>2': only the LAST array argument is laid out that way (the others are plain private copies)
VARIANTS = ['plain', 'plain', 'fortran', 'strided', 'reuse', 'readonly', 'bigendian', 'sandwich', 'sandwich', 'readonly2', 'strided2', 'bigendian2',
            'fortran2']


class SandwichDiffers(Exception):
    pass


class ResultChangedLater(Exception):
    pass


def snapshot(r):
    """a private, comparable copy of what a call handed out"""
    if isinstance(r, (tuple, list)):
        return [snapshot(v) for v in r]
    if hasattr(r, 'data') and not isinstance(r, np.ndarray) and isinstance(getattr(r, 'data'), np.ndarray):
        return np.array(r.data, copy=True)
    return np.array(r, copy=True)


def same_snapshot(a, b):
    if isinstance(a, list):
        return isinstance(b, list) and len(a) == len(b) and all(same_snapshot(p_, q_) for p_, q_ in zip(a, b))
    return a.shape == b.shape and a.dtype == b.dtype and bool(np.array_equal(a, b, equal_nan=(a.dtype.kind in 'fc')))


def perturbation(args):
    """PERTURBATION phase of a sandwich: the entry points of the covariance / normalisation / information family with
    other option values on the caller's arrays; everything they hand out is scribbled on (a caller may do that)"""
    import warnings
    import importlib
    from histories import scribble
    u, A = U(), TSA()
    E = importlib.import_module('nitime.algorithms.entropy')
    th = []
    for a in args:
        if a.dtype.kind in 'US':
            continue
        th += [lambda a=a: u.remove_bias(a, -1), lambda a=a: u.remove_bias(a, 0), lambda a=a: u.zscore(a), lambda a=a: u.zscore(a, 0),
               lambda a=a: u.percent_change(a), lambda a=a: u.percent_change(a, 0), lambda a=a: u.autocov(a),
               lambda a=a: u.autocov(a, axis=0, all_lags=True, debias=False, normalize=False), lambda a=a: u.autocorr(a, all_lags=True),
               lambda a=a: u.autocorr(a, normalize=False), lambda a=a: u.fftconvolve(a, a, axis=-1)]
        if a.ndim == 2:
            th += [lambda a=a: u.autocov_vector(a), lambda a=a: u.autocov_vector(a, nlags=1), lambda a=a: A.seed_corrcoef(a[0], a)]
    if len(args) >= 2:
        a, b = args[0], args[1]
        if a.dtype.kind not in 'US' and b.dtype.kind not in 'US':
            th += [lambda: u.crosscov(a, b), lambda: u.crosscov(a, b, axis=0, all_lags=True, debias=False, normalize=False),
                   lambda: u.crosscorr(a, b, all_lags=True), lambda: u.crosscorr(b, a, normalize=False), lambda: u.fftconvolve(a, b, axis=-1),
                   lambda: u.fftconvolve(a.ravel(), b.ravel(), axis=0), lambda: A.seed_corrcoef(a, b), lambda: A.seed_corrcoef(b, a)]
            if a.ndim == 2 and b.ndim == 2:
                th += [lambda: u.crosscov_vector(a, b), lambda: u.crosscov_vector(b, a, nlags=2)]
            if a.ndim == 1 and b.ndim == 1:
                th += [lambda: A.correlation_spectrum(a, b), lambda: A.correlation_spectrum(b, a, norm=True)]
    if all(a.ndim == 1 and a.size <= 24 for a in args):
        a, b = args[0], args[-1]
        th += [lambda: E.entropy(a), lambda: E.entropy(a, b), lambda: E.conditional_entropy(a, b), lambda: E.mutual_information(b, a),
               lambda: E.entropy_cc(a, b)]
        if a.size <= 10:
            th += [lambda: E.transfer_entropy(a, b, lag=2), lambda: E.transfer_entropy(b, a)]
    with warnings.catch_warnings():
        warnings.simplefilter('ignore')
        with np.errstate(all='ignore'):
            for t in th:
                try:
                    scribble(t())
                except Exception:  # noqa
                    pass


def lay(a, variant):
    """an array with the values of `a` in the requested memory layout (always a private buffer)"""
    a = np.asarray(a)
    if variant == 'fortran' and a.ndim > 1:
        return np.asfortranarray(a.copy())
    if variant == 'readonly':
        r = a.copy()
        r.flags.writeable = False
        return r
    if variant == 'bigendian':
        return a.astype(a.dtype.newbyteorder('>'))
    if variant in ('strided', 'fortran'):
        big = np.zeros(tuple(2 * s_ + 1 for s_ in a.shape), dtype=a.dtype)
        v = big[tuple(slice(1, None, 2) for _ in a.shape)]
        v[...] = a
        return v
    return a.copy()


def disciplined(f, arrays, variant):
    """f(*arrays) under a calling discipline.  `reuse`: the function is first called on buffers holding
    OTHER values, the same buffers are then overwritten in place and the function is called again (an
    identity-keyed memo would answer with the stale result).  Returns (result, input_mutated)."""
    arrays = [np.asarray(a) for a in arrays]
    if variant == 'reuse':
        def other(a):
            with np.errstate(all='ignore'):
                if a.dtype.kind in 'fc':
                    return np.ascontiguousarray((a[..., ::-1] * 3 + np.abs(a).max()).astype(a.dtype))
                if a.dtype.kind in 'iu':
                    return np.ascontiguousarray((a[..., ::-1] // 2 + 1).astype(a.dtype))
                return np.ascontiguousarray(a[..., ::-1])
        bufs = [other(a) for a in arrays]
        try:
            f(*bufs)
        except Exception:  # noqa
            pass
        for b, a in zip(bufs, arrays):
            b[...] = a
        args = bufs
    elif variant == 'sandwich':
        # call; the same and the other entry points with other options on the same arrays, scribbling on everything handed out
        # (the first result included); call again with the equal arguments: equal result; after further calls the result
        # handed out still holds what it held
        from histories import scribble
        args = [a.copy() for a in arrays]
        r1 = f(*args)
        s1 = snapshot(r1)
        perturbation(args)
        scribble(r1)
        r2 = f(*args)
        s2 = snapshot(r2)
        if not same_snapshot(s1, s2):
            raise SandwichDiffers()
        perturbation(args)
        if not same_snapshot(snapshot(r2), s2):
            raise ResultChangedLater()
        r3 = f(*args)
        if not same_snapshot(snapshot(r2), s2) or not same_snapshot(snapshot(r3), s2):
            raise ResultChangedLater()
        mutated = any(not np.array_equal(g, a) for g, a in zip(args, arrays))
        return r2, mutated
    elif variant.endswith('2'):
        args = [a.copy() for a in arrays[:-1]] + [lay(arrays[-1], variant[:-1])]
    else:
        args = [lay(a, variant) for a in arrays]
    r = f(*args)
    mutated = any(not np.array_equal(g, a) for g, a in zip(args, arrays))
    return r, mutated


def with_flag(res):
    """(result, mutated) -> result, or an error string when the call changed its arguments"""
    if isinstance(res, str):
        return res
    r, mutated = res
    return 'err InputMutated' if mutated else r


# ------------------------------------------------------------------ cases
COV_DEFAULTS = [('axis', -1), ('all_lags', False), ('debias', True), ('normalize', True)]


def cov_call(fn, x, y, axis, al, db, nm, pass_db=True, omit=0):
    """omit: bit mask over COV_DEFAULTS — a keyword whose value IS the default is left out when its bit is set"""
    u = U()
    kw = dict(axis=axis, all_lags=al, normalize=nm)
    if pass_db:
        kw['debias'] = db
    for i, (k_, dv) in enumerate(COV_DEFAULTS):
        if omit >> i & 1 and k_ in kw and kw[k_] == dv and type(kw[k_]) is type(dv):
            del kw[k_]
    if fn in ('crosscov', 'crosscorr'):
        return getattr(u, fn)(x, y, **kw)
    return getattr(u, fn)(x, **kw)


def restore(tok, cplx, dt):
    """the stored array from its protocol tokens (exact)"""
    a = un_tok(tok, cplx)
    if cplx and dt not in ('c16', 'c8'):
        a = a.real
    return a.astype(DT[dt])


def int_kinds(dts):
    return all(d[0] in 'iub' for d in dts)


def int_tok(a):
    return ilist([int(v) for v in np.asarray(a).astype(np.int64).reshape(-1)])


def mk_cov_case(fn, x, y, axis, al, db, nm, variant='plain', dts=('f8', 'f8'), paths=False, omit=0):
    """x, y in their storage dtypes `dts`; the protocol line carries the stored values as binary64 (complex for both
    as soon as one of them is complex).  paths=True (1-d only): op `covfft`, the model prints its FFT path and its
    direct path."""
    cplx = bool(np.iscomplexobj(x) or (y is not None and np.iscomplexobj(y)))
    wx = wide(x).astype(complex) if cplx else wide(x)
    wy = None if y is None else (wide(y).astype(complex) if cplx else wide(y))
    sh, xd = arr_tok(wx)
    ik = int_kinds(dts if y is not None else dts[:1])     # integer / boolean recordings: the model embeds the integers itself
    kind = 'i' if ik else 'c' if cplx else 'r'
    if ik:
        xd = int_tok(x)
    if paths:
        line = 'C20 covfft %s %s %d %d %d %s' % (fn, kind, al, db, nm, xd)
    else:
        line = 'C20 %s %s %d %d %d %d %s %s' % (fn, kind, axis, al, db, nm, sh, xd)
    if y is not None:
        line += ' ' + (int_tok(y) if ik else arr_tok(wy)[1])
    if y is None:
        f = lambda a: cov_call(fn, a, None, axis, bool(al), bool(db), bool(nm), omit=omit)
        impl = canon_nd(with_flag(call(lambda: disciplined(f, [x], variant))), cplx)
    else:
        f = lambda a, b: cov_call(fn, a, b, axis, bool(al), bool(db), bool(nm), omit=omit)
        impl = canon_nd(with_flag(call(lambda: disciplined(f, [x, y], variant))), cplx)
    N = x.shape[axis]
    mag = magnitude(x, y if y is not None else x) * N
    pr = 's' if 's' in [prec(d) for d in dts] else 'd'
    meta = {'op': 'cov', 'fn': fn, 'x': arr_tok(wx), 'y': None if y is None else arr_tok(wy), 'cplx': cplx,
            'axis': axis, 'al': al, 'db': db, 'nm': nm, 'variant': variant, 'dts': list(dts), 'paths': paths, 'omit': omit}
    nt = bool(np.ptp(np.abs(wx)) > 0)
    name = dt_name(dts, cplx)
    cmp = cmp_two_paths(cplx, ATOLF[pr] * mag, RTOL[pr]) if paths else cmp_nd(cplx, ATOLF[pr] * mag, RTOL[pr])
    return Case(line, impl, 'cov/%s/%s' % (fn, name), cmp=cmp, meta=meta, nontrivial=nt)


def vec_stratum(x, y, dts, cplx):
    if all(d == 'b1' for d in dts):
        return 'bool'
    if int_kinds(dts):
        rt = np.result_type(x, y)      # numpy multiplies the samples in THIS type
        if rt.kind in 'iu' and float(np.abs(wide(x)).max()) * float(np.abs(wide(y)).max()) > np.iinfo(rt).max:
            return 'int-wide'          # a product of two samples does not fit the storage type
        return 'int'
    return dt_name(dts, cplx)


def mk_covvec_case(fn, x, y, nlags, variant='plain', dts=('f8', 'f8')):
    """utils.crosscov_vector(x, y, nlags) / autocov_vector(x, nlags) on (nc, N) channels; nlags None | 'omit' | int"""
    cplx = bool(np.iscomplexobj(x) or (y is not None and np.iscomplexobj(y)))
    yy = x if y is None else y
    wx = wide(x).astype(complex) if cplx else wide(x)
    wy = wide(yy).astype(complex) if cplx else wide(yy)
    ik = int_kinds(dts if y is not None else dts[:1])
    kind = 'i' if ik else 'c' if cplx else 'r'
    tok = (lambda a, w: int_tok(a)) if ik else (lambda a, w: arr_tok(w)[1])
    nl_tok = 'none' if nlags in (None, 'omit') else '%d' % nlags
    N = x.shape[1]
    if y is None:
        line = 'C20 acovvec %s %s %d %s' % (kind, nl_tok, N, tok(x, wx))
    else:
        line = 'C20 covvec %s %s %d %s %s' % (kind, nl_tok, N, tok(x, wx), tok(y, wy))
    kw = {} if nlags == 'omit' else {'nlags': nlags}
    if y is None:
        f = lambda a: U().autocov_vector(a, **kw)
        impl = canon_nd(with_flag(call(lambda: disciplined(f, [x], variant))), cplx)
    else:
        f = lambda a, b: U().crosscov_vector(a, b, **kw)
        impl = canon_nd(with_flag(call(lambda: disciplined(f, [x, y], variant))), cplx)
    pr = 's' if 's' in [prec(d) for d in dts] else 'd'
    mag = magnitude(x, yy)
    meta = {'op': 'covvec', 'fn': fn, 'x': arr_tok(wx), 'y': None if y is None else arr_tok(wy), 'cplx': cplx, 'nlags': nlags,
            'variant': variant, 'dts': list(dts)}
    return Case(line, impl, 'covvec/%s/%s' % (fn, vec_stratum(x, yy, dts, cplx)), cmp=cmp_nd(cplx, ATOLF[pr] * mag, RTOL[pr]), meta=meta,
                nontrivial=bool(np.ptp(np.abs(wx)) > 0))


def mk_fftconv_case(a, b, variant, dts):
    """utils.fftconvolve(a, b, mode='full') on two 1-d sequences of ANY two lengths"""
    cplx = bool(np.iscomplexobj(a) or np.iscomplexobj(b))
    wa = wide(a).astype(complex) if cplx else wide(a)
    wb = wide(b).astype(complex) if cplx else wide(b)
    line = 'C20 fftconv %s 0 %s %s' % ('c' if cplx else 'r', arr_tok(wa)[1], arr_tok(wb)[1])
    f = lambda p_, q_: U().fftconvolve(p_, q_, mode='full', axis=0)
    impl = canon_nd(with_flag(call(lambda: disciplined(f, [a, b], variant))), cplx)
    pr = 's' if 's' in [prec(d) for d in dts] else 'd'
    mag = magnitude(a, b) * min(len(a), len(b))
    name = dt_name(dts, cplx)
    meta = {'op': 'fftconv', 'a': arr_tok(wa), 'b': arr_tok(wb), 'cplx': cplx, 'variant': variant, 'dts': list(dts)}
    return Case(line, impl, 'fft/fftconvolve/' + name, cmp=cmp_two_paths(cplx, ATOLF[pr] * mag, RTOL[pr]), meta=meta)


def seq_gen(rng, n, k, canonical=False):
    labels = list(range(k)) if canonical else rng.sample(range(-20, 40), k)
    return [rng.choice(labels) for _ in range(n)]


LABELS = ['i8', 'i1', 'f8', 'u1', 'i8', 'f4', 'tiny', 'i2', 'huge', 'str', 'i8', 'i4', 'b1', 'b1', 'b1']


def label_cast(s_, lab):
    """an injective re-expression of the integer labels (-20..77) in another storage type"""
    a = np.array(s_)
    if lab == 'b1':       # boolean recordings: possible when the sequence has at most two symbols (else: plain integers)
        u_ = sorted(set(s_))
        return a == u_[-1] if len(u_) <= 2 else a
    if lab == 'i8':
        return a
    if lab in ('i1', 'i2', 'i4'):
        return a.astype({'i1': np.int8, 'i2': np.int16, 'i4': np.int32}[lab])
    if lab == 'u1':
        return (a + 20).astype(np.uint8)
    if lab == 'f8':
        return a * 0.5
    if lab == 'f4':
        return (a * 0.5).astype(np.float32)
    if lab == 'tiny':
        return a * 1e-300
    if lab == 'huge':
        return a * 1e300
    return np.array(['s%d' % v for v in s_])


def ent_impl(fn, seqs, lag=None, variant='plain', lab='i8'):
    import importlib
    E = importlib.import_module('nitime.algorithms.entropy')
    xs = [label_cast(s, lab) for s in seqs]

    def f(*xs):
        if fn == 'entropy':
            return E.entropy(*xs)
        if fn == 'condent':
            return E.conditional_entropy(*xs)
        if fn == 'mi':
            return E.mutual_information(*xs)
        if fn == 'ecc':
            with np.errstate(all='ignore'):
                return E.entropy_cc(*xs)
        if lag == 1 and len(xs[0]) % 2:
            return E.transfer_entropy(xs[0], xs[1])        # lag=1 is the default: left out
        return E.transfer_entropy(xs[0], xs[1], lag=lag)
    v, mutated = disciplined(f, xs, variant)
    if mutated:
        return 'err InputMutated'
    return 'ok ' + flist([float(v)])


def mk_ent_case(fn, seqs, lag=None, variant='plain', lab='i8'):
    line = 'C20 %s %s%s' % (fn if fn != 'te' else 'te', ('%d ' % lag) if fn == 'te' else '', ' '.join(ilist(s) for s in seqs))
    impl = call(lambda: ent_impl(fn, seqs, lag, variant, lab))
    meta = {'op': 'ent', 'fn': fn, 'seqs': [list(s) for s in seqs], 'lag': lag, 'variant': variant, 'lab': lab}
    return Case(line, impl, 'entropy/' + fn + ('%d' % len(seqs) if fn == 'entropy' else ''), cmp=cmp_ecc if fn == 'ecc' else cmp_scalar(1e-9), meta=meta,
                nontrivial=len(set(seqs[0])) > 1)


ATTR = {'raw': 'xcorr', 'norm': 'xcorr_norm', 'cc': 'corrcoef'}


def analyzer_reads(data, order):
    """read the outputs named in `order` one after the other on ONE CorrelationAnalyzer; returns
    {name: values held at the END by the object handed out at read time}, problems"""
    import nitime.timeseries as ts
    import nitime.analysis as nta
    data = np.array(data)          # in its storage dtype
    T = ts.TimeSeries(data.copy(), sampling_interval=1)
    C = nta.CorrelationAnalyzer(T)
    handed, at_read, problems = {}, {}, []

    def vals(r):
        return np.array(r.data if hasattr(r, 'data') and not isinstance(r, np.ndarray) else r, dtype=float).reshape(-1)
    for name in order:
        r = getattr(C, ATTR[name])
        handed[name] = r
        at_read[name] = vals(r).copy()
        if not np.array_equal(np.asarray(T.data), data):
            problems.append('input-mutated-by-' + name)
    end = {}
    for name in order:
        end[name] = vals(handed[name])
        if not np.array_equal(end[name], at_read[name], equal_nan=True):
            problems.append('earlier-result-changed:' + name)
        if not np.array_equal(vals(getattr(C, ATTR[name])), end[name], equal_nan=True):
            problems.append('reread-differs:' + name)
    # the caller overwrites everything it was handed; a NEW analyzer on the same series must give the same values
    from histories import scribble
    for name in order:
        scribble(handed[name])
    if not np.array_equal(np.asarray(T.data), data):
        problems.append('input-mutated-by-overwriting-a-result')
    C2 = nta.CorrelationAnalyzer(T)
    for name in order:
        if not np.array_equal(vals(getattr(C2, ATTR[name])), at_read[name], equal_nan=True):
            problems.append('new-analyzer-differs:' + name)
    return end, problems


def cmp_xcorr(atol, rtol=1e-9):
    def f(impl, model):
        if not (impl.startswith('ok ') and model.startswith('ok ')):
            return False
        a = parse_flist(impl[3:])
        return any(close_c(a, parse_flist(v), rtol, atol) for v in model[3:].split(' ; '))
    return f


def xcorr_stratum(sd, dt):
    """np.correlate accumulates in the storage type: 'int' when every sum of N products fits it, else 'int-wide' (booleans: the 'sum' is a logical or)"""
    if dt == 'f8':
        return ''
    if dt == 'b1':
        return '/int-wide'
    if dt[0] in 'iu':
        return '/int' if sd.shape[1] * float(np.abs(wide(sd)).max()) ** 2 <= np.iinfo(sd.dtype).max else '/int-wide'
    return '/' + DT_NAME[dt]


def mk_xcorr_cases(order, data, dt='f8'):
    """one Case per output read in `order` (a tuple of 'raw' | 'norm' | 'cc') on one analyzer object; `data` in its storage dtype `dt`"""
    sd = np.asarray(data).astype(DT[dt])
    data = wide(sd)
    strat = xcorr_stratum(sd, dt)
    res = call(lambda: analyzer_reads(sd, order))
    out = []
    seq = '-'.join(order)
    for name in order:
        if len(order) > 1:     # the model's analyzer object, same read sequence
            line = 'C20 seq %s %d %d %s' % (','.join(order), list(order).index(name), data.shape[1], flist(data.reshape(-1)))
        elif name == 'cc':
            line = 'C20 corrcoef %d %s' % (data.shape[1], flist(data.reshape(-1)))
        else:
            line = 'C20 xcorr %s %d %s' % (name, data.shape[1], flist(data.reshape(-1)))
        if isinstance(res, str):
            impl, problems = res, []
        else:
            impl, problems = 'ok ' + flist(res[0][name]), res[1]
        base = 'analyzer/' + ATTR[name]
        clause = base + strat if len(order) == 1 else 'analyzer/sequence/%s/%s%s' % (seq, ATTR[name], strat)
        meta = {'op': 'xcorr', 'which': name, 'order': list(order), 'data': data.tolist(), 'base': base, 'dt': dt,
                'problems': [p_ for p_ in problems if p_.startswith('input') or p_.endswith(':' + name)]}
        out.append(Case(line, impl, clause, cmp=cmp_xcorr(ATOLF[prec(dt)] * float(np.abs(data).max()) ** 2 * data.shape[1], RTOL[prec(dt)]), meta=meta))
    return out


def norm_impl(fn, x, axis, variant, via=None):
    """via: None = utils.zscore / percent_change(x, axis); 'default' = the axis argument left out (axis must be -1);
    'analyzer' = NormalizationAnalyzer(TimeSeries(x)).z_score / .percent_change on a NEW analyzer at every call"""
    f = U().zscore if fn == 'zscore' else U().percent_change
    if via == 'default':
        g = lambda a: f(a)
    elif via == 'analyzer':
        def g(a):
            import nitime.timeseries as ts
            import nitime.analysis as nta
            A = nta.NormalizationAnalyzer(ts.TimeSeries(a, sampling_interval=1))
            return getattr(A, 'z_score' if fn == 'zscore' else 'percent_change').data
    else:
        g = lambda a: f(a, axis)
    return canon_nd(with_flag(call(lambda: disciplined(g, [x], variant))))


def seedcc_impl(seedv, targ, one_d, variant, via=None):
    """via='analyzer': SeedCorrelationAnalyzer(TimeSeries(seed), TimeSeries(targets)).corrcoef on a NEW analyzer at every call"""
    f = lambda s_, t_: np.atleast_1d(TSA().seed_corrcoef(s_, t_))
    if via == 'analyzer':
        def f(s_, t_):
            import nitime.timeseries as ts
            import nitime.analysis as nta
            A = nta.SeedCorrelationAnalyzer(ts.TimeSeries(s_, sampling_interval=1), ts.TimeSeries(t_, sampling_interval=1))
            return np.atleast_1d(np.asarray(A.corrcoef))
    r = with_flag(call(lambda: disciplined(f, [seedv, targ[0] if one_d else targ], variant)))
    return r if isinstance(r, str) else 'ok ' + flist(r)


def corrspec_impl(a, b, nm, variant, opts):
    kw = {}
    if opts & 1:
        kw['Fs'] = 250.0
    if not (opts & 2 and not nm):
        kw['norm'] = bool(nm)

    def f(p_, q_):
        fr, c = TSA().correlation_spectrum(p_, q_, **kw)
        if len(fr) != len(c) or not np.allclose(fr, np.arange(len(p_) // 2 + 1) * kw.get('Fs', 2 * np.pi) / len(p_)):
            raise IndexError('frequency axis')
        return c
    r = with_flag(call(lambda: disciplined(f, [a, b], variant)))
    return r if isinstance(r, str) else 'ok ' + flist(r)


PAIR_EXP = {'d': [(0, 0), (140, 140), (-140, -140), (9, 3), (80, 80), (-80, -80), (140, -140), (-100, 60), (0, -120), (100, 0),
                  (-16, -16), (40, 40), (-40, -40), (-7, -7), (120, 100), (-120, -100), (0, 0), (77, 78), (-78, -77)],
            's': [(0, 0), (13, 13), (-13, -13), (-7, 3), (10, 10), (-10, -10), (13, -13), (0, -12), (6, 6), (-5, -5), (12, 9), (-12, -9)]}


def degenerate(w, ax):
    """a lane whose spread is negligible RELATIVE to its own magnitude"""
    w = wide(w)
    top = np.abs(w).max(axis=ax)
    return bool((np.std(w, axis=ax) <= 1e-6 * top).any())


def l10_cases(_rng, tier, seed, k):
    """round 4, class L10: every scale-/shift-free clause on count-valued data riding on a large additive baseline (level 2^10..2^30,
    fluctuation +-1..+-3: kappa = max|x|/sigma up to 1e9) and with power-of-two gains 2^+-250 (another gain per argument, per target
    row, per lane, per channel).  Own PRNG streams: the older strata are generated exactly as before.  Same protocol lines as the
    ordinary cases (the model runs its two-pass text in binary64 on the same numbers); the oracle judges against exact rational
    arithmetic at tol(kappa) = 1e-9 + 16 eps kappa (c20_l10.py)."""
    import random
    import common
    import c20_l10 as L
    rng = random.Random('C20/l10/%s/%s' % (tier, seed))
    nr = common.np_rng(PID, seed, 'l10')
    lev, gains = Cycle(L.LEVELS, rng), Cycle(L.GAINS, rng)
    out = []
    modes = ['baseline', 'gain', 'baseline-gain']
    # --- seed_corrcoef (function and SeedCorrelationAnalyzer): baseline on the target rows (another level per row), on the seed or not
    for i in range(12 * k):
        mode = modes[i % 3]
        n, nt, amp = rng.randint(3, 40), rng.randint(1, 4), rng.choice([1, 2, 3])
        gs, gt = gains() if mode != 'baseline' else (0, 0)
        dt = 'i8' if mode == 'baseline' and rng.random() < 0.3 else 'f8'       # raw scanner counts stored as integers
        lop = 30 if dt == 'f8' else 0          # the second row 2^-30 of the others
        seedv = L.lane(nr, n, None if mode == 'gain' else rng.choice([None, 5, lev()]), 5, 1, gs)
        targ = np.array([L.lane(nr, n, rng.choice([None, 3]) if mode == 'gain' else lev(), amp, rng.choice([1, -1]),
                                gt - (lop if r_ == 1 else 0)) for r_ in range(nt)])
        seedv, targ = seedv.astype(DT[dt]), targ.astype(DT[dt])
        one_d = nt == 1 and rng.random() < 0.5
        variant = rng.choice(['plain', 'plain', 'strided', 'fortran', 'readonly'])
        via = 'analyzer' if rng.random() < 0.3 else None
        out.append(Case('C20 seedcc %d %s %s' % (n, flist(wide(seedv)), flist(wide(targ).reshape(-1))), seedcc_impl(seedv, targ, one_d, variant, via),
                        ('analyzer/' if via else '') + 'seed_corrcoef/' + mode, cmp=cmp_scalar(1e-12, 1e-9),
                        meta={'op': 'seedcc', 'seed': arr_tok(wide(seedv)), 'targ': arr_tok(wide(targ)), 'one_d': one_d, 'variant': variant,
                              'dt': dt, 'dt2': dt, 'pr': 'd', 'exp': [gs, gt], 'via': via, 'l10': True}))
    # --- zscore / percent_change: lanes on different levels / gains
    for i in range(12 * k):
        fn = ['zscore', 'pchange'][i % 2]
        mode = modes[(i // 2) % 3]
        n, nl, amp = rng.randint(3, 40), rng.randint(1, 3), rng.choice([1, 2, 3])
        g = gains()[0] if mode != 'baseline' else 0
        if fn == 'pchange' and g:
            g *= 2          # percent change is linear in the data: 2^+-500
        dt = 'i8' if mode == 'baseline' and rng.random() < 0.3 else 'f8'
        lop = 30 if dt == 'f8' else 0
        x = np.array([L.lane(nr, n, rng.choice([3, 5]) if mode == 'gain' else lev(), amp, rng.choice([1, -1]), g - (lop if r_ == 1 else 0))
                      for r_ in range(nl)])
        axis = -1
        if rng.random() < 0.4:
            x, axis = np.ascontiguousarray(x.T), 0
        elif nl == 1 and rng.random() < 0.5:
            x = x[0]
        x = x.astype(DT[dt])
        via = rng.choice([None, 'default', 'analyzer']) if axis == -1 else None
        variant = rng.choice(['plain', 'plain', 'strided', 'fortran', 'readonly'])
        sh, xd = arr_tok(wide(x))
        out.append(Case('C20 %s %d %s %s' % (fn, axis, sh, xd), norm_impl(fn, x, axis, variant, via),
                        ('analyzer/normalization/' if via == 'analyzer' else 'norm/') + fn + '/' + mode, cmp=cmp_nd(False, 1e-9, 1e-9),
                        meta={'op': fn, 'x': arr_tok(wide(x)), 'axis': axis, 'variant': variant, 'dt': dt, 'via': via, 'l10': True}))
    # --- the debiased covariances are shift-free: crosscov / autocov(debias=True) of lanes riding on baselines (and gains: the result
    # scales by 2^(gx+gy) exactly); judged against the exact lagged sums of the exactly demeaned lanes, relative to N sigma_x sigma_y
    for i in range(8 * k):
        fn = ['crosscov', 'autocov'][i % 2]
        mode = ['baseline', 'baseline-gain'][(i // 2) % 2]
        n, amp = rng.choice([3, 8, 16, 17, rng.randint(3, 48)]), rng.choice([1, 2, 3])
        gx, gy = gains() if mode != 'baseline' else (0, 0)
        x = L.lane(nr, n, lev(), amp, rng.choice([1, -1]), gx // 2)
        y = L.lane(nr, n, rng.choice([None, 5, lev()]), 3, 1, gy // 2 - 30) if fn == 'crosscov' else None
        c = mk_cov_case(fn, x, y, -1, rng.randint(0, 1), 1, rng.randint(0, 1), rng.choice(['plain', 'strided', 'readonly', 'plain']), ('f8', 'f8'),
                        paths=bool(i % 4 < 2))
        out.append(l10_mark_cov(c, mode))
    # --- correlation_spectrum (demeans, divides by both norms: shift- and scale-free): the un-normalised spectrum sums to Pearson's r
    for i in range(4 * k):
        mode = modes[i % 3]
        n, amp = rng.randint(3, 48), rng.choice([1, 2, 3])
        ga, gb = gains() if mode != 'baseline' else (0, 0)
        a = L.lane(nr, n, rng.choice([None, 3]) if mode == 'gain' else lev(), amp, rng.choice([1, -1]), ga)
        b = L.lane(nr, n, rng.choice([None, 3]) if mode == 'gain' else rng.choice([None, lev()]), 3, 1, gb - 30)
        variant, opts = rng.choice(['plain', 'plain', 'strided', 'readonly']), rng.choice([0, 1, 2, 3])
        out.append(Case('C20 corrspec 0 %s %s' % (flist(a), flist(b)), corrspec_impl(a, b, 0, variant, opts), 'correlation_spectrum/' + mode,
                        cmp=cmp_scalar(1e-10, 1e-9),
                        meta={'op': 'corrspec', 'a': a.tolist(), 'b': b.tolist(), 'nm': 0, 'exp': [ga, gb], 'dt': 'f8', 'dtb': 'float64',
                              'variant': variant, 'opts': opts, 'l10': mode}))
    # --- CorrelationAnalyzer.corrcoef / xcorr_norm (np.corrcoef based): channels on different levels / gains
    for i in range(6 * k):
        mode = modes[i % 3]
        nch, n, amp = rng.randint(2, 4), rng.randint(3, 24), rng.choice([1, 2, 3])
        g = gains()[0] if mode != 'baseline' else 0
        data = np.array([L.lane(nr, n, rng.choice([3, 5]) if mode == 'gain' else lev(), amp, rng.choice([1, -1]) if i % 2 == 0 else 1,
                                g - (30 if r_ == 1 else 0)) for r_ in range(nch)])
        for c in mk_xcorr_cases((['cc', 'norm'][i % 2],), data):
            l10_mark(c, mode)
            out.append(c)
    return out


def l10_mark_cov(c, mode):
    import c20_l10 as L
    m = c.meta
    x = un_tok(m['x'], False).reshape(-1)
    y = un_tok(m['y'], False).reshape(-1) if m['y'] else x
    scale = L.cov_exact(x, y, 0, m['nm'])[1]
    c.meta['l10'] = mode
    c.clause = c.clause + '/' + mode
    c.cmp = (cmp_two_paths if m.get('paths') else cmp_nd)(False, 1e-9 * scale, 1e-9)    # relative to the FLUCTUATION, not to the level
    return c


def l10_mark(c, mode):
    c.meta['l10'] = mode
    c.clause = c.clause + '/' + mode
    c.cmp = cmp_xcorr(1e-12, 1e-9)       # both outputs are O(1) whatever the level / gain of the data
    return c


def cases(rng, tier, seed):
    import common
    nr = common.np_rng(PID, seed, 'arrays')
    k = {'quick': 4, 'thorough': 40}[tier]
    nmax = 64 if tier == 'quick' else 256
    out = []
    dts_r, dts_c = Cycle(REAL_DT, rng), Cycle(CPLX_DT, rng)
    exp2 = {'d': Cycle(EXP2['d'], rng), 's': Cycle(EXP2['s'], rng)}
    exp1 = {'d': Cycle(EXP1['d'], rng), 's': Cycle(EXP1['s'], rng)}
    pair_exp = {'d': Cycle(PAIR_EXP['d'], rng), 's': Cycle(PAIR_EXP['s'], rng)}

    def two_arrays(shape_x, shape_y, need_y=True):
        """x (and y) in stratified storage dtypes and amplitude decades; y's dtype / decade independent of x's in a
        part of the cases (the covariance is bilinear: each argument has its own scale).  A call that mixes a 32-bit
        with a 64-bit array stays inside the 32-bit range with BOTH arguments (the code multiplies the transforms in
        place in the first argument's precision)."""
        cplx = rng.random() < 0.45
        dtx = dts_c() if cplx else dts_r()
        kind = rng.choice(['int', 'randn', 'offset', 'int', 'randn', 'offset', 'nearconst', 'const'])
        u_ = rng.random()
        dty = dtx
        if need_y and u_ >= 0.8:        # another storage dtype (real with complex, single with double, integer with float)
            dty = dts_r() if (cplx and rng.random() < 0.6) or (not cplx and rng.random() < 0.5) else dts_c()
        pr = 's' if 's' in (prec(dtx), prec(dty)) else 'd'
        ex = exp2[pr]()
        x = gen_data(nr, shape_x, cplx, kind, dtx, ex)
        if not need_y:
            return x, None, (dtx, dtx)
        ey = ex if u_ < 0.6 else exp2[pr]()
        y = gen_data(nr, shape_y, dty in ('c16', 'c8'), kind, dty, ey)
        return x, y, (dtx, dty)
    # --- covariance family
    for _ in range(220 * k):
        fn = rng.choice(['crosscov', 'crosscorr', 'autocov', 'autocorr'])
        shape, axis, ax = gen_shape(rng, tier, nmax)
        x, y, dts = two_arrays(shape, shape, fn.startswith('cross'))
        al, db, nm = rng.randint(0, 1), rng.randint(0, 1), rng.randint(0, 1)
        out.append(mk_cov_case(fn, x, y, axis, al, db, nm, rng.choice(VARIANTS), dts, omit=rng.choice([0, 0, 15, rng.randrange(16)])))
    # --- crosscov_vector / autocov_vector: (nc, N) channels, nlags None / left out / 0 / 1 / N / in between, every storage dtype for
    # EACH argument, every layout and discipline
    for i in range(60 * k):
        fn = ['crosscov_vector', 'autocov_vector'][i % 2]
        nc, N = rng.randint(1, 3), rng.choice([2, 3, 4, 5, 8, rng.randint(2, min(nmax, 24))])
        x, y, dts = two_arrays([nc, N], [nc, N], fn == 'crosscov_vector')
        nl = rng.choice([None, 'omit', 0, 1, N, rng.randint(1, N)])
        out.append(mk_covvec_case(fn, x, y, nl, rng.choice(VARIANTS), dts))
    # every lane length 2..70 (FFT padding parities, odd fast lengths), 1-d, in every run: implementation vs the model's
    # FFT path (naive DFT of the padded power-of-two length) AND vs the direct sums
    fns = ['crosscov', 'crosscorr', 'autocov', 'autocorr']
    for rep_ in range(1 if tier == 'quick' else 3):
        for N in range(2, 71 if tier == 'quick' else 200):
            fn = fns[(N + seed + rep_) % 4]
            x, y, dts = two_arrays([N], [N], fn.startswith('cross'))
            out.append(mk_cov_case(fn, x, y, -1, rng.randint(0, 1), rng.randint(0, 1), rng.randint(0, 1), VARIANTS[1 + N % 7], dts, paths=True))
    # utils.fftconvolve itself on pairs of sequences of any two lengths (1 included)
    for i in range(40 * k):
        na, nb = rng.choice([1, 2, 3, rng.randint(1, nmax)]), rng.choice([1, 2, 5, rng.randint(1, nmax), rng.randint(1, nmax)])
        if i % 7 == 0:
            nb = max(1, 2 ** rng.randint(1, 6) + 1 - na)        # size = len(a)+len(b)-1 an exact power of two
        a, b, dts = two_arrays([na], [nb])
        out.append(mk_fftconv_case(a, b, rng.choice(VARIANTS), dts))
    for _ in range(6 * k):   # unequal lengths are refused
        a, b = nr.randn(rng.randint(2, 6)), nr.randn(rng.randint(7, 9))
        impl = call(lambda: 'ok ' + flist(U().crosscov(a, b)))
        out.append(Case('C20 crosscovlen %s %s' % (flist(a), flist(b)), impl, 'cov/crosscov/length-check',
                        meta={'op': 'len', 'a': a.tolist(), 'b': b.tolist()}))
    # --- zscore / percent_change
    skipped = 0
    for _ in range(60 * k):
        fn = rng.choice(['zscore', 'pchange'])
        shape, axis, ax = gen_shape(rng, tier, nmax)
        dt = dts_r()
        pr = prec(dt)
        if fn == 'pchange':
            x = gen_data(nr, shape, False, rng.choice(['randn', 'randn', 'nearconst', 'const']), dt, exp1[pr](), positive=True)
            if dt not in ('u1', 'b1') and rng.random() < 0.3:
                x = -x
            if dt == 'b1' and not wide(x).sum(axis=ax).all():      # an all-False lane has mean 0
                skipped += 1
                continue
        else:
            x = gen_data(nr, shape, False, rng.choice(['int', 'randn', 'offset', 'nearconst']), dt, exp2[pr]())
            if degenerate(x, ax):
                skipped += 1
                continue
        sh, xd = arr_tok(wide(x))
        variant = rng.choice(VARIANTS)
        via = None
        if ax == len(shape) - 1 and rng.random() < 0.5:       # the last axis is the default: leave the argument out / go through the analyzer
            via, axis = rng.choice(['default', 'analyzer']), -1
        impl = norm_impl(fn, x, axis, variant, via)
        out.append(Case('C20 %s %d %s %s' % (fn, axis, sh, xd), impl,
                        ('analyzer/normalization/' if via == 'analyzer' else 'norm/') + fn + ('' if dt == 'f8' else '/' + DT_NAME[dt]),
                        cmp=cmp_nd(False, RTOL[pr], RTOL[pr]),
                        meta={'op': fn, 'x': arr_tok(wide(x)), 'axis': axis, 'variant': variant, 'dt': dt, 'via': via}))
    # --- seed_corrcoef (scale-free in each argument separately)
    for _ in range(40 * k):
        n = rng.randint(3, min(nmax, 40))
        nt = rng.randint(1, 5)
        dt = dts_r()
        dt2 = dt if rng.random() < 0.7 else dts_r()        # the targets in another storage dtype than the seed
        pr = 's' if 's' in (prec(dt), prec(dt2)) else 'd'
        es, et = pair_exp[pr]()
        seedv = gen_data(nr, [n], False, 'offset', dt, es)
        targ = gen_data(nr, [nt, n], False, rng.choice(['randn', 'offset']), dt2, et)
        if degenerate(seedv, 0) or degenerate(targ, 1):
            skipped += 1
            continue
        if rng.random() < 0.3:     # perfectly (anti)correlated row
            with np.errstate(all='ignore'):
                if dt2[0] in 'iub' or dt[0] in 'iub':
                    targ[0] = seedv
                else:
                    targ[0] = (wide(seedv) * rng.choice([2.0, -0.5]) * 10.0 ** (et - es) + np.abs(wide(targ[0])).mean()).astype(DT[dt2])
            if degenerate(targ, 1):
                skipped += 1
                continue
        one_d = nt == 1 and rng.random() < 0.5
        variant = rng.choice(VARIANTS)
        via = 'analyzer' if rng.random() < 0.3 else None
        impl = seedcc_impl(seedv, targ, one_d, variant, via)
        clause = ('analyzer/' if via else '') + 'seed_corrcoef' + ('/mixed' if dt2 != dt else '/' + DT_NAME[dt] if dt != 'f8' else '/scaled' if (es, et) != (0, 0) else '')
        out.append(Case('C20 seedcc %d %s %s' % (n, flist(wide(seedv)), flist(wide(targ).reshape(-1))), impl, clause,
                        cmp=cmp_scalar({'d': 1e-12, 's': RTOL['s']}[pr], RTOL[pr]),
                        meta={'op': 'seedcc', 'seed': arr_tok(wide(seedv)), 'targ': arr_tok(wide(targ)), 'one_d': one_d, 'variant': variant,
                              'dt': dt, 'dt2': dt2, 'pr': pr, 'exp': [es, et], 'via': via}))
    # --- analyzer xcorr pair fill (xcorr is quadratic in the data, xcorr_norm and corrcoef are scale-free)
    for _ in range(24 * k):
        nch, n = rng.choice([2, 3, 4, 4, 5, 6]), rng.choice([2, 3, 4, 5, 8, rng.randint(2, 24)])   # >= 4 channels: index orders of triangle fills differ only from 4 on
        dt = dts_r()
        which = rng.choice(['raw', 'norm', 'cc'])
        if dt == 'f8':
            data = (nr.rand(nch, n) + 0.5) * 10.0 ** exp2['d']()
        else:
            data = gen_data(nr, [nch, n], False, 'randn', dt, exp2[prec(dt)](), positive=True)
            w_ = wide(data)
            if degenerate(data, 1) or (which == 'norm' and not (w_ @ w_.T).all()):      # constant channel / zero-lag product sum 0
                skipped += 1
                continue
        out += mk_xcorr_cases((which,), data, dt)
    # --- every read order of the analyzer's outputs on ONE object (all ordered pairs and all permutations)
    import itertools
    orders = [o for r_ in (2, 3) for o in itertools.permutations(['raw', 'norm', 'cc'], r_)]
    for rep in range(k):
        for order in orders:
            nch, n = rng.randint(2, 3), rng.choice([2, 3, 4, 5, 7, rng.randint(2, 16)])
            out += mk_xcorr_cases(order, (nr.rand(nch, n) + 0.5) * 10.0 ** exp2['d']())
    # --- correlation_spectrum (scale-free in each argument separately)
    for _ in range(30 * k):
        n = rng.randint(3, min(nmax, 48))
        dt = dts_r()
        pr = prec(dt)
        ea, eb = pair_exp[pr]()
        if dt == 'f8':
            a, b = (nr.randn(n) + 2.0) * 10.0 ** ea, (nr.randn(n) - 1.0) * 10.0 ** eb
        else:
            dtb = dt if rng.random() < 0.7 else rng.choice([d_ for d_ in REAL_DT if prec(d_) == pr])
            a, b = gen_data(nr, [n], False, 'offset', dt, ea), gen_data(nr, [n], False, 'offset', dtb, eb)
            if degenerate(a, 0) or degenerate(b, 0):
                skipped += 1
                continue
        nm = rng.randint(0, 1)
        with np.errstate(all='ignore'):
            if nm and not abs(np.corrcoef(wide(a), wide(b))[0, 1]) > 1e-3:      # norm=True divides by the sum of the spectrum = r
                nm = 0
        variant = rng.choice(VARIANTS)
        opts = rng.choice([0, 1, 2, 3])       # bit 0: Fs given, bit 1: norm left out when it is the default
        impl = corrspec_impl(a, b, nm, variant, opts)
        out.append(Case('C20 corrspec %d %s %s' % (nm, flist(wide(a)), flist(wide(b))), impl,
                        'correlation_spectrum' + ('/' + DT_NAME[dt] if dt != 'f8' else '/scaled' if (ea, eb) != (0, 0) else ''),
                        cmp=cmp_scalar({'d': 1e-10 if not nm else 1e-7, 's': RTOL['s']}[pr], RTOL[pr]),
                        meta={'op': 'corrspec', 'a': wide(a).tolist(), 'b': wide(b).tolist(), 'nm': nm, 'exp': [ea, eb], 'dt': dt,
                              'dtb': str(b.dtype), 'variant': variant, 'opts': opts}))
    # --- entropies
    lmax = 60 if tier == 'quick' else 200
    labs = Cycle(LABELS, rng)
    for _ in range(160 * k):
        n = rng.choice([2, 3, 5, rng.randint(2, lmax), rng.randint(2, lmax)])
        fn = rng.choice(['entropy', 'entropy', 'condent', 'mi', 'ecc', 'te'])
        nv = rng.choice([1, 2, 3]) if fn == 'entropy' else 2
        rare = rng.random() < 0.12
        if rare:      # long sequences with a symbol that occurs once (p < 0.01): rare cells must count
            n = rng.randint(120, 200)
        canonical = rng.random() < 0.4     # labels 0..k-1 in every variable (overlapping label sets)
        sizes = [rng.randint(1, 6) for _ in range(nv)]
        if nv > 1 and rng.random() < 0.5:
            sizes.sort()                    # unequal alphabets, the SMALLER one first
        seqs = [seq_gen(rng, n, k_, canonical) for k_ in sizes]
        if rare:
            seqs[0][rng.randrange(n)] = 77
        if nv > 1 and rng.random() < 0.25:      # dependent variables
            seqs[1] = [(v * 7) % 3 for v in seqs[0]] if rng.random() < 0.5 else list(seqs[0])
        if fn == 'ecc' and len(set(seqs[0])) == 1 and len(set(seqs[1])) == 1:
            seqs[0][0] += 1    # 0/0 is not interesting
        out.append(mk_ent_case(fn, seqs, rng.randint(1, 5) if fn == 'te' else None, rng.choice(VARIANTS), labs()))
    out += l10_cases(rng, tier, seed, k)
    if skipped:
        out.append(Case('C20 nop', 'bad-op', 'monitor/skipped-degenerate-%d' % skipped, nontrivial=False))
    return out


# ------------------------------------------------------------------ oracle
def lanes(a, ax):
    a = np.moveaxis(a, ax, -1)
    return a.reshape(-1, a.shape[-1]), a.shape


def direct_cov(x, y, al, db, nm):
    """definition: C_xy[k] = sum_n x[n+k] conj(y[n]) (means removed when debias; /N when normalize)"""
    N = len(x)
    if db:
        x = x - x.sum() / N
        y = y - y.sum() / N
    ks = range(-(N - 1), N) if al else range(0, N)
    out = []
    for k_ in ks:
        if k_ >= 0:
            v = np.vdot(y[:N - k_], x[k_:])     # vdot conjugates its FIRST argument
        else:
            v = np.vdot(y[-k_:], x[:N + k_])
        out.append(v / N if nm else v)
    return np.array(out)


def un_tok(t, cplx):
    if not isinstance(t[0], str):      # replay files written before the storage-dtype strata: plain nested lists
        return np.array(t)
    sh = parse_ilist(t[0])
    v = parse_clist(t[1]) if cplx else parse_flist(t[1])
    return np.array(v).reshape(sh)


def fail(c, sym, what, extra=None):
    m = dict(c.meta)
    if m.get('variant', 'plain') != 'plain':
        what += ' [calling discipline: %s]' % m['variant']
    return Failure('%s/%s' % (c.clause, sym), '%s: %s [op: %s]' % (c.clause, what, c.line[:160]),
                   {'clause': c.clause, 'meta': m, 'line': c.line, 'key': '%s/%s' % (c.clause, sym)}, case=c)


def H_counter(*seqs):
    n = len(seqs[0])
    cnt = Counter(zip(*seqs))
    return -sum((c / n) * math.log2(c / n) for c in cnt.values())


def check_case(c, rng=None):
    m = c.meta
    if not m:
        return None
    op = m['op']
    if op == 'len':
        return None if c.impl == 'err ValueError' else fail(c, 'accepted', 'unequal lengths accepted')
    if c.impl == 'err InputMutated':
        return fail(c, 'input-mutated', 'the call changed its argument array')
    if c.impl == 'err Other:SandwichDiffers':
        return fail(c, 'sandwich-differs', 'the same call with equal arguments, after other calls of the family and after the caller overwrote '
                    'everything it had been handed, returns something else than the first time')
    if c.impl == 'err Other:ResultChangedLater':
        return fail(c, 'result-changed-later', 'a result handed out earlier no longer holds what it held after further calls')
    if op == 'covvec':
        cplx = m['cplx']
        x = un_tok(m['x'], cplx)
        y = un_tok(m['y'], cplx) if m['y'] else x
        r = parse_nd(c.impl, cplx)
        if r is None:
            return fail(c, 'raises', 'call failed: ' + c.impl[:60])
        nc, N = x.shape
        nl = N if m['nlags'] in (None, 'omit') else m['nlags']
        if r[0] != [nc, y.shape[0], nl]:
            return fail(c, 'shape', 'result shape %s, want %s' % (r[0], [nc, y.shape[0], nl]))
        got = np.array(r[1]).reshape(r[0])
        dts = m['dts']
        exact = int_kinds(dts)
        if exact:       # integer recordings: exact rational lagged averages
            from fractions import Fraction
            xi, yi = [[int(v) for v in row] for row in x], [[int(v) for v in row] for row in y]
        want = np.zeros(r[0], dtype=complex)
        for i in range(nc):
            for j in range(y.shape[0]):
                for k_ in range(nl):
                    if exact:
                        want[i, j, k_] = float(Fraction(sum(xi[i][t + k_] * yi[j][t] for t in range(N - k_)), N - k_))
                    else:
                        want[i, j, k_] = np.vdot(y[j, :N - k_], x[i, k_:]) / (N - k_)
        pr = 's' if 's' in [prec(d) for d in dts] else 'd'
        if not close_c(list(got.reshape(-1)), list(want.reshape(-1)), RTOL[pr], ATOLF[pr] * magnitude(x, y)):
            idx = np.unravel_index(int(np.argmax(np.abs(got - want))), got.shape) if got.size else ()
            return fail(c, 'value', 'entry %s is %r, the lagged average mean_t x_i[t+k] conj(y_j[t]) of the definition is %r [storage dtypes %s, max|x| = %.3g]'
                        % (list(map(int, idx)), complex(got[idx]), complex(want[idx]), '/'.join(dts), float(np.abs(x).max())))
        return None
    if op == 'cov':
        cplx = m['cplx']
        x = un_tok(m['x'], cplx)
        y = un_tok(m['y'], cplx) if m['y'] else None
        r = parse_nd(c.impl, cplx)
        if r is None:
            return fail(c, 'raises', 'call failed: ' + c.impl[:60])
        fn, al, db, nm, axis = m['fn'], m['al'], m['db'], m['nm'], m['axis']
        if fn in ('crosscorr', 'autocorr'):
            db = 0
        got = np.array(r[1]).reshape(r[0])
        ax = axis % x.ndim
        N = x.shape[ax]
        want_shape = list(x.shape)
        want_shape[ax] = 2 * N - 1 if al else N
        if list(got.shape) != want_shape:
            return fail(c, 'shape', 'result shape %s, want %s' % (list(got.shape), want_shape))
        gx, _ = lanes(x, ax)
        gy, _ = lanes(y if y is not None else x, ax)
        gg, _ = lanes(got, ax)
        dts = m.get('dts', ['c16' if cplx else 'f8'] * 2)
        pr = 's' if 's' in [prec(d) for d in dts] else 'd'
        rtol, atol = RTOL[pr], ATOLF[pr] * magnitude(x, y if y is not None else x) * N
        note = ' [storage dtypes %s, max|x| = %.3g]' % ('/'.join(dts), float(np.abs(x).max()))
        if m.get('l10'):
            # round 4 (L10): debiased covariance of lanes on a baseline = exact lagged sums of the exactly demeaned lanes
            import c20_l10 as L
            for lx, ly, lg in zip(gx, gy, gg):
                want, scale = L.cov_exact(lx.real, ly.real, al, nm)
                kap = max(L.kappa(lx.real), L.kappa(ly.real))
                err = float(np.abs(lg - np.array(want)).max()) if np.isfinite(lg).all() else float('inf')
                if not err <= L.tol(kap) * scale:
                    return fail(c, 'value', 'not the lagged sums of the demeaned lanes (exact rational reference): max error %.3g, N*sigma_x*sigma_y = %.3g, max|x|/sigma = %.3g%s'
                                % (err, scale, kap, note))
            return None
        for lx, ly, lg in zip(gx, gy, gg):
            want = direct_cov(lx, ly, al, db, nm)
            if not close_c(list(lg), list(want), rtol, atol):
                i = int(np.argmax(np.abs(lg - want)))
                return fail(c, 'value', 'lag entry %d is %r, the direct lagged sum is %r%s' % (i, complex(lg[i]), complex(want[i]), note))
        # metamorphic: lag reversal c_yx[k] = conj c_xy[-k] on the implementation itself (same storage dtypes)
        if y is not None:
            sx, sy = restore(m['x'], cplx, dts[0]), restore(m['y'], cplx, dts[1])
            full = call(lambda: cov_call(fn, sx.copy(), sy.copy(), axis, True, bool(m['db']), bool(nm)))
            rev = call(lambda: cov_call(fn, sy.copy(), sx.copy(), axis, True, bool(m['db']), bool(nm)))
            if isinstance(full, str) or isinstance(rev, str):
                return fail(c, 'raises', 'all_lags call failed')
            f1, _ = lanes(np.asarray(full), ax)
            f2, _ = lanes(np.asarray(rev), ax)
            if not close_c(list(f2.reshape(-1)), list(np.conj(f1[:, ::-1]).reshape(-1)), rtol, atol):
                return fail(c, 'lag-reversal', 'c_yx[k] != conj(c_xy[-k])' + note)
        return None
    if op == 'fftconv':
        cplx = m['cplx']
        a, b = un_tok(m['a'], cplx), un_tok(m['b'], cplx)
        r = parse_nd(c.impl, cplx)
        if r is None:
            return fail(c, 'raises', 'call failed: ' + c.impl[:60])
        got = np.array(r[1])
        if r[0] != [len(a) + len(b) - 1]:
            return fail(c, 'shape', 'result shape %s, want [%d]' % (r[0], len(a) + len(b) - 1))
        want = np.array([sum(a[i] * b[t - i] for i in range(max(0, t - len(b) + 1), min(t, len(a) - 1) + 1)) for t in range(len(a) + len(b) - 1)])
        dts = m['dts']
        pr = 's' if 's' in [prec(d) for d in dts] else 'd'
        if not close_c(list(got), list(want), RTOL[pr], ATOLF[pr] * magnitude(a, b) * min(len(a), len(b))):
            i = int(np.argmax(np.abs(got - want)))
            return fail(c, 'value', 'entry %d is %r, the direct linear convolution sum is %r [storage dtypes %s]' % (i, complex(got[i]), complex(want[i]), '/'.join(dts)))
        return None
    if op in ('zscore', 'pchange'):
        x = un_tok(m['x'], False)
        r = parse_nd(c.impl, False)
        if r is None:
            return fail(c, 'raises', 'call failed: ' + c.impl[:60])
        got = np.array(r[1]).reshape(r[0])
        if got.shape != x.shape:
            return fail(c, 'shape', 'shape changed')
        ax = m['axis'] % x.ndim
        g, _ = lanes(got, ax)
        gx, _ = lanes(x, ax)
        tol = RTOL[prec(m.get('dt', 'f8'))]
        note = ' [storage dtype %s, max|x| = %.3g]' % (m.get('dt', 'f8'), float(np.abs(x).max()))
        if m.get('l10'):
            # round 4 (L10): the definition in exact rational arithmetic, lane by lane; tolerance from the lane's own condition number
            import c20_l10 as L
            for lx, lg in zip(gx, g):
                kap = L.kappa(lx)
                tl = L.tol(kap)
                want = np.array(L.zscore(lx) if op == 'zscore' else L.pchange(lx))
                if not (np.isfinite(lg).all() and np.abs(lg - want).max() <= tl * np.abs(want).max()):
                    return fail(c, 'value', 'lane is not %s of the input lane (exact rational reference; max|x|/sigma = %.3g, max error %.3g relative to the largest entry)%s' % (
                        '(x - mean)/std' if op == 'zscore' else '(x/mean - 1)*100', kap, float(np.abs(lg - want).max() / np.abs(want).max()), note))
                if not abs(lg.mean()) <= tl * max(1.0, float(np.abs(lg).max())):
                    return fail(c, 'mean', 'mean along the axis is %r, not 0%s' % (float(lg.mean()), note))
                if op == 'zscore' and not abs(lg.var() - 1) <= 10 * tl:
                    return fail(c, 'variance', 'variance along the axis is %r, not 1%s' % (float(lg.var()), note))
            return None
        for lx, lg in zip(gx, g):      # the definition, lane by lane, on THIS input (the outputs are scale-free)
            mu = lx.sum() / len(lx)
            want = (lx - mu) / math.sqrt(((lx - mu) ** 2).sum() / len(lx)) if op == 'zscore' else (lx / mu - 1) * 100
            if not close_c(list(lg), list(want), tol, tol):
                return fail(c, 'value', 'lane is not %s of the input lane%s' % ('(x - mean)/std' if op == 'zscore' else '(x/mean - 1)*100', note))
        for lg in g:
            scale = max(1.0, float(np.abs(lg).max()))
            if not abs(lg.mean()) <= tol * scale:
                return fail(c, 'mean', 'mean along the axis is %r, not 0%s' % (float(lg.mean()), note))
            if op == 'zscore' and not abs(lg.var() - 1) <= 10 * tol:
                return fail(c, 'variance', 'variance along the axis is %r, not 1%s' % (float(lg.var()), note))
        return None
    if op == 'seedcc':
        if not c.impl.startswith('ok '):
            return fail(c, 'raises', 'call failed')
        got = parse_flist(c.impl[3:])
        s, t = un_tok(m['seed'], False), un_tok(m['targ'], False)
        if m.get('l10'):
            # round 4 (L10): Pearson's definition in exact rational arithmetic; tolerance from the rows' own condition numbers
            import c20_l10 as L
            ks = L.kappa(s)
            for i, row in enumerate(t):
                kap = max(ks, L.kappa(row))
                want = L.pearson(s, row)
                if len(got) != len(t) or not abs(got[i] - want) <= L.tol(kap):
                    return fail(c, 'value', 'not the Pearson coefficient (exact rational reference): row %d gives %r, definition %r [max|x|/sigma = %.3g, gains 2^%s]' % (
                        i, got[i] if i < len(got) else None, want, kap, m.get('exp')))
            return None
        want = [float(np.corrcoef(s, row)[0, 1]) for row in t]
        tol = {'d': 1e-9, 's': RTOL['s']}[m.get('pr', prec(m.get('dt', 'f8')))]
        if len(got) != len(want) or not close_c(got, want, tol, tol * 1e-3):
            return fail(c, 'value', 'not the Pearson coefficient: %r vs %r [storage dtype %s, max|seed| = %.3g, max|target| = %.3g]' % (
                got[:3], want[:3], m.get('dt', 'f8'), float(np.abs(s).max()), float(np.abs(t).max())))
        if any(not abs(v) <= 1 + tol for v in got):
            return fail(c, 'bound', '|r| > 1')
        return None
    if op == 'xcorr':
        if not c.impl.startswith('ok '):
            return fail(c, 'raises', 'call failed: ' + c.impl[:60])
        for p_ in m.get('problems', []):
            return fail(c, p_.split(':')[0], 'reading %s on one analyzer: %s' % ('-'.join(m['order']), p_))
        d = np.array(m['data'])
        nch, N = d.shape
        cc_exact = None
        if m.get('l10'):
            import c20_l10 as L
            cc_exact = np.array([[L.pearson(a, b) for b in d] for a in d])
            kap = max(L.kappa(a) for a in d)
        if m['which'] == 'cc':
            got = np.array(parse_flist(c.impl[3:]))
            want = np.corrcoef(d).reshape(-1) if cc_exact is None else cc_exact.reshape(-1)
            if len(got) != len(want) or not np.abs(got - want).max() <= ({'d': 1e-9, 's': 1e-4}[prec(m.get('dt', 'f8'))] if cc_exact is None else L.tol(kap)):
                return fail(c, 'value', 'corrcoef is not the Pearson matrix' + ('' if cc_exact is None else ' (exact rational reference, max|x|/sigma = %.3g)' % kap))
            return None
        got = np.array(parse_flist(c.impl[3:])).reshape(nch, nch, 2 * N - 1)
        tol = RTOL[prec(m.get('dt', 'f8'))] * float(np.abs(got).max())
        ctol = {'d': 1e-9, 's': 1e-4}[prec(m.get('dt', 'f8'))]
        norm = m['which'] == 'norm'
        base = m.get('base', c.clause)
        cc = np.corrcoef(d) if cc_exact is None else cc_exact
        if cc_exact is not None:
            ctol = L.tol(kap)
        for i in range(nch):
            for j in range(i, nch):
                want = direct_cov(d[i], d[j], True, False, False).real
                if norm:
                    # definition: the sequence scaled so that its ZERO-LAG entry equals the correlation coefficient
                    if abs(got[i, j, N - 1] - cc[i, j]) > ctol:
                        return fail(c, 'zero-lag-index', 'xcorr_norm[%d,%d] at the true zero lag (index N-1=%d) is %r, corrcoef is %r (the entry made equal to corrcoef is index %d, lag +1)'
                                    % (i, j, N - 1, float(got[i, j, N - 1]), float(cc[i, j]), N))
                    want = want / want[N - 1] * cc[i, j]
                if np.abs(got[i, j] - want).max() > tol:
                    return fail(c, 'value', 'entry (%d,%d) is not the direct cross-correlation sequence' % (i, j))
        # a below-diagonal entry that is neither form of its own pair takes precedence over the recorded copy finding
        pairs_ = [(i, j) for i in range(nch) for j in range(i + 1, nch)]
        pairs_.sort(key=lambda ij: 0 if (np.abs(got[ij[1], ij[0]] - got[ij[0], ij[1]][::-1]).max() > tol and np.abs(got[ij[1], ij[0]] - got[ij[0], ij[1]]).max() > tol) else 1)
        for i, j in pairs_:
            if True:
                if np.abs(got[j, i] - got[i, j][::-1]).max() > tol:
                    if np.abs(got[j, i] - got[i, j]).max() > tol:
                        # neither the lag-reversed sequence nor the (recorded) un-reversed copy of ITS OWN pair:
                        # a different violation of the same clause, never covered by the recorded finding
                        return fail(c, 'pair-fill-wrong-pair', 'entry (%d,%d) holds neither the lag-reversed nor the copied sequence of pair (%d,%d)' % (j, i, i, j))
                    f_ = fail(c, 'pair-fill-not-lag-reversed', 'entry (%d,%d) is not the lag-reversed entry (%d,%d) (it is a copy)' % (j, i, i, j))
                    f_.key = base + '/pair-fill-not-lag-reversed'     # the recorded finding, whatever the read order
                    f_.replay['key'] = f_.key
                    return f_
        return None
    if op == 'corrspec':
        if c.impl == 'err IndexError':
            return fail(c, 'frequencies', 'the frequency axis is not k*Fs/n, k = 0..n//2')
        if not c.impl.startswith('ok '):
            return fail(c, 'raises', 'call failed')
        got = np.array(parse_flist(c.impl[3:]))
        a, b = np.array(m['a']), np.array(m['b'])
        n = len(a)
        if c.impl == 'err IndexError':
            return fail(c, 'frequencies', 'the frequency axis is not k*Fs/n, k = 0..n//2')
        if len(got) != n // 2 + 1:
            return fail(c, 'shape', 'length %d, want %d' % (len(got), n // 2 + 1))
        if not m['nm']:
            tot = got[0] + 2 * got[1:(n + 1) // 2].sum() + (got[n // 2] if n % 2 == 0 else 0.0)
            r = float(np.corrcoef(a, b)[0, 1])
            tl = 1e-9 if prec(m.get('dt', 'f8')) == 'd' else 1e-3
            if m.get('l10'):       # round 4 (L10): exact rational Pearson coefficient, tolerance from the condition numbers
                import c20_l10 as L
                r, tl = L.pearson(a, b), L.tol(max(L.kappa(a), L.kappa(b)))
            if not abs(tot - r) <= tl:
                return fail(c, 'sum', 'the spectrum sums to %r, the correlation coefficient is %r [max|x1| = %.3g, max|x2| = %.3g]' % (float(tot), r, float(np.abs(a).max()), float(np.abs(b).max())))
        return None
    if op == 'ent':
        if not c.impl.startswith('ok '):
            return fail(c, 'raises', 'call failed: ' + c.impl[:60])
        got = parse_flist(c.impl[3:])[0]
        seqs, fn = m['seqs'], m['fn']
        eps = 1e-9
        if fn == 'entropy':
            want = H_counter(*seqs)
            if abs(got - want) > eps:
                return fail(c, 'value', 'H = %r, definition gives %r' % (got, want))
            if got < -eps:
                return fail(c, 'negative', 'H < 0')
            card = 1
            for s in seqs:
                card *= len(set(s))
            if got > math.log2(card) + eps:
                return fail(c, 'above-log-card', 'H = %r > log2(%d)' % (got, card))
            if len(seqs) == 2:
                back = parse_flist(ent_impl(fn, [seqs[1], seqs[0]])[3:])[0]
                if abs(back - got) > eps:
                    return fail(c, 'asymmetric', 'H(X,Y) = %r but H(Y,X) = %r' % (got, back))
            # relabelling and joint permutation on the implementation
            lab = {}
            for s in seqs:
                for v in s:
                    lab.setdefault(v, 1000 - 3 * len(lab))
            r2 = ent_impl(fn, [[lab[v] for v in s] for s in seqs])
            perm = list(range(len(seqs[0])))
            (rng or __import__('random').Random(len(seqs[0]))).shuffle(perm)
            r3 = ent_impl(fn, [[s[p] for p in perm] for s in seqs])
            if abs(parse_flist(r2[3:])[0] - got) > eps:
                return fail(c, 'relabel', 'H changes under relabelling of symbols')
            if abs(parse_flist(r3[3:])[0] - got) > eps:
                return fail(c, 'permute', 'H changes under a joint permutation of samples')
            return None
        x, y = seqs
        Hx, Hy, Hxy = H_counter(x), H_counter(y), H_counter(x, y)
        if fn == 'mi':
            if abs(got - (Hx + Hy - Hxy)) > eps:
                return fail(c, 'value', 'MI = %r, H(X)+H(Y)-H(X,Y) = %r' % (got, Hx + Hy - Hxy))
            if got < -eps:
                return fail(c, 'negative', 'MI < 0')
            back = parse_flist(ent_impl('mi', [y, x])[3:])[0]
            if abs(back - got) > eps:
                return fail(c, 'asymmetric', 'MI(x,y) != MI(y,x)')
        elif fn == 'condent':
            if abs(got - (Hxy - Hy)) > eps:
                return fail(c, 'value', 'H(X|Y) = %r, H(X,Y)-H(Y) = %r' % (got, Hxy - Hy))
            if got > Hx + eps or got < -eps:
                return fail(c, 'bound', 'H(X|Y) outside [0, H(X)]')
        elif fn == 'ecc':
            den = 0.5 * (Hx + Hy)
            if den > 0:
                want = math.sqrt(max(Hx + Hy - Hxy, 0.0) / den)
                if not (abs(got - want) <= 1e-7 or (got != got and Hx + Hy - Hxy < 0)):
                    return fail(c, 'value', 'entropy_cc = %r, definition gives %r' % (got, want))
        elif fn == 'te':
            lag = m['lag']
            n = len(x)
            fi = [x[(t + lag) % n] for t in range(n)]
            want = (H_counter(x, fi) - H_counter(x)) - (H_counter(fi, y, x) - H_counter(x, y))
            if abs(got - want) > eps:
                return fail(c, 'value', 'TE = %r, definition gives %r' % (got, want))
            if got < -eps:
                return fail(c, 'negative', 'TE < 0')
        return None
    return None


def oracle(rng, tier, seed, focus, cases=None):
    fails, n = [], 0
    for c in (cases or []):
        if c.meta:
            n += 1
            f = check_case(c, rng)
            if f:
                fails.append(f)
    return fails, {'judged': n, 'failed': len(fails), 'focus': len(focus)}


def replay(d):
    m = d['meta']
    op = m['op']
    if op == 'cov':
        dts = m.get('dts', ['c16' if m['cplx'] else 'f8'] * 2)
        x = restore(m['x'], m['cplx'], dts[0])
        y = restore(m['y'], m['cplx'], dts[1]) if m['y'] else None
        c = mk_cov_case(m['fn'], x, y, m['axis'], m['al'], m['db'], m['nm'], m.get('variant', 'plain'), tuple(dts), m.get('paths', False),
                        m.get('omit', 0))
        if m.get('l10'):
            l10_mark_cov(c, m['l10'])
    elif op == 'covvec':
        dts = m['dts']
        x = restore(m['x'], m['cplx'], dts[0])
        y = restore(m['y'], m['cplx'], dts[1]) if m['y'] else None
        c = mk_covvec_case(m['fn'], x, y, m['nlags'], m.get('variant', 'plain'), tuple(dts))
    elif op == 'fftconv':
        c = mk_fftconv_case(restore(m['a'], m['cplx'], m['dts'][0]), restore(m['b'], m['cplx'], m['dts'][1]), m.get('variant', 'plain'), tuple(m['dts']))
    elif op == 'ent':
        c = mk_ent_case(m['fn'], m['seqs'], m['lag'], m.get('variant', 'plain'), m.get('lab', 'i8'))
    elif op == 'xcorr':
        c = [q for q in mk_xcorr_cases(tuple(m.get('order', [m['which']])), m['data'], m.get('dt', 'f8')) if q.meta['which'] == m['which']][0]
        if m.get('l10'):
            l10_mark(c, m['l10'])
    elif op == 'len':
        a, b = np.array(m['a']), np.array(m['b'])
        c = Case(d['line'], call(lambda: 'ok ' + flist(U().crosscov(a, b))), d['clause'], meta=m)
    elif op in ('zscore', 'pchange'):
        x = restore(m['x'], False, m.get('dt', 'f8'))
        c = Case(d['line'], norm_impl(op, x, m['axis'], m.get('variant', 'plain'), m.get('via')), d['clause'], meta=m)
    elif op == 'seedcc':
        s, t = restore(m['seed'], False, m.get('dt', 'f8')), restore(m['targ'], False, m.get('dt2', m.get('dt', 'f8')))
        c = Case(d['line'], seedcc_impl(s, t, m['one_d'], m.get('variant', 'plain'), m.get('via')), d['clause'], meta=m)
    elif op == 'corrspec':
        a, b = np.array(m['a']).astype(DT[m.get('dt', 'f8')]), np.array(m['b']).astype(m.get('dtb', DT[m.get('dt', 'f8')]))
        c = Case(d['line'], corrspec_impl(a, b, m['nm'], m.get('variant', 'plain'), m.get('opts', 2)), d['clause'], meta=m)
    else:
        return None
    f = check_case(c)
    if f is not None and d.get('key') and f.key != d['key']:
        import common
        if common.match_known(f.key, common.load_findings(PID)):
            return None      # a DIFFERENT failure that is a recorded finding does not make this replay fail
    return f
