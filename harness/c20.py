"""C20 — correlation, normalisation and information measures obey their definitions.

Correspondence: utils.crosscov/crosscorr/autocov/autocorr (FFT based) , utils.zscore,
utils.percent_change, algorithms.seed_corrcoef, CorrelationAnalyzer.xcorr/xcorr_norm,
algorithms.correlation_spectrum and the entropy family on the real code vs the Lean model
`Nitime.C20` (direct sums, exact joint counts).
Oracle (independent of the Lean model): O(N^2) lagged sums with np.vdot, numpy reductions,
collections.Counter + math.log2, metamorphic identities (lag reversal, relabelling, permutation).
"""
import math
from collections import Counter
import numpy as np
from common import Case, Failure, flist, clist, ilist, parse_flist, parse_clist, parse_ilist, call, close_vec

PID = 'C20'
LEAN_TARGETS = ['Nitime.Props.C20']
RULE = ('cases from one PRNG state: {crosscov,crosscorr,autocov,autocorr} x {real,complex} x 1..3 dims x every axis (incl. negative) x '
        'all_lags/debias/normalize flags, lane length 2..64 (thorough: ..256); zscore / percent_change along every axis; seed_corrcoef with '
        '1..5 targets; CorrelationAnalyzer.xcorr / xcorr_norm with 2..4 channels; correlation_spectrum; entropy (1..3 variables), '
        'conditional_entropy, mutual_information, entropy_cc, transfer_entropy (lags 1..5) over alphabets of size 1..6 with arbitrary integer '
        'labels, lengths 2..60 (thorough ..200); distinct = distinct protocol line; non-trivial = non-constant input')
ASSUMPTIONS = ['zscore / seed_corrcoef inputs have non-zero variance along the axis, percent_change inputs have non-zero mean (monitored: generators avoid them, the count of skipped degenerate lanes is reported)',
               'binary64 rounding inside the routines is not modelled: numeric outputs are compared at 1e-9 of the largest magnitude (+ an absolute term proportional to the input scale for FFT round-off)']
TRUSTED_EXTRA = ['scipy.fftpack.fft/ifft inside utils.fftconvolve are NOT modelled: the model uses the direct linear convolution; FFT-vs-direct equality is established per run by correspondence only',
                 'np.correlate(a, v, "full") = linear convolution of a with conj(reversed v); np.corrcoef = Pearson coefficient; np.mean/np.std (population) ; np.roll; itertools.product(set(x)…) — by their documented semantics',
                 'the theorems are about the R / C instances of the Scalar-polymorphic model text; the driver runs the Float / Float-pair instances of the same definitions (parametricity unproved)']


def U():
    import nitime.utils as u
    return u


def TSA():
    import nitime.algorithms as a
    return a


# ------------------------------------------------------------------ helpers
def arr_tok(a):
    a = np.ascontiguousarray(a)
    return ilist(a.shape), (clist(a.reshape(-1)) if np.iscomplexobj(a) else flist(a.reshape(-1)))


def canon_nd(r, cplx=False):
    if isinstance(r, str):
        return r
    r = np.asarray(r)
    if cplx and not np.iscomplexobj(r):
        r = r.astype(complex)     # complex input: a real result is compared as complex with zero imaginary part
    sh, d = arr_tok(r)
    return 'ok %s %s' % (sh, d)


def parse_nd(s, cplx):
    """'ok shape data' -> (shape, values) ; else None"""
    if not s.startswith('ok '):
        return None
    t = s.split(' ')
    if len(t) != 3:
        return None
    sh = parse_ilist(t[1])
    vals = parse_clist(t[2]) if cplx else parse_flist(t[2])
    return sh, vals


def cmp_nd(cplx, atol):
    def f(impl, model):
        if impl.startswith('err') or model.startswith('err'):
            return impl == model
        a, b = parse_nd(impl, cplx), parse_nd(model, cplx)
        if a is None or b is None or a[0] != b[0]:
            return False
        return close_c(a[1], b[1], 1e-9, atol)
    return f


def close_c(a, b, rtol, atol):
    if len(a) != len(b):
        return False
    a = np.asarray(a, dtype=complex)
    b = np.asarray(b, dtype=complex)
    if not len(a):
        return True
    bad_a, bad_b = ~np.isfinite(a), ~np.isfinite(b)
    if bad_a.any() or bad_b.any():
        return bool((bad_a == bad_b).all() and close_c(list(a[~bad_a]), list(b[~bad_b]), rtol, atol))
    scale = max(np.abs(a).max(), np.abs(b).max())
    return bool((np.abs(a - b) <= rtol * scale + atol).all())


def cmp_scalar(atol):
    def f(impl, model):
        if not (impl.startswith('ok ') and model.startswith('ok ')):
            return impl == model
        return close_c(parse_flist(impl[3:]), parse_flist(model[3:]), 1e-9, atol)
    return f


def gen_array(nr, shape, cplx, kind):
    n = int(np.prod(shape))
    if kind == 'int':
        a = nr.randint(-5, 6, size=n).astype(float)
    elif kind == 'offset':
        a = nr.randn(n) + nr.choice([10.0, -3.0, 100.0])
    else:
        a = nr.randn(n)
    if cplx:
        a = a + 1j * (nr.randint(-5, 6, size=n).astype(float) if kind == 'int' else nr.randn(n))
    return a.reshape(shape)


def gen_shape(rng, tier, nmax):
    ndim = rng.choice([1, 1, 2, 2, 3])
    ax = rng.randrange(ndim)
    n = rng.choice([2, 3, 4, 5, 7, 8, 9, 16, 17, rng.randint(2, nmax)])
    shape = [rng.randint(1, 3) for _ in range(ndim)]
    shape[ax] = n
    axis = ax if rng.random() < 0.6 else ax - ndim
    return shape, axis, ax


# ------------------------------------------------------------------ calling disciplines
VARIANTS = ['plain', 'plain', 'fortran', 'strided', 'reuse']


def lay(a, variant):
    """an array with the values of `a` in the requested memory layout (always a private buffer)"""
    a = np.asarray(a)
    if variant == 'fortran' and a.ndim > 1:
        return np.asfortranarray(a.copy())
    if variant in ('strided', 'fortran'):
        big = np.zeros(tuple(2 * s_ + 1 for s_ in a.shape), dtype=a.dtype)
        v = big[tuple(slice(1, None, 2) for _ in a.shape)]
        v[...] = a
        return v
    return a.copy()


def disciplined(f, arrays, variant):
    """f(*arrays) under a calling discipline.  `reuse`: the function is first called on buffers holding
    OTHER values, the same buffers are then overwritten in place and the function is called again (an
    identity-keyed memo would answer with the stale result).  Returns (result, input_mutated)."""
    arrays = [np.asarray(a) for a in arrays]
    if variant == 'reuse':
        bufs = [np.ascontiguousarray(a[..., ::-1] * 3 + 1) if a.dtype.kind in 'fc' else np.ascontiguousarray(a[..., ::-1] + 1) for a in arrays]
        try:
            f(*bufs)
        except Exception:  # noqa
            pass
        for b, a in zip(bufs, arrays):
            b[...] = a
        args = bufs
    else:
        args = [lay(a, variant) for a in arrays]
    r = f(*args)
    mutated = any(not np.array_equal(g, a) for g, a in zip(args, arrays))
    return r, mutated


def with_flag(res):
    """(result, mutated) -> result, or an error string when the call changed its arguments"""
    if isinstance(res, str):
        return res
    r, mutated = res
    return 'err InputMutated' if mutated else r


# ------------------------------------------------------------------ cases
def cov_call(fn, x, y, axis, al, db, nm, pass_db=True):
    u = U()
    kw = dict(axis=axis, all_lags=al, normalize=nm)
    if pass_db:
        kw['debias'] = db
    if fn in ('crosscov', 'crosscorr'):
        return getattr(u, fn)(x, y, **kw)
    return getattr(u, fn)(x, **kw)


def mk_cov_case(fn, x, y, axis, al, db, nm, variant='plain'):
    cplx = bool(np.iscomplexobj(x))
    sh, xd = arr_tok(x)
    line = 'C20 %s %s %d %d %d %d %s %s' % (fn, 'c' if cplx else 'r', axis, al, db, nm, sh, xd)
    if y is not None:
        line += ' ' + arr_tok(y)[1]
    if y is None:
        f = lambda a: cov_call(fn, a, None, axis, bool(al), bool(db), bool(nm))
        impl = canon_nd(with_flag(call(lambda: disciplined(f, [x], variant))), cplx)
    else:
        f = lambda a, b: cov_call(fn, a, b, axis, bool(al), bool(db), bool(nm))
        impl = canon_nd(with_flag(call(lambda: disciplined(f, [x, y], variant))), cplx)
    N = x.shape[axis]
    mag = float(np.abs(x).max()) * float(np.abs(y if y is not None else x).max()) * N
    meta = {'op': 'cov', 'fn': fn, 'x': arr_tok(x), 'y': None if y is None else arr_tok(y), 'cplx': cplx,
            'axis': axis, 'al': al, 'db': db, 'nm': nm, 'variant': variant}
    nt = bool(np.ptp(np.abs(x)) > 0)
    return Case(line, impl, 'cov/%s/%s' % (fn, 'complex' if cplx else 'real'), cmp=cmp_nd(cplx, 1e-12 * mag), meta=meta, nontrivial=nt)


def seq_gen(rng, n, k, canonical=False):
    labels = list(range(k)) if canonical else rng.sample(range(-20, 40), k)
    return [rng.choice(labels) for _ in range(n)]


def ent_impl(fn, seqs, lag=None, variant='plain'):
    import importlib
    E = importlib.import_module('nitime.algorithms.entropy')
    xs = [np.array(s) for s in seqs]

    def f(*xs):
        if fn == 'entropy':
            return E.entropy(*xs)
        if fn == 'condent':
            return E.conditional_entropy(*xs)
        if fn == 'mi':
            return E.mutual_information(*xs)
        if fn == 'ecc':
            with np.errstate(all='ignore'):
                return E.entropy_cc(*xs)
        return E.transfer_entropy(xs[0], xs[1], lag=lag)
    v, mutated = disciplined(f, xs, variant)
    if mutated:
        return 'err InputMutated'
    return 'ok ' + flist([float(v)])


def mk_ent_case(fn, seqs, lag=None, variant='plain'):
    line = 'C20 %s %s%s' % (fn if fn != 'te' else 'te', ('%d ' % lag) if fn == 'te' else '', ' '.join(ilist(s) for s in seqs))
    impl = call(lambda: ent_impl(fn, seqs, lag, variant))
    meta = {'op': 'ent', 'fn': fn, 'seqs': [list(s) for s in seqs], 'lag': lag, 'variant': variant}
    return Case(line, impl, 'entropy/' + fn + ('%d' % len(seqs) if fn == 'entropy' else ''), cmp=cmp_scalar(1e-9), meta=meta,
                nontrivial=len(set(seqs[0])) > 1)


ATTR = {'raw': 'xcorr', 'norm': 'xcorr_norm', 'cc': 'corrcoef'}


def analyzer_reads(data, order):
    """read the outputs named in `order` one after the other on ONE CorrelationAnalyzer; returns
    {name: values held at the END by the object handed out at read time}, problems"""
    import nitime.timeseries as ts
    import nitime.analysis as nta
    data = np.array(data, dtype=float)
    T = ts.TimeSeries(data.copy(), sampling_interval=1)
    C = nta.CorrelationAnalyzer(T)
    handed, at_read, problems = {}, {}, []

    def vals(r):
        return np.array(r.data if hasattr(r, 'data') and not isinstance(r, np.ndarray) else r, dtype=float).reshape(-1)
    for name in order:
        r = getattr(C, ATTR[name])
        handed[name] = r
        at_read[name] = vals(r).copy()
        if not np.array_equal(np.asarray(T.data), data):
            problems.append('input-mutated-by-' + name)
    end = {}
    for name in order:
        end[name] = vals(handed[name])
        if not np.array_equal(end[name], at_read[name], equal_nan=True):
            problems.append('earlier-result-changed:' + name)
        if not np.array_equal(vals(getattr(C, ATTR[name])), end[name], equal_nan=True):
            problems.append('reread-differs:' + name)
    return end, problems


def cmp_xcorr(atol):
    def f(impl, model):
        if not (impl.startswith('ok ') and model.startswith('ok ')):
            return False
        a = parse_flist(impl[3:])
        return any(close_c(a, parse_flist(v), 1e-9, atol) for v in model[3:].split(' ; '))
    return f


def mk_xcorr_cases(order, data):
    """one Case per output read in `order` (a tuple of 'raw' | 'norm' | 'cc') on one analyzer object"""
    data = np.asarray(data, dtype=float)
    res = call(lambda: analyzer_reads(data, order))
    out = []
    seq = '-'.join(order)
    for name in order:
        if len(order) > 1:     # the model's analyzer object, same read sequence
            line = 'C20 seq %s %d %d %s' % (','.join(order), list(order).index(name), data.shape[1], flist(data.reshape(-1)))
        elif name == 'cc':
            line = 'C20 corrcoef %d %s' % (data.shape[1], flist(data.reshape(-1)))
        else:
            line = 'C20 xcorr %s %d %s' % (name, data.shape[1], flist(data.reshape(-1)))
        if isinstance(res, str):
            impl, problems = res, []
        else:
            impl, problems = 'ok ' + flist(res[0][name]), res[1]
        base = 'analyzer/' + ATTR[name]
        clause = base if len(order) == 1 else 'analyzer/sequence/%s/%s' % (seq, ATTR[name])
        meta = {'op': 'xcorr', 'which': name, 'order': list(order), 'data': data.tolist(), 'base': base,
                'problems': [p_ for p_ in problems if p_.startswith('input') or p_.endswith(':' + name)]}
        out.append(Case(line, impl, clause, cmp=cmp_xcorr(1e-12 * float(np.abs(data).max()) ** 2 * data.shape[1]), meta=meta))
    return out


def norm_impl(fn, x, axis, variant):
    f = U().zscore if fn == 'zscore' else U().percent_change
    return canon_nd(with_flag(call(lambda: disciplined(lambda a: f(a, axis), [x], variant))))


def seedcc_impl(seedv, targ, one_d, variant):
    f = lambda s_, t_: np.atleast_1d(TSA().seed_corrcoef(s_, t_))
    r = with_flag(call(lambda: disciplined(f, [seedv, targ[0] if one_d else targ], variant)))
    return r if isinstance(r, str) else 'ok ' + flist(r)


def cases(rng, tier, seed):
    import common
    nr = common.np_rng(PID, seed, 'arrays')
    k = {'quick': 4, 'thorough': 40}[tier]
    nmax = 64 if tier == 'quick' else 256
    out = []
    # --- covariance family
    for _ in range(220 * k):
        fn = rng.choice(['crosscov', 'crosscorr', 'autocov', 'autocorr'])
        shape, axis, ax = gen_shape(rng, tier, nmax)
        cplx = rng.random() < 0.45
        kind = rng.choice(['int', 'randn', 'offset'])
        x = gen_array(nr, shape, cplx, kind)
        y = gen_array(nr, shape, cplx if rng.random() < 0.8 else not cplx, kind) if fn.startswith('cross') else None
        if y is not None and np.iscomplexobj(y) != np.iscomplexobj(x):   # mixed real/complex: promote (numpy does the same)
            x = x.astype(complex)
            y = y.astype(complex)
        al, db, nm = rng.randint(0, 1), rng.randint(0, 1), rng.randint(0, 1)
        out.append(mk_cov_case(fn, x, y, axis, al, db, nm, rng.choice(VARIANTS)))
    # every lane length 2..70 (FFT padding parities, odd fast lengths), 1-d, in every run
    fns = ['crosscov', 'crosscorr', 'autocov', 'autocorr']
    for N in range(2, 71):
        fn = fns[(N + seed) % 4]
        cplx = (N // 4 + seed) % 2 == 1
        x = gen_array(nr, [N], cplx, 'randn')
        y = gen_array(nr, [N], cplx, 'offset') if fn.startswith('cross') else None
        out.append(mk_cov_case(fn, x, y, -1, rng.randint(0, 1), rng.randint(0, 1), rng.randint(0, 1), VARIANTS[1 + N % 4]))
    for _ in range(6 * k):   # unequal lengths are refused
        a, b = nr.randn(rng.randint(2, 6)), nr.randn(rng.randint(7, 9))
        impl = call(lambda: 'ok ' + flist(U().crosscov(a, b)))
        out.append(Case('C20 crosscovlen %s %s' % (flist(a), flist(b)), impl, 'cov/crosscov/length-check',
                        meta={'op': 'len', 'a': a.tolist(), 'b': b.tolist()}))
    # --- zscore / percent_change
    skipped = 0
    for _ in range(60 * k):
        fn = rng.choice(['zscore', 'pchange'])
        shape, axis, ax = gen_shape(rng, tier, nmax)
        x = nr.rand(*shape) + rng.choice([0.5, 1.0, 10.0]) if fn == 'pchange' else gen_array(nr, shape, False, rng.choice(['int', 'randn', 'offset']))
        if fn == 'pchange' and rng.random() < 0.3:
            x = -x
        if fn == 'zscore' and (np.std(x, axis=ax) < 1e-6).any():
            skipped += 1
            continue
        sh, xd = arr_tok(x)
        variant = rng.choice(VARIANTS)
        impl = norm_impl(fn, x, axis, variant)
        out.append(Case('C20 %s %d %s %s' % (fn, axis, sh, xd), impl, 'norm/' + fn, cmp=cmp_nd(False, 1e-9),
                        meta={'op': fn, 'x': arr_tok(x), 'axis': axis, 'variant': variant}))
    # --- seed_corrcoef
    for _ in range(40 * k):
        n = rng.randint(3, min(nmax, 40))
        nt = rng.randint(1, 5)
        seedv, targ = gen_array(nr, [n], False, 'offset'), gen_array(nr, [nt, n], False, rng.choice(['randn', 'offset']))
        if rng.random() < 0.3:
            targ[0] = seedv * rng.choice([2.0, -0.5]) + 1.0     # perfectly (anti)correlated row
        one_d = nt == 1 and rng.random() < 0.5
        variant = rng.choice(VARIANTS)
        impl = seedcc_impl(seedv, targ, one_d, variant)
        out.append(Case('C20 seedcc %d %s %s' % (n, flist(seedv), flist(targ.reshape(-1))), impl, 'seed_corrcoef',
                        cmp=cmp_scalar(1e-12), meta={'op': 'seedcc', 'seed': seedv.tolist(), 'targ': targ.tolist(), 'one_d': one_d, 'variant': variant}))
    # --- analyzer xcorr pair fill
    for _ in range(24 * k):
        nch, n = rng.randint(2, 4), rng.choice([2, 3, 4, 5, 8, rng.randint(2, 24)])
        data = nr.rand(nch, n) + 0.5
        out += mk_xcorr_cases((rng.choice(['raw', 'norm', 'cc']),), data)
    # --- every read order of the analyzer's outputs on ONE object (all ordered pairs and all permutations)
    import itertools
    orders = [o for r_ in (2, 3) for o in itertools.permutations(['raw', 'norm', 'cc'], r_)]
    for rep in range(k):
        for order in orders:
            nch, n = rng.randint(2, 3), rng.choice([2, 3, 4, 5, 7, rng.randint(2, 16)])
            out += mk_xcorr_cases(order, nr.rand(nch, n) + 0.5)
    # --- correlation_spectrum
    for _ in range(30 * k):
        n = rng.randint(3, min(nmax, 48))
        a, b = nr.randn(n) + 2.0, nr.randn(n) - 1.0
        nm = rng.randint(0, 1)
        impl = call(lambda: 'ok ' + flist(TSA().correlation_spectrum(a.copy(), b.copy(), norm=bool(nm))[1]))
        out.append(Case('C20 corrspec %d %s %s' % (nm, flist(a), flist(b)), impl, 'correlation_spectrum',
                        cmp=cmp_scalar(1e-10 if not nm else 1e-7), meta={'op': 'corrspec', 'a': a.tolist(), 'b': b.tolist(), 'nm': nm}))
    # --- entropies
    lmax = 60 if tier == 'quick' else 200
    for _ in range(160 * k):
        n = rng.choice([2, 3, 5, rng.randint(2, lmax), rng.randint(2, lmax)])
        fn = rng.choice(['entropy', 'entropy', 'condent', 'mi', 'ecc', 'te'])
        nv = rng.choice([1, 2, 3]) if fn == 'entropy' else 2
        rare = rng.random() < 0.12
        if rare:      # long sequences with a symbol that occurs once (p < 0.01): rare cells must count
            n = rng.randint(120, 200)
        canonical = rng.random() < 0.4     # labels 0..k-1 in every variable (overlapping label sets)
        sizes = [rng.randint(1, 6) for _ in range(nv)]
        if nv > 1 and rng.random() < 0.5:
            sizes.sort()                    # unequal alphabets, the SMALLER one first
        seqs = [seq_gen(rng, n, k_, canonical) for k_ in sizes]
        if rare:
            seqs[0][rng.randrange(n)] = 77
        if nv > 1 and rng.random() < 0.25:      # dependent variables
            seqs[1] = [(v * 7) % 3 for v in seqs[0]] if rng.random() < 0.5 else list(seqs[0])
        if fn == 'ecc' and len(set(seqs[0])) == 1 and len(set(seqs[1])) == 1:
            seqs[0][0] += 1    # 0/0 is not interesting
        out.append(mk_ent_case(fn, seqs, rng.randint(1, 5) if fn == 'te' else None, rng.choice(VARIANTS)))
    if skipped:
        out.append(Case('C20 nop', 'bad-op', 'monitor/skipped-degenerate-%d' % skipped, nontrivial=False))
    return out


# ------------------------------------------------------------------ oracle
def lanes(a, ax):
    a = np.moveaxis(a, ax, -1)
    return a.reshape(-1, a.shape[-1]), a.shape


def direct_cov(x, y, al, db, nm):
    """definition: C_xy[k] = sum_n x[n+k] conj(y[n]) (means removed when debias; /N when normalize)"""
    N = len(x)
    if db:
        x = x - x.sum() / N
        y = y - y.sum() / N
    ks = range(-(N - 1), N) if al else range(0, N)
    out = []
    for k_ in ks:
        if k_ >= 0:
            v = np.vdot(y[:N - k_], x[k_:])     # vdot conjugates its FIRST argument
        else:
            v = np.vdot(y[-k_:], x[:N + k_])
        out.append(v / N if nm else v)
    return np.array(out)


def un_tok(t, cplx):
    sh = parse_ilist(t[0])
    v = parse_clist(t[1]) if cplx else parse_flist(t[1])
    return np.array(v).reshape(sh)


def fail(c, sym, what, extra=None):
    m = dict(c.meta)
    if m.get('variant', 'plain') != 'plain':
        what += ' [calling discipline: %s]' % m['variant']
    return Failure('%s/%s' % (c.clause, sym), '%s: %s [op: %s]' % (c.clause, what, c.line[:160]),
                   {'clause': c.clause, 'meta': m, 'line': c.line, 'key': '%s/%s' % (c.clause, sym)}, case=c)


def H_counter(*seqs):
    n = len(seqs[0])
    cnt = Counter(zip(*seqs))
    return -sum((c / n) * math.log2(c / n) for c in cnt.values())


def check_case(c, rng=None):
    m = c.meta
    if not m:
        return None
    op = m['op']
    if op == 'len':
        return None if c.impl == 'err ValueError' else fail(c, 'accepted', 'unequal lengths accepted')
    if c.impl == 'err InputMutated':
        return fail(c, 'input-mutated', 'the call changed its argument array')
    if op == 'cov':
        cplx = m['cplx']
        x = un_tok(m['x'], cplx)
        y = un_tok(m['y'], cplx) if m['y'] else None
        r = parse_nd(c.impl, cplx)
        if r is None:
            return fail(c, 'raises', 'call failed: ' + c.impl[:60])
        fn, al, db, nm, axis = m['fn'], m['al'], m['db'], m['nm'], m['axis']
        if fn in ('crosscorr', 'autocorr'):
            db = 0
        got = np.array(r[1]).reshape(r[0])
        ax = axis % x.ndim
        N = x.shape[ax]
        want_shape = list(x.shape)
        want_shape[ax] = 2 * N - 1 if al else N
        if list(got.shape) != want_shape:
            return fail(c, 'shape', 'result shape %s, want %s' % (list(got.shape), want_shape))
        gx, _ = lanes(x, ax)
        gy, _ = lanes(y if y is not None else x, ax)
        gg, _ = lanes(got, ax)
        mag = float(np.abs(x).max()) * float(np.abs(y if y is not None else x).max()) * N
        for lx, ly, lg in zip(gx, gy, gg):
            want = direct_cov(lx, ly, al, db, nm)
            if not close_c(list(lg), list(want), 1e-9, 1e-12 * mag):
                i = int(np.argmax(np.abs(lg - want)))
                return fail(c, 'value', 'lag entry %d is %r, the direct lagged sum is %r' % (i, complex(lg[i]), complex(want[i])))
        # metamorphic: lag reversal c_yx[k] = conj c_xy[-k] on the implementation itself
        if y is not None:
            full = call(lambda: cov_call(fn, x.copy(), y.copy(), axis, True, bool(m['db']), bool(nm)))
            rev = call(lambda: cov_call(fn, y.copy(), x.copy(), axis, True, bool(m['db']), bool(nm)))
            if isinstance(full, str) or isinstance(rev, str):
                return fail(c, 'raises', 'all_lags call failed')
            f1, _ = lanes(np.asarray(full), ax)
            f2, _ = lanes(np.asarray(rev), ax)
            if not close_c(list(f2.reshape(-1)), list(np.conj(f1[:, ::-1]).reshape(-1)), 1e-9, 1e-12 * mag):
                return fail(c, 'lag-reversal', 'c_yx[k] != conj(c_xy[-k])')
        return None
    if op in ('zscore', 'pchange'):
        x = un_tok(m['x'], False)
        r = parse_nd(c.impl, False)
        if r is None:
            return fail(c, 'raises', 'call failed: ' + c.impl[:60])
        got = np.array(r[1]).reshape(r[0])
        if got.shape != x.shape:
            return fail(c, 'shape', 'shape changed')
        ax = m['axis'] % x.ndim
        g, _ = lanes(got, ax)
        gx, _ = lanes(x, ax)
        for lx, lg in zip(gx, g):      # the definition, lane by lane, on THIS input
            mu = lx.sum() / len(lx)
            want = (lx - mu) / math.sqrt(((lx - mu) ** 2).sum() / len(lx)) if op == 'zscore' else (lx / mu - 1) * 100
            if not close_c(list(lg), list(want), 1e-9, 1e-9):
                return fail(c, 'value', 'lane is not %s of the input lane' % ('(x - mean)/std' if op == 'zscore' else '(x/mean - 1)*100'))
        for lg in g:
            scale = max(1.0, float(np.abs(lg).max()))
            if abs(lg.mean()) > 1e-9 * scale:
                return fail(c, 'mean', 'mean along the axis is %r, not 0' % float(lg.mean()))
            if op == 'zscore' and abs(lg.var() - 1) > 1e-9:
                return fail(c, 'variance', 'variance along the axis is %r, not 1' % float(lg.var()))
        return None
    if op == 'seedcc':
        if not c.impl.startswith('ok '):
            return fail(c, 'raises', 'call failed')
        got = parse_flist(c.impl[3:])
        s, t = np.array(m['seed']), np.array(m['targ'])
        want = [float(np.corrcoef(s, row)[0, 1]) for row in t]
        if len(got) != len(want) or not close_c(got, want, 1e-9, 1e-12):
            return fail(c, 'value', 'not the Pearson coefficient: %r vs %r' % (got[:3], want[:3]))
        if any(abs(v) > 1 + 1e-12 for v in got):
            return fail(c, 'bound', '|r| > 1')
        return None
    if op == 'xcorr':
        if not c.impl.startswith('ok '):
            return fail(c, 'raises', 'call failed: ' + c.impl[:60])
        for p_ in m.get('problems', []):
            return fail(c, p_.split(':')[0], 'reading %s on one analyzer: %s' % ('-'.join(m['order']), p_))
        d = np.array(m['data'])
        nch, N = d.shape
        if m['which'] == 'cc':
            got = np.array(parse_flist(c.impl[3:]))
            want = np.corrcoef(d).reshape(-1)
            if len(got) != len(want) or np.abs(got - want).max() > 1e-9:
                return fail(c, 'value', 'corrcoef is not the Pearson matrix')
            return None
        got = np.array(parse_flist(c.impl[3:])).reshape(nch, nch, 2 * N - 1)
        tol = 1e-9 * float(np.abs(got).max())
        norm = m['which'] == 'norm'
        base = m.get('base', c.clause)
        cc = np.corrcoef(d)
        for i in range(nch):
            for j in range(i, nch):
                want = direct_cov(d[i], d[j], True, False, False).real
                if norm:
                    # definition: the sequence scaled so that its ZERO-LAG entry equals the correlation coefficient
                    if abs(got[i, j, N - 1] - cc[i, j]) > 1e-9:
                        return fail(c, 'zero-lag-index', 'xcorr_norm[%d,%d] at the true zero lag (index N-1=%d) is %r, corrcoef is %r (the entry made equal to corrcoef is index %d, lag +1)'
                                    % (i, j, N - 1, float(got[i, j, N - 1]), float(cc[i, j]), N))
                    want = want / want[N - 1] * cc[i, j]
                if np.abs(got[i, j] - want).max() > tol:
                    return fail(c, 'value', 'entry (%d,%d) is not the direct cross-correlation sequence' % (i, j))
        for i in range(nch):
            for j in range(i + 1, nch):
                if np.abs(got[j, i] - got[i, j][::-1]).max() > tol:
                    f_ = fail(c, 'pair-fill-not-lag-reversed', 'entry (%d,%d) is not the lag-reversed entry (%d,%d)%s' % (
                        j, i, i, j, ' (it is a copy)' if np.abs(got[j, i] - got[i, j]).max() <= tol else ''))
                    f_.key = base + '/pair-fill-not-lag-reversed'     # the recorded finding, whatever the read order
                    f_.replay['key'] = f_.key
                    return f_
        return None
    if op == 'corrspec':
        if not c.impl.startswith('ok '):
            return fail(c, 'raises', 'call failed')
        got = np.array(parse_flist(c.impl[3:]))
        a, b = np.array(m['a']), np.array(m['b'])
        n = len(a)
        if len(got) != n // 2 + 1:
            return fail(c, 'shape', 'length %d, want %d' % (len(got), n // 2 + 1))
        if not m['nm']:
            tot = got[0] + 2 * got[1:(n + 1) // 2].sum() + (got[n // 2] if n % 2 == 0 else 0.0)
            r = float(np.corrcoef(a, b)[0, 1])
            if abs(tot - r) > 1e-9:
                return fail(c, 'sum', 'the spectrum sums to %r, the correlation coefficient is %r' % (float(tot), r))
        return None
    if op == 'ent':
        if not c.impl.startswith('ok '):
            return fail(c, 'raises', 'call failed: ' + c.impl[:60])
        got = parse_flist(c.impl[3:])[0]
        seqs, fn = m['seqs'], m['fn']
        eps = 1e-9
        if fn == 'entropy':
            want = H_counter(*seqs)
            if abs(got - want) > eps:
                return fail(c, 'value', 'H = %r, definition gives %r' % (got, want))
            if got < -eps:
                return fail(c, 'negative', 'H < 0')
            card = 1
            for s in seqs:
                card *= len(set(s))
            if got > math.log2(card) + eps:
                return fail(c, 'above-log-card', 'H = %r > log2(%d)' % (got, card))
            if len(seqs) == 2:
                back = parse_flist(ent_impl(fn, [seqs[1], seqs[0]])[3:])[0]
                if abs(back - got) > eps:
                    return fail(c, 'asymmetric', 'H(X,Y) = %r but H(Y,X) = %r' % (got, back))
            # relabelling and joint permutation on the implementation
            lab = {}
            for s in seqs:
                for v in s:
                    lab.setdefault(v, 1000 - 3 * len(lab))
            r2 = ent_impl(fn, [[lab[v] for v in s] for s in seqs])
            perm = list(range(len(seqs[0])))
            (rng or __import__('random').Random(len(seqs[0]))).shuffle(perm)
            r3 = ent_impl(fn, [[s[p] for p in perm] for s in seqs])
            if abs(parse_flist(r2[3:])[0] - got) > eps:
                return fail(c, 'relabel', 'H changes under relabelling of symbols')
            if abs(parse_flist(r3[3:])[0] - got) > eps:
                return fail(c, 'permute', 'H changes under a joint permutation of samples')
            return None
        x, y = seqs
        Hx, Hy, Hxy = H_counter(x), H_counter(y), H_counter(x, y)
        if fn == 'mi':
            if abs(got - (Hx + Hy - Hxy)) > eps:
                return fail(c, 'value', 'MI = %r, H(X)+H(Y)-H(X,Y) = %r' % (got, Hx + Hy - Hxy))
            if got < -eps:
                return fail(c, 'negative', 'MI < 0')
            back = parse_flist(ent_impl('mi', [y, x])[3:])[0]
            if abs(back - got) > eps:
                return fail(c, 'asymmetric', 'MI(x,y) != MI(y,x)')
        elif fn == 'condent':
            if abs(got - (Hxy - Hy)) > eps:
                return fail(c, 'value', 'H(X|Y) = %r, H(X,Y)-H(Y) = %r' % (got, Hxy - Hy))
            if got > Hx + eps or got < -eps:
                return fail(c, 'bound', 'H(X|Y) outside [0, H(X)]')
        elif fn == 'ecc':
            den = 0.5 * (Hx + Hy)
            if den > 0:
                want = math.sqrt(max(Hx + Hy - Hxy, 0.0) / den)
                if not (abs(got - want) <= 1e-7 or (got != got and Hx + Hy - Hxy < 0)):
                    return fail(c, 'value', 'entropy_cc = %r, definition gives %r' % (got, want))
        elif fn == 'te':
            lag = m['lag']
            n = len(x)
            fi = [x[(t + lag) % n] for t in range(n)]
            want = (H_counter(x, fi) - H_counter(x)) - (H_counter(fi, y, x) - H_counter(x, y))
            if abs(got - want) > eps:
                return fail(c, 'value', 'TE = %r, definition gives %r' % (got, want))
            if got < -eps:
                return fail(c, 'negative', 'TE < 0')
        return None
    return None


def oracle(rng, tier, seed, focus, cases=None):
    fails, n = [], 0
    for c in (cases or []):
        if c.meta:
            n += 1
            f = check_case(c, rng)
            if f:
                fails.append(f)
    return fails, {'judged': n, 'failed': len(fails), 'focus': len(focus)}


def replay(d):
    m = d['meta']
    op = m['op']
    if op == 'cov':
        x = un_tok(m['x'], m['cplx'])
        y = un_tok(m['y'], m['cplx']) if m['y'] else None
        c = mk_cov_case(m['fn'], x, y, m['axis'], m['al'], m['db'], m['nm'], m.get('variant', 'plain'))
    elif op == 'ent':
        c = mk_ent_case(m['fn'], m['seqs'], m['lag'], m.get('variant', 'plain'))
    elif op == 'xcorr':
        c = [q for q in mk_xcorr_cases(tuple(m.get('order', [m['which']])), m['data']) if q.meta['which'] == m['which']][0]
    elif op == 'len':
        a, b = np.array(m['a']), np.array(m['b'])
        c = Case(d['line'], call(lambda: 'ok ' + flist(U().crosscov(a, b))), d['clause'], meta=m)
    elif op in ('zscore', 'pchange'):
        x = un_tok(m['x'], False)
        c = Case(d['line'], norm_impl(op, x, m['axis'], m.get('variant', 'plain')), d['clause'], meta=m)
    elif op == 'seedcc':
        s, t = np.array(m['seed']), np.array(m['targ'])
        c = Case(d['line'], seedcc_impl(s, t, m['one_d'], m.get('variant', 'plain')), d['clause'], meta=m)
    elif op == 'corrspec':
        a, b = np.array(m['a']), np.array(m['b'])
        c = Case(d['line'], call(lambda: 'ok ' + flist(TSA().correlation_spectrum(a, b, norm=bool(m['nm']))[1])), d['clause'], meta=m)
    else:
        return None
    f = check_case(c)
    if f is not None and d.get('key') and f.key != d['key']:
        import common
        if common.match_known(f.key, common.load_findings(PID)):
            return None      # a DIFFERENT failure that is a recorded finding does not make this replay fail
    return f
