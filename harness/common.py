"""Shared machinery of the checks: PRNG, line protocol, lake build + axiom audit,
correspondence runner, failing-input search bookkeeping, findings, evidence.

Pipeline of one check (see DESIGN.md section 2):
  translate -> lake build (theorems re-checked) -> axiom audit -> correspondence (model vs
  implementation) -> independent oracle on the implementation -> decide -> evidence.
"""
import os, sys, json, time, struct, random, subprocess, fcntl, re, hashlib, traceback

HERE = os.path.dirname(os.path.abspath(__file__))
VERIF = os.path.dirname(HERE)
LEAN = os.environ.get('VERIF_LEAN') or os.path.join(VERIF, 'lean')   # VERIF_LEAN: isolated copy for mutant self-tests
def driver_path(pid):
    return os.path.join(LEAN, '.lake', 'build', 'bin', 'drv' + pid)
REPO = os.environ.get('NITIME_REPO', '/repo')
ALLOWED_AXIOMS = {'propext', 'Classical.choice', 'Quot.sound'}
FORBIDDEN = re.compile(r'\bsorry\b|\badmit\b|^axiom |native_decide|bv_decide|implemented_by|\bunsafe |maxHeartbeats 0')

TRUSTED_BASE = [
    'Lean 4.33.0 kernel (lake build re-elaborates every proof file whose inputs changed)',
    'Mathlib v4.33.0 as compiled on this image',
    'axioms: propext, Classical.choice, Quot.sound only (audited per theorem on every run; no native_decide, no bv_decide, no own axioms, no sorry)',
    'harness/translate.py (AST extraction of tables/formulas from /repo into lean/Nitime/Generated)',
    'the correspondence harness (harness/*.py): generators, canonicalisation, tolerances, and the independent oracles',
    'numpy/scipy/matplotlib internals are modelled by their documented semantics, not verified',
]


class Infra(Exception):
    """infrastructure failure: exit 2, never a VIOLATION"""


# ----------------------------------------------------------------------------- floats
def f2x(v):
    return 'x%016x' % struct.unpack('<Q', struct.pack('<d', float(v)))[0]


def x2f(s):
    assert s[0] == 'x', s
    return struct.unpack('<d', struct.pack('<Q', int(s[1:], 16)))[0]


def flist(vs):
    vs = list(vs)
    return ','.join(f2x(v) for v in vs) if vs else '-'


def ilist(vs):
    vs = list(vs)
    return ','.join(str(int(v)) for v in vs) if vs else '-'


def parse_flist(s):
    return [] if s == '-' else [x2f(t) for t in s.split(',')]


def parse_ilist(s):
    return [] if s == '-' else [int(t) for t in s.split(',')]


def clist(zs):
    """complex list as interleaved re,im doubles"""
    out = []
    for z in zs:
        z = complex(z)
        out += [z.real, z.imag]
    return flist(out)


def parse_clist(s):
    v = parse_flist(s)
    return [complex(v[i], v[i + 1]) for i in range(0, len(v), 2)]


def close_vec(a, b, rtol=1e-9, atol=0.0):
    """|a-b| <= rtol*scale + atol with scale the largest magnitude involved"""
    if len(a) != len(b):
        return False
    if not a:
        return True
    for x in list(a) + list(b):
        if x != x or abs(x) == float('inf'):
            # NaN / inf must match exactly in position and kind
            return all((p != p and q != q) or p == q for p, q in zip(a, b))
    scale = max(max(abs(x) for x in a), max(abs(x) for x in b))
    tol = rtol * scale + atol
    return all(abs(x - y) <= tol for x, y in zip(a, b))


# ----------------------------------------------------------------------------- PRNG
def make_rng(pid, seed, stream=''):
    h = hashlib.sha256(('%s/%s/%s' % (pid, seed, stream)).encode()).digest()
    return random.Random(int.from_bytes(h[:8], 'little'))


def np_rng(pid, seed, stream=''):
    import numpy as np
    h = hashlib.sha256(('%s/%s/%s' % (pid, seed, stream)).encode()).digest()
    return np.random.RandomState(int.from_bytes(h[:4], 'little'))


# ----------------------------------------------------------------------------- lake
class LakeLock:
    def __enter__(self):
        os.makedirs(os.path.join(LEAN, '.lake'), exist_ok=True)
        self.f = open(os.path.join(LEAN, '.lake', 'verif.lock'), 'w')
        fcntl.flock(self.f, fcntl.LOCK_EX)
        return self

    def __exit__(self, *a):
        fcntl.flock(self.f, fcntl.LOCK_UN)
        self.f.close()


def sh(cmd, cwd=None, timeout=3000):
    try:
        p = subprocess.run(cmd, cwd=cwd, capture_output=True, text=True, timeout=timeout)
    except subprocess.TimeoutExpired:
        raise Infra('timeout: %s' % ' '.join(cmd))
    except FileNotFoundError as e:
        raise Infra(str(e))
    return p.returncode, p.stdout + p.stderr


def translate():
    sys.path.insert(0, HERE)
    import translate as tr
    with LakeLock():
        return tr.run()


def lake_build(targets):
    """returns (ok, output, broken) where broken lists 'file:line: message' of Lean errors"""
    with LakeLock():
        rc, out = sh(['lake', 'build'] + list(targets), cwd=LEAN)
    broken = []
    for m in re.finditer(r'^error: (\S+?):(\d+):(\d+): (.*)$', out, flags=re.M):
        broken.append('%s:%s: %s' % (m.group(1), m.group(2), m.group(4)[:200]))
    if rc != 0 and not broken:
        if 'error' in out:
            broken.append(out.strip().splitlines()[-1][:300])
        else:
            raise Infra('lake build failed without a Lean error:\n' + out[-2000:])
    return rc == 0, out, broken


def audit(pid):
    """run Audit/<pid>.lean; returns (theorems: {name: [axioms]}, problems: [str])"""
    path = os.path.join('Nitime', 'Audit', '%s.lean' % pid)
    with LakeLock():
        rc, out = sh(['lake', 'env', 'lean', path], cwd=LEAN)
    thms, problems = {}, []
    flat = re.sub(r'\n\s+', ' ', out)
    for m in re.finditer(r"'([^']+)' depends on axioms: \[([^\]]*)\]", flat):
        ax = [a.strip() for a in m.group(2).split(',') if a.strip()]
        thms[m.group(1)] = ax
        bad = [a for a in ax if a not in ALLOWED_AXIOMS]
        if bad:
            problems.append('theorem %s depends on non-standard axioms %s' % (m.group(1), bad))
    for m in re.finditer(r"'([^']+)' does not depend on any axioms", flat):
        thms[m.group(1)] = []
    if rc != 0:
        problems.append('audit file does not check: ' + out.strip()[-400:])
    # the audit file names every property theorem; count the #print axioms commands
    with open(os.path.join(LEAN, path)) as f:
        wanted = re.findall(r'^#print axioms\s+(\S+)', f.read(), flags=re.M)
    for w in wanted:
        if w not in thms and not any(t.endswith('.' + w) or w.endswith('.' + t) or t == w for t in thms):
            problems.append('theorem %s not confirmed by the audit' % w)
    return thms, problems, wanted


def grep_forbidden(pid_files):
    problems = []
    for rel in pid_files:
        p = os.path.join(LEAN, rel)
        if not os.path.exists(p):
            continue
        in_block = 0
        for i, line in enumerate(open(p), 1):
            s = line
            # strip block comments (non-nested approximation, adequate for our files) and line comments
            if in_block:
                if '-/' in s:
                    s = s.split('-/', 1)[1]
                    in_block = 0
                else:
                    continue
            while '/-' in s:
                pre, rest = s.split('/-', 1)
                if '-/' in rest:
                    s = pre + rest.split('-/', 1)[1]
                else:
                    s = pre
                    in_block = 1
            s = s.split('--', 1)[0]
            if FORBIDDEN.search(s):
                problems.append('%s:%d: forbidden token: %s' % (rel, i, line.strip()[:120]))
    return problems


def lean_files_of(targets):
    """transitive Nitime.* imports of the given modules (for the forbidden-token grep)"""
    seen, todo = set(), list(targets)
    while todo:
        m = todo.pop()
        if m in seen or not m.startswith('Nitime.'):
            continue
        seen.add(m)
        p = os.path.join(LEAN, m.replace('.', '/') + '.lean')
        if os.path.exists(p):
            for line in open(p):
                mm = re.match(r'^import\s+(\S+)', line)
                if mm:
                    todo.append(mm.group(1))
    return sorted(m.replace('.', '/') + '.lean' for m in seen)


# ----------------------------------------------------------------------------- driver
def run_driver(pid, lines, timeout=3000):
    if not lines:
        return []
    DRIVER = driver_path(pid)
    if not os.path.exists(DRIVER):
        raise Infra('driver executable missing: ' + DRIVER)
    data = '\n'.join(lines) + '\n'
    try:
        p = subprocess.run([DRIVER], input=data, capture_output=True, text=True, timeout=timeout)
    except subprocess.TimeoutExpired:
        raise Infra('driver timeout')
    out = p.stdout.split('\n')
    if out and out[-1] == '':
        out.pop()
    if p.returncode != 0 or len(out) != len(lines):
        raise Infra('driver failed rc=%s, %d lines for %d ops: %s' % (p.returncode, len(out), len(lines), p.stderr[-500:]))
    return out


# ----------------------------------------------------------------------------- cases
class Case:
    """one correspondence case: `line` goes to the model driver; `impl` is what the real code
    returned, canonicalised to the same syntax; `cmp(impl, model)` decides agreement
    (default: string equality); `clause` keys the bookkeeping; `meta` is free-form (replay)."""
    __slots__ = ('line', 'impl', 'cmp', 'clause', 'meta', 'model', 'nontrivial')

    def __init__(self, line, impl, clause, cmp=None, meta=None, nontrivial=True):
        self.line, self.impl, self.clause, self.cmp, self.meta = line, impl, clause, cmp, meta
        self.model = None
        self.nontrivial = nontrivial


class Failure:
    """a property failure shown on the implementation by the independent oracle"""

    def __init__(self, key, what, replay, case=None):
        self.key, self.what, self.replay, self.case = key, what, replay, case


def err_kind(e):
    for k in ('ValueError', 'TypeError', 'IndexError', 'NotImplementedError', 'KeyError',
              'ZeroDivisionError', 'AttributeError', 'StopIteration'):
        if type(e).__name__ == k:
            return k
    for base in (ValueError, TypeError, IndexError, NotImplementedError):
        if isinstance(e, base):
            return base.__name__
    return 'Other:' + type(e).__name__


def call(fn, *a, **k):
    """run implementation code, mapping exceptions to `err <Kind>`"""
    try:
        return fn(*a, **k)
    except Exception as e:  # noqa
        return 'err ' + err_kind(e)


# ----------------------------------------------------------------------------- findings
def load_findings(pid):
    """known (recorded, unrepaired) findings of this property: {key pattern: entry}.
    Keys are fnmatch patterns over the oracle's failure keys (clause/call-site/symptom)."""
    import glob
    out = {}
    # single committed source; proposed_fixes/*-findings.json are the builders' working notes (consolidated into
    # known_findings.json by harness/consolidate_findings.py) and are NOT read at check time
    for p in [os.path.join(VERIF, 'known_findings.json')]:
        if not os.path.exists(p):
            continue
        d = json.load(open(p))
        fl = d.get('findings', []) if isinstance(d, dict) else d
        for f in fl:
            if f.get('property') == pid and f.get('status', 'known') == 'known' and 'key' in f:
                out[f['key']] = f
    return out


def match_known(key, known):
    import fnmatch
    for pat in known:
        if key == pat or fnmatch.fnmatchcase(key, pat):
            return pat
    return None


# ----------------------------------------------------------------------------- the check
class Check:
    def __init__(self, mod, tier, seed, replay=None):
        self.mod, self.pid, self.tier, self.seed, self.replay = mod, mod.PID, tier, seed, replay
        self.t0 = time.time()
        self.broken = []        # obligations / correspondences that no longer check
        self.notes = []
        self.cov = {}

    def log(self, *a):
        print('[%s %s %.1fs]' % (self.pid, self.tier, time.time() - self.t0), *a, flush=True)

    # -- steps -----------------------------------------------------------
    def step_lean(self):
        mod = self.mod
        echo, changed = translate()
        self.cov['translator'] = {'regenerated': changed, 'echo': echo if self.tier == 'thorough' else
                                  {k: (v if len(json.dumps(v, default=str)) < 600 else '…') for k, v in echo.items()}}
        if echo.get('errors'):
            self.broken += ['translator: ' + e for e in echo['errors']]
        # the driver must exist even when a proof module fails: build it first
        ok_d, out_d, br_d = lake_build(['drv' + self.pid])
        if not ok_d:
            raise Infra('driver does not build:\n' + out_d[-3000:])
        ok, out, br = lake_build(mod.LEAN_TARGETS)
        self.broken += ['lean: ' + b for b in br]
        thms, problems, wanted = ({}, [], [])
        if ok:
            thms, problems, wanted = audit(self.pid)
            self.broken += ['audit: ' + p for p in problems]
        files = lean_files_of(list(mod.LEAN_TARGETS) + ['Nitime.Model.' + self.pid])
        fb = grep_forbidden(files)
        self.broken += ['forbidden: ' + p for p in fb]
        self.cov['obligations'] = max(len(wanted), 1) if ok else max(len(wanted), len(br), 1)
        self.cov['discharged'] = len([w for w in wanted if not any(w in p for p in problems)]) if ok else 0
        self.cov['theorems'] = sorted(thms)
        self.cov['axioms_used'] = sorted({a for ax in thms.values() for a in ax})
        self.cov['lean_files'] = files
        self.cov['checker_cmd'] = 'cd lean && lake build %s && lake env lean Nitime/Audit/%s.lean' % (
            ' '.join(mod.LEAN_TARGETS), self.pid)
        if self.tier == 'thorough' and ok and getattr(mod, 'LEANCHECKER', True):
            with LakeLock():
                rc, o = sh(['lake', 'env', 'leanchecker'] + list(mod.LEAN_TARGETS), cwd=LEAN, timeout=3000)
            self.cov['leanchecker'] = 'ok' if rc == 0 else 'FAILED: ' + o[-300:]
            if rc != 0:
                self.broken.append('leanchecker: ' + o[-300:])
        self.log('lean: build %s, %d theorems audited, %d broken' % ('ok' if ok else 'FAILED', len(thms), len(self.broken)))

    def step_correspondence(self):
        rng = make_rng(self.pid, self.seed, 'corr')
        cases = list(self.mod.cases(rng, self.tier, self.seed))
        outs = run_driver(self.pid, [c.line for c in cases])
        mism, per_clause, distinct = [], {}, set()
        for c, o in zip(cases, outs):
            c.model = o
            agree = (c.cmp(c.impl, o) if c.cmp else c.impl == o)
            st = per_clause.setdefault(c.clause, [0, 0])
            st[0] += 1
            if c.nontrivial:
                distinct.add(c.line)
            if not agree:
                st[1] += 1
                mism.append(c)
        self.cases, self.mism = cases, mism
        self.cov['evaluations'] = len(cases)
        self.cov['distinct_nontrivial'] = len(distinct)
        self.cov['traces_validated_against_impl'] = len(cases) - len(mism)
        self.cov['per_clause'] = {k: {'cases': v[0], 'disagree': v[1]} for k, v in sorted(per_clause.items())}
        step = max(1, len(cases) // 6)
        self.cov['samples'] = [{'op': c.line[:300], 'impl': c.impl[:200], 'model': (c.model or '')[:200]}
                               for c in cases[::step][:8]]
        if mism:
            mism.sort(key=lambda c: len(c.line))
            for c in mism[:5]:
                self.log('DISAGREE', c.clause, '\n   op   :', c.line[:400], '\n   impl :', c.impl[:300], '\n   model:', (c.model or '')[:300])
        self.log('correspondence: %d cases, %d disagree' % (len(cases), len(mism)))

    def step_oracle(self):
        rng = make_rng(self.pid, self.seed, 'oracle')
        focus = [c for c in getattr(self, 'mism', [])]
        res = self.mod.oracle(rng, self.tier, self.seed, focus, getattr(self, 'cases', []))
        fails, stats = res if isinstance(res, tuple) else (res, {})
        self.cov['oracle'] = stats
        self.fails = fails
        self.log('oracle: %s, %d failures' % (json.dumps(stats)[:300], len(fails)))

    # -- decide ----------------------------------------------------------
    def decide(self):
        known = load_findings(self.pid)
        rc = 0
        seen_known, unlisted = {}, {}
        for f in self.fails:
            pat = match_known(f.key, known)
            if pat:
                seen_known.setdefault(pat, f)
            else:
                unlisted.setdefault(f.key, f)
        # a disagreement between model and implementation is *explained* when the independent
        # oracle shows the implementation failing the property on that very case under a recorded
        # finding (the model follows the intended behaviour there); otherwise it is a broken tie
        mism = getattr(self, 'mism', [])
        expl = {id(f.case) for f in self.fails if f.case is not None and match_known(f.key, known)}
        unexplained = [c for c in mism if id(c) not in expl]
        self.cov['disagreements_explained_by_known_findings'] = len(mism) - len(unexplained)
        if unexplained:
            c0 = unexplained[0]
            self.broken.append('correspondence: %d of %d cases disagree (clauses: %s); smallest: %s  impl=%s  model=%s' % (
                len(unexplained), len(getattr(self, 'cases', [])), sorted({c.clause for c in unexplained})[:12], c0.line[:300], c0.impl[:200], (c0.model or '')[:200]))
        for k, f in sorted(seen_known.items()):
            print('KNOWN-FINDING: property=%s %s — %s' % (self.pid, k, known[k].get('what', f.what)))
        rdir = os.path.join(VERIF, 'replays', self.pid)
        viol = 0
        if unlisted:
            os.makedirs(rdir, exist_ok=True)
            for k, f in sorted(unlisted.items()):
                path = os.path.join(rdir, re.sub(r'[^A-Za-z0-9_.-]+', '_', k)[:120] + '.json')
                json.dump({'property': self.pid, 'key': k, 'what': f.what, 'replay': f.replay,
                           'seed': self.seed, 'tier': self.tier, 'broken': self.broken}, open(path, 'w'), indent=1, default=str)
                print('VIOLATION property=%s replay=%s' % (self.pid, os.path.relpath(path, VERIF)))
                print('   ', f.what[:500])
                viol += 1
            rc = 1
        elif self.broken:
            os.makedirs(rdir, exist_ok=True)
            path = os.path.join(rdir, 'broken-obligation.json')
            json.dump({'property': self.pid, 'key': 'broken-obligation', 'no_failing_input_found': True,
                       'what': 'theorem / translator artefact / correspondence that no longer checks',
                       'broken': self.broken, 'seed': self.seed, 'tier': self.tier,
                       'disagreements': [{'op': c.line, 'impl': c.impl, 'model': c.model, 'clause': c.clause}
                                         for c in unexplained[:20]]}, open(path, 'w'), indent=1, default=str)
            for b in self.broken[:10]:
                print('BROKEN:', b[:600])
            print('VIOLATION property=%s replay=%s no-failing-input-found' % (self.pid, os.path.relpath(path, VERIF)))
            viol = 1
            rc = 1
        self.violations = viol
        self.known_seen = sorted(seen_known)
        return rc

    def evidence(self):
        cov = self.cov
        cov.setdefault('evaluations', 0)
        cov.setdefault('distinct_nontrivial', 0)
        cov.setdefault('samples', [])
        cov['rule'] = getattr(self.mod, 'RULE', 'cases generated from VERIF_SEED by the property generator; distinct = distinct protocol lines, non-trivial as flagged by the generator')
        cov['trusted_base'] = TRUSTED_BASE + list(getattr(self.mod, 'TRUSTED_EXTRA', []))
        cov['broken'] = self.broken
        cov['known_findings_reproduced'] = getattr(self, 'known_seen', [])
        ev = {'property_id': self.pid, 'tier': self.tier, 'seed': int(self.seed), 'level': 'proof',
              'coverage': cov, 'assumptions': list(getattr(self.mod, 'ASSUMPTIONS', [])),
              'wall_s': round(time.time() - self.t0, 2), 'violations': getattr(self, 'violations', 0)}
        evdir = os.environ.get('VERIF_EVIDENCE_DIR') or os.path.join(VERIF, 'evidence')
        os.makedirs(evdir, exist_ok=True)
        p = os.path.join(evdir, self.pid + '.json')
        json.dump(ev, open(p + '.tmp', 'w'), indent=1, default=str)
        os.replace(p + '.tmp', p)

    def guarded(self, step, name):
        """A harness step that cannot digest what the implementation did (wrong shapes, unexpected types, an exception
        outside `common.call`) is a correspondence that no longer checks - a broken tie, reported as such (exit 1,
        no-failing-input-found unless the oracle shows an input) - not an infrastructure failure: on the unchanged tree
        every step runs through, so the cause is the change under test.  Infra (lake, driver, timeouts) stays exit 2."""
        try:
            step()
        except Infra:
            raise
        except Exception as e:  # noqa
            tb = traceback.extract_tb(e.__traceback__)
            where = ' <- '.join('%s:%d %s' % (os.path.basename(f.filename), f.lineno, f.name) for f in tb[-4:][::-1])
            self.broken.append('correspondence: the %s step could not process the implementation\'s behaviour: %s: %s  [%s]' % (
                name, type(e).__name__, str(e)[:300], where))
            self.log('STEP FAILED', name, type(e).__name__, str(e)[:200], where)

    def run(self):
        self.fails = []
        self.step_lean()
        self.guarded(self.step_correspondence, 'correspondence')
        self.guarded(self.step_oracle, 'oracle')
        rc = self.decide()
        self.evidence()
        self.log('exit', rc)
        return rc

    def run_replay(self):
        d = json.load(open(self.replay))
        if d.get('no_failing_input_found'):
            print('replay file names broken obligations (no failing input):')
            for b in d['broken']:
                print('  ', b)
            return 1
        f = self.mod.replay(d['replay'])
        if f:
            print('REPLAY FAILS: property=%s key=%s — %s' % (self.pid, f.key, f.what))
            return 1
        print('replay passes on this tree')
        return 0


def main(argv):
    import importlib
    if len(argv) < 2:
        print('usage: check <Cxx> quick|thorough | check <Cxx> --replay FILE')
        return 2
    pid = argv[1]
    tier = os.environ.get('VERIF_TIER', 'quick')
    replay = None
    rest = argv[2:]
    while rest:
        a = rest.pop(0)
        if a in ('quick', 'thorough'):
            tier = a
        elif a == '--replay':
            replay = rest.pop(0)
    try:
        seed = int(os.environ.get('VERIF_SEED', '0'))
    except ValueError:
        seed = 0
    sys.path.insert(0, HERE)
    if REPO != '/repo' or True:
        sys.path.insert(0, REPO)
    if os.environ.get('VERIF_PARAM_TRACE'):
        import param_trace   # input-space map (notes/param_coverage.md); never enabled by the registered commands
        param_trace.install(os.environ['VERIF_PARAM_TRACE'])
    try:
        mod = importlib.import_module(pid.lower())
        chk = Check(mod, tier, seed, replay)
        return chk.run_replay() if replay else chk.run()
    except Infra as e:
        print('INFRASTRUCTURE FAILURE (no verdict):', e)
        return 2
    except Exception:
        traceback.print_exc()
        print('INFRASTRUCTURE FAILURE (harness crashed; no verdict)')
        return 2
