"""C15 translator pass: output-series descriptors.

Every `ts.TimeSeries(...)` / `TimeSeries(...)` call inside the analyzers, the fMRI reader helper and
`concatenate_time_series` is turned into a `SeriesCall` record saying, for each of
sampling_interval / sampling_rate / t0 / time_unit, whether it is forwarded and from what:
  absent | field f (the attribute f of the source series) | scaled ±sym (±sym * <source>.sampling_interval)
  | param (a caller-supplied value) | other (anything the language below does not cover).
Names are resolved through local assignments of the function and through `self.x = ...` in the
class's `__init__`.  Pure `ast` walking; no repo code is executed.
Output: lean/Nitime/Generated/SeriesCalls.lean (imports only Nitime.Model.C15Types).
"""
import ast, os
import translate as tr

FILES = ['nitime/analysis/spectral.py', 'nitime/analysis/coherence.py', 'nitime/analysis/correlation.py',
         'nitime/analysis/normalization.py', 'nitime/analysis/snr.py', 'nitime/analysis/event_related.py',
         'nitime/analysis/granger.py', 'nitime/fmri/io.py']
TS_FUNCS = ['concatenate_time_series']          # module-level functions of timeseries.py that build series
FIELDS = {'sampling_interval': 'interval', 'sampling_rate': 'rate', 't0': 't0', 'time_unit': 'unit'}
KW = ['sampling_interval', 'sampling_rate', 't0', 'time_unit']


def src_text(node):
    try:
        return ast.unparse(node)
    except Exception:
        return '?'


def is_series_call(node):
    if not isinstance(node, ast.Call):
        return False
    f = node.func
    if isinstance(f, ast.Name) and f.id == 'TimeSeries':
        return True
    return isinstance(f, ast.Attribute) and f.attr == 'TimeSeries' and isinstance(f.value, ast.Name) and f.value.id == 'ts'


class Ctx:
    def __init__(self, fn, cls):
        self.fn, self.cls = fn, cls
        self.params = {a.arg for a in fn.args.args + fn.args.kwonlyargs}
        self.init = None
        if cls is not None:
            for sub in cls.body:
                if isinstance(sub, ast.FunctionDef) and sub.name == '__init__':
                    self.init = sub

    def local_assigns(self, name, fn=None):
        out = []
        for node in ast.walk(fn or self.fn):
            if isinstance(node, ast.Assign) and len(node.targets) == 1:
                t = node.targets[0]
                if isinstance(t, ast.Name) and t.id == name:
                    out.append(node.value)
            elif isinstance(node, (ast.For, ast.comprehension)):
                t = node.target
                if isinstance(t, ast.Name) and t.id == name:
                    out.append(ast.Name(id='<loop:%s>' % src_text(node.iter), ctx=ast.Load()))
        return out

    def self_assigns(self, attr):
        out = []
        if self.init is None:
            return out
        for node in ast.walk(self.init):
            if isinstance(node, ast.Assign) and len(node.targets) == 1:
                t = node.targets[0]
                if isinstance(t, ast.Attribute) and isinstance(t.value, ast.Name) and t.value.id == 'self' and t.attr == attr:
                    out.append(node.value)
        return out


def is_series_obj(node, ctx, fn_params):
    """an expression that denotes a time-series object: self.input, self._ts, self.<getter>, a parameter
    or a loop variable"""
    if isinstance(node, ast.Attribute) and isinstance(node.value, ast.Name) and node.value.id == 'self':
        return True
    if isinstance(node, ast.Name) and (node.id in fn_params or node.id.startswith('<loop:')):
        return True
    if isinstance(node, ast.Name):
        vals = ctx.local_assigns(node.id)
        return any(isinstance(v, ast.Name) and v.id.startswith('<loop:') for v in vals)
    return False


def merge(rs):
    """several reaching definitions: same kind everywhere -> that kind (sources joined)"""
    kinds = {r[0] for r in rs}
    if len(kinds) == 1:
        return (rs[0][0], '|'.join(sorted({r[1] for r in rs})))
    return (('other',), '|'.join(sorted({r[1] for r in rs})))


def resolve(node, ctx, depth=0, in_init=False):
    """-> (kind tuple, source text); kind: ('absent',) ('field', f) ('scaled', neg, sym) ('param',) ('other',)"""
    fn = ctx.init if in_init else ctx.fn
    params = {a.arg for a in fn.args.args} if fn is not None else set()
    if depth > 6:
        return (('other',), src_text(node))
    if isinstance(node, ast.Attribute) and node.attr in FIELDS:
        v = node.value
        if isinstance(v, ast.Name) and v.id == 'self':
            defs = ctx.self_assigns(node.attr)
            if defs:
                return merge([resolve(d, ctx, depth + 1, in_init=True) for d in defs])
            return (('other',), src_text(node))
        if is_series_obj(v, ctx, params):
            return (('field', FIELDS[node.attr]), src_text(v))
        return (('other',), src_text(node))
    if isinstance(node, ast.Name):
        defs = ctx.local_assigns(node.id, fn)
        if defs:
            return merge([resolve(d, ctx, depth + 1, in_init) for d in defs])
        if node.id in params:
            return (('param',), node.id)
        return (('other',), node.id)
    # ± sym * <series>.sampling_interval
    sc = scaled(node, ctx, depth, in_init)
    if sc is not None:
        return sc
    return (('other',), src_text(node))


def sym_of(node, ctx, fn):
    """integer symbols of the lag/offset axes"""
    if isinstance(node, ast.Attribute) and isinstance(node.value, ast.Name) and node.value.id == 'self':
        if node.attr == 'offset':
            return 'offset'
        if node.attr == 'len_et':
            return 'lenEt'
        return None
    if isinstance(node, ast.Name):
        defs = ctx.local_assigns(node.id, fn)
        if len(defs) == 1:
            d = defs[0]
            # <series>.data.shape[-1]  /  <series>.shape[-1]
            if isinstance(d, ast.Subscript) and isinstance(d.value, ast.Attribute) and d.value.attr == 'shape':
                idx = d.slice
                if isinstance(idx, ast.UnaryOp) and isinstance(idx.op, ast.USub) and isinstance(idx.operand, ast.Constant) and idx.operand.value == 1:
                    return 'n'
        return None
    if isinstance(node, ast.BinOp) and isinstance(node.op, ast.Sub) and isinstance(node.right, ast.Constant) and node.right.value == 1:
        if sym_of(node.left, ctx, fn) == 'n':
            return 'nMinus1'
    return None


def factors(node):
    if isinstance(node, ast.BinOp) and isinstance(node.op, ast.Mult):
        return factors(node.left) + factors(node.right)
    return [node]


def scaled(node, ctx, depth, in_init):
    fn = ctx.init if in_init else ctx.fn
    neg = False
    fs = []
    for f in factors(node):
        while isinstance(f, ast.UnaryOp) and isinstance(f.op, ast.USub):
            neg = not neg
            f = f.operand
            if isinstance(f, ast.BinOp) and isinstance(f.op, ast.Mult):
                break
        fs += factors(f) if isinstance(f, ast.BinOp) and isinstance(f.op, ast.Mult) else [f]
    if len(fs) < 2:
        return None
    sym, src, have_iv = 'one', None, False
    for f in fs:
        while isinstance(f, ast.UnaryOp) and isinstance(f.op, ast.USub):
            neg = not neg
            f = f.operand
        if isinstance(f, ast.Constant) and f.value in (1, -1):
            if f.value == -1:
                neg = not neg
            continue
        if isinstance(f, (ast.Attribute, ast.Name)):
            r = resolve(f, ctx, depth + 1, in_init) if not (isinstance(f, ast.Attribute) and f.attr in ('offset', 'len_et')) else None
            if r is not None and r[0] == ('field', 'interval') and not have_iv:
                have_iv, src = True, r[1]
                continue
        s = sym_of(f, ctx, fn)
        if s is not None and sym == 'one':
            sym = s
            continue
        return None
    if not have_iv:
        return None
    return (('scaled', neg, sym), src)


def lean_arg(k):
    if k[0] == 'field':
        return '.field .%s' % k[1]
    if k[0] == 'scaled':
        return '.scaled %s .%s' % ('true' if k[1] else 'false', k[2])
    return '.' + k[0]


def collect(tree, path, only_funcs=None):
    """yield (key, leanname, shape dict, src, note)"""
    out = []

    def visit_fn(fn, cls):
        ctx = Ctx(fn, cls)
        calls = [n for n in ast.walk(fn) if is_series_call(n)]
        calls.sort(key=lambda n: (n.lineno, n.col_offset))
        for i, c in enumerate(calls):
            kws = {k.arg: k.value for k in c.keywords if k.arg}
            # positional: TimeSeries(data, t0, sampling_interval, sampling_rate, duration, time, time_unit)
            pos = ['data', 't0', 'sampling_interval', 'sampling_rate', 'duration', 'time', 'time_unit']
            for j, a in enumerate(c.args):
                if j < len(pos):
                    kws.setdefault(pos[j], a)
            shape, srcs = {}, []
            for kw in KW:
                if kw in kws and not (isinstance(kws[kw], ast.Constant) and kws[kw].value is None):
                    kind, s = resolve(kws[kw], ctx)
                    shape[kw] = kind
                    if kind[0] in ('field', 'scaled'):
                        srcs.append(s)
                else:
                    shape[kw] = ('absent',)
            extra = sorted(k for k in kws if k in ('duration', 'time'))
            note = '%s:%d %s' % (path, c.lineno, ' '.join('%s=%s' % (k, src_text(kws[k])) for k in KW + extra if k in kws))
            if extra:   # duration=/time= change the constructor path: outside the language
                shape = {k: ('other',) for k in KW}
            name = (cls.name + '.' if cls is not None else '') + fn.name + '.%d' % i
            out.append((name, shape, '|'.join(sorted(set(srcs))) or '-', note))

    for node in tree.body:
        if isinstance(node, ast.ClassDef) and only_funcs is None:
            for sub in node.body:
                if isinstance(sub, ast.FunctionDef):
                    visit_fn(sub, node)
        elif isinstance(node, ast.FunctionDef):
            if only_funcs is None or node.name in only_funcs:
                visit_fn(node, None)
    return out


def gen_series_calls():
    rows = []
    for p in FILES:
        if os.path.exists(os.path.join(tr.REPO, p)):
            rows += collect(tr.parse(p), p)
    rows += collect(tr.parse('nitime/timeseries.py'), 'nitime/timeseries.py', only_funcs=TS_FUNCS)
    lines = ['-- GENERATED by harness/translate_c15.py from nitime/analysis/*.py, nitime/fmri/io.py, nitime/timeseries.py. DO NOT EDIT.',
             'import Nitime.Model.C15Types', 'namespace Nitime.Generated.SeriesCalls', 'open Nitime.C15', '']
    names, echo = [], {}
    for key, shape, src, note in rows:
        ln = key.replace('.', '_')
        names.append(ln)
        lines.append('/-- %s -/' % note.replace('-/', '- /'))
        lines.append('def %s : SeriesCall :=\n  { key := "%s", src := "%s",\n    shape := { interval := %s, rate := %s, t0 := %s, unit := %s } }' % (
            ln, key, src.replace('"', "'").replace('\\', '/'),
            lean_arg(shape['sampling_interval']), lean_arg(shape['sampling_rate']), lean_arg(shape['t0']), lean_arg(shape['time_unit'])))
        lines.append('')
        echo[key] = {k: ' '.join(str(x) for x in shape[k]) for k in KW}
        echo[key]['src'] = src
    lines.append('def all : List SeriesCall :=\n  [%s]' % ',\n   '.join(names))
    lines += ['', 'end Nitime.Generated.SeriesCalls', '']
    return 'SeriesCalls.lean', '\n'.join(lines), echo


GENERATORS = [gen_series_calls]


# ------------------------------------------------------------------ Fs bindings: what reaches the algorithm layer as sampling rate
FS_FILES = ['nitime/analysis/spectral.py', 'nitime/analysis/coherence.py', 'nitime/analysis/snr.py',
            'nitime/analysis/granger.py', 'nitime/analysis/correlation.py', 'nitime/analysis/event_related.py',
            'nitime/analysis/normalization.py']


def _is_self_attr(node, name=None):
    return isinstance(node, ast.Attribute) and isinstance(node.value, ast.Name) and node.value.id == 'self' and \
        (name is None or node.attr == name)


def _const_fs(node):
    return isinstance(node, ast.Constant) and node.value == 'Fs'


def _dict_bindings(cls, attr, seen=()):
    """all expressions stored under key 'Fs' of the dict `self.<attr>` anywhere in the class (following
    `self.<a> = self.<b>` aliases); None when the dict can also be a caller's object without an 'Fs' write"""
    out = []
    for fn in [n for n in cls.body if isinstance(n, ast.FunctionDef)]:
        for node in ast.walk(fn):
            if isinstance(node, ast.Assign) and len(node.targets) == 1:
                t, v = node.targets[0], node.value
                if isinstance(t, ast.Subscript) and _is_self_attr(t.value, attr) and _const_fs(t.slice):
                    out.append((fn, v))
                elif _is_self_attr(t, attr):
                    if isinstance(v, ast.Dict):
                        for k, e in zip(v.keys, v.values):
                            if _const_fs(k):
                                out.append((fn, e))
                    elif _is_self_attr(v) and v.attr not in seen and v.attr != attr:
                        out += _dict_bindings(cls, v.attr, seen + (attr,))
    return out


def classify_fs(node, ctx, cls, depth=0):
    """-> ('inputRate'|'userOrInput'|'other', text)"""
    txt = src_text(node)
    if depth > 6:
        return 'other', txt
    fn = ctx.fn
    # X.get('Fs', default) / X.get('Fs') / X['Fs'] on a dict attribute of self
    if isinstance(node, ast.Call) and isinstance(node.func, ast.Attribute) and node.func.attr == 'get' and node.args and _const_fs(node.args[0]):
        base = node.func.value
        if len(node.args) == 2:
            k, _ = classify_fs(node.args[1], ctx, cls, depth + 1)
            return ('userOrInput' if k in ('inputRate', 'userOrInput') else 'other'), txt
        if _is_self_attr(base) and cls is not None:
            return classify_dict(cls, base.attr, depth), txt
        return 'other', txt
    if isinstance(node, ast.Subscript) and _const_fs(node.slice) and _is_self_attr(node.value) and cls is not None:
        return classify_dict(cls, node.value.attr, depth), txt
    if isinstance(node, ast.Name):
        defs = ctx.local_assigns(node.id, fn)
        if defs:
            ks = {classify_fs(d, ctx, cls, depth + 1)[0] for d in defs}
            return (ks.pop() if len(ks) == 1 else ('userOrInput' if ks <= {'inputRate', 'userOrInput'} else 'other')), txt
        return 'other', txt
    if isinstance(node, ast.Attribute) and node.attr == 'sampling_rate':
        kind, _ = resolve(node, ctx)
        return ('inputRate' if kind == ('field', 'rate') else 'other'), txt
    return 'other', txt


def classify_dict(cls, attr, depth=0):
    bs = _dict_bindings(cls, attr)
    if not bs:
        return 'other'
    ks = set()
    for fn, e in bs:
        ks.add(classify_fs(e, Ctx(fn, cls), cls, depth + 1)[0])
    if ks <= {'inputRate'}:
        return 'inputRate'
    return 'userOrInput' if ks <= {'inputRate', 'userOrInput'} else 'other'


def collect_fs(tree, path):
    rows = []

    def visit_fn(fn, cls):
        ctx = Ctx(fn, cls)
        found = []
        alias_rhs = set()
        for node in ast.walk(fn):
            if isinstance(node, ast.Assign) and len(node.targets) == 1:
                t = node.targets[0]
                # plain aliases (Fs = x.sampling_rate ; self.sampling_rate = ts.sampling_rate) are resolved at their uses
                if isinstance(t, ast.Name) or _is_self_attr(t):
                    if isinstance(node.value, ast.Attribute) and node.value.attr == 'sampling_rate':
                        alias_rhs.add(id(node.value))
        series_kw = set()
        for node in ast.walk(fn):
            if is_series_call(node):
                for k in node.keywords:
                    for sub in ast.walk(k.value):
                        series_kw.add(id(sub))
        for node in ast.walk(fn):
            if isinstance(node, ast.Call) and not is_series_call(node):
                for k in node.keywords:
                    if k.arg in ('Fs', 'sampling_rate'):
                        found.append(('kw:%s(%s=)' % (src_text(node.func), k.arg), k.value))
                    if k.arg in ('method', 'csd_method') and _is_self_attr(k.value) and cls is not None:
                        found.append(('dict:%s(%s=self.%s)' % (src_text(node.func), k.arg, k.value.attr),
                                      ast.Subscript(value=k.value, slice=ast.Constant('Fs'), ctx=ast.Load())))
                if isinstance(node.func, ast.Attribute) and node.func.attr == 'get_freqs' and node.args:
                    found.append(('arg0:%s' % src_text(node.func), node.args[0]))
            if isinstance(node, ast.Dict):
                for k, e in zip(node.keys, node.values):
                    if _const_fs(k):
                        found.append(("entry:{'Fs': …}", e))
            if isinstance(node, ast.Assign) and len(node.targets) == 1 and isinstance(node.targets[0], ast.Subscript) \
                    and _const_fs(node.targets[0].slice):
                found.append(("store:%s['Fs']" % src_text(node.targets[0].value), node.value))
        seen_expr = {id(e) for _, e in found}
        for _, e in list(found):
            for sub in ast.walk(e):
                seen_expr.add(id(sub))
        # any other arithmetic / call use of a rate: `x / (self.sampling_rate / 2.)`, `np.linspace(0, rate / 2, …)`
        for node in ast.walk(fn):
            if isinstance(node, ast.Attribute) and node.attr == 'sampling_rate' and isinstance(node.ctx, ast.Load) \
                    and id(node) not in alias_rhs and id(node) not in series_kw and id(node) not in seen_expr:
                found.append(('use:%s' % src_text(node), node))
            if isinstance(node, ast.Name) and isinstance(node.ctx, ast.Load) and node.id in ('Fs', 'sampling_rate') \
                    and id(node) not in series_kw and id(node) not in seen_expr:
                found.append(('use:%s' % node.id, node))
        found.sort(key=lambda f: (getattr(f[1], 'lineno', 0), getattr(f[1], 'col_offset', 0), f[0]))
        for i, (how, e) in enumerate(found):
            kind, txt = classify_fs(e, ctx, cls)
            name = (cls.name + '.' if cls is not None else '') + fn.name + '.%d' % i
            rows.append((name, how, kind, '%s:%d %s' % (path, getattr(e, 'lineno', fn.lineno), txt)))

    for node in tree.body:
        if isinstance(node, ast.ClassDef):
            for sub in node.body:
                if isinstance(sub, ast.FunctionDef):
                    visit_fn(sub, node)
        elif isinstance(node, ast.FunctionDef):
            visit_fn(node, None)
    return rows


def gen_fs_bindings():
    rows = []
    for p in FS_FILES:
        if os.path.exists(os.path.join(tr.REPO, p)):
            rows += collect_fs(tr.parse(p), p)
    lines = ['-- GENERATED by harness/translate_c15.py: every place an analyzer hands a sampling rate to the algorithm layer. DO NOT EDIT.',
             'import Nitime.Model.C15Types', 'namespace Nitime.Generated.FsBindings', 'open Nitime.C15', '',
             'def all : List FsBinding :=', '  [']
    body = []
    echo = {}
    for key, how, kind, note in rows:
        body.append('   -- %s\n   { key := "%s", how := "%s", src := .%s }' % (
            note.replace('\n', ' ')[:160], key, how.replace('"', "'").replace('\\', '/').replace('\n', ' ')[:80], kind))
        echo[key] = '%s <- %s' % (how, kind)
    lines.append(',\n'.join(body))
    lines += ['  ]', '', 'end Nitime.Generated.FsBindings', '']
    return 'FsBindings.lean', '\n'.join(lines), echo


GENERATORS.append(gen_fs_bindings)


# ------------------------------------------------------------------ file reader: where the voxel array comes from (object identity)
READER_FILE = 'nitime/fmri/io.py'
READER_FUNCS = ['time_series_from_file', '_tseries_from_nifti_helper']
FDATA_ATTRS = ('get_fdata', 'get_data')


def gen_reader_loads():
    """one record per `<im>.get_fdata()` call of the reader: `freshLoad` when <im> is, on every path of that function,
    bound by `<im> = load(<file>)` with `load` imported from nibabel and never rebound in the module (a new image
    object per call, so its cached array is a new buffer); anything else (an image taken from a cache / a helper / a
    global) is `other`.  Also: decorators of the reader functions (memoisation changes result identity) and
    module-level names bound to mutable containers or call results (hidden state that can outlive a call)."""
    rows, state, decos, echo = [], [], [], {}
    path = os.path.join(tr.REPO, READER_FILE)
    if os.path.exists(path):
        tree = tr.parse(READER_FILE)
        nib_load = set()          # local names of nibabel.load
        nib_mods = set()          # local names of the nibabel module
        rebound = set()
        for node in tree.body:
            for sub in ast.walk(node) if isinstance(node, ast.Try) else [node]:
                if isinstance(sub, ast.ImportFrom) and sub.module in ('nibabel', 'nibabel.loadsave'):
                    for a in sub.names:
                        if a.name == 'load':
                            nib_load.add(a.asname or a.name)
                if isinstance(sub, ast.Import):
                    for a in sub.names:
                        if a.name == 'nibabel':
                            nib_mods.add(a.asname or a.name)
            if isinstance(node, (ast.FunctionDef, ast.ClassDef)):
                rebound.add(node.name)
            if isinstance(node, (ast.Assign, ast.AnnAssign, ast.AugAssign)):
                tgts = node.targets if isinstance(node, ast.Assign) else [node.target]
                for t in tgts:
                    for n in ast.walk(t):
                        if isinstance(n, ast.Name):
                            rebound.add(n.id)
                            v = node.value
                            if v is not None and not isinstance(v, ast.Constant) and tr.const_int(v) is None and \
                                    not (isinstance(v, ast.Name) or isinstance(v, ast.JoinedStr)):
                                state.append('%s = %s' % (n.id, src_text(v)[:60]))

        def is_nib_load(call):
            if not isinstance(call, ast.Call) or len(call.args) != 1 or call.keywords:
                return False
            f = call.func
            if isinstance(f, ast.Name):
                return f.id in nib_load and f.id not in rebound
            return isinstance(f, ast.Attribute) and f.attr == 'load' and isinstance(f.value, ast.Name) and \
                f.value.id in nib_mods and f.value.id not in rebound

        for fn in [n for n in ast.walk(tree) if isinstance(n, ast.FunctionDef)]:
            if fn.decorator_list and fn.name in READER_FUNCS:
                decos.append('%s: @%s' % (fn.name, ', @'.join(src_text(d) for d in fn.decorator_list)))
            ctx = Ctx(fn, None)
            calls = [n for n in ast.walk(fn) if isinstance(n, ast.Call) and isinstance(n.func, ast.Attribute) and n.func.attr in FDATA_ATTRS]
            calls += [n for n in ast.walk(fn) if isinstance(n, ast.Attribute) and n.attr == 'dataobj']
            calls.sort(key=lambda n: (n.lineno, n.col_offset))
            for i, c in enumerate(calls):
                base = c.func.value if isinstance(c, ast.Call) else c.value
                kind = 'other'
                if isinstance(base, ast.Name) and base.id not in ctx.params:
                    defs = ctx.local_assigns(base.id)
                    globl = any(isinstance(n, (ast.Global, ast.Nonlocal)) and base.id in n.names for n in ast.walk(fn))
                    if defs and all(is_nib_load(d) for d in defs) and not globl and isinstance(c, ast.Call) and not c.args and not c.keywords:
                        kind = 'freshLoad'
                elif is_nib_load(base) and isinstance(c, ast.Call) and not c.args and not c.keywords:
                    kind = 'freshLoad'
                rows.append(('%s.%d' % (fn.name, i), '%s:%d %s' % (READER_FILE, c.lineno, src_text(c)), kind,
                             '|'.join(src_text(d) for d in ctx.local_assigns(base.id)) if isinstance(base, ast.Name) else src_text(base)))
    lines = ['-- GENERATED by harness/translate_c15.py from nitime/fmri/io.py: where the reader takes its voxel arrays from. DO NOT EDIT.',
             'import Nitime.Model.C15Types', 'namespace Nitime.Generated.ReaderLoads', 'open Nitime.C15', '',
             'def all : List FdataSite :=', '  [']
    body = []
    for key, note, kind, how in rows:
        body.append('   -- %s\n   { key := "%s", how := "%s", src := .%s }' % (note.replace('\n', ' ')[:160], key,
                                                                             how.replace('"', "'").replace('\\', '/').replace('\n', ' ')[:80], kind))
        echo[key] = '%s <- %s' % (kind, how)
    lines.append(',\n'.join(body))
    lines += ['  ]', '',
              '/-- module-level names of the reader module bound to something other than a constant (state that outlives a call) -/',
              'def moduleState : List String :=\n  [%s]' % ', '.join('"%s"' % s.replace('"', "'").replace('\\', '/').replace('\n', ' ') for s in state), '',
              '/-- decorators on the reader functions (memoisation would change the identity of results) -/',
              'def decorators : List String :=\n  [%s]' % ', '.join('"%s"' % s.replace('"', "'").replace('\\', '/').replace('\n', ' ') for s in decos), '',
              'end Nitime.Generated.ReaderLoads', '']
    echo['moduleState'] = state
    echo['decorators'] = decos
    return 'ReaderLoads.lean', '\n'.join(lines), echo


GENERATORS.append(gen_reader_loads)


# ------------------------------------------------------------------ transform calls: do they work on exactly the series' samples?
TRANSFORMS = ('fft', 'ifft', 'rfft', 'irfft', 'fftn', 'ifftn', 'hilbert', 'hilbert2')
LEN_KW = ('n', 'N', 'nfft', 'NFFT', 's', 'shape')
TR_FILES = ['nitime/analysis/spectral.py', 'nitime/analysis/coherence.py', 'nitime/analysis/correlation.py',
            'nitime/analysis/normalization.py', 'nitime/analysis/snr.py', 'nitime/analysis/event_related.py',
            'nitime/analysis/granger.py']


def gen_transform_calls():
    """every call of an FFT-type transform (fft/ifft/rfft/…/hilbert, through local aliases such as `fft = fftpack.fft`)
    inside the analyzers, with whether it is given a transform LENGTH (second positional argument or n=/N=…): a
    transform of the series' own samples takes none.  Uses of `next_fast_len` are recorded as length arguments too."""
    rows = []
    for p in TR_FILES:
        if not os.path.exists(os.path.join(tr.REPO, p)):
            continue
        tree = tr.parse(p)
        for cls in [n for n in tree.body if isinstance(n, ast.ClassDef)] + [None]:
            fns = [n for n in (cls.body if cls is not None else tree.body) if isinstance(n, ast.FunctionDef)]
            for fn in fns:
                ctx = Ctx(fn, cls)

                def last_name(f, depth=0):
                    if isinstance(f, ast.Attribute):
                        return f.attr
                    if isinstance(f, ast.Name):
                        defs = ctx.local_assigns(f.id)
                        if defs and depth < 4:
                            ns = {last_name(d, depth + 1) for d in defs}
                            return ns.pop() if len(ns) == 1 else f.id
                        return f.id
                    return None
                calls = [n for n in ast.walk(fn) if isinstance(n, ast.Call)]
                calls.sort(key=lambda n: (n.lineno, n.col_offset))
                i = 0
                for c in calls:
                    nm = last_name(c.func)
                    if nm in TRANSFORMS:
                        has_len = len(c.args) > 1 or any(k.arg in LEN_KW for k in c.keywords) or any(k.arg is None for k in c.keywords)
                        rows.append(('%s%s.%d' % (cls.name + '.' if cls is not None else '', fn.name, i), nm, has_len,
                                     '%s:%d %s' % (p, c.lineno, src_text(c))))
                        i += 1
                    elif nm == 'next_fast_len':
                        rows.append(('%s%s.%d' % (cls.name + '.' if cls is not None else '', fn.name, i), nm, True,
                                     '%s:%d %s' % (p, c.lineno, src_text(c))))
                        i += 1
    lines = ['-- GENERATED by harness/translate_c15.py: FFT-type transform calls inside the analyzers. DO NOT EDIT.',
             'import Nitime.Model.C15Types', 'namespace Nitime.Generated.TransformCalls', 'open Nitime.C15', '',
             'def all : List TransformCall :=', '  [']
    body, echo = [], {}
    for key, nm, has_len, note in rows:
        body.append('   -- %s\n   { key := "%s", fn := "%s", lengthArg := %s }' % (note.replace('\n', ' ')[:160], key, nm, 'true' if has_len else 'false'))
        echo[key] = '%s lengthArg=%s' % (nm, has_len)
    lines.append(',\n'.join(body))
    lines += ['  ]', '', 'end Nitime.Generated.TransformCalls', '']
    return 'TransformCalls.lean', '\n'.join(lines), echo


GENERATORS.append(gen_transform_calls)


# ------------------------------------------------------------------ file reader: where the filter-option DEFAULTS live (process histories)
MUTATORS = ('update', 'append', 'extend', 'pop', 'popitem', 'clear', 'setdefault', 'insert', 'remove', 'add', 'discard', 'sort', 'reverse',
            '__setitem__', '__delitem__', 'fill', 'resize', 'put')


def gen_reader_opts():
    """(1) `defaults`: every `<p>.get('<key>', <literal>)` of the reader module whose receiver is a function parameter (the
    caller's filter dict), in source order -- the table "option = the call's own value, else this literal";
    (2) `sharedTables`: module-level names bound to mutable containers that some function of the module reads;
    (3) `writtenModuleNames`: module-level names that a function rebinds (`global`) or mutates in place, directly or through
    a local alias (`kwargs = _table; kwargs.update(...)`, `_table[k] = v`, `del`, augmented assignment)."""
    defaults, shared, written, echo = [], [], [], {}
    path = os.path.join(tr.REPO, READER_FILE)
    if os.path.exists(path):
        tree = tr.parse(READER_FILE)
        modnames, containers = set(), set()
        for node in tree.body:
            if isinstance(node, (ast.Assign, ast.AnnAssign, ast.AugAssign)):
                tgts = node.targets if isinstance(node, ast.Assign) else [node.target]
                for t in tgts:
                    for n in ast.walk(t):
                        if isinstance(n, ast.Name):
                            modnames.add(n.id)
                            v = node.value
                            if isinstance(v, (ast.Dict, ast.List, ast.Set, ast.DictComp, ast.ListComp, ast.SetComp)) or \
                                    (isinstance(v, ast.Call) and not isinstance(v, ast.Constant)):
                                containers.add(n.id)
        fns = [n for n in ast.walk(tree) if isinstance(n, (ast.FunctionDef, ast.AsyncFunctionDef))]
        for fn in fns:
            params = {a.arg for a in fn.args.args + fn.args.kwonlyargs + fn.args.posonlyargs}
            local_stores = {n.id for n in ast.walk(fn) if isinstance(n, ast.Name) and isinstance(n.ctx, ast.Store)}
            globl = {x for n in ast.walk(fn) if isinstance(n, (ast.Global, ast.Nonlocal)) for x in n.names}
            # local aliases of module-level names
            alias = {}
            for n in ast.walk(fn):
                if isinstance(n, ast.Assign) and isinstance(n.value, ast.Name) and n.value.id in modnames and n.value.id not in params:
                    for t in n.targets:
                        if isinstance(t, ast.Name):
                            alias[t.id] = n.value.id

            def module_obj(e):
                """the module-level name an expression denotes (directly or through an alias), else None"""
                if isinstance(e, ast.Name):
                    if e.id in alias:
                        return alias[e.id]
                    if e.id in modnames and e.id not in params and (e.id not in local_stores or e.id in globl):
                        return e.id
                return None
            for g in sorted(globl & modnames):
                written.append('%s: global %s' % (fn.name, g))
            for n in ast.walk(fn):
                if isinstance(n, ast.Call) and isinstance(n.func, ast.Attribute):
                    m = module_obj(n.func.value)
                    if m is not None and n.func.attr in MUTATORS:
                        written.append('%s: %s.%s(...)%s' % (fn.name, m, n.func.attr, '' if isinstance(n.func.value, ast.Name) and n.func.value.id == m else ' through alias ' + src_text(n.func.value)))
                    if n.func.attr == 'get' and isinstance(n.func.value, ast.Name) and n.func.value.id in params and len(n.args) >= 1 \
                            and isinstance(n.args[0], ast.Constant) and isinstance(n.args[0].value, str):
                        d = n.args[1] if len(n.args) > 1 else None
                        tok = 'None' if d is None else (src_text(d) if isinstance(d, ast.Constant) or tr.const_int(d) is not None else 'EXPR:' + src_text(d)[:40])
                        defaults.append((n.lineno, n.col_offset, n.args[0].value, tok, fn.name))
                tg = []
                if isinstance(n, ast.Assign):
                    tg = n.targets
                elif isinstance(n, (ast.AugAssign, ast.AnnAssign)):
                    tg = [n.target]
                elif isinstance(n, ast.Delete):
                    tg = n.targets
                for t in tg:
                    for s in ast.walk(t):
                        if isinstance(s, (ast.Subscript, ast.Attribute)) and isinstance(s.ctx, (ast.Store, ast.Del)):
                            m = module_obj(s.value)
                            if m is not None:
                                written.append('%s: %s written (%s)' % (fn.name, m, src_text(s)[:40]))
            for n in ast.walk(fn):
                if isinstance(n, ast.Name) and isinstance(n.ctx, ast.Load) and n.id in containers and n.id not in params and \
                        (n.id not in local_stores or n.id in globl):
                    shared.append('%s reads %s' % (fn.name, n.id))
        defaults.sort()
    esc = lambda s: s.replace('\\', '/').replace('"', "'").replace('\n', ' ')      # noqa
    lines = ['-- GENERATED by harness/translate_c15.py from nitime/fmri/io.py: where the reader\'s filter-option defaults live. DO NOT EDIT.',
             'namespace Nitime.Generated.ReaderOpts', '',
             '/-- `<filter dict>.get(\'<key>\', <literal>)` sites of the reader, in source order: (key, default token) -/',
             'def defaults : List (String × String) :=', '  [']
    lines.append(',\n'.join('   -- %s:%d in %s\n   ("%s", "%s")' % (READER_FILE, ln, fnn, esc(k), esc(tok)) for ln, _, k, tok, fnn in defaults))
    lines += ['  ]', '',
              '/-- module-level mutable containers read inside functions of the reader module (state shared between calls) -/',
              'def sharedTables : List String :=\n  [%s]' % ', '.join('"%s"' % esc(s) for s in sorted(set(shared))), '',
              '/-- module-level names rebound or mutated in place inside functions (directly or through a local alias) -/',
              'def writtenModuleNames : List String :=\n  [%s]' % ', '.join('"%s"' % esc(s) for s in sorted(set(written))), '',
              'end Nitime.Generated.ReaderOpts', '']
    echo['defaults'] = ['%s=%s' % (k, tok) for _, _, k, tok, _ in defaults]
    echo['sharedTables'] = sorted(set(shared))
    echo['writtenModuleNames'] = sorted(set(written))
    return 'ReaderOpts.lean', '\n'.join(lines), echo


GENERATORS.append(gen_reader_opts)


# ------------------------------------------------------------------ round 2: what analyzers keep between calls / whether they look at memory layout
STATE_FILES = ['nitime/analysis/base.py', 'nitime/analysis/spectral.py', 'nitime/analysis/coherence.py', 'nitime/analysis/correlation.py',
               'nitime/analysis/normalization.py', 'nitime/analysis/snr.py', 'nitime/analysis/event_related.py', 'nitime/analysis/granger.py']
PROBE_FILES = STATE_FILES + [READER_FILE]
CTOR_LIKE = ('__init__', 'set_input', 'reset', '__new__')
MEM_ATTRS = ('base', 'strides', 'ctypes', '__array_interface__', '__array_struct__')
MEM_FUNCS = ('shares_memory', 'may_share_memory', 'byte_bounds', 'id', 'as_strided')


def gen_analyzer_state():
    """From every class of nitime/analysis/*.py (and, for the memory probes, the reader module):
    (1) `plainStores`: statements OUTSIDE `__init__` / `set_input` / `reset` that create, rebind or delete an attribute of
        `self` (`self.x = …`, `self.x op= …`, `del self.x`, `setattr(self, …)`, `delattr(self, …)`, `object.__setattr__`), or
        touch the instance dict (`self.__dict__`, `vars(self)`): state that `reset()` (which removes the one-time attributes
        only) does not clear;
    (2) `attrItemWrites`: statements outside `__init__` that write INTO an object held in an attribute
        (`self.method['Fs'] = …`, `self.x.update(…)`, `self.x[...] op= …`);
    (3) `setInputWithoutReset`: classes that define `set_input` without calling `BaseAnalyzer.set_input(self, …)` /
        `super().set_input(…)` / `self.reset()` in it;
    (4) `memoryProbes`: reads of `.base` / `.strides` / `.ctypes` / `__array_interface__`, calls of `shares_memory`,
        `may_share_memory`, `byte_bounds`, `id`, `as_strided`, and `is` / `is not` comparisons whose operands are not
        the constants None / True / False: a result that may depend on WHERE its arguments live rather than on their values."""
    plain, items, noreset, probes, shifts = [], [], [], [], []
    esc = lambda s: s.replace('\\', '/').replace('"', "'").replace('\n', ' ')      # noqa

    def is_self(n):
        return isinstance(n, ast.Name) and n.id == 'self'

    for p in PROBE_FILES:
        if not os.path.exists(os.path.join(tr.REPO, p)):
            continue
        tree = tr.parse(p)
        short = os.path.basename(p)
        # (4) memory probes: whole file
        owner = {}
        for cls in [n for n in ast.walk(tree) if isinstance(n, ast.ClassDef)]:
            for fn in [n for n in cls.body if isinstance(n, (ast.FunctionDef, ast.AsyncFunctionDef))]:
                for n in ast.walk(fn):
                    owner[id(n)] = '%s.%s' % (cls.name, fn.name)
        for fn in [n for n in tree.body if isinstance(n, (ast.FunctionDef, ast.AsyncFunctionDef))]:
            for n in ast.walk(fn):
                owner.setdefault(id(n), fn.name)
        for n in ast.walk(tree):
            where = '%s %s' % (short, owner.get(id(n), '<module>'))
            if isinstance(n, ast.Attribute) and n.attr in MEM_ATTRS and isinstance(n.ctx, ast.Load):
                probes.append('%s: .%s of %s' % (where, n.attr, src_text(n.value)[:40]))
            if isinstance(n, ast.Constant) and n.value in MEM_ATTRS and isinstance(n.value, str):
                probes.append('%s: \'%s\'' % (where, n.value))
            if isinstance(n, ast.Call):
                f = n.func
                nm = f.attr if isinstance(f, ast.Attribute) else (f.id if isinstance(f, ast.Name) else None)
                if nm in MEM_FUNCS:
                    probes.append('%s: %s(...)' % (where, nm))
                if nm in ('fftshift', 'ifftshift'):
                    shifts.append(('%s: %s' % (where, src_text(n)[:60]), nm))
            if isinstance(n, ast.Compare) and any(isinstance(o, (ast.Is, ast.IsNot)) for o in n.ops):
                sides = [n.left] + list(n.comparators)
                if not any(isinstance(x, ast.Constant) and (x.value is None or x.value is True or x.value is False) for x in sides):
                    probes.append('%s: %s' % (where, src_text(n)[:60]))
        if p not in STATE_FILES:
            continue
        for cls in [n for n in tree.body if isinstance(n, ast.ClassDef)]:
            for fn in [n for n in cls.body if isinstance(n, (ast.FunctionDef, ast.AsyncFunctionDef))]:
                where = '%s.%s' % (cls.name, fn.name)
                if fn.name == 'set_input':
                    ok = False
                    for n in ast.walk(fn):
                        if isinstance(n, ast.Call) and isinstance(n.func, ast.Attribute) and n.func.attr in ('set_input', 'reset'):
                            ok = True
                    if not ok:
                        noreset.append(where)
                for n in ast.walk(fn):
                    tg = []
                    if isinstance(n, ast.Assign):
                        tg = n.targets
                    elif isinstance(n, (ast.AugAssign, ast.AnnAssign)):
                        tg = [n.target]
                    elif isinstance(n, ast.Delete):
                        tg = n.targets
                    elif isinstance(n, (ast.For, ast.AsyncFor)):
                        tg = [n.target]
                    elif isinstance(n, (ast.With, ast.AsyncWith)):
                        tg = [i.optional_vars for i in n.items if i.optional_vars is not None]
                    for t in tg:
                        for s_ in ast.walk(t):
                            if isinstance(s_, ast.Attribute) and isinstance(s_.ctx, (ast.Store, ast.Del)) and is_self(s_.value):
                                if fn.name not in CTOR_LIKE:
                                    plain.append('%s: %s self.%s' % (where, 'del' if isinstance(s_.ctx, ast.Del) else 'store', s_.attr))
                            if isinstance(s_, ast.Subscript) and isinstance(s_.ctx, (ast.Store, ast.Del)):
                                b = s_.value
                                while isinstance(b, (ast.Subscript, ast.Attribute)) and not (isinstance(b, ast.Attribute) and is_self(b.value)):
                                    b = b.value
                                if isinstance(b, ast.Attribute) and is_self(b.value) and fn.name != '__init__':
                                    items.append('%s: %s' % (where, src_text(s_)[:50]))
                    if isinstance(n, ast.Attribute) and n.attr == '__dict__' and is_self(n.value):
                        plain.append('%s: self.__dict__' % where)
                    if isinstance(n, ast.Call):
                        f = n.func
                        if isinstance(f, ast.Name) and f.id in ('setattr', 'delattr', 'vars') and n.args and is_self(n.args[0]) and fn.name not in CTOR_LIKE:
                            plain.append('%s: %s(self, ...)' % (where, f.id))
                        if isinstance(f, ast.Attribute) and f.attr in ('__setattr__', '__delattr__') and fn.name not in CTOR_LIKE:
                            plain.append('%s: %s' % (where, src_text(f)[:40]))
                        if isinstance(f, ast.Attribute) and f.attr in MUTATORS and isinstance(f.value, ast.Attribute) and is_self(f.value.value) \
                                and fn.name != '__init__':
                            items.append('%s: self.%s.%s(...)' % (where, f.value.attr, f.attr))

    def lst(name, doc, xs):
        return ['/-- %s -/' % doc, 'def %s : List String :=\n  [%s]' % (name, ',\n   '.join('"%s"' % esc(x) for x in xs)), '']
    lines = ['-- GENERATED by harness/translate_c15.py from nitime/analysis/*.py and nitime/fmri/io.py. DO NOT EDIT.',
             'namespace Nitime.Generated.AnalyzerState', '']
    lines += lst('plainStores', 'attributes of `self` created / rebound / deleted outside `__init__`, `set_input`, `reset`; uses of the instance dict', sorted(set(plain)))
    lines += lst('attrItemWrites', 'writes INTO an object held in an attribute, outside `__init__`', sorted(set(items)))
    lines += lst('setInputWithoutReset', '`set_input` overrides that neither call the base `set_input` nor `reset()`', sorted(set(noreset)))
    lines += lst('memoryProbes', 'places where a result may depend on where an array lives (base / strides / address / identity)', sorted(set(probes)))
    lines += ['/-- spectrum re-ordering calls (fftshift / ifftshift / roll) of the analyzers: (where, function) -/',
              'def shiftCalls : List (String × String) :=\n  [%s]' % ',\n   '.join('("%s", "%s")' % (esc(a), b) for a, b in sorted(set(shifts))), '']
    lines += ['end Nitime.Generated.AnalyzerState', '']
    echo = {'shiftCalls': sorted(set(shifts)), 'plainStores': sorted(set(plain)), 'attrItemWrites': sorted(set(items)), 'setInputWithoutReset': sorted(set(noreset)),
            'memoryProbes': sorted(set(probes))}
    return 'AnalyzerState.lean', '\n'.join(lines), echo


GENERATORS.append(gen_analyzer_state)


# ------------------------------------------------------------------ round 4: HOW the fourier filter selects its band / HOW the lagged products are summed
BAND_FILE, BAND_CLASS, BAND_FN = 'nitime/analysis/spectral.py', 'FilterAnalyzer', 'filtered_fourier'
SELECT_CALLS = ('searchsorted', 'digitize', 'get_bounds', 'argmax', 'argmin', 'nonzero', 'flatnonzero', 'argwhere', 'isclose', 'allclose',
                'bisect', 'bisect_left', 'bisect_right', 'floor', 'ceil', 'round', 'rint', 'around')
CORR_FILE = 'nitime/analysis/correlation.py'
CORR_CALLS = ('correlate', 'convolve', 'fftconvolve', 'oaconvolve', 'correlate2d', 'convolve2d', 'choose_conv_method', 'correlation_lags',
              'fft', 'ifft', 'rfft', 'irfft', 'einsum', 'dot', 'tensordot', 'matmul', 'as_strided', 'sliding_window_view')


def _module_bindings(tree):
    """name -> dotted origin for every import of the module (`import numpy as np` -> np: numpy; `from a.b import c as d` -> d: a.b.c)"""
    out = {}
    for n in ast.walk(tree):
        if isinstance(n, ast.Import):
            for a in n.names:
                out[a.asname or a.name.split('.')[0]] = a.name if a.asname else a.name.split('.')[0]
        elif isinstance(n, ast.ImportFrom):
            for a in n.names:
                out[a.asname or a.name] = '%s.%s' % (n.module or '.', a.name)
    return out


def _dotted(f, binds):
    parts = []
    while isinstance(f, ast.Attribute):
        parts.append(f.attr)
        f = f.value
    if isinstance(f, ast.Name):
        parts.append(binds.get(f.id, f.id))
        return '.'.join(reversed(parts))
    return src_text(f)


def gen_band_select():
    """(a) every comparison and every index-search / rounding call inside FilterAnalyzer.filtered_fourier, in source order, as
    text: today `freqs < self.lb`, `freqs > self.ub` (strict comparisons NULL a bin: the closed band stays) — a
    searchsorted(side=…), an isclose, a rounded index re-opens `fourier_band_selection_pinned`;
    (b) every product-summing call of nitime/analysis/correlation.py (correlate / convolve / fft / dot …) with the module
    its callee comes from and its keywords: today two `numpy.correlate(…, mode='full')` (the direct sum)."""
    sel, corr = [], []
    if os.path.exists(os.path.join(tr.REPO, BAND_FILE)):
        tree = tr.parse(BAND_FILE)
        for cls in [n for n in tree.body if isinstance(n, ast.ClassDef) and n.name == BAND_CLASS]:
            for fn in [n for n in cls.body if isinstance(n, ast.FunctionDef) and n.name == BAND_FN]:
                nodes = [n for n in ast.walk(fn) if isinstance(n, ast.Compare) or
                         (isinstance(n, ast.Call) and (n.func.attr if isinstance(n.func, ast.Attribute) else getattr(n.func, 'id', None)) in SELECT_CALLS)]
                nodes.sort(key=lambda n: (n.lineno, n.col_offset))
                for n in nodes:
                    if isinstance(n, ast.Compare) and len(n.ops) == 1 and isinstance(n.ops[0], (ast.Is, ast.IsNot)):
                        continue      # `self.ub is None`: the default, not a selection
                    sel.append((' '.join(src_text(n).split()), '%s:%d' % (BAND_FILE, n.lineno)))
    if os.path.exists(os.path.join(tr.REPO, CORR_FILE)):
        tree = tr.parse(CORR_FILE)
        binds = _module_bindings(tree)
        for cls in [n for n in tree.body if isinstance(n, ast.ClassDef)] + [None]:
            for fn in [n for n in (cls.body if cls is not None else tree.body) if isinstance(n, ast.FunctionDef)]:
                calls = [n for n in ast.walk(fn) if isinstance(n, ast.Call)]
                calls.sort(key=lambda n: (n.lineno, n.col_offset))
                i = 0
                for c in calls:
                    nm = c.func.attr if isinstance(c.func, ast.Attribute) else getattr(c.func, 'id', None)
                    if nm in CORR_CALLS:
                        kws = ','.join(sorted('%s=%s' % (k.arg if k.arg else '**', ' '.join(src_text(k.value).split())) for k in c.keywords))
                        corr.append(('%s%s.%d' % (cls.name + '.' if cls is not None else '', fn.name, i), _dotted(c.func, binds), len(c.args), kws,
                                     '%s:%d' % (CORR_FILE, c.lineno)))
                        i += 1

    def q(s):
        return '"' + s.replace('\\', '\\\\').replace('"', '\\"') + '"'
    lines = ['-- GENERATED by harness/translate_c15.py: band selection of FilterAnalyzer.filtered_fourier, product sums of correlation.py. DO NOT EDIT.',
             'namespace Nitime.Generated.BandSelect', '',
             '/-- comparisons / index searches inside `FilterAnalyzer.filtered_fourier`, source order -/',
             'def fourierSelectors : List String :=', '  [']
    lines.append(',\n'.join('   -- %s\n   %s' % (w, q(t)) for t, w in sel))
    lines += ['  ]', '', '/-- (site, callee with its module, positional arguments, keywords) of every product-summing call in correlation.py -/',
              'def correlateCalls : List (String × String × Nat × String) :=', '  [']
    lines.append(',\n'.join('   -- %s\n   (%s, %s, %d, %s)' % (w, q(k), q(f), na_, q(kw)) for k, f, na_, kw, w in corr))
    lines += ['  ]', '', 'end Nitime.Generated.BandSelect', '']
    echo = {'fourierSelectors': [t for t, _ in sel], 'correlateCalls': ['%s %s/%d %s' % (k, f, na_, kw) for k, f, na_, kw, _ in corr]}
    return 'BandSelect.lean', '\n'.join(lines), echo


GENERATORS.append(gen_band_select)


# --------------------------------------------------------------------------------------------------------------------------
# round 5: process-wide state of the analyzer modules (a memo shared by all objects), and how `concatenate_time_series` builds its block
CACHE_DECOS = ('lru_cache', 'cache', 'cached_property', 'memoize', 'memoized', 'memo')
MODSTATE_FILES = STATE_FILES + ['nitime/analysis/__init__.py']


def _module_writes(relpath):
    """module-level names of one file that a function / method rebinds (`global`) or changes in place — directly, through a local
    alias, by item / attribute store, `del`, augmented assignment or a mutating method — and caching decorators"""
    written, decos = [], []
    tree = tr.parse(relpath)
    modnames = set()
    for node in tree.body:
        if isinstance(node, (ast.Assign, ast.AnnAssign, ast.AugAssign)):
            tgts = node.targets if isinstance(node, ast.Assign) else [node.target]
            for t in tgts:
                for n in ast.walk(t):
                    if isinstance(n, ast.Name):
                        modnames.add(n.id)
    short = os.path.basename(relpath)
    for fn in [n for n in ast.walk(tree) if isinstance(n, (ast.FunctionDef, ast.AsyncFunctionDef))]:
        for d in fn.decorator_list:
            txt = src_text(d)
            if any(c in txt for c in CACHE_DECOS):
                decos.append('%s %s: @%s' % (short, fn.name, txt[:40]))
        params = {a.arg for a in fn.args.args + fn.args.kwonlyargs + fn.args.posonlyargs}
        local_stores = {n.id for n in ast.walk(fn) if isinstance(n, ast.Name) and isinstance(n.ctx, ast.Store)}
        globl = {x for n in ast.walk(fn) if isinstance(n, (ast.Global, ast.Nonlocal)) for x in n.names}
        alias = {}
        for n in ast.walk(fn):
            if isinstance(n, ast.Assign) and isinstance(n.value, ast.Name) and n.value.id in modnames and n.value.id not in params:
                for t in n.targets:
                    if isinstance(t, ast.Name):
                        alias[t.id] = n.value.id

        def module_obj(e):
            if isinstance(e, ast.Name):
                if e.id in alias:
                    return alias[e.id]
                if e.id in modnames and e.id not in params and (e.id not in local_stores or e.id in globl):
                    return e.id
            return None
        for g in sorted(globl):
            written.append('%s %s: global %s' % (short, fn.name, g))
        for n in ast.walk(fn):
            if isinstance(n, ast.Call) and isinstance(n.func, ast.Attribute):
                m = module_obj(n.func.value)
                if m is not None and n.func.attr in MUTATORS:
                    written.append('%s %s: %s.%s(...)' % (short, fn.name, m, n.func.attr))
            tg = []
            if isinstance(n, ast.Assign):
                tg = n.targets
            elif isinstance(n, (ast.AugAssign, ast.AnnAssign)):
                tg = [n.target]
            elif isinstance(n, ast.Delete):
                tg = n.targets
            for t in tg:
                for s in ast.walk(t):
                    if isinstance(s, (ast.Subscript, ast.Attribute)) and isinstance(s.ctx, (ast.Store, ast.Del)):
                        m = module_obj(s.value)
                        if m is not None:
                            written.append('%s %s: %s written (%s)' % (short, fn.name, m, src_text(s)[:40]))
    return written, decos


def gen_module_state():
    """`moduleWrites` / `cacheDecorators` over nitime/analysis/*.py; `concatBuilder`: the statements of `concatenate_time_series`
    that produce the data block handed to the constructor (callee of every call whose result reaches `TimeSeries(<first arg>)`,
    with keywords), and every explicit dtype / casting mention in that function"""
    written, decos, echo = [], [], {}
    for rel in MODSTATE_FILES:
        if os.path.exists(os.path.join(tr.REPO, rel)):
            w, d = _module_writes(rel)
            written += w
            decos += d
    builder, dtype_mentions = [], []
    if os.path.exists(os.path.join(tr.REPO, 'nitime/timeseries.py')):
        tree = tr.parse('nitime/timeseries.py')
        for fn in tree.body:
            if isinstance(fn, ast.FunctionDef) and fn.name == 'concatenate_time_series':
                for n in ast.walk(fn):
                    if isinstance(n, ast.Call) and src_text(n.func).split('.')[-1] == 'TimeSeries' and n.args:
                        builder.append(src_text(n.args[0]).replace(' ', ''))
                    if isinstance(n, ast.keyword) and n.arg in ('dtype', 'casting', 'out'):
                        dtype_mentions.append('%s=%s' % (n.arg, src_text(n.value)[:40]))
                    if isinstance(n, ast.Attribute) and n.attr in ('astype', 'dtype', 'empty', 'zeros', 'empty_like', 'zeros_like', 'view'):
                        dtype_mentions.append(src_text(n)[:40])
    esc = lambda s: s.replace('\\', '/').replace('"', "'").replace('\n', ' ')      # noqa
    lst = lambda xs: '[%s]' % ', '.join('"%s"' % esc(s) for s in xs)      # noqa
    lines = ['-- GENERATED by harness/translate_c15.py (gen_module_state) from nitime/analysis/*.py and nitime/timeseries.py. DO NOT EDIT.',
             'namespace Nitime.Generated.ModuleState', '',
             '/-- module-level names of the analyzer modules rebound or changed in place inside a function / method (process-wide state) -/',
             'def moduleWrites : List String :=\n  %s' % lst(sorted(set(written))), '',
             '/-- caching decorators on functions / methods of the analyzer modules -/',
             'def cacheDecorators : List String :=\n  %s' % lst(sorted(set(decos))), '',
             '/-- first argument of the `TimeSeries(...)` call(s) in `concatenate_time_series` (blanks removed) -/',
             'def concatBuilder : List String :=\n  %s' % lst(builder), '',
             '/-- explicit dtype / casting / allocation mentions inside `concatenate_time_series` -/',
             'def concatDtypeMentions : List String :=\n  %s' % lst(sorted(set(dtype_mentions))), '',
             'end Nitime.Generated.ModuleState', '']
    echo.update(moduleWrites=sorted(set(written)), cacheDecorators=sorted(set(decos)), concatBuilder=builder, concatDtypeMentions=sorted(set(dtype_mentions)))
    return 'ModuleState.lean', '\n'.join(lines), echo


GENERATORS.append(gen_module_state)
