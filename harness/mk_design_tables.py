#!/usr/bin/env python3
"""Regenerates the tables between the AUTO markers of DESIGN.md (fix log from /repo's git log + known_findings.json,
seeded-change log from seeded/*/meta.json)."""
import json, os, re, subprocess, glob
V = '/verif'
log = subprocess.check_output(['git', '-C', '/repo', 'log', '--reverse', '--format=%h\t%s'], text=True).strip().splitlines()
kf = json.load(open(V + '/known_findings.json'))['findings']
bycommit = {}
for f in kf:
    if f.get('commit'):
        bycommit.setdefault(f['commit'], []).append(f)
rows = ['| commit | subject | properties / finding keys repaired | a failing input the check showed |', '|---|---|---|---|']
n = 0
for l in log:
    h, subj = l.split('\t', 1)
    if not subj.startswith('fix:'):
        continue
    n += 1
    fs = bycommit.get(h, [])
    keys = '; '.join(sorted({'%s `%s`' % (f['property'], f['key']) for f in fs}))[:400]
    inp = ''
    for f in fs:
        if f.get('input'):
            inp = str(f['input'])[:160].replace('|', '\\|').replace('\n', ' ')
            break
    rows.append('| %s | %s | %s | %s |' % (h, subj[5:].replace('|', '\\|'), keys.replace('|', '\\|') or '(see notes)', inp))
fix_tab = '%d `fix:` commits, each applied with `harness/apply_fix.sh` (pinned suite re-run: all 139 stable tests pass, unedited).\n\n' % n + '\n'.join(rows)
known = [f for f in kf if f['status'] == 'known']
kn_tab = '\n'.join('* **%s** `%s` — %s (input: %s)' % (f['property'], f['key'], f['what'], str(f.get('input', 'see notes'))[:200]) for f in known)

srows = ['| id | what the change does / what it needs to manifest | caught by (final checks) | history |', '|---|---|---|---|']
hist = json.load(open(V + '/seeded/HISTORY.json')) if os.path.exists(V + '/seeded/HISTORY.json') else {}
for d in sorted(glob.glob(V + '/seeded/C*-*/meta.json'), key=lambda p: (p.split('/')[-2].split('-')[0], int(p.split('/')[-2].split('-')[1]))):
    i = d.split('/')[-2]
    m = json.load(open(d))
    c = m.get('confirmed_by_lead', {})
    if isinstance(c, str):
        caught = 'C01: exit 1 (VIOLATION with input)'
    else:
        caught = '; '.join('%s: %s' % (p, ('exit 1, ' + ('no-failing-input-found' if any('no-failing-input' in x for x in r['lines']) else 'VIOLATION with input')) if r['exit'] == 1 else 'exit %d (not caught)' % r['exit'])
                           for p, r in c.get('checks', {}).items())
    fs = m.get('final_sweep')
    if fs:
        rs = fs.get('results', {})
        vals = set(rs.values())
        own = ('V on every seed' if vals == {'V'} else ', '.join('%s=%s' % kv for kv in sorted(rs.items())))
        caught = '%s: %s (VERIF_SEED %s; at %s)' % (fs['check'], own, ','.join(k[4:] for k in sorted(rs)), fs.get('commit', '?'))
        if isinstance(c, dict):
            others = ['%s exit %d' % (p, r['exit']) for p, r in c.get('checks', {}).items() if p != fs['check']]
            if others:
                caught += '; at archive time also: ' + ', '.join(others)
    summ = (m.get('summary', '') + ' — needs: ' + str(m.get('needs_to_manifest', '')))[:420].replace('|', '\\|').replace('\n', ' ')
    srows.append('| %s | %s | %s | %s |' % (i, summ, caught, hist.get(i, 'caught on first run')))
seed_tab = '\n'.join(srows)

s = open(V + '/DESIGN.md').read()
for tag, body in (('FIXES', fix_tab), ('KNOWN', kn_tab), ('SEEDS', seed_tab)):
    a, b = '<!-- AUTO:%s -->' % tag, '<!-- /AUTO:%s -->' % tag
    if a in s:
        s = s[:s.index(a) + len(a)] + '\n' + body + '\n' + s[s.index(b):]
open(V + '/DESIGN.md', 'w').write(s)
print('fix commits', n, 'known', len(known), 'seeds', len(srows) - 2)
