"""C01 translator pass: which of the two coupled attributes of a time object (`time_unit`, the LABEL, and
`_conversion_factor`, the FACTOR bare numbers are read with) every return path of the constructor /
view / conversion entry points sets, and from where  ->  lean/Nitime/Generated/C01Ctor.lean.

Pure `ast` walking (abstract interpretation of the statement list; no repo code is executed):
  * a state maps every local object name to (label source, factor source);
  * `X = <expr>` on a plain name forgets X's attributes (a new object: whatever `__array_finalize__` left) and AGES every
    source that mentions the name (so `x.time_unit = u; u = …; x._conversion_factor = table[u]` is NOT `tableOfLabel`);
  * `X.time_unit = E`, `X._conversion_factor = E`, `X.convert_unit(E)` update X;
  * `if` tests are decided where they only depend on the cell's assumptions (`copy == False`, `isinstance(data,
    TimeInterface)`, `hasattr(obj, …)`, `hasattr(self, …)`, `self.time_unit is None`), both branches otherwise;
  * loops: body zero or one time; try: body or any handler; `raise` ends a path; `return X` records X's pair.
Anything outside this fragment is recorded as `.other`, which no theorem accepts.
"""
import ast
import translate as T

UNSET = ('unset',)


def unparse(n):
    try:
        return ast.unparse(n)
    except Exception:
        return '?'


def last_func(tree, name, cls):
    """the LAST definition of `name` in class `cls` (python keeps the last one: TimeArray defines `max` twice)"""
    hit = None
    for node in ast.walk(tree):
        if isinstance(node, ast.ClassDef) and node.name == cls:
            for sub in node.body:
                if isinstance(sub, ast.FunctionDef) and sub.name == name:
                    hit = sub
            for sub in node.body:   # `name = Other.name` aliases
                if isinstance(sub, ast.Assign) and len(sub.targets) == 1 and isinstance(sub.targets[0], ast.Name) \
                        and sub.targets[0].id == name and isinstance(sub.value, ast.Attribute) \
                        and isinstance(sub.value.value, ast.Name):
                    hit = last_func(tree, sub.value.attr, sub.value.value.id)
    return hit


# ------------------------------------------------------------------ three-valued tests
def tri_not(v):
    return None if v is None else (not v)


def ev(test, A):
    """truth value of an `if` test under the assumptions A (dict), or None when it depends on anything else"""
    if isinstance(test, ast.BoolOp):
        vs = [ev(v, A) for v in test.values]
        if isinstance(test.op, ast.And):
            if any(v is False for v in vs):
                return False
            return True if all(v is True for v in vs) else None
        if any(v is True for v in vs):
            return True
        return False if all(v is False for v in vs) else None
    if isinstance(test, ast.UnaryOp) and isinstance(test.op, ast.Not):
        return tri_not(ev(test.operand, A))
    if isinstance(test, ast.Name) and test.id in A:
        return A[test.id]
    if isinstance(test, ast.Compare) and len(test.ops) == 1:
        l, r, op = test.left, test.comparators[0], test.ops[0]
        if isinstance(l, ast.Name) and l.id in A and isinstance(r, ast.Constant) and isinstance(r.value, bool) \
                and A[l.id] is not None:
            if isinstance(op, (ast.Eq, ast.Is)):
                return A[l.id] == r.value
            if isinstance(op, (ast.NotEq, ast.IsNot)):
                return A[l.id] != r.value
        # self.time_unit is None  (a fresh view: the class attribute, None)
        if isinstance(l, ast.Attribute) and isinstance(l.value, ast.Name) and l.value.id == 'self' \
                and l.attr == 'time_unit' and isinstance(r, ast.Constant) and r.value is None and 'selfUnset' in A:
            if isinstance(op, ast.Is):
                return A['selfUnset']
            if isinstance(op, ast.IsNot):
                return not A['selfUnset']
        return None
    if isinstance(test, ast.Call) and isinstance(test.func, ast.Name) and len(test.args) == 2:
        a0, a1 = test.args
        if test.func.id == 'isinstance' and isinstance(a0, ast.Name) and a0.id == 'data' and 'isTime' in A:
            cls = unparse(a1)
            if cls == 'TimeInterface':
                return A['isTime']
            if cls in ('TimeArray', 'UniformTime') and A['isTime'] is False:
                return False
            return None
        if test.func.id == 'hasattr' and isinstance(a0, ast.Name) and isinstance(a1, ast.Constant):
            if a0.id == 'obj' and a1.value in ('time_unit', '_conversion_factor') and 'objIsTime' in A:
                return A['objIsTime']
            if a0.id == 'self' and 'selfUnset' in A:
                if a1.value == 'time_unit':
                    return True            # class attribute of TimeInterface
                if a1.value == '_conversion_factor':
                    return not A['selfUnset']
        return None
    return None


# ------------------------------------------------------------------ abstract states
def age(tok, name):
    if tok[0] == 'name' and tok[1] == name:
        return ('name', name, tok[2] + 1)
    if tok[0] == 'table':
        return ('table', age(tok[1], name))
    return tok


def label_tok(e):
    if isinstance(e, ast.Name):
        return ('name', e.id, 0)
    if isinstance(e, ast.Attribute) and e.attr == 'time_unit':
        return ('fromObj', unparse(e.value))
    if isinstance(e, ast.Constant) and isinstance(e.value, str):
        return ('lit', e.value)
    return ('other', unparse(e))


def factor_tok(e, owner):
    if isinstance(e, ast.Subscript) and unparse(e.value) == 'time_unit_conversion':
        k = e.slice
        if isinstance(k, ast.Name):
            return ('table', ('name', k.id, 0))
        if isinstance(k, ast.Attribute) and k.attr == 'time_unit' and unparse(k.value) == owner:
            return ('tableNow',)        # table[<this object's label as it is now>]
        if isinstance(k, ast.Constant) and isinstance(k.value, str):
            return ('table', ('lit', k.value))
        return ('other', unparse(e))
    if isinstance(e, ast.Attribute) and e.attr == '_conversion_factor':
        return ('fromObj', unparse(e.value))
    return ('other', unparse(e))


class Walker:
    def __init__(self, A):
        self.A, self.returns = A, set()

    def run(self, body):
        self.block(body, {frozenset()})
        return self.returns

    @staticmethod
    def get(st, x):
        return dict(st).get(x, (UNSET, UNSET))

    @staticmethod
    def put(st, x, v):
        d = dict(st)
        d[x] = v
        return frozenset(d.items())

    def block(self, stmts, states):
        for s in stmts:
            if not states:
                break
            states = self.stmt(s, states)
        return states

    def stmt(self, s, states):
        if isinstance(s, ast.If):
            v = ev(s.test, self.A)
            out = set()
            if v is not False:
                out |= self.block(s.body, set(states))
            if v is not True:
                out |= self.block(s.orelse, set(states))
            return out
        if isinstance(s, (ast.For, ast.While)):
            return set(states) | self.block(s.body, set(states))
        if isinstance(s, ast.With):
            return self.block(s.body, states)
        if isinstance(s, ast.Try):
            out = self.block(s.body, set(states))
            for h in s.handlers:
                out |= self.block(h.body, set(states))
            return self.block(s.finalbody, out) if s.finalbody else out
        if isinstance(s, ast.Raise):
            return set()
        if isinstance(s, ast.Return):
            for st in states:
                if isinstance(s.value, ast.Name):
                    self.returns.add(self.get(st, s.value.id))
                else:
                    self.returns.add((('other', unparse(s.value)), ('other', unparse(s.value))))
            return set()
        if isinstance(s, ast.Assign) and len(s.targets) == 1:
            t = s.targets[0]
            if isinstance(t, ast.Name):
                out = set()
                for st in states:
                    d = {k: (age(v[0], t.id), age(v[1], t.id)) for k, v in dict(st).items() if k not in (t.id, '$' + t.id)}
                    # a local that holds a factor looked up in the table (`fac = time_unit_conversion[time_unit]`, assigned to
                    # the attribute later: the look-up-first form of an update that may fail)
                    if isinstance(s.value, ast.Subscript) and unparse(s.value.value) == 'time_unit_conversion':
                        d['$' + t.id] = (UNSET, factor_tok(s.value, None))
                    out.add(frozenset(d.items()))
                return out
            if isinstance(t, ast.Attribute) and isinstance(t.value, ast.Name) and t.attr in ('time_unit', '_conversion_factor'):
                x = t.value.id
                out = set()
                for st in states:
                    lab, fac = self.get(st, x)
                    if t.attr == 'time_unit':
                        lab = label_tok(s.value)
                        if fac == ('tableNow',):
                            fac = ('other', 'factor of an earlier label')
                    else:
                        if isinstance(s.value, ast.Name) and ('$' + s.value.id) in dict(st):
                            fac = dict(st)['$' + s.value.id][1]
                        else:
                            fac = factor_tok(s.value, x)
                        if fac == ('tableNow',) and lab == UNSET:
                            fac = ('other', 'table[label] before any label')
                    out.add(self.put(st, x, (lab, fac)))
                return out
            return states
        if isinstance(s, ast.Expr) and isinstance(s.value, ast.Call) and isinstance(s.value.func, ast.Attribute) \
                and s.value.func.attr == 'convert_unit' and isinstance(s.value.func.value, ast.Name) and len(s.value.args) == 1:
            x = s.value.func.value.id
            return {self.put(st, x, (label_tok(s.value.args[0]), ('tableNow',))) for st in states}
        return states


def classify(pair):
    lab, fac = pair

    def L(t):
        return {'name': '.arg', 'fromObj': '.fromObj', 'unset': '.unset'}.get(t[0]) or \
            ('(.lit "%s")' % t[1] if t[0] == 'lit' else '.other')
    if fac[0] == 'tableNow':
        f = '.tableOfLabel' if lab[0] in ('name', 'lit', 'fromObj') else '.other'
    elif fac[0] == 'table':
        f = '.tableOfLabel' if fac[1] == lab and lab[0] in ('name', 'lit') else '.tableOfOther'
    elif fac[0] == 'fromObj':
        f = '.fromObj' if (lab[0] == 'fromObj' and lab[1] == fac[1]) else '.fromOtherObj'
    elif fac[0] == 'unset':
        f = '.unset'
    else:
        f = '.other'
    return '⟨%s, %s⟩' % (L(lab), f)


def paths_of(fn, A):
    if fn is None:
        return ['⟨.other, .other⟩']
    rs = Walker(A).run(fn.body)
    if not rs and fn.name == 'convert_unit':
        pass
    return sorted({classify(r) for r in rs}) or ['⟨.other, .other⟩']


def implicit_self(fn, A):
    """methods that work on `self` and return nothing (`convert_unit`, `__array_finalize__`): the pair of `self` at the end"""
    if fn is None:
        return ['⟨.other, .other⟩']
    w = Walker(A)
    end = w.block(fn.body, {frozenset()})
    return sorted({classify(Walker.get(st, 'self')) for st in end}) or ['⟨.other, .other⟩']


def reduction_kind(fn):
    """.relabel: result built by the constructor and then `convert_unit(self.time_unit)`;  .view: an element / the object itself"""
    if fn is None:
        return '.missing'
    rets = [n for n in ast.walk(fn) if isinstance(n, ast.Return)]
    if not rets:
        return '.other'
    kinds = set()
    for r in rets:
        v = r.value
        if isinstance(v, ast.Name) and v.id == 'self':
            kinds.add('.view')
        elif isinstance(v, ast.Subscript) and unparse(v.value) == 'self':
            kinds.add('.view')
        elif isinstance(v, ast.Name):
            ps = paths_of(fn, {})
            kinds.add('.relabel' if ps == ['⟨.fromObj, .tableOfLabel⟩'] else '.other')
        else:
            kinds.add('.other')
    return kinds.pop() if len(kinds) == 1 else '.other'


# ------------------------------------------------------------------ round 4 (L3, sharper): the comparison FORM of every test of a
# boolean / optional parameter (`x == False` vs `not x` vs `x is None` differ on None, 0, 0.0, '', [], np.False_, 'False')
FLAG_CLASSES = ('TimeArray', 'UniformTime', 'TimeSeriesBase', 'TimeSeries', 'Epochs', 'Events', 'Frequency')
_NEG = {'.eqFalse': '.neFalse', '.neFalse': '.eqFalse', '.eqTrue': '.neTrue', '.neTrue': '.eqTrue', '.isNone': '.isNotNone',
        '.isNotNone': '.isNone', '.truthy': '.notTruthy', '.notTruthy': '.truthy', '.isFalse': '.other', '.isTrue': '.other',
        '.other': '.other'}


def _cmp_form(op, const):
    if const is None:
        return {ast.Is: '.isNone', ast.IsNot: '.isNotNone'}.get(type(op), '.other')   # `x == None` is not the documented form
    if const is False:
        return {ast.Eq: '.eqFalse', ast.NotEq: '.neFalse', ast.Is: '.isFalse'}.get(type(op), '.other')
    if const is True:
        return {ast.Eq: '.eqTrue', ast.NotEq: '.neTrue', ast.Is: '.isTrue'}.get(type(op), '.other')
    return None


def _subject(e, params, alias):
    """the tested thing: a parameter name, a comprehension variable ranging over parameters, or `isinstance(<param>, C)`"""
    if isinstance(e, ast.Name):
        if e.id in params:
            return [e.id]
        if e.id in alias:
            return list(alias[e.id])
    if isinstance(e, ast.Call) and isinstance(e.func, ast.Name) and e.func.id == 'isinstance' and len(e.args) == 2 \
            and isinstance(e.args[0], ast.Name) and e.args[0].id in params:
        return ['isinstance(%s,%s)' % (e.args[0].id, unparse(e.args[1]).replace(' ', ''))]
    return []


def flag_tests_of(fn, qual):
    """[(lineno, col, qual, subject, form)] for every test of a parameter of `fn` against True / False / None or by truthiness"""
    a = fn.args
    params = {x.arg for x in a.posonlyargs + a.args + a.kwonlyargs} - {'self', 'cls'}
    parent, alias = {}, {}
    for n in ast.walk(fn):
        for ch in ast.iter_child_nodes(n):
            parent[ch] = n
        # `(x is not None for x in [p, q, r])`: x ranges over the listed parameters
        if isinstance(n, ast.comprehension) and isinstance(n.target, ast.Name) and isinstance(n.iter, (ast.List, ast.Tuple)):
            names = [e.id for e in n.iter.elts if isinstance(e, ast.Name) and e.id in params]
            if names:
                alias[n.target.id] = names
    out = []

    def negated(n):
        p = parent.get(n)
        return isinstance(p, ast.UnaryOp) and isinstance(p.op, ast.Not)

    def in_test_position(n):
        p = parent.get(n)
        if isinstance(p, (ast.If, ast.IfExp, ast.While, ast.Assert)) and p.test is n:
            return True
        if isinstance(p, ast.UnaryOp) and isinstance(p.op, ast.Not):
            return True
        if isinstance(p, ast.BoolOp):
            return True
        if isinstance(p, ast.comprehension) and n in p.ifs:
            return True
        return False
    for n in ast.walk(fn):
        if isinstance(n, ast.Compare) and len(n.ops) == 1 and isinstance(n.comparators[0], ast.Constant) \
                and (n.comparators[0].value is None or isinstance(n.comparators[0].value, bool)):
            form = _cmp_form(n.ops[0], n.comparators[0].value)
            for sub in _subject(n.left, params, alias):
                out.append((n.lineno, n.col_offset, qual, sub, _NEG[form] if negated(n) else form))
        elif isinstance(n, (ast.Name, ast.Call)) and in_test_position(n):
            subs = _subject(n, params, alias)
            if isinstance(n, ast.Call):
                continue       # a bare `isinstance(…)` test is a plain boolean: only its comparison with a constant is a flag form
            for sub in subs:
                out.append((n.lineno, n.col_offset, qual, sub, '.notTruthy' if negated(n) else '.truthy'))
    return sorted(out)


def copy_test_form(new):
    """the form under which `TimeArray.__new__` takes its NO-COPY branch (the branch of the `if` on `copy` that does not use `conv_fac`)"""
    if new is None:
        return '.other'
    hits = []
    for n in ast.walk(new):
        if isinstance(n, ast.If):
            ts_ = [t for t in flag_tests_of(ast.FunctionDef(name='x', args=new.args, body=[ast.Expr(n.test)], decorator_list=[],
                                                             lineno=0, col_offset=0), 'x') if t[3] == 'copy']
            if ts_:
                hits.append((n, ts_))
    if len(hits) != 1 or len(hits[0][1]) != 1:
        return '.other'
    node, (t,) = hits[0]
    if not (isinstance(node.test, ast.Compare) or isinstance(node.test, ast.Name) or
            (isinstance(node.test, ast.UnaryOp) and isinstance(node.test.op, ast.Not))):
        return '.other'
    uses = lambda stmts: any(isinstance(x, ast.Name) and x.id == 'conv_fac' for s_ in stmts for x in ast.walk(s_))
    b, o = uses(node.body), uses(node.orelse)
    if not b and o:
        return t[4]
    if b and not o:
        return _NEG[t[4]]
    return '.other'


def gen_flag_lines(tree, echo):
    tests = []
    for node in ast.walk(tree):
        if isinstance(node, ast.ClassDef) and node.name in FLAG_CLASSES:
            seen = {}
            for fn in node.body:
                if isinstance(fn, ast.FunctionDef):
                    seen[fn.name] = fn          # python keeps the last definition
            for fn in seen.values():
                tests += flag_tests_of(fn, '%s.%s' % (node.name, fn.name))
    tests.sort()
    echo['flag tests'] = ['%s %s %s' % t[2:] for t in tests]
    ct = copy_test_form(last_func(tree, '__new__', 'TimeArray'))
    echo['TimeArray.__new__ no-copy branch taken when'] = ct
    L = ['/-- every test of a boolean / optional PARAMETER against `True` / `False` / `None` or by truthiness, in the constructors and',
         'methods of %s, in source order: (Class.method, parameter, comparison form) -/' % ', '.join(FLAG_CLASSES),
         'def flagTests : List FlagTest := [']
    L += ['  ⟨"%s", "%s", %s⟩%s' % (t[2], t[3], t[4], ',' if i + 1 < len(tests) else '') for i, t in enumerate(tests)]
    L += ['  ]', '', '/-- `TimeArray.__new__` takes its NO-COPY branch (data taken as base units, never scaled) iff this holds of `copy` -/',
          'def copyTest : FlagForm := %s' % ct, '']
    return L


def gen_c01ctor():
    tree = T.parse('nitime/timeseries.py')
    echo = {}

    def lst(ps):
        return '[' + ', '.join(ps) + ']'
    L = ['-- GENERATED by harness/translate_c01.py from nitime/timeseries.py (attribute discipline of time objects). DO NOT EDIT.',
         'import Nitime.Model.C01Attr', 'namespace Nitime.Generated.C01Ctor', 'open Nitime.C01Attr', '']
    for cls, nm in (('TimeArray', 'timeArray'), ('UniformTime', 'uniform')):
        new = last_func(tree, '__new__', cls)
        if cls == 'TimeArray':
            L.append('/-- `%s.__new__`: (label, factor) of the returned object on every return path, per (copy, data is a time object) -/' % cls)
            L.append('def %sNew : Bool → Bool → List Path' % nm)
            for copy in (True, False):
                for it in (True, False):
                    ps = paths_of(new, {'copy': copy, 'isTime': it})
                    echo['%s.__new__(copy=%s,time=%s)' % (cls, copy, it)] = ps
                    L.append('  | %s, %s => %s' % (str(copy).lower(), str(it).lower(), lst(ps)))
        else:
            ps = paths_of(new, {})
            echo['%s.__new__' % cls] = ps
            L.append('/-- `%s.__new__`: (label, factor) of the returned axis on every return path -/' % cls)
            L.append('def %sNew : List Path := %s' % (nm, lst(ps)))
        L.append('')
        fin = last_func(tree, '__array_finalize__', cls)
        L.append('/-- `%s.__array_finalize__` on a fresh view, per (obj is a time object) -/' % cls)
        L.append('def %sFinalize : Bool → List Path' % nm)
        for ot in (True, False):
            ps = implicit_self(fin, {'objIsTime': ot, 'selfUnset': True})
            echo['%s.__array_finalize__(objIsTime=%s)' % (cls, ot)] = ps
            L.append('  | %s => %s' % (str(ot).lower(), lst(ps)))
        L.append('')
    cu = last_func(tree, 'convert_unit', 'TimeArray')
    ps = implicit_self(cu, {})
    echo['TimeArray.convert_unit'] = ps
    L += ['/-- `TimeArray.convert_unit` (UniformTime has no own one; None = not found) -/',
          'def convertUnit : List Path := %s' % lst(ps), '']
    ucu = last_func(tree, 'convert_unit', 'UniformTime')
    echo['UniformTime.convert_unit'] = 'absent' if ucu is None else implicit_self(ucu, {})
    L += ['/-- UniformTime defines its own `convert_unit` (true) or has none (false) -/',
          'def uniformHasConvertUnit : Bool := %s' % ('true' if ucu is not None else 'false'), '']
    L.append('/-- how each reduction of TimeArray makes its result -/')
    L.append('def timeArrayReduction : String → RedKind')
    for r in ('min', 'max', 'sum', 'ptp', 'mean'):
        k = reduction_kind(last_func(tree, r, 'TimeArray'))
        echo['TimeArray.' + r] = k
        L.append('  | "%s" => %s' % (r, k))
    L += ['  | _ => .missing', '']
    L.append('/-- how each reduction UniformTime defines itself makes its result (`.missing` = inherited from ndarray: a view-like result) -/')
    L.append('def uniformReduction : String → RedKind')
    for r in ('min', 'max', 'sum', 'ptp'):
        k = reduction_kind(last_func(tree, r, 'UniformTime'))
        echo['UniformTime.' + r] = k
        L.append('  | "%s" => %s' % (r, k))
    L += ['  | _ => .missing', '']
    L += gen_flag_lines(tree, echo)
    L += ['end Nitime.Generated.C01Ctor', '']
    return 'C01Ctor.lean', '\n'.join(L), echo


# ------------------------------------------------------------------ failure paths: order of attribute writes vs. possible raises
def _is_table_lookup(e):
    return isinstance(e, ast.Subscript) and unparse(e.value) == 'time_unit_conversion'


def expr_events(e, param):
    """events of evaluating an expression: every `time_unit_conversion[<param>]` is a `.lookup` (raises when the argument is
    not a key); a table lookup with any other key, or any call, is `.unknown` (outside the fragment)"""
    evs = []
    if e is None:
        return evs
    for n in ast.walk(e):
        if _is_table_lookup(n):
            evs.append('.lookup' if isinstance(n.slice, ast.Name) and n.slice.id == param else '.unknown')
        elif isinstance(n, ast.Call):
            evs.append('.unknown')
    return evs


def guard_event(test, param):
    t = unparse(test).replace(' ', '')
    if t == '%sisNone' % param:
        return '.raiseIfNone'
    if t in ('%snotintime_unit_conversion' % param, 'not%sintime_unit_conversion' % param,
             'not(%sintime_unit_conversion)' % param):
        return '.raiseIfInvalid'
    return '.raiseOther'


def only_raise(body):
    return len(body) == 1 and isinstance(body[0], ast.Raise)


def stmt_events(stmts, param, owner='self'):
    """source-order event list of a statement list (the RHS of an assignment is evaluated before the write)"""
    evs = []
    for s in stmts:
        if isinstance(s, ast.Expr) and isinstance(s.value, ast.Constant):
            continue                                   # docstring
        if isinstance(s, ast.Pass):
            continue
        if isinstance(s, ast.Assign) and len(s.targets) == 1:
            t = s.targets[0]
            evs += expr_events(s.value, param)
            if isinstance(t, ast.Attribute) and isinstance(t.value, ast.Name) and t.value.id == owner:
                if t.attr == 'time_unit':
                    evs.append('.writeLabel')
                elif t.attr == '_conversion_factor':
                    evs.append('.writeFactor')
                else:
                    evs.append('.unknown')
            elif not isinstance(t, ast.Name):
                evs.append('.unknown')
            continue
        if isinstance(s, ast.If) and only_raise(s.body) and not s.orelse:
            evs.append(guard_event(s.test, param))
            continue
        if isinstance(s, ast.Raise):
            evs.append('.raiseOther')
            continue
        if isinstance(s, ast.Try) and not s.finalbody and not s.orelse and all(only_raise(h.body) for h in s.handlers):
            evs += stmt_events(s.body, param, owner)   # a failing lookup in the body leaves through the handler's raise
            continue
        if isinstance(s, ast.Return) and s.value is None:
            continue
        evs.append('.unknown')
    return evs


def self_attr_writers(tree, cls):
    """methods of `cls` that assign `self.time_unit` / `self._conversion_factor` (or call `self.convert_unit`)"""
    out = []
    for node in ast.walk(tree):
        if isinstance(node, ast.ClassDef) and node.name == cls:
            for fn in node.body:
                if not isinstance(fn, ast.FunctionDef):
                    continue
                hit = False
                for n in ast.walk(fn):
                    if isinstance(n, (ast.Assign, ast.AugAssign)):
                        for t in (n.targets if isinstance(n, ast.Assign) else [n.target]):
                            if isinstance(t, ast.Attribute) and isinstance(t.value, ast.Name) and t.value.id == 'self' \
                                    and t.attr in ('time_unit', '_conversion_factor'):
                                hit = True
                    if isinstance(n, ast.Call) and isinstance(n.func, ast.Attribute) and isinstance(n.func.value, ast.Name) \
                            and n.func.value.id == 'self' and n.func.attr == 'convert_unit':
                        hit = True
                    if isinstance(n, ast.Call) and isinstance(n.func, ast.Name) and n.func.id == 'setattr' and n.args \
                            and isinstance(n.args[0], ast.Name) and n.args[0].id == 'self':
                        hit = True
                if hit and fn.name not in out:
                    out.append(fn.name)
    return sorted(out)


def new_touches_argument(fn, params=('data',)):
    """does the constructor assign an attribute of / work in place on / call a mutating method of a PARAMETER object?"""
    if fn is None:
        return True
    for n in ast.walk(fn):
        if isinstance(n, ast.Assign):
            for t in n.targets:
                base = t
                while isinstance(base, (ast.Attribute, ast.Subscript)):
                    base = base.value
                if isinstance(t, (ast.Attribute, ast.Subscript)) and isinstance(base, ast.Name) and base.id in params:
                    return True
        if isinstance(n, ast.AugAssign):
            base = n.target
            while isinstance(base, (ast.Attribute, ast.Subscript)):
                base = base.value
            if isinstance(base, ast.Name) and base.id in params:
                return True
        if isinstance(n, ast.Call) and isinstance(n.func, ast.Attribute) and isinstance(n.func.value, ast.Name) \
                and n.func.value.id in params and n.func.attr in ('convert_unit', 'sort', 'fill', 'resize', 'put', 'itemset'):
            return True
    return False


def gen_c01fail():
    tree = T.parse('nitime/timeseries.py')
    echo = {}
    cu = last_func(tree, 'convert_unit', 'TimeArray')
    param = cu.args.args[1].arg if cu is not None and len(cu.args.args) > 1 else 'time_unit'
    evs = stmt_events(cu.body, param) if cu is not None else ['.unknown']
    echo['TimeArray.convert_unit events'] = evs
    wr_t = self_attr_writers(tree, 'TimeArray')
    wr_u = self_attr_writers(tree, 'UniformTime')
    echo['TimeArray self-attribute writers'] = wr_t
    echo['UniformTime self-attribute writers'] = wr_u
    nt = new_touches_argument(last_func(tree, '__new__', 'TimeArray'))
    echo['TimeArray.__new__ touches its data argument'] = nt
    L = ['-- GENERATED by harness/translate_c01.py from nitime/timeseries.py (failure paths: order of attribute writes and raises). DO NOT EDIT.',
         'import Nitime.Model.C01Attr', 'namespace Nitime.Generated.C01Fail', 'open Nitime.C01Attr', '',
         '/-- `TimeArray.convert_unit`: attribute writes, table lookups with the argument and guarded raises, in source order -/',
         'def convertUnitEvents : List Ev := [%s]' % ', '.join(evs), '',
         '/-- methods of TimeArray that write `self.time_unit` / `self._conversion_factor` -/',
         'def timeArrayAttrWriters : List String := [%s]' % ', '.join('"%s"' % w for w in wr_t), '',
         '/-- methods of UniformTime that write `self.time_unit` / `self._conversion_factor` -/',
         'def uniformAttrWriters : List String := [%s]' % ', '.join('"%s"' % w for w in wr_u), '',
         '/-- `TimeArray.__new__` assigns to / works in place on its `data` argument -/',
         'def timeArrayNewTouchesArgument : Bool := %s' % ('true' if nt else 'false'), '',
         'end Nitime.Generated.C01Fail', '']
    return 'C01Fail.lean', '\n'.join(L), echo


GENERATORS = [gen_c01ctor, gen_c01fail]

if __name__ == '__main__':
    print(gen_c01ctor()[1])
    print(gen_c01fail()[1])
