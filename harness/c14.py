"""C14 — resetting or re-targeting an analyzer is equivalent to building a new one.

Correspondence: for every class offering `set_input` x parameter settings x 4 kinds of new input (same
shape, other length, other sampling rate, other channel count) x subsets of results read before the
switch (none, each single one, all; thorough: + random subsets), the REAL object is switched and every
public result read and compared bitwise with a newly constructed analyzer on the new input; the same
for `reset()` + attribute assignment (4 classes), for `Epochs` slicing before/after `duration` was
read, and for user subclasses that add nothing.  The model driver runs `retarget` of the OneTime
machine on the generated tables (walked dictionaries = generated reset shape).  Agreement: the set of
results that survive the switch must be the model's; where the model says "equal to a new object for
every F" the implementation must be bitwise equal.  Oracle (independent of Lean): the fresh object.
"""
import itertools, functools, copy
import numpy as np
import common
from common import Case, Failure
import onetime_common as oc
import onetime_sessions as OS

PID = 'C14'
LEAN_TARGETS = ['Nitime.Props.C14']
RULE = ('classes with set_input x 1-4 settings x 4 input kinds x pre-read subsets (none, singles, all; thorough + 10 random subsets); '
        'reset()+assignment for 4 classes; Epochs and user subclasses sliced / re-targeted; one case = one switch followed by a read of '
        'every public result; distinct = distinct protocol line + input kind; non-trivial = at least one result read before the switch')
ASSUMPTIONS = ['a newly constructed analyzer of the same class with the same constructor arguments is the reference',
               'results that raise on the newly constructed analyzer are compared by exception kind']
TRUSTED_EXTRA = ['harness/onetime_server.py: a forked child of a process that has only imported nitime stands for a fresh python process',
                 'harness/translate_c13.py (init-derived state, reset shape, set_input overrides: assumed to recompute what __init__ computes)',
                 'F, W, D (getter bodies, written values, state derived in __init__) are uninterpreted in the model']

KINDS = {1: 'same-shape', 2: 'other-length', 3: 'other-rate', 4: 'other-channel-count'}
REPARAM = [
    ('FilterAnalyzer', dict(lb=0.05, ub=0.3, filt_order=16), [{'lb': 0.1}, {'ub': 0.2}, {'lb': 0.02, 'ub': 0.4}]),
    ('MTCoherenceAnalyzer', dict(), [{'alpha': 0.1}]),
    ('SNRAnalyzer', dict(), [{'bandwidth': 0.1}, {'adaptive': True}]),
    ('SpectralAnalyzer', dict(), [{'BW': 0.1}, {'adaptive': True}]),
    ('SparseCoherenceAnalyzer', dict(ij=[(0, 1), (1, 2)], method=dict(this_method='welch', NFFT=32, n_overlap=16), lb=0.05, ub=0.4),
     [{'lb': 0.15}, {'ub': 0.25}]),
]
SUBCLASSED = ['CorrelationAnalyzer', 'HilbertAnalyzer', 'NormalizationAnalyzer']
_SUB = {}


def subclass_of(klass):
    if klass not in _SUB:
        _SUB[klass] = type('User' + klass.__name__, (klass,), {'__doc__': 'a user subclass that adds nothing'})
    return _SUB[klass]


def il(ids):
    ids = sorted(set(ids))
    return ','.join(str(i) for i in ids) if ids else '-'


def ol(ids):
    """ordered id list"""
    ids = list(ids)
    return ','.join(str(i) for i in ids) if ids else '-'


def val_hash(obj, table, g):
    if callable(obj):
        with oc.quiet():
            obj = obj()
    st = oc.observed_read(obj, table, [], g)
    return st.value_hash


class Sw:
    """one switch experiment"""

    def __init__(self, kind, cls, label, table, line, make, switch, fresh, pre, post, keytag):
        self.__dict__.update(locals())


def run_switch(sw):
    """-> (survivor names, [(g, hash_here, hash_fresh)])"""
    with oc.quiet():
        obj = sw.make()
    raised = [g for g in sw.pre if oc.read_result(obj, g)[1] is not None]
    with oc.quiet():
        obj2 = sw.switch(obj)
    surv = sorted(g for g in sw.table['getters'] if g in obj2.__dict__)
    surv_vals = {g: oc.hv(obj2.__dict__[g]) for g in surv}
    out = []
    for g in sw.post:
        here = val_hash(obj2, sw.table, g)
        fr = val_hash(sw.fresh, sw.table, g)
        out.append((g, here, fr))
    stale = []
    for g in surv:
        fr = val_hash(sw.fresh, sw.table, g)
        if surv_vals[g] != fr:
            stale.append(g)
    return surv, out, stale, raised


def experiments(seed, tier, rng):
    ts, na = oc.nt()
    P = oc.prepare(seed, tier)
    E = []
    for (cls, label, build, table) in P:
        if not table.get('hasSetInput'):
            continue
        gid = {g: i for i, g in enumerate(table['getters'])}
        pub = [g for g in table['getters'] if not g.startswith('_')]
        obj0, _ = build(0)
        cfg = oc.cfg_of(obj0, table)
        light = (cls, label) in oc.LIGHT and tier != 'thorough'
        presets = [[]] + [[g] for g in (rng.sample(pub, min(2, len(pub))) if light else pub)] + [list(pub)]
        if tier == 'thorough':
            for _ in range(10):
                presets.append([g for g in pub if rng.random() < 0.5])
        def orders(pre):
            """post-switch read orders: table order; and, when everything (or nothing) was read before the
            switch, every public result FIRST once (hidden state written by one getter and preferred by
            another is only visible when the reader comes before the writer)"""
            out = [list(pub)]
            if len(pre) == len(pub):
                for g in (pub[1:3] if light else pub[1:]):
                    out.append([g] + [h for h in pub if h != g])
            else:
                out.append(list(reversed(pub)))
            return out
        for variant in ((2, 3) if light else (1, 2, 3, 4)):
            for pi, pre in enumerate(presets):
              # quick tier: a single pre-read result meets two of the four kinds of new input (alternating, so that
              # every kind meets about half of the results); none / all pre-read meet all four
              if tier != 'thorough' and len(pre) == 1 and len(pub) > 1 and (variant + pi) % 2:
                  continue
              for post in orders(pre):
                def make(build=build):
                    return build(0)[0]

                def switch(obj, build=build, variant=variant):
                    x = build(variant)[1][0]
                    obj.set_input(x)
                    return obj

                def fresh(build=build, variant=variant):
                    x = build(variant)[1][0]
                    return build(0, input=x)[0]
                line = 'C14 retarget %s %s %s %s %s' % (cls, il(cfg), il(gid[g] for g in pre), ol(gid[g] for g in post), KINDS[variant])
                E.append(Sw('set_input', cls, label, table, line, make, switch, fresh, pre, post, KINDS[variant]))
        # user subclass that adds nothing
        if cls in SUBCLASSED:
            for pre in ([], list(pub)):
                def make(build=build, cls=cls):
                    o = build(0)[0]
                    o.__class__ = subclass_of(type(o))
                    return o

                def switch(obj, build=build):
                    obj.set_input(build(2)[1][0])
                    return obj

                def fresh(build=build):
                    return build(0, input=build(2)[1][0])[0]
                line = 'C14 retarget sub:%s %s %s %s' % (cls, il(cfg), il(gid[g] for g in pre), il(gid[g] for g in pub))
                E.append(Sw('subclass', 'sub:' + cls, label, table, line, make, switch, fresh, pre, pub, 'other-length'))
    # reset() + assignment
    tb = oc.tables()
    for (cls, base, changes) in REPARAM:
        table = tb[cls]
        klass = getattr(na, cls)
        oc.wrap_getters(klass, table['getters'])
        gid = {g: i for i, g in enumerate(table['getters'])}
        sid = {s: i for i, s in enumerate(table['slots'])}
        pub = [g for g in table['getters'] if not g.startswith('_')]
        x = oc._series(oc._rs(seed, 'reparam/' + cls), 4 if cls == 'SNRAnalyzer' else 3, 64)
        obj0 = klass(x, **copy.deepcopy(base))
        cfg = oc.cfg_of(obj0, table)
        for ch in changes:
            for pre in ([], list(pub)):
                def make(klass=klass, x=x, base=base):
                    return klass(x, **copy.deepcopy(base))

                def switch(obj, ch=ch):
                    obj.reset()
                    for k, v in ch.items():
                        setattr(obj, k, v)
                    return obj

                def fresh(klass=klass, x=x, base=base, ch=ch):
                    return klass(x, **dict(copy.deepcopy(base), **ch))
                for post in [list(pub)] + [[g] + [h for h in pub if h != g] for g in pub[1:]]:
                    line = 'C14 reparam %s %s %s %s %s' % (cls, il(cfg), il(gid[g] for g in pre), il(sid[k] for k in ch), ol(gid[g] for g in post))
                    E.append(Sw('reparam', cls, '+'.join(sorted(ch)), table, line, make, switch, fresh, pre, post, 'reset+' + '+'.join(sorted(ch))))
    # Epochs slicing, class and user subclass
    table = tb['Epochs']
    oc.wrap_getters(ts.Epochs, table['getters'])
    rs = oc._rs(seed, 'Epochs/slice')
    st = np.sort(rs.randint(0, 1000, 6)).astype(float)
    du = rs.randint(1, 50, 6).astype(float)
    perm = [int(i) for i in rs.permutation(6)]
    KEYS = [slice(1, 4), slice(0, 2), 3, -1, slice(None, None, -1), slice(None, None, 2), slice(4, 0, -2), slice(None),
            [0, 0, 1, 1], perm, np.array(perm[::-1]), [5, 0, 3, 3, 1, 2], np.array([2, 2, 2, 2, 2, 2]),
            np.array([True] * 6), np.array([True, False, True, True, False, True]), [1]]
    for sub in (False, True):
        for pre in ([], ['duration']):
            for ki, key in enumerate(KEYS):
                for twice in (False, True, 'prior'):
                    if twice is True and not isinstance(key, (list, np.ndarray)) and key not in (slice(None, None, -1), slice(None)):
                        continue
                    if twice == 'prior' and (not pre or ki >= 8):
                        continue

                    def make(sub=sub):
                        e = ts.Epochs(st, duration=du, time_unit='s')
                        if sub:
                            e.__class__ = subclass_of(ts.Epochs)
                        return e

                    def switch(obj, key=key, twice=twice):
                        if twice == 'prior':   # the SAME parent was sliced (and the slice read) before
                            _ = obj[1:5].duration
                            _ = obj[0:2]
                            return obj[key]
                        r = obj[key]
                        if twice:          # select, read, select again with a reordering of the same length
                            _ = r.duration
                            r = r[::-1]
                        return r

                    def fresh(key=key, twice=twice):
                        k = np.asarray(key) if isinstance(key, list) else key
                        s2, d2 = st[k], du[k]
                        if twice is True:
                            s2, d2 = s2[::-1], d2[::-1]
                        return ts.Epochs(s2, duration=d2, time_unit='s')
                    nm = ('sub:' if sub else '') + 'Epochs'
                    kt = 'key%d%s' % (ki, 'p' if twice == 'prior' else ('r' if twice else ''))
                    line = 'C14 slice %s - %s %s' % (nm, il([0] if pre else []), kt)
                    E.append(Sw('slice', nm, 'key=%s%s' % (str(key).replace('\n', ''), ' after earlier slices of the same parent' if twice == 'prior' else (' then [::-1]' if twice else '')), table, line, make, switch, fresh, pre,
                                ['duration'], 'slice'))
    return E


_EXP = {}


def exps(seed, tier, rng=None):
    if (seed, tier) not in _EXP:
        _EXP[(seed, tier)] = experiments(seed, tier, rng or common.make_rng(PID, seed, 'corr'))
    return _EXP[(seed, tier)]


def parse(s):
    parts = s.split('|')
    surv = parts[0].split('=')[1]
    surv = set() if surv == '-' else {int(x) for x in surv.split(',')}
    reads = []
    for p in parts[1:]:
        g, r = p.split(':s=')
        reads.append((int(g), r))
    return surv, reads


def cmp_switch(impl, model, raised=frozenset()):
    """`raised`: getters that raised before the switch (a raising getter stores nothing; the model has
    no exceptions and takes them as stored)"""
    try:
        (sa, ra), (sb, rb) = parse(impl), parse(model)
    except Exception:
        return False
    if not (sa <= sb and (sb - sa) <= set(raised)) or len(ra) != len(rb):
        return False
    for (g1, r1), (g2, r2) in zip(ra, rb):
        if g1 != g2 or (r2 == '1' and r1 != '1'):
            return False
    return True


def cases(rng, tier, seed):
    out = []
    for i, sw in enumerate(exps(seed, tier, rng)):
        gid = {g: k for k, g in enumerate(sw.table['getters'])}
        surv, reads, stale, raised = run_switch(sw)
        impl = '|'.join(['surv=' + il(gid[g] for g in surv)] + ['%d:s=%s' % (gid[g], '1' if a == b else '0') for (g, a, b) in reads])
        out.append(Case(sw.line, impl, '%s/%s' % (sw.kind, sw.cls), cmp=functools.partial(cmp_switch, raised=frozenset(gid[g] for g in raised)),
                        meta={'i': i, 'surv': surv, 'stale': stale, 'reads': reads, 'cls': sw.cls, 'label': sw.label,
                              'pre': sw.pre, 'tag': sw.keytag, 'kind': sw.kind},
                        nontrivial=bool(sw.pre)))
    # PROCESS-level sessions (each in its own fresh process, judged against fresh objects in other fresh processes):
    # base / derived / user / sibling objects re-targeted and reset in every order; two analyzers built with
    # method=None / own / one shared dict on inputs of different rates and then re-targeted
    out += OS.build_cases(PID, 'c14', seed, tier, rng)
    return out


def judge(m):
    out = []
    C = m['cls']
    for (g, here, fr) in m['reads']:
        if here != fr:
            sym = 'raises' if here.startswith('err') and not fr.startswith('err') else 'differs-from-new-object'
            out.append(('%s/%s/%s/%s' % (C, g, sym, m['tag']),
                        '%s(%s): after the switch (%s; read before: %s) `%s` %s (here %s, new object %s)' % (
                            C, m['label'], m['tag'], m['pre'], g,
                            'raises where a newly built analyzer returns a value' if sym == 'raises' else 'differs from a newly built analyzer',
                            here if here.startswith('err') else 'value', fr if fr.startswith('err') else 'value')))
    for g in m['stale']:
        out.append(('%s/%s/survives-the-switch/%s' % (C, g, m['tag']),
                    '%s(%s): `%s` computed before the switch (%s) is still stored afterwards and is not what a new object computes' % (C, m['label'], g, m['tag'])))
    return out


def oracle(rng, tier, seed, focus, cases):
    fails = []
    n = 0
    for c in cases:
        m = c.meta
        if not m or 'session' in m:
            continue
        n += len(m['reads'])
        for key, what in judge(m):
            fails.append(Failure(key, what, {'i': m['i'], 'line': c.line, 'tag': m['tag'], 'cls': m['cls'], 'label': m['label'],
                                             'pre': m['pre'], 'key': key, 'seed': seed, 'tier': tier}, case=c))
    own = own_onetime_experiments()
    fails += own
    sf, sstats = OS.oracle_sessions(PID, seed, tier, cases)
    fails += sf
    return fails, dict({'switches': len(cases), 'reads_compared': n, 'own_onetime_subclass_experiments': OWN_N[0],
                        'distinct_failure_keys': sorted({f.key for f in fails})}, **sstats)


OWN_N = [0]


OWN_BASES = {'CoherenceAnalyzer': {}, 'SpectralAnalyzer': {}, 'NormalizationAnalyzer': {}, 'CorrelationAnalyzer': {}, 'MTCoherenceAnalyzer': {},
             'HilbertAnalyzer': {}, 'GrangerAnalyzer': {'order': 2, 'n_freqs': 16}, 'SNRAnalyzer': {}, 'MorletWaveletAnalyzer': {'freqs': [0.1, 0.2]},
             'SparseCoherenceAnalyzer': {'ij': [(0, 1), (1, 2)]}}
OWN_ORDERS = ('ancestor-first', 'subclass-first', 'base-analyzer-first', 'mixin-first')


# WHERE the user subclass gets its one-time result from (the class of the MRO whose dictionary holds the getter):
#   body           the subclass body itself                                   class Own(X): total
#   rm-base        an intermediate base derived from the nitime class          class Mid(X): total;  class Own(Mid)
#   rm-mixin       a mix-in that itself derives from ResetMixin                class Mix(ResetMixin): total;  class Own(X, Mix)
#   mixin-after    a PLAIN mix-in (derives from object only), listed after X   class Mix: total;  class Own(X, Mix)
#   mixin-before   the same, listed before X                                   class Own(Mix, X)
#   grand-mixin    a plain mix-in two levels up                                class Mix: total;  class Mid(X, Mix);  class Own(Mid)
#   mixin-parent   the getter sits in the PARENT of the plain mix-in           class Top: total;  class Mix(Top);  class Own(Mix, X)
# `reset` has to forget the result wherever in the MRO its getter lives (C14-16: the walk skipped every class that is
# not derived from ResetMixin).
OWN_WHERE = ('rm-base', 'rm-mixin', 'mixin-after', 'mixin-before', 'grand-mixin', 'mixin-parent')
OWN_WHERE_ORDERS = ('subclass-first', 'ancestor-first')


own_class = OS.own_class


def own_keys():
    ks = []
    for b in OWN_BASES:
        for order in OWN_ORDERS:
            for opn in ('set_input', 'reset'):
                ks.append('own-onetime/%s/stale-after-%s/%s' % (b, opn, order))
    for order in ('ancestor-first', 'subclass-first', 'mixin-first'):
        ks.append('own-onetime/Epochs/stale-after-slice/%s' % order)
    # the same experiments with the getter in another class of the MRO (`<order>@<where>`)
    for b in OWN_BASES:
        for where in OWN_WHERE:
            for order in OWN_WHERE_ORDERS:
                for opn in ('set_input', 'reset'):
                    ks.append('own-onetime/%s/stale-after-%s/%s@%s' % (b, opn, order, where))
    for where in OWN_WHERE:
        for order in OWN_WHERE_ORDERS:
            ks.append('own-onetime/Epochs/stale-after-slice/%s@%s' % (order, where))
    return ks


def own_one(key):
    """ONE experiment, run in a fresh process (harness/onetime_server.py): a user subclass that defines its OWN one-time
    result, re-targeted / reset / sliced after an instance of an ancestor class (its direct base, a bare BaseAnalyzer,
    a bare ResetMixin) has been through the same operation, or before: nothing computed for the previous state may
    survive.  The expected values are computed here from the data.  -> [[key, what]]"""
    import nitime.descriptors as desc
    import nitime.analysis as na
    import nitime.timeseries as ts
    from nitime.analysis.base import BaseAnalyzer
    out = []
    _, base_name, opn, order = key.split('/')
    order, _, where = order.partition('@')
    where = where or 'body'
    opn = opn[len('stale-after-'):]
    rs = np.random.RandomState(5)
    x1 = ts.TimeSeries(rs.randn(3, 128), sampling_rate=10.0)
    x2 = ts.TimeSeries(rs.randn(3, 96) * 2 + 1, sampling_rate=20.0)
    if base_name != 'Epochs':
        base = getattr(na, base_name)
        kw = OWN_BASES[base_name]

        def total(self):
            x = self.__dict__.get('input')      # (GrangerAnalyzer keeps no `input` before set_input)
            return float(np.sum(x.data if x is not None else self.data)) + float(getattr(self, 'bias', 0.0))
        Sub = own_class(base, {'total': total}, where, 'Own' + base_name)
        try:
            with oc.quiet():
                if order == 'ancestor-first':
                    a = base(x1, **copy.deepcopy(kw))
                    a.set_input(x2) if opn == 'set_input' else a.reset()
                elif order == 'base-analyzer-first':
                    a = BaseAnalyzer(x1)
                    a.set_input(x2) if opn == 'set_input' else a.reset()
                elif order == 'mixin-first':
                    desc.ResetMixin().reset()
                s_ = Sub(x1, **copy.deepcopy(kw))
                _ = s_.total
                if 'total' not in s_.__dict__:
                    out.append([key + '/not-memoised', 'the one-time result was not stored on first read'])
                if opn == 'set_input':
                    s_.set_input(x2)
                    want = float(np.sum(x2.data))
                else:
                    s_.reset()
                    s_.bias = 3.5
                    want = float(np.sum(x1.data)) + 3.5
                got = s_.total
            if got != want:
                out.append([key, 'a user subclass of %s with its own one-time result kept the value computed before %s (%s): got %r, a new object gives %r' % (
                    base_name, opn, order, got, want)])
        except Exception as e:  # noqa
            out.append([key + '/raises', '%s: %r' % (key, e)])
        return out

    def midpoint(self):
        return np.asarray(self.start) + np.asarray(self.duration) // 2
    SubE = own_class(ts.Epochs, {'midpoint': midpoint}, where, 'OwnEpochs')
    st = np.arange(0.0, 60.0, 10.0)
    if order == 'ancestor-first':
        e0 = ts.Epochs(st, duration=np.full(6, 4.0))
        _ = e0.duration
        _ = e0[1:3].duration
    elif order == 'mixin-first':
        desc.ResetMixin().reset()
    e = SubE(st, duration=np.full(6, 4.0))
    _ = e.midpoint
    _ = e.duration
    sl = e[2:5]
    want = np.asarray(sl.start) + np.asarray(sl.stop - sl.start) // 2
    got = np.asarray(sl.midpoint)
    if got.shape != want.shape or not np.array_equal(got, want):
        out.append([key, 'a slice of an Epochs subclass kept the parent\'s memoised result (%s)' % order])
    if len(sl.duration) != 3:
        out.append([key, 'a slice of an Epochs subclass kept the parent\'s duration (%s)' % order])
    # the SAME parent sliced again, a slice of the slice, and the parent itself afterwards
    d_parent = np.asarray(e.duration).copy()
    _unread = e[0:2]                 # a slice that is never read (bookkeeping shared through the copied instance dict)
    sl2 = e[1:3]
    want2 = np.asarray(sl2.start) + np.asarray(sl2.stop - sl2.start) // 2
    if len(sl2.duration) != 2 or np.asarray(sl2.midpoint).shape != want2.shape or not np.array_equal(np.asarray(sl2.midpoint), want2):
        out.append([key + '/second-slice', 'the second slice taken from the same parent kept the parent\'s memoised results (%s)' % order])
    sl3 = sl[0:2]
    if len(sl3.duration) != 2 or np.asarray(sl3.midpoint).shape != (2,):
        out.append([key + '/slice-of-slice', 'a slice of a slice kept memoised results of its parent (%s)' % order])
    if not np.array_equal(np.asarray(e.duration), d_parent) or len(e.midpoint) != 6:
        out.append([key + '/parent-changed', 'slicing changed the parent\'s own memoised results (%s)' % order])
    return out


def own_onetime_experiments(only=None):
    keys = [k for k in own_keys() if only is None or k == only or only.startswith(k + '/')]
    ans = OS.ask_many([{'kind': 'call', 'module': 'c14', 'func': 'own_one', 'args': [k]} for k in keys])
    OWN_N[0] = len(keys)
    fails = []
    for a in ans:
        for key, what in a['result']:
            fails.append(Failure(key, what, {'own': key, 'key': key}))
    return fails


def replay(d):
    if d.get('session'):
        return OS.replay_session(d)
    if d.get('own'):
        fs = own_onetime_experiments(only=d['own'])
        return fs[0] if fs else None
    E = exps(d.get('seed', 0), d.get('tier', 'quick'))
    for i, sw in enumerate(E):
        if sw.line == d['line'] and sw.keytag == d['tag'] and sw.label == d['label'] and sw.cls == d['cls']:
            surv, reads, stale, _ = run_switch(sw)
            m = {'cls': sw.cls, 'label': sw.label, 'pre': sw.pre, 'tag': sw.keytag, 'reads': reads, 'stale': stale}
            for key, what in judge(m):
                if key == d['key']:
                    return Failure(key, what, d)
            return None
    return Failure(d['key'], 'experiment no longer exists: ' + d['line'], d)
