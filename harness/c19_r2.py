"""C19, round 2: the classes L7 (failure paths, guards) and L8 (aliasing) for every entry point of the event-related
analyzer.  Imported lazily by c19.py (and imports it lazily): generators of the new input families, the build variants
(views of one base array, caller-side codes), and the property-level checks on ONE analyzer object around refused reads.

L7 (1)  failure histories: a family of reads that RAISE part-way (channel k fails after channels < k succeeded: an event whose
        window leaves the recording, rows with different numbers of codes -> ragged, an events series of another length,
        Events outside the recording, xcorr_eta with zscore, refused constructor arguments), exception caught here;
        afterwards byte/attribute snapshots of the inputs and of the analyzer, the other reads on the SAME object, the same
        object after the caller repaired the stored arrays in place, a NEW analyzer on the same (repaired) input objects --
        all compared with a fresh analyzer on fresh equal inputs and with the planted truth.
L7 (2)  both sides of every comparison of the anchored code (see Generated/C19Guards.lean for the list): occurrence counts per
        type around 127/128, 255/256, 32767/32768, exactly-zero channels next to tiny ones, events at the first / last
        admissible sample, offsets 0 / L-1 / L / L+1, the shortest recording that fits, codes 1.5 / 200 / -0.0 / 70000.
L8      data and events as views of ONE base array, the same object in both roles, strided / reversed / transposed views,
        Events cut out of the recording's own time axis, two analyzers on the same input objects with the caller changing an
        input in place between reads, results that share memory with an argument.
"""
import warnings
import numpy as np
from common import Case, Failure, err_kind, ilist


def B():
    import c19
    return c19


# ------------------------------------------------------------------ caller-side codes (L7-2: `!= 0`, `== t`, np.sign)
def real_codes(sp):
    """the event row as the caller writes it.  The spec's `ev` holds small integers (what the model and the oracle
    use); `codes_real` maps them, order- and sign-preserving, to the caller's codes (1.5, 200, 70000, -0.5 ...): every
    comparison the estimators make (`!= 0`, `== t`, sorting, np.sign) is invariant under such a map.  `negzero`: some of
    the no-event samples are written as -0.0 (equal to 0 for every comparison)."""
    ev = list(sp['ev'])
    m = sp.get('codes_real')
    if m:
        ev = [float(m.get(str(int(c)), c)) for c in ev]
    if sp.get('negzero'):
        ev = [(-0.0 if (c == 0 and i % 3 == 1) else float(c)) for i, c in enumerate(ev)]
    return ev


POS_CODES = [1e-9, 0.25, 0.5, 1.5, 2.5, 127.0, 128.0, 200.0, 255.0, 256.0, 32768.0, 70000.0, 1e9]
NEG_CODES = [-1e6, -300.0, -128.0, -2.5, -0.5]
BYTE_CODES = [1.0, 2.0, 127.0, 128.0, 129.0, 200.0, 254.0, 255.0]


def with_codes(rng, sp):
    """the same design with caller-side codes that are not small integers: fractions (1.5), codes beyond 127 / 255 / 32767,
    negative fractions, codes held in a uint8 event array (128..255), no-event samples written as -0.0"""
    used = sorted({int(c) for c in sp['ev'] if c != 0})
    pos, neg = [c for c in used if c > 0], [c for c in used if c < 0]
    q = dict(sp)
    q.pop('rank_deficient', None)
    byte = not neg and rng.random() < 0.4
    pv = sorted(rng.sample(BYTE_CODES if byte else POS_CODES, len(pos)))
    nv = sorted(rng.sample(NEG_CODES, len(neg)))
    q['codes_real'] = {str(c): v for c, v in list(zip(neg, nv)) + list(zip(pos, pv))}
    if byte:
        q['evdtype'] = 'uint8'
    q['negzero'] = not byte and rng.random() < 0.6
    q['evfloat'] = True
    return q


# ------------------------------------------------------------------ L8: views of one base array
ALIASES = ['rowview', 'interleaved', 'reversed', 'colstrided', 'transposed', 'samearray']


def alias_arrays(sp, data, ev):
    """the arrays the series are built from, as VIEWS: `rowview` data rows and event rows of ONE array; `interleaved` every
    second row of one array (data rows first, event rows after); `reversed` negative strides; `colstrided` every second
    column of a wider array; `transposed` a Fortran-ordered view; `samearray` / `same` one ndarray (one series) in both roles.
    Values are those of the spec (expectation = independent equal-valued arguments)."""
    form = sp['alias']
    d2 = np.atleast_2d(data)
    C, N = d2.shape
    one_d = data.ndim == 1

    def back(a):
        return a[0] if one_d else a
    if form in ('rowview', 'interleaved') and ev is not None:
        e2 = np.atleast_2d(ev)
        dt = np.result_type(d2.dtype, e2.dtype)
        step = 2 if form == 'interleaved' else 1
        base = np.full(((C + e2.shape[0]) * step, N), 77, dtype=dt)
        base[:C * step:step] = d2
        base[C * step::step] = e2
        dv, evv = base[:C * step:step], base[C * step::step]
        return back(dv), (evv[0] if ev.ndim == 1 else evv)
    if form in ('same', 'samearray') and ev is not None:
        return data, data
    if form == 'reversed':
        base = np.ascontiguousarray(d2[:, ::-1])
        dv = base[:, ::-1]
        if ev is not None:
            eb = np.ascontiguousarray(np.atleast_2d(ev)[::-1, ::-1])
            evv = eb[::-1, ::-1]
            ev = evv[0] if ev.ndim == 1 else evv
        return back(dv), ev
    if form == 'colstrided':
        base = np.full((C, 2 * N + 1), 55, dtype=d2.dtype)
        base[:, 1::2] = d2
        return back(base[:, 1::2]), ev
    if form == 'transposed':
        base = np.ascontiguousarray(d2.T)
        return back(base.T), ev
    return data, ev


def with_alias(sp, form):
    q = dict(sp)
    q.pop('rank_deficient', None)
    q['alias'] = form
    for k in ('dtype', 'evdtype', 'ro'):
        q.pop(k, None)
    return q


def self_coded(rng, what):
    """f(x, x): an integer-coded recording analysed against itself (the series holds event codes; the estimate is the
    average window of the code series after each code).  Not planted: judged by `direct_values` (eta / ets / et_data), by the
    model, and against the same call with two independent equal-valued series."""
    bb = B()
    L = rng.randint(2, 4)
    off = rng.choice([0, 0, 1])
    codes = rng.sample([1, 2, 3], rng.randint(1, 2))
    N = rng.randint(6 * L + 10, 8 * L + 30)
    ev = bb.gen_placement(rng, N, L, off, codes, what != 'fir', per_type_min=2)
    while ev is None:
        N += 2 * L + 2
        ev = bb.gen_placement(rng, N, L, off, codes, what != 'fir', per_type_min=2)
    si, unit = rng.choice(bb.SIS)
    return {'kind': 'series', 'what': what, 'off': off, 'L': L, 'cb': False, 'zs': False, 'si': si, 'unit': unit, 'nch': 0, 'N': N,
            'evch': 0, 'ev': ev, 'data': [float(c) for c in ev], 'resp': [], 'planted': False, 'integer': True,
            'alias': rng.choice(['same', 'samearray'])}


# ------------------------------------------------------------------ L7-2: both sides of the guards / ranges
def count_spec(rng, what, count, kind='series'):
    """ONE code occurring exactly `count` times (counts on both sides of 127/128, 255/256, 32767/32768: XᵀX's diagonal,
    the number of averaged windows), response length 2 (3), overlapping for FIR, separated for the averages"""
    bb = B()
    L = 2 if count > 300 else rng.choice([2, 3])
    off = rng.choice([0, 1])
    code = rng.choice([1, 2, -1]) if kind == 'series' else 1
    if what == 'fir':
        N = count + count // 3 + off + L + 2
        free = list(range(0, N - off - L + 1))
        pos = sorted(rng.sample(free, count))
    else:
        gap = L + (1 if count < 300 else 0)
        N = count * gap + off + L + 3
        start = rng.randint(0, 2)
        pos = [start + i * gap for i in range(count)]
    ev = [0] * N
    for k in pos:
        ev[k] = code
    r = [float(rng.randint(-9, 9) or 2) for _ in range(L)]
    resp = [{str(code): r}]
    si, unit = rng.choice(bb.SIS)
    sp = {'kind': 'series', 'what': what, 'off': off, 'L': L, 'cb': False, 'zs': False, 'si': si, 'unit': unit, 'nch': 0, 'N': N,
          'evch': 0, 'ev': ev, 'data': bb.plant(ev, resp[0], L, off, N), 'resp': resp, 'planted': True, 'integer': True,
          'evfloat': False, 'many': True, 'edge': 'count'}
    if kind == 'events':
        sps = bb.si_ps(si, unit)
        sp.update(kind='events', times=[k * sps for k in pos], slots=pos, resp=[{'1': r}])
        sp.pop('ev')
    return sp


def edge_specs(rng, tier):
    """events at the first and at the last admissible sample, the shortest recording that fits, offsets 0 / L-1 / L / L+1
    (series) and -L / -1 / L (Events), one event type, exactly-zero channels next to tiny ones"""
    bb = B()
    out = []
    for what in ('fir', 'eta', 'ets', 'etdata'):
        L = rng.randint(2, 6)
        for off in (0, L - 1, L, L + 1):
            code = rng.choice([1, 3, -2])
            # two occurrences: sample 0 and the last admissible sample; nothing else; N is the smallest that fits
            N = L + off + L
            ev = [0] * N
            ev[0] = code
            ev[N - off - L] = code
            r = [float(rng.randint(-9, 9) or 1) for _ in range(L)]
            resp = [{str(code): r}]
            si, unit = rng.choice(bb.SIS)
            out.append({'kind': 'series', 'what': what, 'off': off, 'L': L, 'cb': what in ('eta', 'ets') and off == L, 'zs': False, 'si': si,
                        'unit': unit, 'nch': 0, 'N': N, 'evch': 0, 'ev': ev, 'data': bb.plant(ev, resp[0], L, off, N), 'resp': resp,
                        'planted': True, 'integer': True, 'evfloat': False, 'edge': 'first-last'})
            if what != 'ets':
                # ONE occurrence whose window is the whole recording (len_et + offset = N: the largest len_et that fits)
                L1 = rng.choice([2, L, rng.randint(9, 32)])
                N1 = L1 + off
                r1 = [float(rng.randint(-9, 9) or 1) for _ in range(L1)]
                e1 = [code] + [0] * (N1 - 1)
                out.append({'kind': 'series', 'what': what, 'off': off, 'L': L1, 'cb': False, 'zs': False, 'si': si, 'unit': unit, 'nch': 0, 'N': N1,
                            'evch': 0, 'ev': e1, 'data': bb.plant(e1, {str(code): r1}, L1, off, N1), 'resp': [{str(code): r1}], 'planted': True,
                            'integer': True, 'evfloat': False, 'edge': 'whole-recording'})
    for what in ('eta', 'ets'):
        L = rng.randint(2, 6)
        for off in (-L, -1, 0, L):
            lo = max(0, -off)
            N = lo + 2 * L + max(off, 0)
            slots = [lo, N - L - max(off, 0)]
            si, unit = rng.choice(bb.SIS)
            sps = bb.si_ps(si, unit)
            r = [float(rng.randint(-9, 9) or 1) for _ in range(L)]
            y = [0.0] * N
            for k in slots:
                for j in range(L):
                    y[k + off + j] += r[j]
            out.append({'kind': 'events', 'what': what, 'off': off, 'L': L, 'cb': off == 0, 'zs': False, 'si': si, 'unit': unit, 'nch': 0,
                        'N': N, 'evch': 0, 'times': [k * sps for k in slots], 'slots': slots, 'data': y, 'resp': [{'1': r}],
                        'planted': True, 'integer': True, 'edge': 'first-last'})
    # exactly-zero channels next to tiny / ordinary ones (a zero channel's estimate is 0 = its planted response)
    for what in ('fir', 'eta', 'ets', 'etdata'):
        sp = bb.gen_series(rng, tier, what, nch=rng.choice([2, 3]))
        C = bb.n_channels(sp)
        g = [rng.choice([1e-11, 1e-9, 2.0 ** -40, 1.0]) for _ in range(C)]
        g[rng.randrange(C)] = 0.0
        q = bb.scale_spec(sp, g)
        q['edge'] = 'zero-channel'
        out.append(q)
    return out


def guard_specs(rng, tier):
    bb = B()
    out = list(edge_specs(rng, tier))
    counts = [127, 128, 129, 255, 256, 257]
    for i, c in enumerate(counts):
        out.append(count_spec(rng, 'fir', c))
        w = ('eta', 'ets', 'etdata')[i % 3]
        out.append(count_spec(rng, w, c))
        out.append(count_spec(rng, ('eta', 'ets')[i % 2], c, kind='events'))
    big = [32767, 32768, 65536] if tier == 'thorough' else [32768]
    for c in big:
        out.append(count_spec(rng, 'fir', c))
        out.append(count_spec(rng, 'eta', c))
    for i in range(6 if tier == 'quick' else 40):
        for what in ('fir', 'eta', 'ets', 'etdata'):
            out.append(with_codes(rng, bb.gen_series(rng, tier, what)))
    return out


def alias_specs(rng, tier):
    bb = B()
    out = []
    for i in range(3 if tier == 'quick' else 20):
        for what in ('fir', 'eta', 'ets', 'etdata'):
            for k, form in enumerate(ALIASES):
                if (i + k) % 2 and tier == 'quick':
                    continue
                sp = bb.gen_series(rng, tier, what)
                if what in ('eta', 'ets') and rng.random() < 0.5:
                    sp['cb'] = True
                if form == 'samearray':
                    out.append(self_coded(rng, what))
                else:
                    out.append(with_alias(sp, form))
        for what in ('eta', 'ets'):
            sp = bb.gen_events(rng, tier, what)
            out.append(with_alias(sp, rng.choice(['reversed', 'colstrided', 'transposed'])))
            sp = bb.gen_events(rng, tier, what)
            if all(t == k * bb.si_ps(sp['si'], sp['unit']) for t, k in zip(sp['times'], sp['slots'])):
                out.append(with_alias(sp, 'timeview'))
    return out


# ------------------------------------------------------------------ snapshots of everything involved
def _b(x):
    return np.ascontiguousarray(np.asarray(x)).tobytes()


def obj_state(x):
    """data bytes, dtype/shape/strides, the time-axis attributes, metadata and the attribute names of an input object"""
    ts = B().nt()[0]
    out = {'attrs': sorted(vars(x)) if hasattr(x, '__dict__') else []}
    if isinstance(x, ts.TimeSeries):
        d = x.data
        out.update(data=_b(d), layout=(str(d.dtype), d.shape, d.strides, d.flags.writeable), t0=_b(x.t0), si=_b(x.sampling_interval),
                   rate=_b(x.sampling_rate), unit=x.time_unit, meta=repr(sorted(x.metadata.items())) if isinstance(x.metadata, dict) else repr(x.metadata))
        if 'time' in vars(x):
            out['time'] = _b(x.time)
    elif isinstance(x, ts.Events):
        out.update(time=_b(x.time), unit=x.time_unit, data=_b(x.data) if getattr(x, 'data', None) is not None else b'')
    elif isinstance(x, np.ndarray):
        out.update(data=_b(x))
    else:
        out.update(repr=repr(x))
    return out


GETTERS = ('FIR', 'eta', 'ets', 'et_data', 'xcorr_eta', 'FIR_estimate')


def analyzer_state(a):
    """the analyzer's own attributes: names (a private attribute that survives a refused read shows here) and the values of
    everything that is not a stored result"""
    out = {'attrs': sorted(k for k in vars(a) if k not in GETTERS)}
    for k, v in vars(a).items():
        if k in GETTERS:
            continue
        if k in ('data', 'events'):
            out[k] = B()._bytes(v)
        elif isinstance(v, (int, float, bool, str, type(None))):
            out[k] = repr(v)
        else:
            try:
                out[k] = _b(v)
            except Exception:  # noqa
                out[k] = repr(type(v))
    return out


def full_snapshot(a, T, E):
    s = {}
    for name, o in (('input-series', T), ('input-events', E)):
        for k, v in obj_state(o).items():
            s[name + '.' + k] = v
    if a is not None:
        for k, v in analyzer_state(a).items():
            s['analyzer.' + k] = v
    return s


def diff(s1, s2):
    return sorted(k for k in set(s1) | set(s2) if s1.get(k) != s2.get(k))


# ------------------------------------------------------------------ L7-1: failure histories on ONE analyzer object
SERIES_FAMILIES = ['end-event', 'ragged', 'events-shorter', 'xcorr-zscore', 'nan-channel', 'inf-channel', 'ctor-refused', 'offset-float']
EVENTS_FAMILIES = ['time-outside', 'unsupported-getters', 'ctor-refused']


def fail_base(rng, tier, kind, family=''):
    """a good planted design every getter has a truth for (separated, positive codes, FIR full rank), 2-3 channels with
    per-row events (series) so that the failing item can be a LATER channel"""
    bb = B()
    if kind == 'events':
        sp = bb.gen_events(rng, tier, 'eta')
        sp['zs'] = False
        return sp
    while True:
        sp = bb.gen_series(rng, tier, 'ets', positive=True, off=rng.choice([2, 3]), nch=rng.choice([2, 3] if family in ('ragged', 'nan-channel', 'inf-channel') else [2, 3, 2, 0, 1]))
        sp['zs'] = False
        sp['cb'] = rng.random() < 0.3
        C, N = bb.n_channels(sp), sp['N']
        if sp['nch'] >= 2 and not sp['evch']:      # per-row events: rows may then differ
            sp['ev'] = sp['ev'] * C
            sp['evch'] = C
        rows = bb.ev_rows(sp)
        # the last 5 samples of every row carry no event (room for the failing / cut items)
        if all(all(c == 0 for c in r[N - 5:]) for r in rows) and bb.full_rank(dict(sp, what='fir')):
            return sp


def failing_variant(rng, sp, family):
    """(bad spec, kbad, repair) for a series-input family; None when the family does not apply to the design.
    `repair` = list of (row, sample) of the EVENT array to set to 0 to get the good spec back."""
    bb = B()
    C, N, L, off = bb.n_channels(sp), sp['N'], sp['L'], sp['off']
    kbad = rng.randrange(1, C) if C >= 2 else 0
    q = dict(sp)
    q.pop('rank_deficient', None)
    q['planted'] = False
    ev = list(sp['ev'])
    row0 = (kbad if sp['evch'] else 0) * N
    if family == 'end-event':
        if off < 2 or off - 1 >= L:         # (np.roll would wrap the event to the front: FIR then does not refuse)
            return None
        code = bb.my_types(ev[row0:row0 + N])[0]
        ev[row0 + N - 1] = code             # its window [N-1+off, N-1+off+L) leaves even the padded arrays
        q['ev'] = ev
        return q, kbad, [(kbad if sp['evch'] else 0, N - 1)]
    if family == 'ragged':
        if C < 2 or not sp['evch']:
            return None
        p = N - off - L
        while p > 0 and ev[row0 + p] != 0:
            p -= 1
        if ev[row0 + p] != 0:
            return None
        ev[row0 + p] = 9                    # one more code in row kbad only (its window lies inside the recording)
        q['ev'] = ev
        return q, kbad, [(kbad, p)]
    return None


def reads(a, order):
    bb = B()
    out = []
    for w in order:
        try:
            o = bb.read(a, w)
            out.append((w, o, bb.canon_read(w, o)))
        except Exception as e:  # noqa
            out.append((w, None, 'err ' + err_kind(e)))
    return out


def fresh_of(sp, w):
    bb = B()
    q = dict(sp)
    q.update(kind=sp.get('base', sp['kind']), what=w)
    return bb.run_impl(q)


def truth_failure(sp, w, got):
    """judge one read against the planted truth / the direct computation of spec `sp`"""
    bb = B()
    if w == 'xcorr':
        return None
    q = dict(sp)
    q.update(what=w)
    q.pop('rank_deficient', None)
    if w == 'fir':
        q['rank_deficient'] = not bb.full_rank(q)
    f = bb.check_case(Case('', got, 'fail', meta=q))
    if f is not None and f.key.startswith('fir/negative-code'):
        return None
    return f


def failure_failures(sp, family, seed=0):
    """all failures of one failure history (see module docstring); replayable from (spec, family, seed)"""
    import random
    bb = B()
    rng = random.Random(seed)
    ts, ERA, _ = bb.nt()
    rp = {'spec': sp, 'fail': family, 'fseed': seed}
    out = {}

    def add(key, what):
        out.setdefault(key, Failure(key, what, dict(rp)))
    kind = sp['kind']
    ws = ['fir', 'eta', 'ets', 'etdata'] if kind == 'series' else ['eta', 'ets']

    def judge(tag, a_reads, ref_sp, truth=True):
        for w, _, c in a_reads:
            fr = fresh_of(ref_sp, w)
            if not bb.same_out(dict(ref_sp, what=w), w, c, fr):
                add('failure/%s/%s/%s/value' % (family, tag, w), '%s read %s differs from a fresh analyzer on fresh equal inputs: %s vs %s' % (
                    w, tag, c[:120], fr[:120]))
            elif truth and c.startswith('ok'):
                f = truth_failure(ref_sp, w, c)
                if f is not None:
                    add('failure/%s/%s/%s/truth' % (family, tag, w), f.what)

    def watch(a, T, E, order, label):
        """reads with a snapshot around each; reports mutation of inputs / leftovers on the analyzer"""
        res = []
        for w in order:
            before = full_snapshot(a, T, E)
            r = reads(a, [w])[0]
            after = full_snapshot(a, T, E)
            ch = diff(before, after)
            inp = [k for k in ch if not k.startswith('analyzer.')]
            # reading an input's `.time` etc. for the first time stores it on the input: bookkeeping, not a change of values
            inp = [k for k in inp if not k.endswith('.attrs')]
            if inp:
                add('failure/%s/%s/input-mutated' % (family, w), 'the %s read (%s, %s) changed %s' % (w, label, r[2][:40], ','.join(inp)))
            left = [k for k in ch if k.startswith('analyzer.')]
            if r[2].startswith('err') and left:
                add('failure/%s/%s/state-left-behind' % (family, w), 'the refused %s read (%s) changed the analyzer: %s' % (w, r[2], ','.join(left)))
            elif left and any(k != 'analyzer.attrs' for k in left):
                add('failure/%s/%s/input-mutated' % (family, w), 'the %s read (%s) changed the analyzer\'s stored %s' % (w, label, ','.join(left)))
            res.append(r)
        return res

    with warnings.catch_warnings():
        warnings.simplefilter('ignore')
        if family in ('end-event', 'ragged'):
            fv = failing_variant(rng, sp, family)
            if fv is None:
                return []
            bad, kbad, repair = fv
            a, T, E = bb.build(bad)
            order = ws[:]
            rng.shuffle(order)
            got = watch(a, T, E, order + order[:2], 'channel %d refused' % kbad)
            expect_err = set(ws) if family == 'end-event' else {'fir', 'eta', 'ets'}
            for w, _, c in got:
                if w in expect_err and not c.startswith('err'):
                    add('failure/%s/%s/not-refused' % (family, w), '%s returned %s for an input it cannot handle (channel %d)' % (w, c[:80], kbad))
            judge('same-object', [r for r in got if r[0] not in expect_err], bad, truth=True)
            # the caller repairs the analyzer's stored event array in place; nothing was stored by the refused reads, so the
            # next reads are computed from the repaired arrays
            o = sp['off']
            for (row, k) in repair:
                (a.events[row] if not isinstance(a.events, list) or len(a.events) > row else a.events[0])[o + k] = 0
            # ... and rescales the stored recording of channel 0 (a channel that HAD been worked on before the refusal): x2
            C = bb.n_channels(sp)
            a.data[0][...] = a.data[0] * 2.0
            sp_r = bb.scale_spec(sp, [2.0] + [1.0] * (C - 1))
            got2 = watch(a, T, E, [w for w in order if w in expect_err], 'after repair')
            judge('after-repair', got2, sp_r)
            # ... and repairs the INPUT event series in place: a new analyzer on the same input objects
            for (row, k) in repair:
                if E.data.ndim == 2:
                    E.data[row, k] = 0
                else:
                    E.data[k] = 0
            b, _, _ = bb.build(sp, shared=(T, E))
            judge('new-analyzer', watch(b, T, E, order, 'new analyzer on the repaired inputs'), sp)
        elif family == 'events-shorter':
            N = sp['N']
            C = bb.n_channels(sp)
            cut = 3
            a0, T, E0 = bb.build(sp)
            ed = E0.data[..., :N - cut].copy()
            E = ts.TimeSeries(ed, sampling_interval=E0.sampling_interval, time_unit=sp['unit'])
            a = ERA(T, E, sp['L'], correct_baseline=bool(sp['cb']), offset=sp['off'])
            got = watch(a, T, E, ['fir', 'eta', 'fir', 'ets', 'etdata', 'fir'], 'events series %d samples shorter' % cut)
            for w, _, c in got:
                if w == 'fir' and not c.startswith('err'):
                    add('failure/%s/fir/not-refused' % family, 'FIR returned %s for an events series of another length than the data' % c[:80])
            judge('same-object', [r for r in got if r[0] != 'fir'], sp)
            b, _, _ = bb.build(sp, shared=(T, E0))
            judge('new-analyzer', watch(b, T, E0, ws, 'new analyzer, full-length events'), sp)
        elif family == 'xcorr-zscore':
            q = dict(sp, zs=True)
            a, T, E = bb.build(q)
            order = ws[:]
            rng.shuffle(order)
            k = rng.randrange(len(order) + 1)
            got = watch(a, T, E, order[:k] + ['xcorr'] + order[k:] + ['xcorr'], 'xcorr_eta with zscore')
            judge('same-object', [r for r in got if r[0] != 'xcorr'], q)
        elif family in ('nan-channel', 'inf-channel'):
            C, N = bb.n_channels(sp), sp['N']
            if C < 2:
                return []
            kbad = rng.randrange(C)
            q = dict(sp, planted=False)
            q.pop('rank_deficient', None)
            d = list(sp['data'])
            for i in range(N):
                if family == 'nan-channel' or i % 4 == 1:
                    d[kbad * N + i] = float('nan') if family == 'nan-channel' else float('inf') * (1 if i % 8 == 1 else -1)
            q['data'] = d
            a, T, E = bb.build(q)
            got = watch(a, T, E, ws, 'channel %d not finite' % kbad)
            # the other channels are estimated as if the bad one were not there
            for w, _, c in got:
                good = fresh_of(sp, w)
                pa, pb = bb.parse_out(c), bb.parse_out(good)
                if pa is None or pb is None or pa[0] != pb[0] or len(pa[1]) != len(pb[1]):
                    add('failure/%s/%s/raises' % (family, w), '%s with a non-finite channel %d: %s (all-finite recording: %s)' % (w, kbad, c[:80], good[:60]))
                    continue
                if w == 'etdata':
                    continue
                A_, B_ = bb.chan_blocks(pa[1], C), bb.chan_blocks(pb[1], C)
                for ch in range(C):
                    if ch != kbad and not bb.close_nan(A_[ch], B_[ch], 1e-9 if w == 'fir' else 1e-12, atol=1e-12):
                        add('failure/%s/%s/other-channel' % (family, w), '%s of the finite channel %d changes when channel %d is not finite: %s vs %s' % (
                            w, ch, kbad, A_[ch][:5], B_[ch][:5]))
        elif family == 'ctor-refused':
            a0, T, E = bb.build(sp)
            s0 = full_snapshot(None, T, E)
            bads = [dict(events=None), dict(events=np.asarray(E.data) if kind == 'series' else [1.0, 2.0]), dict(events='events'),
                    dict(len_et=-2), dict(len_et=None), dict(len_et='3'), dict(offset=None)]
            if kind == 'series':
                bads += [dict(offset=-1), dict(offset=-sp['L'])]
            for kw in bads:
                args = dict(events=E, len_et=sp['L'], offset=sp['off'])
                args.update(kw)
                try:
                    x = ERA(T, args['events'], args['len_et'], correct_baseline=bool(sp['cb']), offset=args['offset'])
                    for w in ws:
                        try:
                            bb.read(x, w)
                        except Exception:  # noqa
                            pass
                except Exception:  # noqa
                    pass
                ch = [k for k in diff(s0, full_snapshot(None, T, E)) if not k.endswith('.attrs')]
                if ch:
                    add('failure/%s/input-mutated' % family, 'a refused constructor call (%s) changed %s' % (sorted(kw), ','.join(ch)))
            b, _, _ = bb.build(sp, shared=(T, E))
            judge('new-analyzer', watch(b, T, E, ws, 'after refused constructor calls'), sp)
        elif family == 'offset-float':
            a0, T, E = bb.build(sp)
            try:
                x = ERA(T, E, sp['L'], correct_baseline=bool(sp['cb']), offset=float(sp['off']))
                watch(x, T, E, ws, 'offset given as float')
            except Exception:  # noqa
                pass
            b, _, _ = bb.build(sp, shared=(T, E))
            judge('new-analyzer', watch(b, T, E, ws, 'after reads with a float offset'), sp)
        elif family == 'unsupported-getters':
            a, T, E = bb.build(sp)
            got = watch(a, T, E, ['fir', 'eta', 'etdata', 'xcorr', 'ets', 'fir'], 'Events input')
            judge('same-object', [r for r in got if r[0] in ('eta', 'ets')], sp)
        elif family == 'time-outside':
            sps = bb.si_ps(sp['si'], sp['unit'])
            bad = dict(sp, planted=False)
            far = (sp['N'] + 5 + max(-sp['off'], 0)) * sps
            bad['times'] = list(sp['times']) + [far]
            bad['slots'] = list(sp['slots']) + [far // sps]
            a, T, E = bb.build(bad)
            got = watch(a, T, E, ['eta', 'ets', 'eta'], 'an event after the end of the recording')
            for w, _, c in got:
                if not c.startswith('err'):
                    add('failure/%s/%s/not-refused' % (family, w), '%s returned %s with an event outside the recording' % (w, c[:80]))
            # the caller corrects the event time in place (a second occurrence of the first event): same planted truth
            np.asarray(E.time).view(np.ndarray)[-1] = np.asarray(E.time).view(np.ndarray)[0]
            fixed = dict(sp)
            fixed['times'] = list(sp['times']) + [sp['times'][0]]
            fixed['slots'] = list(sp['slots']) + [sp['slots'][0]]
            got2 = watch(a, T, E, ['ets', 'eta'], 'after repair')
            judge('after-repair', got2, fixed)
            b, _, _ = bb.build(fixed, shared=(T, E))
            judge('new-analyzer', watch(b, T, E, ['eta', 'ets'], 'new analyzer on the repaired inputs'), fixed)
    return list(out.values())


def inplace_failures(sp, seed=0):
    """L8, two analyzers alive on the same input objects: A reads one output; the caller overwrites the recording IN PLACE
    (x -3: again a planted system); a NEW analyzer B on the same objects must see the new values (= fresh, = truth), A's
    result handed out before must not change, A's later reads are those of the old or of the new values (never a mixture);
    no result shares memory / metadata with an argument."""
    import random
    bb = B()
    rng = random.Random(seed)
    rp = {'spec': sp, 'inplace': True, 'fseed': seed}
    out = {}

    def add(key, what):
        out.setdefault(key, Failure(key, what, dict(rp)))
    ws = bb.getters_of(sp)
    C = bb.n_channels(sp)
    g = [rng.choice([-3.0, 2.0, -0.5])] * C
    sp2 = bb.scale_spec(sp, g) if sp.get('planted') and 'gains' not in sp else None
    if sp2 is None:
        return []
    with warnings.catch_warnings():
        warnings.simplefilter('ignore')
        a, T, E = bb.build(sp)
        if not T.data.flags.writeable:
            return []
        w1 = rng.choice(ws)
        first = reads(a, [w1])[0]
        T.data[...] = np.asarray(sp2['data'], dtype=float).reshape(T.data.shape).astype(T.data.dtype)
        if not np.array_equal(np.asarray(T.data, dtype=float).reshape(-1), np.asarray(sp2['data'])):
            return []      # the new values do not fit the recording's dtype
        # ... and (event-coded series, positive codes) RELABELS the events in place, reversing the order of the codes:
        # c -> 100 - c; a new analyzer must order its rows by the NEW codes
        used = sorted({int(c) for c in sp.get('ev', []) if c != 0})
        if sp['kind'] == 'series' and used and used[0] > 0 and not sp.get('codes_real') and sp.get('alias') not in ('same', 'samearray') \
                and E.data.flags.writeable and E.data.dtype.kind in 'fi' and E.data.dtype.itemsize >= 2 and rng.random() < 0.6:
            sp2 = dict(sp2)
            sp2['ev'] = [(100 - int(c)) if c != 0 else 0 for c in sp['ev']]
            sp2['resp'] = [{str(100 - int(k)): v for k, v in r.items()} for r in sp2['resp']]
            E.data[...] = np.asarray(sp2['ev']).reshape(E.data.shape).astype(E.data.dtype)
        b, _, _ = bb.build(sp2, shared=(T, E))
        gb = reads(b, ws)
        for w, o, c in gb:
            fr = fresh_of(sp2, w)
            if not bb.same_out(dict(sp2, what=w), w, c, fr):
                add('alias/inplace/new-analyzer/%s/value' % w, 'after the caller overwrote the recording in place, a NEW analyzer on the same objects gives %s, a fresh one on '
                    'fresh equal inputs %s' % (c[:100], fr[:100]))
            elif c.startswith('ok') and w == sp['what']:      # (the design is planted for THAT estimator)
                f = truth_failure(sp2, w, c)
                if f is not None:
                    add('alias/inplace/new-analyzer/%s/truth' % w, f.what)
            for r in ([x for row in o for x in row] if isinstance(o, list) else ([o] if o is not None else [])):
                for nm, arg in (('recording', T), ('events', E)):
                    ad = getattr(arg, 'data', None)
                    if isinstance(ad, np.ndarray) and ad.size and np.shares_memory(r.data, ad):
                        add('alias/result-shares/%s/data' % w, 'the %s result shares memory with the %s argument' % (w, nm))
                    if getattr(arg, 'metadata', None) is not None and r.metadata is arg.metadata:
                        add('alias/result-shares/%s/metadata' % w, 'the %s result holds the %s argument\'s metadata dict itself' % (w, nm))
        # the caller overwrites B's results; yet another analyzer on the same input objects still answers as a fresh one
        s_in = full_snapshot(None, T, E)
        for w, o, c in gb:
            if o is not None:
                bb.scribble_data(o)
        ch = [k for k in diff(s_in, full_snapshot(None, T, E)) if not k.endswith('.attrs')]
        if ch:
            add('alias/result-shares/scribble', 'overwriting the results of an analyzer in place changed the input objects: %s' % ','.join(ch))
        d_an, _, _ = bb.build(sp2, shared=(T, E))
        for w, o, c in reads(d_an, ws):
            fr = fresh_of(sp2, w)
            if not bb.same_out(dict(sp2, what=w), w, c, fr):
                add('alias/scribble/new-analyzer/%s/value' % w, 'after the caller overwrote the results of another analyzer, a NEW analyzer on the same input objects gives %s, '
                    'a fresh one on fresh equal inputs %s' % (c[:100], fr[:100]))
        if first[1] is not None and bb.canon_read(w1, first[1]) != first[2]:
            add('alias/inplace/%s/earlier-result-changed' % w1, 'the %s result handed out before the caller changed the recording in place changed with it' % w1)
        for w, _, c in reads(a, [w for w in ws if w != w1]):
            old, new = fresh_of(sp, w), fresh_of(sp2, w)
            if not (bb.same_out(dict(sp, what=w), w, c, old) or bb.same_out(dict(sp2, what=w), w, c, new)):
                add('alias/inplace/%s/late-read-mixed' % w, '%s read on the OLD analyzer after the in-place change is neither that of the old nor of the new values: %s' % (w, c[:100]))
    return list(out.values())


def history_specs(rng, tier):
    """(spec, family, seed) triples of the failure histories and in-place histories of this run"""
    out = []
    n = 2 if tier == 'quick' else 12
    for i in range(n):
        for fam in SERIES_FAMILIES:
            out.append((fail_base(rng, tier, 'series', fam), fam, rng.randrange(10 ** 6)))
        for fam in EVENTS_FAMILIES:
            out.append((fail_base(rng, tier, 'events'), fam, rng.randrange(10 ** 6)))
    return out


def model_cases(rng, tier, hist):
    """the refused histories through the MODEL: the bad spec's read sequence (op `seqf`: a refused read is an outcome of the
    model too, it stores nothing) and the per-channel loop (op `firloop`: index of the first refused channel)"""
    bb = B()
    import random
    cs = []
    for sp, fam, sd in hist:
        if fam not in ('end-event', 'ragged'):
            continue
        fv = failing_variant(random.Random(sd), sp, fam)
        if fv is None:
            continue
        bad, kbad, _ = fv
        order = ['fir', 'eta', 'etdata', 'ets', 'fir', 'etdata']
        q = dict(bad)
        q.update(kind='seq', base='series', order=order, what='seq')
        line = bb.line_of(q).replace('C19 seq ', 'C19 seqf ', 1)
        cs.append(Case(line, bb.run_seq_impl(q), 'seqf/' + fam, cmp=bb.make_cmp_seq(q), meta=None))
        # first refused channel of the FIR loop, by running the real per-channel computation channel by channel
        ts, ERA, tsu = bb.nt()
        first = 'none'
        N = sp['N']
        for ch, row in enumerate(bb.ev_rows(bad)):
            T = ts.TimeSeries(np.array(bad['data'][ch * N:(ch + 1) * N]), sampling_interval=1.0)
            E = ts.TimeSeries(np.array(row), sampling_interval=1.0)
            try:
                ERA(T, E, sp['L'], offset=sp['off']).FIR
            except Exception:  # noqa
                first = str(ch)
                break
        q2 = dict(bad, what='fir')
        cs.append(Case(bb.line_of(q2).replace('C19 series fir', 'C19 firloop fir', 1), 'first-refused=' + first, 'firloop/' + fam, meta=None))
    return cs


# ------------------------------------------------------------------ the diagonal of XᵀX, in the design matrix's OWN element type
def gramdiag_cases(specs):
    """for the designs with many occurrences of one code: diag(design.T @ design) formed in the dtype fir_design_matrix
    returns (what algorithms.fir multiplies), against the model's exact counts (`gram`, op gramdiag; theorem gram_diag_counts)"""
    bb = B()
    ts, ERA, tsu = bb.nt()
    out = []
    for sp in specs:
        if sp.get('kind') != 'series' or sp.get('what') != 'fir' or not sp.get('many') or sp.get('nch'):
            continue
        ev, L = sp['ev'], sp['L']

        def f():
            m = tsu.fir_design_matrix(np.array(ev, dtype=int), L)
            return 'ok ' + ilist([int(v) for v in (m.T @ m).diagonal()])
        from common import call
        out.append(Case('C19 gramdiag 0 %d %s' % (L, ilist(ev)), call(f), 'design/gramdiag', meta={'kind': 'gramdiag', 'ev': ev, 'L': L}))
    return out


def check_gramdiag(c):
    sp = c.meta
    ev, L = sp['ev'], sp['L']
    n = len(ev)
    if any(e != 0 and k + L > n for k, e in enumerate(ev)):
        return None
    want = [sum(1 for k, e in enumerate(ev) if e == t and k + l < n) for t in sorted({e for e in ev if e != 0}) for l in range(L)]
    if c.impl != 'ok ' + ilist(want):
        return Failure('design/gram-diagonal/count', 'diag(X^T X) formed in the design matrix\'s own element type is %s, the occurrence counts are %s' % (
            c.impl[:60], want[:6]), {'spec': sp, 'gramdiag': True}, case=c)
    return None
