"""C01 — time values are exact and unit-independent.

Correspondence: TimeArray construction / re-wrapping / operators / reductions / convert_unit on
the real class vs the Lean model `Nitime.C01` (exact integer picoseconds, exact binary64 on Rat).
Also validates the binary64 model itself against the hardware (f64mul/div/add/rint/ofint).
Oracle (independent of the Lean model): fractions.Fraction arithmetic on picoseconds.
"""
import operator
from fractions import Fraction as Fr
import numpy as np
from common import Case, Failure, f2x, x2f, call, err_kind

PID = 'C01'
LEAN_TARGETS = ['Nitime.Props.C01']
RULE = ('ops generated from one PRNG state: constructor / re-wrap / list-of-time-objects / 9 operators x 8 operand kinds x 81 unit pairs / '
        '4 reductions / convert_unit, values from {0, ±1, small, ties k+0.5, decimals 0.1k, near 2^53, near 2^62/factor}; '
        'distinct = distinct protocol line; non-trivial = payload not all zero')
ASSUMPTIONS = ['numpy int64/float64 arithmetic follows IEEE-754 binary64 / two\'s complement (the F64 model is checked bit-for-bit against it in this run)',
               'magnitudes stay below 2^62 ps (the property\'s domain); overflow beyond it is not modelled']

UNITS = ['ps', 'ns', 'us', 'ms', 's', 'm', 'h', 'D', 'W']
FACTOR = {'ps': 1, 'ns': 10**3, 'us': 10**6, 'ms': 10**9, 's': 10**12, 'm': 60 * 10**12,
          'h': 3600 * 10**12, 'D': 86400 * 10**12, 'W': 604800 * 10**12}   # SI definition (oracle side)
LIM = 2**62


def ts():
    import nitime.timeseries as t
    return t


# ------------------------------------------------------------------ canonicalisation
def canon_T(t):
    a = np.asarray(t)
    sc = '1' if a.ndim == 0 else '0'
    if a.ndim > 1:
        return 'ndim%d' % a.ndim
    flat = a.reshape(-1)
    unit = getattr(t, 'time_unit', '?')
    if not isinstance(t, ts().TimeInterface):
        return 'not-a-time-object:%s' % type(t).__name__
    if flat.dtype == np.int64:
        return 'T:%s:%s:%s' % (unit, sc, ','.join(str(int(v)) for v in flat) if len(flat) else '-')
    return 'T:%s:%s:%s[%s]' % (unit, sc, flat.dtype, ','.join(repr(float(v)) for v in flat))


def canon_B(b):
    a = np.asarray(b)
    if isinstance(b, ts().TimeInterface) or a.dtype != bool:
        return 'not-bool:%s:%s' % (type(b).__name__, a.dtype)
    sc = '1' if a.ndim == 0 else '0'
    flat = a.reshape(-1)
    return 'B:%s:%s' % (sc, ','.join('1' if v else '0' for v in flat) if len(flat) else '-')


def operand_state(o):
    """canonical, comparable state of an operand of any kind (time object: unit + payload; array: dtype + values)"""
    if isinstance(o, ts().TimeInterface):
        return canon_T(o)
    if isinstance(o, np.ndarray):
        return 'A:%s:%s' % (o.dtype, ','.join(repr(v) for v in o.reshape(-1).tolist()))
    return 'P:%s:%r' % (type(o).__name__, o)


def mk_T(unit, scalar, ps):
    """a real TimeArray with exactly this payload"""
    T = ts().TimeArray
    if scalar:
        t = T(np.int64(ps[0]), time_unit='ps')
    else:
        t = T(np.array(ps, dtype=np.int64), time_unit='ps')
    t.convert_unit(unit)
    return t


def mk_U(unit, ps):
    """a real UniformTime whose samples are exactly the ramp `ps` (len >= 1, constant positive step)"""
    TA, U = ts().TimeArray, ts().UniformTime
    d = (ps[1] - ps[0]) if len(ps) > 1 else 1000
    u = U(t0=TA(np.int64(ps[0]), time_unit='ps'), sampling_interval=TA(np.int64(d), time_unit='ps'),
          length=len(ps), time_unit=unit)
    assert [int(v) for v in np.asarray(u)] == list(ps), 'harness: could not build the uniform axis'
    return u


def mk_self(m_or_self, uniform):
    ua, sc, ps = m_or_self
    return mk_U(ua, ps) if uniform else mk_T(ua, sc, ps)


def tok_T(unit, scalar, ps):
    return 'T:%s:%s:%s' % (unit, '1' if scalar else '0', ','.join(str(p) for p in ps) if ps else '-')


def tok_num(v):
    return ('i%d' % v) if isinstance(v, int) else f2x(v)


# ------------------------------------------------------------------ generators
def gen_int(rng, unit):
    f = FACTOR[unit]
    top = (LIM - 1) // f // 4
    c = rng.random()
    if c < 0.15:
        return rng.choice([0, 1, -1, 2, -2])
    if c < 0.5:
        return rng.randint(-min(1000, top), min(1000, top))
    if c < 0.65:
        return rng.choice([2**53, 2**53 + 1, 2**53 - 1, -(2**53) - 1]) if 2**53 + 1 <= top else rng.randint(-top, top)
    if c < 0.8:
        return rng.choice([-1, 1]) * max(0, top - rng.randint(0, 5))
    return rng.randint(-top, top)


def gen_float(rng, unit):
    f = FACTOR[unit]
    top = (LIM - 1) / f / 4
    c = rng.random()
    if c < 0.2:    # ties after scaling: k + 0.5 ps
        k = rng.randint(-10**6, 10**6)
        v = (k + 0.5) / f
    elif c < 0.45:
        v = rng.randint(-10000, 10000) / 10.0
    elif c < 0.6:
        v = rng.choice([0.1, 0.2, 0.3, 2.2, 0.81327, 1 / 3.0, 1e-3, 1e-12 * 0.5, 2.5, -0.5, 1.5])
    elif c < 0.75:
        v = rng.uniform(-1, 1) * top
    elif c < 0.85:
        v = float(rng.randint(-2**53, 2**53)) if 2**53 < top else rng.uniform(-top, top)
    else:
        v = rng.uniform(-100, 100)
    if abs(v) > top:
        v = rng.uniform(-1, 1) * top
    return float(v)


def gen_ps(rng, n, big=False):
    out = []
    for _ in range(n):
        c = rng.random()
        if c < 0.3:
            out.append(rng.randint(-5, 5) * 10**rng.randint(0, 12))
        elif c < 0.6 and big:
            out.append(rng.choice([-1, 1]) * (2**53 + rng.randint(-2, 2)))
        elif c < 0.7 and big:
            out.append(rng.choice([-1, 1]) * (LIM // 4 - rng.randint(0, 10)))
        else:
            out.append(rng.randint(-10**15, 10**15))
    return out


def gen_T(rng, big=True, n=None):
    unit = rng.choice(UNITS)
    scalar = rng.random() < 0.3 if n is None else False
    n = 1 if scalar else (n if n is not None else rng.randint(1, 5))
    return unit, scalar, gen_ps(rng, n, big)


OPS_AR = {'add': operator.add, 'sub': operator.sub,
          'radd': lambda t, v: operator.add(v, t), 'rsub': lambda t, v: operator.sub(v, t)}
OPS_CMP = {'lt': operator.lt, 'le': operator.le, 'gt': operator.gt, 'ge': operator.ge, 'eq': operator.eq}
KINDS = ['time', 'pyint', 'pyfloat', 'list', 'int32', 'int64', 'float64', 'mixedlist',
         'npint32', 'npint64', 'npfloat64', 'arr0d']
# numpy scalars and 0-d arrays are bare NUMBERS too (np.float64 is a python float): same protocol token as a
# python scalar, so the model reads them in the time object's unit
NP_SCALAR = {'npint32': np.int32, 'npint64': np.int64, 'npfloat64': np.float64, 'arr0d': (lambda v: np.array(v, dtype=np.int64))}


def np_scalar_val(rng, kind, self_unit):
    if kind == 'npfloat64':
        return gen_float(rng, self_unit)
    v = gen_int(rng, self_unit)
    return max(-2**31, min(2**31 - 1, v)) if kind == 'npint32' else v


def gen_operand(rng, kind, self_unit, n_self):
    """returns (token, builder() -> python operand, meta)"""
    if kind == 'time':
        n = rng.choice([None, n_self])
        u, sc, ps = gen_T(rng, big=True, n=n if n is None or n > 0 else None)
        if n is not None and not sc:
            ps = (ps * n_self)[:n_self]
        return tok_T(u, sc, ps), (lambda: mk_T(u, sc, ps)), {'kind': kind, 'unit': u, 'scalar': sc, 'ps': ps}
    if kind == 'pyint':
        v = gen_int(rng, self_unit)
        return 'N:1:' + tok_num(v), (lambda: v), {'kind': kind, 'scalar': True, 'vals': [v]}
    if kind == 'pyfloat':
        v = gen_float(rng, self_unit)
        return 'N:1:' + tok_num(v), (lambda: v), {'kind': kind, 'scalar': True, 'vals': [v]}
    if kind in NP_SCALAR:
        v = np_scalar_val(rng, kind, self_unit)
        return 'N:1:' + tok_num(v), (lambda: NP_SCALAR[kind](v)), {'kind': kind, 'scalar': True, 'vals': [v]}
    n = rng.choice([1, n_self, n_self])
    if kind in ('list', 'int64'):
        vs = [gen_int(rng, self_unit) for _ in range(n)]
        b = (lambda: list(vs)) if kind == 'list' else (lambda: np.array(vs, dtype=np.int64))
    elif kind == 'int32':
        vs = [max(-2**31, min(2**31 - 1, gen_int(rng, self_unit))) for _ in range(n)]
        b = lambda: np.array(vs, dtype=np.int32)
    elif kind == 'float64':
        vs = [gen_float(rng, self_unit) for _ in range(n)]
        b = lambda: np.array(vs, dtype=np.float64)
    else:  # mixed list: python ints and floats together -> float64 array
        vs = [gen_float(rng, self_unit) if i % 2 else gen_int(rng, self_unit) for i in range(max(n, 2))][:max(n, 1)]
        if all(isinstance(v, int) for v in vs):
            vs[0] = float(vs[0]) + 0.25
        b = lambda: list(vs)
    return 'N:0:' + ','.join(tok_num(v) for v in vs), b, {'kind': kind, 'scalar': False, 'vals': vs}


def cases(rng, tier, seed):
    T = ts().TimeArray
    n = {'quick': 1, 'thorough': 25}[tier]
    out = []
    # --- binary64 model vs hardware
    for _ in range(1500 * n):
        k = rng.random()
        a = gen_float(rng, rng.choice(UNITS)) if k < 0.5 else rng.uniform(-1, 1) * 10.0**rng.randint(-8, 17)
        b = float(FACTOR[rng.choice(UNITS)]) if rng.random() < 0.5 else rng.uniform(-1, 1) * 10.0**rng.randint(-8, 8)
        if a == 0 or b == 0:
            continue
        opn = rng.choice(['f64mul', 'f64div', 'f64add'])
        r = {'f64mul': a * b, 'f64div': a / b, 'f64add': a + b}[opn]
        if r == 0 or abs(r) < 1e-290 or abs(r) > 1e290:
            continue
        out.append(Case('C01 %s %s %s' % (opn, f2x(a)[1:], f2x(b)[1:]), 'ok ' + f2x(r)[1:], 'f64/' + opn))
    for _ in range(300 * n):
        k = rng.randint(-10**9, 10**9)
        a = rng.choice([k + 0.5, k + 0.25, float(k), k + 0.75, rng.uniform(-1e15, 1e15)])
        out.append(Case('C01 f64rint %s' % f2x(a)[1:], 'ok %d' % int(np.float64(a).round()), 'f64/rint'))
        i = rng.choice([2**53 + 1, 2**60 + rng.randint(0, 2**10), rng.randint(-2**62, 2**62), 3 * 2**55 + 256 + rng.randint(-1, 1)])
        out.append(Case('C01 f64ofint %d' % i, 'ok ' + f2x(float(i))[1:], 'f64/ofint'))
    # --- constructor from bare numbers
    for _ in range(600 * n):
        unit = rng.choice(UNITS + ['none'])
        ru = 's' if unit == 'none' else unit
        kind = rng.choice(['pyint', 'pyfloat', 'list', 'int32', 'int64', 'float64', 'mixedlist'])
        tok, build, meta = gen_operand(rng, kind, ru, rng.randint(1, 4))
        _, sc, xs = tok.split(':')
        meta.update(op='ctor', unit=unit)
        impl = call(lambda: 'ok ' + canon_T(T(build(), time_unit=None if unit == 'none' else unit)))
        out.append(Case('C01 ctor %s %s %s' % (unit, sc, xs), impl, 'ctor/' + kind, meta=meta))
    # --- re-wrapping time objects, lists of time objects
    for _ in range(250 * n):
        u, sc, ps = gen_T(rng)
        nu = rng.choice(UNITS + ['none', 'none'])
        impl = call(lambda: 'ok ' + canon_T(T(mk_T(u, sc, ps), time_unit=None if nu == 'none' else nu)))
        out.append(Case('C01 ctorfrom %s %s' % (nu, tok_T(u, sc, ps)), impl, 'rewrap/object',
                        meta={'op': 'ctorfrom', 'unit': nu, 'src': (u, sc, ps)}))
        k = rng.randint(1, 4)
        items = [(rng.choice(UNITS), True, gen_ps(rng, 1, True)) for _ in range(k)]
        if rng.random() < 0.1:
            items[rng.randrange(k)] = (rng.choice(UNITS), False, gen_ps(rng, 2, True))
            if k > 1 and rng.random() < 0.5:   # ragged / 2-d
                items = [(rng.choice(UNITS), False, gen_ps(rng, 2, True)) for _ in range(k)]
        impl = call(lambda: 'ok ' + canon_T(T([mk_T(*it) for it in items], time_unit=None if nu == 'none' else nu)))
        if impl.startswith('err'):
            impl = 'err ValueError' if 'ValueError' in impl else impl
        out.append(Case('C01 ctorlist %s %s' % (nu, ' '.join(tok_T(*it) for it in items)), impl, 'rewrap/list',
                        meta={'op': 'ctorlist', 'unit': nu, 'items': items}))
    # --- operators: every (op, kind) cell, all 81 unit pairs over the run
    pairs = [(a, b) for a in UNITS for b in UNITS]
    rng.shuffle(pairs)
    pi = 0
    for rep in range(2 * n):
        for opn in list(OPS_AR) + list(OPS_CMP):
            for kind in KINDS:
                if kind == 'time' and opn in ('radd', 'rsub'):
                    continue
                ua, ub = pairs[pi % 81]
                pi += 1
                sc = rng.random() < 0.3
                ps = gen_ps(rng, 1 if sc else rng.randint(1, 4), True)
                # every fourth cell: the time operand is a UNIFORM axis (UniformTime is a time object too)
                uniform = (pi % 4 == 0)
                if uniform:
                    sc = False
                    t0_, d_, n_ = rng.randint(-10**15, 10**15), rng.choice([1, 999, 10**9, 2 * 10**12 + 1, rng.randint(1, 10**13)]), rng.randint(1, 4)
                    ps = [t0_ + i * d_ for i in range(n_)]
                tok, build, meta = gen_operand(rng, kind, ua, len(ps))
                near = opn in OPS_CMP and rng.random() < 0.6
                if kind == 'time':   # force the unit pair
                    meta['unit'] = ub
                    if near:   # equal / off-by-one-picosecond instants in another unit
                        meta['ps'] = [psa + rng.choice([0, 0, 1, -1]) for psa in (ps if not meta['scalar'] else ps[:1])]
                    tok = tok_T(ub, meta['scalar'], meta['ps'])
                    build = (lambda m=meta: mk_T(m['unit'], m['scalar'], m['ps']))
                elif near:
                    # bare numbers that denote (almost) the same instants as `self`: a comparison must
                    # then behave exactly like the constructor's rounding, also beyond 2^53 ps
                    f = FACTOR[ua]
                    if kind in ('pyint', 'list', 'int32', 'int64', 'npint32', 'npint64', 'arr0d'):
                        vs = [p_ // f + rng.choice([0, 0, 1, -1]) for p_ in ps]
                        if kind in ('int32', 'npint32'):
                            vs = [max(-2**31, min(2**31 - 1, v)) for v in vs]
                    else:
                        vs = [float(Fr(p_) / f) + rng.choice([0, 0.4, -0.4, 0.6, -0.6, 1, 0.5, 1e-3]) / f for p_ in ps]
                        if kind == 'mixedlist' and len(vs) > 1:
                            vs[0] = int(ps[0] // f)
                    if kind in ('pyint', 'pyfloat') or kind in NP_SCALAR:
                        vs = vs[:1]
                        meta.update(scalar=True, vals=vs)
                        tok = 'N:1:' + tok_num(vs[0])
                        build = (lambda v=vs[0], k=kind: NP_SCALAR[k](v) if k in NP_SCALAR else v)
                    else:
                        meta.update(scalar=False, vals=vs)
                        tok = 'N:0:' + ','.join(tok_num(v) for v in vs)
                        dt = {'int32': np.int32, 'int64': np.int64, 'float64': np.float64}.get(kind)
                        build = (lambda v=vs, dt=dt: list(v) if dt is None else np.array(v, dtype=dt))
                meta.update(op=opn, self=(ua, sc, ps), uniform=uniform)
                fn = OPS_AR.get(opn) or OPS_CMP[opn]
                canon = canon_T if opn in OPS_AR else canon_B
                # the operands as objects, so that they can be looked at again after the operation: neither the time
                # object nor the other operand (value, unit, dtype) may have changed
                o_self, o_other = mk_self((ua, sc, ps), uniform), build()
                b_self, b_other = canon_T(o_self), operand_state(o_other)
                impl = call(lambda: 'ok ' + canon(fn(o_self, o_other)))
                meta['operands_unchanged'] = (canon_T(o_self) == b_self and operand_state(o_other) == b_other)
                meta['operands_after'] = [canon_T(o_self), operand_state(o_other)]
                if impl.startswith('err'):
                    impl = 'err ValueError'   # numpy broadcasting errors are ValueError
                out.append(Case('C01 binop %s %s %s' % (opn, tok_T(ua, sc, ps), tok), impl,
                                'binop/%s/%s%s' % (opn, kind, '/uniform-axis' if uniform else ''), meta=meta, nontrivial=any(ps)))
    # --- sequences: the SAME number given as float and then as int (and the other way round): a conversion cached
    # on the value would hand the int the float-rounded picoseconds (n*factor beyond 2^53 and not a double)
    for rep in range(12 * n):
        ua = rng.choice(['ns', 'us', 'ms'])
        f = FACTOR[ua]
        top = (LIM - 1) // f // 4
        k = rng.randint(2**53 // f + 1, top) | 1            # odd: k*f is not representable when f has few factors 2
        for first, second in ((float, int), (int, float)):
            k += 2
            if float(k) != k:
                continue
            for conv in (first, second):
                for opn in ('add', 'eq', 'rsub'):
                    v = conv(k)
                    ps = [rng.randint(-10**6, 10**6), k * f]
                    meta = {'kind': 'pyint' if conv is int else 'pyfloat', 'scalar': True, 'vals': [v], 'op': opn, 'self': (ua, False, ps)}
                    fn = OPS_AR.get(opn) or OPS_CMP[opn]
                    canon = canon_T if opn in OPS_AR else canon_B
                    impl = call(lambda: 'ok ' + canon(fn(mk_T(ua, False, ps), v)))
                    out.append(Case('C01 binop %s %s N:1:%s' % (opn, tok_T(ua, False, ps), tok_num(v)), impl,
                                    'binop/%s/%s' % (opn, meta['kind']), meta=meta))
    # --- reductions and convert_unit
    for it in range(150 * n):
        u, sc, ps = gen_T(rng, big=False)
        if it % 2:   # large magnitudes with picosecond detail (n <= 4 values below 2^60: the sum stays below 2^62)
            ps = [rng.choice([-1, 1]) * rng.choice([2**53 + 1, 2**60 + 1, 777777777777777777, rng.randint(2**53, 2**60)]) for _ in ps[:4]]
        for r in ('min', 'max', 'sum', 'ptp'):
            impl = call(lambda: 'ok ' + canon_T(getattr(mk_T(u, sc, ps), r)()))
            out.append(Case('C01 reduce %s %s' % (r, tok_T(u, sc, ps)), impl, 'reduce/' + r,
                            meta={'op': 'reduce', 'red': r, 'self': (u, sc, ps)}))
        nu = rng.choice(UNITS)

        def conv():
            t = mk_T(u, sc, ps)
            t.convert_unit(nu)
            return 'ok ' + canon_T(t)
        out.append(Case('C01 convert %s %s' % (tok_T(u, sc, ps), nu), call(conv), 'convert',
                        meta={'op': 'convert', 'self': (u, sc, ps), 'unit': nu}))
    return out


# ------------------------------------------------------------------ oracle (Fractions; never the Lean model)
def parse_T(s):
    """'ok T:unit:sc:ps' -> (unit, scalar, [int]) or None when not an integer-payload time object"""
    if not s.startswith('ok T:'):
        return None
    _, u, sc, ps = s[3:].split(':', 3)
    if '[' in ps:
        return None
    return u, sc == '1', ([] if ps == '-' else [int(p) for p in ps.split(',')])


def exp_ps_num(v, unit):
    """(lo, hi): the whole-picosecond payloads the property allows for a bare number v read in
    `unit`: integers exactly v*factor; floats the whole picosecond(s) nearest to the binary64
    product fl(v*factor) (computed here by the hardware, not by the Lean model; both neighbours
    are allowed on an exact tie)"""
    f = FACTOR[unit]
    if isinstance(v, int):
        return Fr(v * f), Fr(v * f)
    y = Fr(float(v) * float(f))
    lo = -((-(y - Fr(1, 2))).__floor__())     # ceil(y - 1/2)
    hi = (y + Fr(1, 2)).__floor__()           # floor(y + 1/2)
    return Fr(lo), Fr(hi)


def broadcast(a, sa, b, sb):
    if len(a) == len(b):
        return list(zip(a, b)), sa and sb
    if len(a) == 1:
        return [(a[0], y) for y in b], False
    if len(b) == 1:
        return [(x, b[0]) for x in a], False
    return None, None


def check_case(c):
    """property-level judgement of one implementation result; returns Failure or None"""
    m = c.meta
    if not m:
        return None
    op = m['op']

    def fail(sym, what):
        return Failure('%s/%s' % (c.clause, sym), '%s: %s  [op: %s] impl=%s' % (c.clause, what, c.line[:200], c.impl[:200]),
                       {'line': c.line, 'clause': c.clause, 'meta': m}, case=c)
    if op == 'ctor':
        unit = 's' if m['unit'] == 'none' else m['unit']
        vals = m['vals']
        if m['kind'] in ('mixedlist', 'float64') or any(isinstance(v, float) for v in vals):
            vals = [float(v) for v in vals]
        r = parse_T(c.impl)
        if r is None:
            return fail('not-whole-ps', 'constructor result is not an integer-picosecond time object')
        if r[0] != unit or r[1] != m['scalar'] or len(r[2]) != len(vals):
            return fail('unit-or-shape', 'unit/shape of the constructed object is wrong')
        for v, p in zip(vals, r[2]):
            lo, hi = exp_ps_num(v, unit)
            if not (lo <= p <= hi):
                return fail('value', 'payload %d ps is not the nearest picosecond to %r %s' % (p, v, unit))
        return None
    if op == 'ctorfrom':
        u, sc, ps = m['src']
        want = (u if m['unit'] == 'none' else m['unit'], sc, ps)
        if parse_T(c.impl) != want:
            return fail('instant-changed', 're-wrapping changed the instant/unit: want %s' % (want,))
        return None
    if op == 'ctorlist':
        items = m['items']
        if all(it[1] for it in items):
            want = (items[0][0] if m['unit'] == 'none' else m['unit'], False, [it[2][0] for it in items])
            if parse_T(c.impl) != want:
                return fail('instant-changed', 'list of time objects: want %s' % (want,))
        return None
    if op == 'convert':
        u, sc, ps = m['self']
        if parse_T(c.impl) != (m['unit'], sc, ps):
            return fail('instant-changed', 'convert_unit changed the instant')
        return None
    if op == 'reduce':
        u, sc, ps = m['self']
        want = {'min': min(ps), 'max': max(ps), 'sum': sum(ps), 'ptp': max(ps) - min(ps)}[m['red']]
        r = parse_T(c.impl)
        if r is None or r[0] != u or r[2] != [want]:
            return fail('value', 'reduction %s: want %d ps in unit %s' % (m['red'], want, u))
        return None
    # binary operators
    if m.get('operands_unchanged') is False:
        return fail('operand-changed', 'an operand was modified by the operation: after = %s' % (m.get('operands_after'),))
    ua, sa, psa = m['self']
    if m['kind'] == 'time':
        b_lo = b_hi = [Fr(p) for p in m['ps']]
        sb = m['scalar']
    else:
        vals = m['vals']
        if m['kind'] in ('mixedlist', 'float64', 'npfloat64'):
            vals = [float(v) for v in vals]
        bounds = [exp_ps_num(v, ua) for v in vals]
        b_lo, b_hi = [b[0] for b in bounds], [b[1] for b in bounds]
        sb = m['scalar']
    pairs_lo, sc = broadcast(psa, sa, b_lo, sb)
    pairs_hi, _ = broadcast(psa, sa, b_hi, sb)
    if pairs_lo is None:
        return None if c.impl.startswith('err') else fail('shape', 'mismatched shapes accepted')
    if c.impl.startswith('err'):
        return fail('raises', 'operation on compatible operands raised')
    if op in OPS_AR:
        r = parse_T(c.impl)
        if r is None:
            return fail('not-whole-ps', 'result is not a whole-picosecond time object (dtype %s)' % c.impl.split(':')[-1].split('[')[0])
        if r[0] != ua:
            return fail('unit', 'result unit %s, want %s' % (r[0], ua))
        if r[1] != sc or len(r[2]) != len(pairs_lo):
            return fail('shape', 'result shape wrong')
        for (a, lo), (_, hi), p in zip(pairs_lo, pairs_hi, r[2]):
            if op in ('add', 'radd'):
                wlo, whi = a + lo, a + hi
            elif op == 'sub':
                wlo, whi = a - hi, a - lo
            else:
                wlo, whi = lo - a, hi - a
            if not (wlo <= p <= whi):
                return fail('value', 'result %d ps outside exact arithmetic [%s, %s]' % (p, wlo, whi))
        return None
    # comparisons: decided only when both ends of the allowed interval agree
    if not c.impl.startswith('ok B:'):
        return fail('not-bool', 'comparison did not return booleans')
    _, scs, bits = c.impl[3:].split(':')
    bits = [] if bits == '-' else [b == '1' for b in bits.split(',')]
    if len(bits) != len(pairs_lo):
        return fail('shape', 'comparison shape wrong')
    f = OPS_CMP[op]
    for (a, lo), (_, hi), got in zip(pairs_lo, pairs_hi, bits):
        if op == 'eq':   # decided only when the whole allowed interval agrees
            if lo == hi:
                w1 = w2 = (Fr(a) == lo)
            elif Fr(a) < lo or Fr(a) > hi:
                w1 = w2 = False
            else:
                continue
        else:
            w1, w2 = f(Fr(a), lo), f(Fr(a), hi)
        if w1 == w2 and got != w1:
            return fail('value', 'comparison %s of %d ps with [%s,%s] gave %s' % (op, a, lo, hi, got))
    return None


def oracle(rng, tier, seed, focus, cases=None):
    fails, n = [], 0
    for c in (cases or []):
        if c.meta:
            n += 1
            f = check_case(c)
            if f:
                fails.append(f)
    return fails, {'judged': n, 'failed': len(fails), 'focus': len(focus)}


def replay(d):
    """re-run one recorded case on the current tree"""
    import common
    rng = common.make_rng(PID, 0, 'replay')
    line = d['line']
    for seed in [d.get('seed', 0)]:
        pass
    # regenerate the implementation result for this exact op by re-parsing the protocol line
    c = rebuild_case(line, d['clause'], d['meta'])
    return check_case(c)


def rebuild_case(line, clause, m):
    T = ts().TimeArray
    m = dict(m)
    for k in ('self', 'src'):
        if k in m:
            m[k] = tuple(m[k])
    if 'items' in m:
        m['items'] = [tuple(i) for i in m['items']]
    op = m['op']

    def operand():
        k = m['kind']
        if k == 'time':
            return mk_T(m['unit'], m['scalar'], m['ps'])
        v = m['vals']
        if k in ('pyint', 'pyfloat'):
            return v[0]
        if k in NP_SCALAR:
            return NP_SCALAR[k](v[0])
        if k in ('list', 'mixedlist'):
            return list(v)
        return np.array(v, dtype={'int32': np.int32, 'int64': np.int64, 'float64': np.float64}[k])
    if op == 'ctor':
        impl = call(lambda: 'ok ' + canon_T(T(operand(), time_unit=None if m['unit'] == 'none' else m['unit'])))
    elif op == 'ctorfrom':
        impl = call(lambda: 'ok ' + canon_T(T(mk_T(*m['src']), time_unit=None if m['unit'] == 'none' else m['unit'])))
    elif op == 'ctorlist':
        impl = call(lambda: 'ok ' + canon_T(T([mk_T(*it) for it in m['items']], time_unit=None if m['unit'] == 'none' else m['unit'])))
    elif op == 'convert':
        def conv():
            t = mk_T(*m['self'])
            t.convert_unit(m['unit'])
            return 'ok ' + canon_T(t)
        impl = call(conv)
    elif op == 'reduce':
        impl = call(lambda: 'ok ' + canon_T(getattr(mk_T(*m['self']), m['red'])()))
    else:
        fn = OPS_AR.get(op) or OPS_CMP[op]
        canon = canon_T if op in OPS_AR else canon_B
        o_self, o_other = mk_self(m['self'], m.get('uniform', False)), operand()
        b_self, b_other = canon_T(o_self), operand_state(o_other)
        impl = call(lambda: 'ok ' + canon(fn(o_self, o_other)))
        if impl.startswith('err'):
            impl = 'err ValueError'
        m['operands_unchanged'] = (canon_T(o_self) == b_self and operand_state(o_other) == b_other)
        m['operands_after'] = [canon_T(o_self), operand_state(o_other)]
    return Case(line, impl, clause, meta=m)
