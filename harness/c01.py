"""C01 — time values are exact and unit-independent.

Correspondence: TimeArray construction / re-wrapping / operators / reductions / convert_unit on
the real class vs the Lean model `Nitime.C01` (exact integer picoseconds, exact binary64 on Rat).
Also validates the binary64 model itself against the hardware (f64mul/div/add/rint/ofint).
Oracle (independent of the Lean model): fractions.Fraction arithmetic on picoseconds.
"""
import operator
import os
import copy as _copy
import pickle
from fractions import Fraction as Fr
import numpy as np
from common import Case, Failure, f2x, x2f, call, err_kind

PID = 'C01'
LEAN_TARGETS = ['Nitime.Props.C01']
RULE = ('ops generated from one PRNG state: constructor / re-wrap / list-of-time-objects / 9 operators x 38 operand kinds (python, lists, every '
        'integer width signed/unsigned, float16/32/64, big-endian, read-only, strided, 0-d, numpy scalars, ints beyond 2^53) x 81 unit pairs / '
        '4 reductions / convert_unit, values from {0, ±1, small, ties k+0.5, decimals 0.1k, near 2^53, near 2^62/factor}; the same number through '
        'many doors (int / float / numpy scalar, two units, constructor and operators) in one process; 700 object HISTORIES: a source from any '
        'public entry point (TimeArray with every container, copy=False, UniformTime and its attributes / elements / slices, Epochs, Events, '
        'TimeSeries) -> 1-6 steps of re-wrapping (copy True/False/absent, unit given/None/absent), convert_unit, views of views, copies, '
        'pickling, reductions, arithmetic -> one of the 9 operators; after every step label, payload and the factor shown by (o+1)-o are '
        'observed; RAW FLAG VALUES (None, False, True, 0, 0.0, \'\', [], np.False_, np.bool_(0), np.True_, 1, \'False\'): TimeArray(data, unit, copy=<each>) '
        'x 17 data kinds + time objects, and every optional / boolean parameter of UniformTime / TimeSeries / TimeArray / Epochs / Events '
        'constructors and index_at given each raw value (read as GIVEN vs as-if-None, against the generated comparison forms); the numbers 0 / 1 '
        'also arrive as python / numpy booleans; distinct = distinct protocol line; non-trivial = payload not all zero')
ASSUMPTIONS = ['numpy int64/float64 arithmetic follows IEEE-754 binary64 / two\'s complement (the F64 model is checked bit-for-bit against it in this run)',
               'magnitudes stay below 2^62 ps (the property\'s domain); overflow beyond it is not modelled',
               'narrow dtypes are exact embeddings: a float32/float16/intN value crosses the protocol as the number it denotes']
TRUSTED_EXTRA = ['harness/translate_c01.py: abstract interpretation of TimeArray.__new__ / __array_finalize__ / convert_unit / UniformTime.__new__ / '
                 'reductions into Generated/C01Ctor.lean (label / factor source per return path); `unset` is read as "what __array_finalize__ left"',
                 'harness/translate_c01.py: flag_tests_of — which AST shapes count as a test of a parameter (compare with True/False/None, truthiness in if / not / '
                 'and-or / comprehension over parameters); the NO-COPY branch of TimeArray.__new__ = the branch of the `if` on `copy` that does not use conv_fac',
                 'harness table _cells(): which call exercises which (function, parameter) of the generated flagTests table',
                 'which history step of the harness maps to which model step (view kinds -> `view`, pickle / view of a bare array -> `strip`)']

UNITS = ['ps', 'ns', 'us', 'ms', 's', 'm', 'h', 'D', 'W']
FACTOR = {'ps': 1, 'ns': 10**3, 'us': 10**6, 'ms': 10**9, 's': 10**12, 'm': 60 * 10**12,
          'h': 3600 * 10**12, 'D': 86400 * 10**12, 'W': 604800 * 10**12}   # SI definition (oracle side)
LIM = 2**62


def ts():
    import nitime.timeseries as t
    return t


# ------------------------------------------------------------------ canonicalisation
def canon_T(t):
    a = np.asarray(t)
    sc = '1' if a.ndim == 0 else '0'
    if a.ndim > 1:
        return 'ndim%d' % a.ndim
    flat = a.reshape(-1)
    unit = getattr(t, 'time_unit', '?')
    if not isinstance(t, ts().TimeInterface):
        return 'not-a-time-object:%s' % type(t).__name__
    if flat.dtype == np.int64:
        return 'T:%s:%s:%s' % (unit, sc, ','.join(str(int(v)) for v in flat) if len(flat) else '-')
    return 'T:%s:%s:%s[%s]' % (unit, sc, flat.dtype, ','.join(repr(float(v)) for v in flat))


def canon_B(b):
    a = np.asarray(b)
    if isinstance(b, ts().TimeInterface) or a.dtype != bool:
        return 'not-bool:%s:%s' % (type(b).__name__, a.dtype)
    sc = '1' if a.ndim == 0 else '0'
    flat = a.reshape(-1)
    return 'B:%s:%s' % (sc, ','.join('1' if v else '0' for v in flat) if len(flat) else '-')


def operand_state(o):
    """canonical, comparable state of an operand of any kind (time object: unit + payload; array: dtype + values)"""
    if isinstance(o, ts().TimeInterface):
        return canon_T(o)
    if isinstance(o, np.ndarray):
        return 'A:%s:%s' % (o.dtype, ','.join(repr(v) for v in o.reshape(-1).tolist()))
    return 'P:%s:%r' % (type(o).__name__, o)


def mk_T(unit, scalar, ps):
    """a real TimeArray with exactly this payload"""
    T = ts().TimeArray
    if scalar:
        t = T(np.int64(ps[0]), time_unit='ps')
    else:
        t = T(np.array(ps, dtype=np.int64), time_unit='ps')
    t.convert_unit(unit)
    return t


def mk_U(unit, ps):
    """a real UniformTime whose samples are exactly the ramp `ps` (len >= 1, constant positive step)"""
    TA, U = ts().TimeArray, ts().UniformTime
    d = (ps[1] - ps[0]) if len(ps) > 1 else 1000
    u = U(t0=TA(np.int64(ps[0]), time_unit='ps'), sampling_interval=TA(np.int64(d), time_unit='ps'),
          length=len(ps), time_unit=unit)
    assert [int(v) for v in np.asarray(u)] == list(ps), 'harness: could not build the uniform axis'
    return u


def mk_self(m_or_self, uniform):
    ua, sc, ps = m_or_self
    return mk_U(ua, ps) if uniform else mk_T(ua, sc, ps)


def tok_T(unit, scalar, ps):
    return 'T:%s:%s:%s' % (unit, '1' if scalar else '0', ','.join(str(p) for p in ps) if ps else '-')


def tok_num(v):
    return ('i%d' % v) if isinstance(v, int) else f2x(v)


# ------------------------------------------------------------------ generators
def gen_int(rng, unit):
    f = FACTOR[unit]
    top = (LIM - 1) // f // 4
    c = rng.random()
    if c < 0.15:
        return rng.choice([0, 1, -1, 2, -2])
    if c < 0.5:
        return rng.randint(-min(1000, top), min(1000, top))
    if c < 0.65:
        return rng.choice([2**53, 2**53 + 1, 2**53 - 1, -(2**53) - 1]) if 2**53 + 1 <= top else rng.randint(-top, top)
    if c < 0.8:
        return rng.choice([-1, 1]) * max(0, top - rng.randint(0, 5))
    return rng.randint(-top, top)


def gen_float(rng, unit):
    f = FACTOR[unit]
    top = (LIM - 1) / f / 4
    c = rng.random()
    if c < 0.2:    # ties after scaling: k + 0.5 ps
        k = rng.randint(-10**6, 10**6)
        v = (k + 0.5) / f
    elif c < 0.45:
        v = rng.randint(-10000, 10000) / 10.0
    elif c < 0.6:
        v = rng.choice([0.1, 0.2, 0.3, 2.2, 0.81327, 1 / 3.0, 1e-3, 1e-12 * 0.5, 2.5, -0.5, 1.5])
    elif c < 0.75:
        v = rng.uniform(-1, 1) * top
    elif c < 0.85:
        v = float(rng.randint(-2**53, 2**53)) if 2**53 < top else rng.uniform(-top, top)
    else:
        v = rng.uniform(-100, 100)
    if abs(v) > top:
        v = rng.uniform(-1, 1) * top
    return float(v)


def gen_ps(rng, n, big=False):
    out = []
    for _ in range(n):
        c = rng.random()
        if c < 0.3:
            out.append(rng.randint(-5, 5) * 10**rng.randint(0, 12))
        elif c < 0.6 and big:
            out.append(rng.choice([-1, 1]) * (2**53 + rng.randint(-2, 2)))
        elif c < 0.7 and big:
            out.append(rng.choice([-1, 1]) * (LIM // 4 - rng.randint(0, 10)))
        else:
            out.append(rng.randint(-10**15, 10**15))
    return out


def gen_T(rng, big=True, n=None):
    unit = rng.choice(UNITS)
    scalar = rng.random() < 0.3 if n is None else False
    n = 1 if scalar else (n if n is not None else rng.randint(1, 5))
    return unit, scalar, gen_ps(rng, n, big)


CTOR_KINDS = None   # set below KINDS: every bare-number kind


OPS_AR = {'add': operator.add, 'sub': operator.sub,
          'radd': lambda t, v: operator.add(v, t), 'rsub': lambda t, v: operator.sub(v, t)}
OPS_CMP = {'lt': operator.lt, 'le': operator.le, 'gt': operator.gt, 'ge': operator.ge, 'eq': operator.eq}
KINDS = ['time', 'pyint', 'pyfloat', 'list', 'int32', 'int64', 'float64', 'mixedlist',
         'npint32', 'npint64', 'npfloat64', 'arr0d']
# numpy scalars and 0-d arrays are bare NUMBERS too (np.float64 is a python float): same protocol token as a
# python scalar, so the model reads them in the time object's unit
NP_SCALAR = {'npint32': np.int32, 'npint64': np.int64, 'npfloat64': np.float64, 'arr0d': (lambda v: np.array(v, dtype=np.int64))}


# --- session 3 (L1): the dtype / layout families of bare operands.  Every value crosses the protocol as the exact number it
# denotes (an integer, or the binary64 value a narrower float widens to), so the model and the oracle read a float32 0.1 as
# the double 0.100000001490116…: conversion to float64 is an exact embedding, the product with the factor is binary64.
ARR_KINDS = {   # kind -> (int / float, numpy dtype, layout)
    'int8': ('i', 'i1', 'C'), 'int16': ('i', 'i2', 'C'), 'uint8': ('i', 'u1', 'C'), 'uint16': ('i', 'u2', 'C'),
    'uint32': ('i', 'u4', 'C'), 'uint64': ('i', 'u8', 'C'), 'beint32': ('i', '>i4', 'C'), 'beint64': ('i', '>i8', 'C'),
    'roint64': ('i', 'i8', 'ro'), 'stridedint64': ('i', 'i8', 'strided'),
    'float32': ('f', 'f4', 'C'), 'float16': ('f', 'f2', 'C'), 'befloat64': ('f', '>f8', 'C'),
    'stridedfloat64': ('f', 'f8', 'strided'), 'rofloat64': ('f', 'f8', 'ro'), 'float64whole': ('w', 'f8', 'C')}
NPS_KINDS = {'npint8': 'i1', 'npint16': 'i2', 'npuint8': 'u1', 'npuint16': 'u2', 'npuint32': 'u4', 'npuint64': 'u8',
             'npfloat32': 'f4', 'npfloat16': 'f2'}
for _k, _dt in NPS_KINDS.items():
    NP_SCALAR[_k] = (lambda v, _dt=_dt: np.dtype(_dt).type(v))
NP_SCALAR['arr0df'] = lambda v: np.array(v, dtype=np.float64)
NP_SCALAR['arr0d32'] = lambda v: np.array(v, dtype=np.int32)
KINDS += list(ARR_KINDS) + list(NPS_KINDS) + ['arr0df', 'arr0d32', 'bigint']
FLOAT_KINDS = {'mixedlist', 'float64', 'npfloat64', 'arr0df', 'npfloat32', 'npfloat16'} | \
    {k for k, v in ARR_KINDS.items() if v[0] in 'fw'}
INT_KINDS = set(KINDS) - FLOAT_KINDS - {'time', 'pyfloat'}
KIND_DTYPE = dict({k: v[1] for k, v in ARR_KINDS.items()}, int32='i4', int64='i8', float64='f8', npint32='i4', npint64='i8',
                  npfloat64='f8', arr0d='i8', arr0df='f8', arr0d32='i4', **NPS_KINDS)


CTOR_KINDS = [k for k in KINDS if k != 'time']


def fit_dtype(v, dt):
    """the value of `v` that an array / scalar of dtype `dt` can hold: integers clipped to the range, floats rounded to the width"""
    d = np.dtype(dt)
    if d.kind in 'iu':
        ii = np.iinfo(d)
        return max(int(ii.min), min(int(ii.max), int(v)))
    if d.itemsize < 8:
        fi = np.finfo(d)
        return float(d.type(max(-float(fi.max) / 2, min(float(fi.max) / 2, v))))
    return float(v)


def build_arr(vs, kind):
    """the real ndarray of an array kind (dtype, byte order, read-only, strided)"""
    if kind in ('int32', 'int64', 'float64'):
        return np.array(vs, dtype=KIND_DTYPE[kind])
    _, dt, layout = ARR_KINDS[kind]
    a = np.array(vs, dtype=np.dtype(dt))
    if layout == 'strided':
        b = np.zeros(2 * len(vs) + 1, dtype=np.dtype(dt))
        b[::2][:len(vs)] = a
        a = b[::2][:len(vs)]
    if layout == 'ro':
        a.setflags(write=False)
    return a


def np_scalar_val(rng, kind, self_unit):
    if kind in FLOAT_KINDS:
        return fit_dtype(gen_float(rng, self_unit), KIND_DTYPE[kind])
    return fit_dtype(gen_int(rng, self_unit), KIND_DTYPE[kind])


def gen_operand(rng, kind, self_unit, n_self):
    """returns (token, builder() -> python operand, meta)"""
    if kind == 'time':
        n = rng.choice([None, n_self])
        u, sc, ps = gen_T(rng, big=True, n=n if n is None or n > 0 else None)
        if n is not None and not sc:
            ps = (ps * n_self)[:n_self]
        return tok_T(u, sc, ps), (lambda: mk_T(u, sc, ps)), {'kind': kind, 'unit': u, 'scalar': sc, 'ps': ps}
    if kind == 'pyint':
        v = gen_int(rng, self_unit)
        return 'N:1:' + tok_num(v), (lambda: v), {'kind': kind, 'scalar': True, 'vals': [v]}
    if kind == 'pyfloat':
        v = gen_float(rng, self_unit)
        return 'N:1:' + tok_num(v), (lambda: v), {'kind': kind, 'scalar': True, 'vals': [v]}
    if kind in NP_SCALAR:
        v = np_scalar_val(rng, kind, self_unit)
        return 'N:1:' + tok_num(v), (lambda: NP_SCALAR[kind](v)), {'kind': kind, 'scalar': True, 'vals': [v]}
    if kind == 'bigint':   # python ints that no double holds
        f = FACTOR[self_unit]
        top = (LIM - 1) // f // 4
        v = rng.choice([-1, 1]) * (rng.randint(2**53 + 1, top) | 1) if top > 2**53 + 1 else gen_int(rng, self_unit)
        return 'N:1:' + tok_num(v), (lambda: v), {'kind': kind, 'scalar': True, 'vals': [v]}
    n = rng.choice([1, n_self, n_self])
    if kind in ARR_KINDS:
        cat, dt, _ = ARR_KINDS[kind]
        if cat == 'i':
            vs = [fit_dtype(gen_int(rng, self_unit), dt) for _ in range(n)]
        elif cat == 'w':
            vs = [float(max(-2**53, min(2**53, gen_int(rng, self_unit)))) for _ in range(n)]
        else:
            vs = [fit_dtype(gen_float(rng, self_unit), dt) for _ in range(n)]
        return 'N:0:' + ','.join(tok_num(v) for v in vs), (lambda: build_arr(vs, kind)), {'kind': kind, 'scalar': False, 'vals': vs}
    if kind in ('list', 'int64'):
        vs = [gen_int(rng, self_unit) for _ in range(n)]
        b = (lambda: list(vs)) if kind == 'list' else (lambda: np.array(vs, dtype=np.int64))
    elif kind == 'int32':
        vs = [max(-2**31, min(2**31 - 1, gen_int(rng, self_unit))) for _ in range(n)]
        b = lambda: np.array(vs, dtype=np.int32)
    elif kind == 'float64':
        vs = [gen_float(rng, self_unit) for _ in range(n)]
        b = lambda: np.array(vs, dtype=np.float64)
    else:  # mixed list: python ints and floats together -> float64 array
        vs = [gen_float(rng, self_unit) if i % 2 else gen_int(rng, self_unit) for i in range(max(n, 2))][:max(n, 1)]
        if all(isinstance(v, int) for v in vs):
            vs[0] = float(vs[0]) + 0.25
        b = lambda: list(vs)
    return 'N:0:' + ','.join(tok_num(v) for v in vs), b, {'kind': kind, 'scalar': False, 'vals': vs}


def cases(rng, tier, seed):
    T = ts().TimeArray
    n = {'quick': 1, 'thorough': 25}[tier]
    out = []
    # --- binary64 model vs hardware
    for _ in range(1500 * n):
        k = rng.random()
        a = gen_float(rng, rng.choice(UNITS)) if k < 0.5 else rng.uniform(-1, 1) * 10.0**rng.randint(-8, 17)
        b = float(FACTOR[rng.choice(UNITS)]) if rng.random() < 0.5 else rng.uniform(-1, 1) * 10.0**rng.randint(-8, 8)
        if a == 0 or b == 0:
            continue
        opn = rng.choice(['f64mul', 'f64div', 'f64add'])
        r = {'f64mul': a * b, 'f64div': a / b, 'f64add': a + b}[opn]
        if r == 0 or abs(r) < 1e-290 or abs(r) > 1e290:
            continue
        out.append(Case('C01 %s %s %s' % (opn, f2x(a)[1:], f2x(b)[1:]), 'ok ' + f2x(r)[1:], 'f64/' + opn))
    for _ in range(300 * n):
        k = rng.randint(-10**9, 10**9)
        a = rng.choice([k + 0.5, k + 0.25, float(k), k + 0.75, rng.uniform(-1e15, 1e15)])
        out.append(Case('C01 f64rint %s' % f2x(a)[1:], 'ok %d' % int(np.float64(a).round()), 'f64/rint'))
        i = rng.choice([2**53 + 1, 2**60 + rng.randint(0, 2**10), rng.randint(-2**62, 2**62), 3 * 2**55 + 256 + rng.randint(-1, 1)])
        out.append(Case('C01 f64ofint %d' % i, 'ok ' + f2x(float(i))[1:], 'f64/ofint'))
    # --- constructor from bare numbers
    for _ in range(600 * n):
        unit = rng.choice(UNITS + ['none'])
        ru = 's' if unit == 'none' else unit
        kind = rng.choice(CTOR_KINDS)
        tok, build, meta = gen_operand(rng, kind, ru, rng.randint(1, 4))
        _, sc, xs = tok.split(':')
        meta.update(op='ctor', unit=unit)
        impl = call(lambda: 'ok ' + canon_T(T(build(), time_unit=None if unit == 'none' else unit)))
        out.append(Case('C01 ctor %s %s %s' % (unit, sc, xs), impl, 'ctor/' + kind, meta=meta))
    # --- re-wrapping time objects, lists of time objects
    for _ in range(250 * n):
        u, sc, ps = gen_T(rng)
        nu = rng.choice(UNITS + ['none', 'none'])
        impl = call(lambda: 'ok ' + canon_T(T(mk_T(u, sc, ps), time_unit=None if nu == 'none' else nu)))
        out.append(Case('C01 ctorfrom %s %s' % (nu, tok_T(u, sc, ps)), impl, 'rewrap/object',
                        meta={'op': 'ctorfrom', 'unit': nu, 'src': (u, sc, ps)}))
        k = rng.randint(1, 4)
        items = [(rng.choice(UNITS), True, gen_ps(rng, 1, True)) for _ in range(k)]
        if rng.random() < 0.1:
            items[rng.randrange(k)] = (rng.choice(UNITS), False, gen_ps(rng, 2, True))
            if k > 1 and rng.random() < 0.5:   # ragged / 2-d
                items = [(rng.choice(UNITS), False, gen_ps(rng, 2, True)) for _ in range(k)]
        impl = call(lambda: 'ok ' + canon_T(T([mk_T(*it) for it in items], time_unit=None if nu == 'none' else nu)))
        if impl.startswith('err'):
            impl = 'err ValueError' if 'ValueError' in impl else impl
        out.append(Case('C01 ctorlist %s %s' % (nu, ' '.join(tok_T(*it) for it in items)), impl, 'rewrap/list',
                        meta={'op': 'ctorlist', 'unit': nu, 'items': items}))
    # --- operators: every (op, kind) cell, all 81 unit pairs over the run
    pairs = [(a, b) for a in UNITS for b in UNITS]
    rng.shuffle(pairs)
    pi = 0
    for rep in range(2 * n):
        for opn in list(OPS_AR) + list(OPS_CMP):
            for kind in KINDS:
                if kind == 'time' and opn in ('radd', 'rsub'):
                    continue
                if kind in ('npfloat32', 'npfloat16', 'npuint64') and opn in ('radd', 'rsub'):
                    continue   # numpy scalar on the LEFT: the recorded finding, represented by npfloat64 / the integer widths
                ua, ub = pairs[pi % 81]
                pi += 1
                sc = rng.random() < 0.3
                ps = gen_ps(rng, 1 if sc else rng.randint(1, 4), True)
                # every fourth cell: the time operand is a UNIFORM axis (UniformTime is a time object too)
                uniform = (pi % 4 == 0)
                if uniform:
                    sc = False
                    t0_, d_, n_ = rng.randint(-10**15, 10**15), rng.choice([1, 999, 10**9, 2 * 10**12 + 1, rng.randint(1, 10**13)]), rng.randint(1, 4)
                    ps = [t0_ + i * d_ for i in range(n_)]
                tok, build, meta = gen_operand(rng, kind, ua, len(ps))
                near = opn in OPS_CMP and rng.random() < 0.6
                if kind == 'time':   # force the unit pair
                    meta['unit'] = ub
                    if near:   # equal / off-by-one-picosecond instants in another unit
                        meta['ps'] = [psa + rng.choice([0, 0, 1, -1]) for psa in (ps if not meta['scalar'] else ps[:1])]
                    tok = tok_T(ub, meta['scalar'], meta['ps'])
                    build = (lambda m=meta: mk_T(m['unit'], m['scalar'], m['ps']))
                elif near:
                    # bare numbers that denote (almost) the same instants as `self`: a comparison must
                    # then behave exactly like the constructor's rounding, also beyond 2^53 ps
                    f = FACTOR[ua]
                    if kind in INT_KINDS:
                        vs = [p_ // f + rng.choice([0, 0, 1, -1]) for p_ in ps]
                        if kind in KIND_DTYPE:
                            vs = [fit_dtype(v, KIND_DTYPE[kind]) for v in vs]
                    else:
                        vs = [float(Fr(p_) / f) + rng.choice([0, 0.4, -0.4, 0.6, -0.6, 1, 0.5, 1e-3]) / f for p_ in ps]
                        if kind == 'mixedlist' and len(vs) > 1:
                            vs[0] = int(ps[0] // f)
                        if kind in KIND_DTYPE:
                            vs = [fit_dtype(v, KIND_DTYPE[kind]) for v in vs]
                    if kind in ('pyint', 'pyfloat', 'bigint') or kind in NP_SCALAR:
                        vs = vs[:1]
                        meta.update(scalar=True, vals=vs)
                        tok = 'N:1:' + tok_num(vs[0])
                        build = (lambda v=vs[0], k=kind: NP_SCALAR[k](v) if k in NP_SCALAR else v)
                    else:
                        meta.update(scalar=False, vals=vs)
                        tok = 'N:0:' + ','.join(tok_num(v) for v in vs)
                        build = (lambda v=vs, k=kind: list(v) if k in ('list', 'mixedlist') else build_arr(v, k))
                meta.update(op=opn, self=(ua, sc, ps), uniform=uniform)
                fn = OPS_AR.get(opn) or OPS_CMP[opn]
                canon = canon_T if opn in OPS_AR else canon_B
                # the operands as objects, so that they can be looked at again after the operation: neither the time
                # object nor the other operand (value, unit, dtype) may have changed
                o_self, o_other = mk_self((ua, sc, ps), uniform), build()
                b_self, b_other = canon_T(o_self), operand_state(o_other)
                impl = call(lambda: 'ok ' + canon(fn(o_self, o_other)))
                meta['operands_unchanged'] = (canon_T(o_self) == b_self and operand_state(o_other) == b_other)
                meta['operands_after'] = [canon_T(o_self), operand_state(o_other)]
                if impl.startswith('err'):
                    impl = 'err ValueError'   # numpy broadcasting errors are ValueError
                out.append(Case('C01 binop %s %s %s' % (opn, tok_T(ua, sc, ps), tok), impl,
                                'binop/%s/%s%s' % (opn, kind, '/uniform-axis' if uniform else ''), meta=meta, nontrivial=any(ps)))
    # --- sequences: the SAME number given as float and then as int (and the other way round): a conversion cached
    # on the value would hand the int the float-rounded picoseconds (n*factor beyond 2^53 and not a double)
    for rep in range(12 * n):
        ua = rng.choice(['ns', 'us', 'ms'])
        f = FACTOR[ua]
        top = (LIM - 1) // f // 4
        k = rng.randint(2**53 // f + 1, top) | 1            # odd: k*f is not representable when f has few factors 2
        for first, second in ((float, int), (int, float)):
            k += 2
            if float(k) != k:
                continue
            for conv in (first, second):
                for opn in ('add', 'eq', 'rsub'):
                    v = conv(k)
                    ps = [rng.randint(-10**6, 10**6), k * f]
                    meta = {'kind': 'pyint' if conv is int else 'pyfloat', 'scalar': True, 'vals': [v], 'op': opn, 'self': (ua, False, ps)}
                    fn = OPS_AR.get(opn) or OPS_CMP[opn]
                    canon = canon_T if opn in OPS_AR else canon_B
                    impl = call(lambda: 'ok ' + canon(fn(mk_T(ua, False, ps), v)))
                    out.append(Case('C01 binop %s %s N:1:%s' % (opn, tok_T(ua, False, ps), tok_num(v)), impl,
                                    'binop/%s/%s' % (opn, meta['kind']), meta=meta))
    # --- the SAME number through many doors (L2): as python int / float / numpy scalars, against objects of several units, in
    # the constructor and in the operators, near 2^53 and near the top of the domain — a value seen earlier (in another
    # type, with another factor) must not influence a later conversion
    for rep in range(30 * n):
        ua, ub = rng.sample(UNITS, 2)
        top = (LIM - 1) // max(FACTOR[ua], FACTOR[ub]) // 4
        cands = [top - rng.randint(0, 3), rng.randint(1, max(1, top))]
        if 2**53 // min(FACTOR[ua], FACTOR[ub]) + 3 < top:
            cands += [min(top, (2**53 // min(FACTOR[ua], FACTOR[ub]) + rng.randint(1, 1000)) | 1)] * 2
        k = rng.choice(cands) * rng.choice([1, 1, -1])
        if float(k) != k:
            k = int(float(k))
        doors = [(u_, conv) for u_ in (ua, ub, ua) for conv in ('pyfloat', 'pyint', 'npfloat64', 'npint64')]
        rng.shuffle(doors)
        seen = []
        for u_, kd_ in doors[:8]:
            v = {'pyfloat': float, 'pyint': int, 'npfloat64': float, 'npint64': int}[kd_](k)
            mkv = (lambda v=v, kd_=kd_: NP_SCALAR[kd_](v) if kd_ in NP_SCALAR else v)
            opn = rng.choice(['ctor', 'add', 'sub', 'eq', 'le', 'rsub'])
            if opn == 'rsub' and kd_ in NP_SCALAR:
                opn = 'sub'
            prelude = list(seen)
            seen.append([u_, kd_, v, opn])
            if opn == 'ctor':
                meta = {'kind': kd_, 'scalar': True, 'vals': [v], 'op': 'ctor', 'unit': u_, 'prelude': prelude}
                impl = call(lambda: 'ok ' + canon_T(T(mkv(), time_unit=u_)))
                out.append(Case('C01 ctor %s 1 %s' % (u_, tok_num(v)), impl, 'ctor/' + kd_, meta=meta))
                continue
            ps = [rng.randint(-10**6, 10**6), k * FACTOR[u_]]
            meta = {'kind': kd_, 'scalar': True, 'vals': [v], 'op': opn, 'self': (u_, False, ps), 'prelude': prelude}
            fn = OPS_AR.get(opn) or OPS_CMP[opn]
            canon = canon_T if opn in OPS_AR else canon_B
            impl = call(lambda: 'ok ' + canon(fn(mk_T(u_, False, ps), mkv())))
            out.append(Case('C01 binop %s %s N:1:%s' % (opn, tok_T(u_, False, ps), tok_num(v)), impl,
                            'binop/%s/%s' % (opn, kd_), meta=meta))
    # --- object histories (copy=False / views / copies / pickling / reductions, sources from every class)
    out += hist_cases(rng, 700 * n)
    # --- raw flag values for `copy` (round 4): every value class x data kind, all units over the run
    out += flag_cases(rng, n)
    out += flagarg_cases()
    # --- reductions and convert_unit
    for it in range(150 * n):
        u, sc, ps = gen_T(rng, big=False)
        if it % 2:   # large magnitudes with picosecond detail (n <= 4 values below 2^60: the sum stays below 2^62)
            ps = [rng.choice([-1, 1]) * rng.choice([2**53 + 1, 2**60 + 1, 777777777777777777, rng.randint(2**53, 2**60)]) for _ in ps[:4]]
        for r in ('min', 'max', 'sum', 'ptp'):
            impl = call(lambda: 'ok ' + canon_T(getattr(mk_T(u, sc, ps), r)()))
            out.append(Case('C01 reduce %s %s' % (r, tok_T(u, sc, ps)), impl, 'reduce/' + r,
                            meta={'op': 'reduce', 'red': r, 'self': (u, sc, ps)}))
        nu = rng.choice(UNITS)

        def conv():
            t = mk_T(u, sc, ps)
            t.convert_unit(nu)
            return 'ok ' + canon_T(t)
        out.append(Case('C01 convert %s %s' % (tok_T(u, sc, ps), nu), call(conv), 'convert',
                        meta={'op': 'convert', 'self': (u, sc, ps), 'unit': nu}))
    return out



# ------------------------------------------------------------------ session 3: object HISTORIES (L2 / L3 / L5 / L6)
# A time object carries a unit LABEL (`time_unit`) and, separately, the FACTOR bare numbers are read with
# (`_conversion_factor`).  A history starts from a time object obtained through ANY public entry point (the constructor with
# every container / dtype, copy=False, UniformTime and its attributes / elements / slices, Epochs, Events, TimeSeries), runs
# re-wrapping (copy True / False, unit given / None), convert_unit, views of views, copies, pickling, reductions and
# arithmetic, and after EVERY step observes: label, payload and the factor as the public behaviour shows it
# (`(o + 1) - o`).  The last object is then combined with a bare number / array / time object by one of the nine operators.
HIST_LIM = 2**57


def hist_ps(rng, n, unit):
    f = FACTOR[unit]
    return [rng.choice([rng.randint(-50, 50) * f if abs(50 * f) < HIST_LIM else rng.randint(-1, 1) * f,
                        rng.randint(-10**15, 10**15), rng.choice([-1, 1]) * (2**53 + rng.randint(-2, 2))]) for _ in range(n)]


def small_ks(rng, n, unit, lo=None):
    top = max(1, min(10**6, (HIST_LIM // 8) // FACTOR[unit]))
    return [rng.randint(-top if lo is None else lo, top) for _ in range(n)]


def int_container(ks, how):
    """integers in one of the container / dtype families (L1)"""
    if how == 'list':
        return list(ks)
    if how == 'tuple':
        return tuple(ks)
    if how == 'float64whole':
        return np.array([float(k) for k in ks])
    return build_arr(ks, how)


def pick_int_container(rng, ks):
    ok = ['list', 'tuple', 'int64', 'float64whole', 'beint64', 'roint64', 'stridedint64']
    for k, dt in (('int8', 'i1'), ('int16', 'i2'), ('int32', 'i4'), ('uint8', 'u1'), ('uint16', 'u2'), ('uint32', 'u4'),
                  ('uint64', 'u8'), ('beint32', '>i4')):
        ii = np.iinfo(np.dtype(dt))
        if all(int(ii.min) <= v <= int(ii.max) for v in ks):
            ok.append(k)
    return rng.choice(ok)


def num_variant(v, how):
    """one integer as python int / numpy scalars / 0-d array / whole float (L3: constructor parameters)"""
    return {'int': int, 'npint64': np.int64, 'npint32': np.int32, 'arr0d': (lambda x: np.array(x, dtype=np.int64)),
            'float': float, 'npfloat64': np.float64,
            # round 4 (L3, sharper): the numbers 0 and 1 as the booleans a caller may hold (False == 0, np.False_ == 0 …): a
            # parameter tested with `is None` must take them as the NUMBER, not as "not given"
            'pybool': bool, 'npbool': np.bool_}[how](v)


def pick_num_variant(rng, v):
    ok = ['int', 'npint64', 'arr0d', 'float', 'npfloat64']
    if abs(v) < 2**31:
        ok.append('npint32')
    if v in (0, 1) and rng.random() < 0.4:
        return rng.choice(['pybool', 'npbool'])
    return rng.choice(ok)


def build_source(sp):
    """the real object a source specification denotes"""
    t = ts()
    T, U = t.TimeArray, t.UniformTime
    k, u = sp['k'], sp.get('unit')
    if k == 'convert':
        return mk_T(u, sp['sc'], sp['ps'])
    if k == 'nocopy':
        data = np.int64(sp['ps'][0]) if sp['sc'] else np.array(sp['ps'], dtype=np.int64)
        return T(data, time_unit=u, copy=False)
    if k == 'ints':
        data = num_variant(sp['ks'][0], sp['how']) if sp['sc'] else int_container(sp['ks'], sp['how'])
        return T(data, time_unit=u) if sp.get('copyarg') is None else T(data, time_unit=u, copy=True)
    if k in ('uaxis', 'uattr', 'uitem', 'uslice'):
        kw = dict(t0=num_variant(sp['k0'], sp['h0']), sampling_interval=num_variant(sp['kd'], sp['hd']),
                  time_unit=u)
        if sp.get('t0obj'):   # the start as a time object in ANOTHER unit (a zero one included)
            kw['t0'] = mk_T(sp['t0obj'], True, [sp['k0'] * FACTOR[u]])
        if sp.get('by') == 'duration':
            kw['duration'] = num_variant(sp['n'] * sp['kd'], sp['hn'])
        else:
            kw['length'] = num_variant(sp['n'], sp['hn']) if sp['hn'] in ('int', 'npint64', 'npint32') else sp['n']
        ax = U(**kw)
        if k == 'uaxis':
            return ax
        if k == 'uattr':
            return getattr(ax, sp['attr'])
        if k == 'uitem':
            return ax[sp['i']]
        return ax[sp['a']:sp['b']:sp['c']]
    if k == 'epochs':
        E = t.Epochs
        kw = {}
        if sp.get('extra'):
            kw['static'] = None   # falsy/None value of an optional parameter given explicitly
            kw['note'] = 'free-form keyword (Epochs takes **kwargs)'
        if sp['form'] == 'start-stop':
            e = E(start=int_container(sp['ks'], sp['how']), stop=int_container(sp['ke'], sp['how']), time_unit=u, **kw)
        elif sp['form'] == 'start-duration':
            e = E(start=int_container(sp['ks'], sp['how']), duration=int_container(sp['kdur'], sp['how']), time_unit=u, **kw)
        elif sp['form'] == 'scalar':
            e = E(t0=sp['ks'][0], stop=sp['ke'][0], offset=sp['off'], time_unit=u, **kw)
        else:
            e = E(t0=int_container(sp['ks'], sp['how']), duration=int_container(sp['kdur'], sp['how']), offset=sp['off'],
                  time_unit=u, **kw)
        if sp.get('index') is not None:
            e = e[sp['index']]
        return getattr(e, sp['attr'])
    if k == 'events':
        kw = {}
        if sp['with'] == 'labels':
            kw = dict(labels=['a', 'b'], indices=[list(range(len(sp['ks']))), list(range(len(sp['ks'])))])
        elif sp['with'] == 'data':
            kw = dict(i=np.arange(len(sp['ks'])), j=[2.5] * len(sp['ks']))
        elif sp['with'] == 'none':
            kw = dict(labels=None, indices=None)
        ev = t.Events(int_container(sp['ks'], sp['how']), time_unit=u, **kw)
        if sp.get('index') is not None:
            ev = ev[sp['index']]
        return ev.time
    if k == 'series':
        data = np.zeros(sp['n'])
        if sp['how'] == 'interval':
            se = t.TimeSeries(data, sampling_interval=num_variant(sp['kd'], sp['hd']), t0=num_variant(sp['k0'], sp['h0']), time_unit=u)
        else:   # from an axis in unit `au`, with or without an explicit start / unit
            ax = U(t0=sp['k0'], sampling_interval=sp['kd'], length=sp['n'], time_unit=sp['au'])
            kw = {}
            if sp['unit_arg'] != 'default':
                kw['time_unit'] = None if sp['unit_arg'] == 'none' else sp['unit_arg']
            if sp.get('t0_arg') is not None:
                kw['t0'] = num_variant(sp['t0_arg'], sp['h0'])
            se = t.TimeSeries(data, time=ax, **kw)
        return getattr(se, sp['attr'])
    raise ValueError(k)


def gen_source(rng):
    """(spec, cls 'T'|'U', unit, scalar, ps): what the source must be, from the arguments alone"""
    u = rng.choice(UNITS)
    f = FACTOR[u]
    k = rng.choice(['convert', 'nocopy', 'ints', 'ints', 'uaxis', 'uattr', 'uitem', 'uslice', 'epochs', 'epochs', 'events', 'series', 'series'])
    if k in ('convert', 'nocopy'):
        sc = rng.random() < 0.3
        ps = hist_ps(rng, 1 if sc else rng.randint(1, 4), u)
        return {'k': k, 'unit': u, 'sc': sc, 'ps': ps}, 'T', u, sc, ps
    if k == 'ints':
        sc = rng.random() < 0.3
        ks = small_ks(rng, 1 if sc else rng.randint(1, 4), u)
        how = pick_num_variant(rng, ks[0]) if sc else pick_int_container(rng, ks)
        if how == 'uint64' or (how.startswith('uint') and min(ks) < 0):
            how = 'list'
        return {'k': k, 'unit': u, 'sc': sc, 'ks': ks, 'how': how, 'copyarg': rng.choice([None, True])}, 'T', u, sc, [v * f for v in ks]
    if k in ('uaxis', 'uattr', 'uitem', 'uslice'):
        k0 = rng.choice([0, 0, 0] + small_ks(rng, 2, u))
        kd = small_ks(rng, 1, u, lo=1)[0]
        n = rng.randint(2, 4)
        if abs(k0 + n * kd) * f >= HIST_LIM:
            k0, kd = 0, 1
        sp = {'k': k, 'unit': u, 'k0': k0, 'kd': kd, 'n': n, 'h0': pick_num_variant(rng, k0), 'hd': pick_num_variant(rng, kd),
              'hn': rng.choice(['int', 'npint64', 'npint32']), 'by': 'length'}
        if rng.random() < 0.3:
            sp['t0obj'] = rng.choice(UNITS)
        if rng.random() < 0.25:
            sp['by'], sp['hn'] = 'duration', pick_num_variant(rng, n * kd)
        ramp = [(k0 + i * kd) * f for i in range(n)]
        if k == 'uaxis':
            return sp, 'U', u, False, ramp
        if k == 'uattr':
            sp['attr'] = rng.choice(['t0', 'sampling_interval', 'duration'])
            return sp, 'T', u, True, [{'t0': k0 * f, 'sampling_interval': kd * f, 'duration': n * kd * f}[sp['attr']]]
        if k == 'uitem':
            sp['i'] = rng.randrange(n)
            return sp, 'T', u, True, [ramp[sp['i']]]
        a = rng.randint(0, n - 1)
        b = rng.randint(a + 1, n)
        c = rng.choice([1, 1, 2])
        sp.update(a=a, b=b, c=c)
        return sp, 'U', u, False, ramp[a:b:c]
    if k == 'epochs':
        form = rng.choice(['start-stop', 'start-duration', 't0-duration', 'scalar'])
        n = 1 if form == 'scalar' else rng.randint(1, 3)
        ks = small_ks(rng, n, u)
        kdur = small_ks(rng, n, u, lo=1)
        ke = [a + d for a, d in zip(ks, kdur)]
        off = 0 if form in ('start-stop', 'start-duration') else rng.choice([0, 0, 0.0] + small_ks(rng, 1, u))
        uu = rng.choice([u, u, u, None])
        ru = 's' if uu is None else uu
        if uu is None and max(abs(v) for v in ks + ke + [off, 1]) * FACTOR['s'] * 2 >= HIST_LIM:
            uu, ru = u, u
        rf = FACTOR[ru]
        how = pick_int_container(rng, ks + ke + kdur)
        if how.startswith('uint') and min(ks + ke) < 0:
            how = 'int64'
        sp = {'k': k, 'unit': uu, 'form': form, 'ks': ks, 'ke': ke, 'kdur': kdur, 'off': off, 'how': how,
              'attr': rng.choice(['start', 'stop', 'duration', 'offset']), 'index': None, 'extra': rng.random() < 0.3}
        start = [int(v - off) * rf for v in ks] if form in ('t0-duration', 'scalar') else [v * rf for v in ks]
        if form == 'scalar':
            stop = [ke[0] * rf]
        else:
            stop = [s_ + d * rf for s_, d in zip(start, kdur)] if form != 'start-stop' else [v * rf for v in ke]
        sc = form == 'scalar'
        if not sc and rng.random() < 0.4 and sp['attr'] != 'duration':
            sp['index'] = rng.randrange(n)
            start, stop, sc = [start[sp['index']]], [stop[sp['index']]], True
        val = {'start': start, 'stop': stop, 'duration': [b_ - a_ for a_, b_ in zip(start, stop)], 'offset': [int(off) * rf]}[sp['attr']]
        return sp, 'T', ru, (True if sp['attr'] == 'offset' else sc), val
    if k == 'events':
        n = rng.randint(1, 4)
        ks = small_ks(rng, n, u)
        sp = {'k': k, 'unit': u, 'ks': ks, 'how': pick_int_container(rng, ks), 'with': rng.choice(['plain', 'labels', 'data', 'none']), 'index': None}
        if sp['how'].startswith('uint') and min(ks) < 0:
            sp['how'] = 'list'
        ps = [v * f for v in ks]
        if sp['with'] in ('plain', 'data') and rng.random() < 0.3:
            sp['index'] = rng.randrange(n)
            ps = [ps[sp['index']]]
        return sp, 'T', u, False, ps
    # series
    k0 = rng.choice([0, 0, 0] + small_ks(rng, 2, u))
    kd = small_ks(rng, 1, u, lo=1)[0]
    n = rng.randint(2, 4)
    if abs(k0 + n * kd) * f >= HIST_LIM:
        k0, kd = 0, 1
    attr = rng.choice(['t0', 'sampling_interval', 'duration', 'time'])
    sp = {'k': 'series', 'unit': u, 'k0': k0, 'kd': kd, 'n': n, 'attr': attr, 'h0': pick_num_variant(rng, k0), 'hd': pick_num_variant(rng, kd),
          'how': rng.choice(['interval', 'axis'])}
    lab, t0 = u, k0 * f
    if sp['how'] == 'axis':
        sp['au'] = u
        sp['unit_arg'] = rng.choice(['default', 'none', rng.choice(UNITS)])
        lab = {'default': 's', 'none': u}.get(sp['unit_arg'], sp['unit_arg'])
        sp['unit'] = lab
        if rng.random() < 0.5:   # an explicit start, 0 / 0.0 included, read in the SERIES' unit
            t0k = rng.choice([0, 0, 1, -1])
            if abs(t0k * FACTOR[lab]) + n * kd * f < HIST_LIM:
                sp['t0_arg'], sp['h0'] = t0k, rng.choice(['int', 'float', 'npint64'] + (['pybool', 'npbool'] if t0k in (0, 1) else []))
                t0 = t0k * FACTOR[lab]
    val = {'t0': [t0], 'sampling_interval': [kd * f], 'duration': [n * kd * f], 'time': [t0 + i * kd * f for i in range(n)]}[attr]
    return sp, ('U' if attr == 'time' else 'T'), lab, attr != 'time', val


SAME_HOWS = ['viewself', 'viewcast', 'copy', 'ccopy', 'dcopy', 'asany', 'nparr', 'astype']
FLAT_HOWS = ['reshape', 'ravel', 'flatten']
STRIP_HOWS = ['pickle', 'stripview']


BOGUS_UNITS = {'str': 'bogus', 'upper': 'MS', 'empty': '', 'int': 5, 'float': 1e-3, 'list': [], 'dict': {}, 'bytes': b'ms', 'tuple': ('ms',)}
BAD_CALLS = {   # method -> {variant: action}; every one is refused on HEAD and must leave the object as it was (class L7)
    '__add__': {'str': lambda o, n: o + 'x', 'mismatch': lambda o, n: o + list(range(n + 2)), 'none': lambda o, n: o + None},
    '__rsub__': {'str': lambda o, n: 'x' - o, 'mismatch': lambda o, n: list(range(n + 2)) - o},
    '__lt__': {'mismatch': lambda o, n: o < np.arange(n + 2), 'dict': lambda o, n: o < {}},
    '__eq__': {'mismatch': lambda o, n: o == list(range(n + 2))},
    'max': {'axis': lambda o, n: o.max(axis=0), 'out': lambda o, n: o.max(out=np.zeros((), dtype=np.int64)), 'axis5': lambda o, n: o.max(axis=5)},
    'min': {'axis5': lambda o, n: o.min(axis=5), 'badkw': lambda o, n: o.min(bogus=1)},
    'sum': {'axis5': lambda o, n: o.sum(axis=5), 'dtype': lambda o, n: o.sum(dtype='bogus')},
    'ptp': {'axis5': lambda o, n: o.ptp(axis=5)},
    'prod': {'plain': lambda o, n: o.prod()},
    'var': {'plain': lambda o, n: o.var()},
    '__getitem__': {'outside': lambda o, n: o[n + 5], 'str': lambda o, n: o['x'], 'none3': lambda o, n: o[None, None, None, 0, 0]},
    '__setitem__': {'outside': lambda o, n: o.__setitem__(n + 5, 1), 'str': lambda o, n: o.__setitem__(0, 'x'),
                    'mismatch': lambda o, n: o.__setitem__(slice(None), list(range(n + 2)))},
    'index_at': {'badmode': lambda o, n: o.index_at(1, mode='bogus'), 'badkw': lambda o, n: o.index_at(1, bogus=2)},
    'slice_during': {'notepochs': lambda o, n: o.slice_during(5)},
    'during': {'notepochs': lambda o, n: o.during([1, 2])},
    '__iadd__': {'mismatch': lambda o, n: o.__iadd__(list(range(n + 2))), 'str': lambda o, n: o.__iadd__('x')},
    '__isub__': {'mismatch': lambda o, n: o.__isub__(np.arange(n + 2)), 'none': lambda o, n: o.__isub__(None)},
    '__itruediv__': {'zero': lambda o, n: o.__itruediv__(0), 'str': lambda o, n: o.__itruediv__('x')},
    'reshape': {'bad': lambda o, n: o.reshape(n + 1, 7)},
    'view': {'bad': lambda o, n: o.view('bogus')},
    'astype': {'bad': lambda o, n: o.astype('bogus')},
}
U_ONLY_BAD = {'__imul__': {'zero': lambda o, n: o.__imul__(0), 'str': lambda o, n: o.__imul__('x')},
              'convert_unit': {'absent': lambda o, n: o.convert_unit('s')}}
T_ONLY = {'prod', 'var', 'index_at', 'max', 'ptp'}     # (a UniformTime answers these, or has another signature)
_NONE_ACCEPTED = {}


def none_accepted():
    """does `convert_unit(None)` relabel (None = the constructors' spelling of seconds) or refuse?  Either is fine for the property; the
    generator only needs to know in which unit later bare numbers will be read, to keep them inside 2^62 ps"""
    key = os.environ.get('NITIME_REPO', '')
    if key not in _NONE_ACCEPTED:
        t = ts().TimeArray(1, time_unit='ms')
        try:
            t.convert_unit(None)
            _NONE_ACCEPTED[key] = True
        except Exception:  # noqa
            _NONE_ACCEPTED[key] = False
    return _NONE_ACCEPTED[key]


def full_snapshot(o):
    """everything a refused call might have touched: payload bytes, dtype, shape, flags, every instance attribute (values of time
    objects by payload + their own attributes), and the behaviour probe"""
    def val(v):
        if isinstance(v, np.ndarray):
            return (type(v).__name__, v.dtype.str, v.shape, np.asarray(v).tobytes(),
                    tuple(sorted((k, val(x)) for k, x in getattr(v, '__dict__', {}).items())))
        return repr(v)
    a = np.asarray(o)
    return (type(o).__name__, a.dtype.str, a.shape, a.tobytes(), a.flags.writeable,
            tuple(sorted((k, val(v)) for k, v in vars(o).items())), probe(o))


def do_bad(o, st):
    """a call that should be refused; returns the kind of exception (None: accepted)"""
    T = ts().TimeArray
    n = int(np.asarray(o).size)
    try:
        if st[1] == 'conv':
            o.convert_unit(None if st[2] == 'none' else BOGUS_UNITS[st[3]])
        elif st[1] == 'wrap':
            kw = {} if st[4] == 'absent' else {'copy': bool(st[4])}
            T(o, time_unit=BOGUS_UNITS[st[3]], **kw)
        else:
            (BAD_CALLS.get(st[2]) or U_ONLY_BAD[st[2]])[st[3]](o, n)
    except Exception as e:  # noqa
        return err_kind(e)
    return None


def do_step(o, st):
    T = ts().TimeArray
    k = st[0]
    if k == 'wrap':
        kw = {}
        if st[1] != 'absent':
            kw['time_unit'] = None if st[1] == 'none' else st[1]
        if st[2] != 'absent':
            kw['copy'] = bool(st[2])
        return T(o, **kw)
    if k == 'conv':
        o.convert_unit(st[1])
        return o
    if k == 'same':
        return {'viewself': lambda: o.view(type(o)), 'viewcast': lambda: o.view(T), 'copy': lambda: o.copy(),
                'ccopy': lambda: _copy.copy(o), 'dcopy': lambda: _copy.deepcopy(o), 'asany': lambda: np.asanyarray(o),
                'nparr': lambda: np.array(o, copy=False, subok=True), 'astype': lambda: o.astype(np.int64)}[st[1]]()
    if k == 'flat':
        return {'reshape': lambda: o.reshape(-1), 'ravel': lambda: o.ravel(), 'flatten': lambda: o.flatten()}[st[1]]()
    if k == 'strip':
        return pickle.loads(pickle.dumps(o)) if st[1] == 'pickle' else o.view(np.ndarray).view(type(o))
    if k == 'neg':
        return -o
    if k == 'item':
        return o[{'int': int, 'npint64': np.int64, 'npint32': np.int32}[st[2]](st[1])]
    if k == 'slice':
        return o[st[1]:st[2]:st[3]]
    if k == 'fancy':
        return o[list(st[1])] if st[2] == 'list' else o[np.array(st[1], dtype=np.int64)]
    if k == 'red':
        if len(st) > 2 and st[2] == 'axis0':     # the optional arguments of the reductions (never varied before session 3)
            return getattr(o, st[1])(axis=0) if st[1] != 'sum' else o.sum(0)
        return getattr(o, st[1])()
    if k == 'ar':
        other = st[2] if st[3] == 'int' else mk_T(st[4], True, [st[2]])
        return OPS_AR[st[1]](o, other)
    raise ValueError(k)


def step_tok(st):
    k = st[0]
    if k == 'bad':
        return 'bad=%s=%s' % (st[1], st[2])
    if k == 'wrap':
        return 'wrap=%s=%d' % ('none' if st[1] in ('none', 'absent') else st[1], 0 if st[2] == 0 else 1)
    if k == 'conv':
        return 'conv=' + st[1]
    if k in ('same', 'flat', 'strip', 'neg'):
        return k
    if k == 'item':
        return 'item=%d' % st[1]
    if k == 'slice':
        return 'slice=%d=%d=%d' % (st[1], st[2], st[3])
    if k == 'fancy':
        return 'fancy=' + ','.join(str(i) for i in st[1])
    if k == 'red':
        return 'red=' + st[1]
    if k == 'ar':
        return 'ar=%s=%s' % (st[1], ('N:1:i%d' % st[2]) if st[3] == 'int' else tok_T(st[4], True, [st[2]]))
    raise ValueError(k)


def shadow_step(state, st, accepted=False):
    """the property's own account of a step on (cls, label, scalar, ps) — plain integers, no model"""
    cls, lab, sc, ps = state
    k = st[0]
    if k == 'bad':      # a refused call leaves everything as it was; an ACCEPTED convert_unit(None) makes it seconds
        return (cls, 's', sc, ps) if (st[1] == 'conv' and st[2] == 'none' and accepted) else state
    if k == 'wrap':
        return ('T', lab if st[1] in ('none', 'absent') else st[1], sc, ps)
    if k == 'conv':
        return (cls, st[1], sc, ps)
    if k == 'same':
        return ('T' if st[1] == 'viewcast' else cls, lab, sc, ps)
    if k == 'flat':
        return (cls, lab, False, ps)
    if k == 'strip':
        return (cls, None, sc, ps)        # the label after unpickling / re-viewing a stripped array is not the property's business
    if k == 'neg':
        return (cls, lab, sc, [-p for p in ps])
    if k == 'item':
        return ('T', lab, True, [ps[st[1]]])
    if k == 'slice':
        return (cls, lab, False, ps[st[1]:st[2]:st[3]])
    if k == 'fancy':
        return (cls, lab, False, [ps[i] for i in st[1]])
    if k == 'red':
        v = {'min': min(ps), 'max': max(ps), 'sum': sum(ps), 'ptp': max(ps) - min(ps)}[st[1]]
        return ('T' if (cls == 'T' or st[1] in ('min', 'max')) else 'U', lab, True, [v])
    if k == 'ar':
        b = st[2] * FACTOR[lab] if st[3] == 'int' else st[2]
        fn = {'add': lambda a: a + b, 'sub': lambda a: a - b, 'radd': lambda a: b + a, 'rsub': lambda a: b - a}[st[1]]
        return (cls, lab, sc, [fn(a) for a in ps])
    raise ValueError(k)


def gen_steps(rng, cls0, lab, sc, ps, nsteps, bad_weight=2):
    """steps valid for the running shape/class; every history contains at least one re-wrapping or view"""
    steps, state = [], (cls0, lab, sc, list(ps))
    for i in range(nsteps):
        cls, lab, sc, ps = state
        n = len(ps)
        opts = ['wrap', 'wrap', 'wrap', 'same', 'same']
        if cls == 'T':      # (UniformTime has no convert_unit: the display unit of an axis is changed by re-wrapping)
            opts += ['conv', 'flat', 'strip', 'neg']
        if not sc:
            opts += ['item', 'fancy', 'red', 'red']
            if cls == 'T' or n >= 1:
                opts.append('slice')
            if not (cls == 'U' and n < 2):
                opts.append('ar')
        elif cls == 'T':
            opts += ['ar', 'red']        # round 2 (L8): reductions of a 0-d object (`max` hands back the object itself: a result that is its operand)
        opts += ['bad'] * bad_weight
        k = rng.choice(opts)
        if k == 'bad':
            r = rng.random()
            if cls == 'T' and r < 0.3:
                st = ('bad', 'conv', 'none', 'none')
            elif cls == 'T' and r < 0.55:
                st = ('bad', 'conv', 'bogus', rng.choice(sorted(BOGUS_UNITS)))
            elif r < 0.7:
                st = ('bad', 'wrap', 'bogus', rng.choice(sorted(BOGUS_UNITS)), rng.choice([0, 1, 'absent']))
            else:
                pool = dict(BAD_CALLS)
                if cls == 'U':
                    pool = {m: v for m, v in pool.items() if m not in T_ONLY}
                    pool.update(U_ONLY_BAD)
                meth = rng.choice(sorted(pool))
                st = ('bad', 'call', meth, rng.choice(sorted(pool[meth])))
            new = shadow_step(state, st, accepted=none_accepted())
            steps.append(st)
            state = new
            continue
        if k == 'wrap':
            st = ('wrap', rng.choice(UNITS + ['none', 'absent']), rng.choice([0, 0, 0, 1, 'absent']))
        elif k == 'conv':
            st = ('conv', rng.choice(UNITS))
        elif k == 'same':
            st = ('same', rng.choice(SAME_HOWS))
        elif k == 'flat':
            st = ('flat', rng.choice(FLAT_HOWS))
        elif k == 'strip':
            st = ('strip', rng.choice(STRIP_HOWS))
        elif k == 'neg':
            st = ('neg',)
        elif k == 'item':
            st = ('item', rng.randrange(n), rng.choice(['int', 'npint64', 'npint32']))
        elif k == 'slice':
            a = rng.randint(0, n - 1)
            st = ('slice', a, rng.randint(a + 1, n), rng.choice([1, 1, 2]))
        elif k == 'fancy':
            st = ('fancy', [rng.randrange(n) for _ in range(rng.randint(1, 3))], rng.choice(['list', 'array']))
        elif k == 'red':
            # the line's discipline is the source class's: once the class has changed only `max` (an element view in both) is used
            names = (['min', 'max', 'sum', 'ptp'] if cls0 == 'T' else ['min', 'max']) if cls == cls0 else ['max']
            st = ('red', rng.choice(names))
            if cls == 'T' and cls0 == 'T' and st[1] != 'max' and not sc and rng.random() < 0.4:
                st = ('red', st[1], 'axis0')
        else:
            if rng.random() < 0.6 or cls == 'U':
                kk = rng.randint(-3, 3)
                if abs(kk * FACTOR[lab]) >= HIST_LIM:
                    kk = 0
                st = ('ar', rng.choice(['add', 'sub', 'radd', 'rsub'] if cls == 'T' else ['add', 'sub']), kk, 'int')
            else:
                st = ('ar', rng.choice(['add', 'sub']), rng.randint(-10**12, 10**12), 'time', rng.choice(UNITS))
        new = shadow_step(state, st)
        if k == 'strip':
            new = (new[0], 's', new[2], new[3])    # generator's running label only (what today's code does); the oracle does not use it
        if any(abs(p) >= 2**59 for p in new[3]) or not new[3]:
            continue
        steps.append(st)
        state = new
    return steps, state


def probe(o):
    """the factor bare numbers are read with, as the public behaviour shows it: (o + 1) - o"""
    try:
        return str(int(np.asarray(o + 1).reshape(-1)[0]) - int(np.asarray(o).reshape(-1)[0]))
    except Exception as e:  # noqa
        return 'err' + err_kind(e)


def canon_O(o):
    c = canon_T(o)
    if c.startswith('T:'):
        lab = getattr(o, 'time_unit', '?')
        if lab is None:          # `None` is the constructors' spelling of seconds
            c = 'T:s:' + c.split(':', 2)[2]
        elif not (isinstance(lab, str) and lab in UNITS):
            c = 'T:?:' + ':'.join(c.split(':')[-2:])
    return c + '~' + probe(o)


def run_hist(sp, steps, opn, build_operand):
    """runs one history on real objects; returns (impl string, observations for the oracle)"""
    obs = {'reprs': [], 'earlier_changed': None}
    try:
        o = build_source(sp)
    except Exception as e:  # noqa
        return 'err source ' + err_kind(e), obs
    live, states = [[o, canon_O(o)]], [canon_O(o)]
    obs['bad'] = {}
    for i_st, st in enumerate(steps):
        if st[0] == 'bad':
            before = full_snapshot(o)
            kind = do_bad(o, st)
            try:
                after = full_snapshot(o)
            except Exception as e:  # noqa
                after = ('snapshot raises', err_kind(e))
            c = canon_O(o)
            obs['bad'][str(i_st)] = {'raised': kind, 'changed': None if before == after else [repr(before)[:300], repr(after)[:300]]}
            states.append(c)
            live[-1][1] = c if kind is None else live[-1][1]
            if not (isinstance(getattr(o, 'time_unit', None), str) and o.time_unit in UNITS) and getattr(o, 'time_unit', 0) is not None:
                return 'ok ' + '|'.join(states) + ' # not-run', obs
            continue
        try:
            o2 = do_step(o, st)
        except Exception as e:  # noqa
            states.append('err-step %s %s' % (step_tok(st), err_kind(e)))
            return 'ok ' + '|'.join(states) + ' # not-run', obs
        c = canon_O(o2)
        states.append(c)
        if o2 is o:
            live[-1][1] = c
        else:
            live.append([o2, c])
        o = o2
    if np.asarray(o).ndim == 0:
        obs['reprs'].append(repr(o))
    other = build_operand()
    if isinstance(other, str) and other.startswith('SELF'):
        other = {'SELF': lambda: o, 'SELFVIEW': lambda: o[...], 'SELFVIEW2': lambda: o.view(type(o))}[other]()
    fn = OPS_AR.get(opn) or OPS_CMP[opn]
    fin = call(lambda: 'ok ' + ((canon_O if opn in OPS_AR else canon_B)(fn(o, other))))
    if fin.startswith('err'):
        fin = 'err ValueError'
    for ob, c in live:   # every object handed out on the way still is what it was (L6)
        now = canon_O(ob)
        if now != c:
            obs['earlier_changed'] = [c, now]
            break
    return 'ok ' + '|'.join(states) + ' # ' + fin, obs


def hist_cases(rng, n):
    out = []
    for it in range(n):
        sp, cls, u, sc, ps = gen_source(rng)
        steps, (cls_e, lab_e, sc_e, ps_e) = gen_steps(rng, cls, u, sc, ps, rng.randint(1, 5))
        if it % 3 == 0 and not any(st[0] == 'wrap' and st[2] == 0 for st in steps):
            # the never-varied optional parameter: copy=False with an explicit other unit, then straight to the operator
            steps.append(('wrap', rng.choice([x for x in UNITS if x != lab_e]), 0))
            cls_e, lab_e = 'T', steps[-1][1]
        opn = rng.choice(list(OPS_AR) + list(OPS_CMP))
        kind = rng.choice(['pyint', 'pyint', 'pyfloat', 'list', 'int64', 'int16', 'time', 'arr0d', 'bigint', 'float64'])
        tok, build, meta = gen_operand(rng, kind, lab_e, len(ps_e))
        if cls_e == 'T' and lab_e in UNITS and rng.random() < 0.1:
            # round 2 (L8): the operand IS the time object itself (t + t, t - t, t == t, t <= t) or a view of it; the expectation is
            # the one for an independent equal-valued operand (the model line only knows values)
            how = rng.choice(['SELF', 'SELFVIEW', 'SELFVIEW2'])
            kind, tok, build = 'time', tok_T(lab_e, sc_e, ps_e), (lambda how=how: how)
            meta = {'kind': 'time', 'unit': lab_e, 'scalar': sc_e, 'ps': list(ps_e), 'alias': how}
        if kind == 'time' and opn in ('radd', 'rsub'):
            opn = 'add'
        meta.update(op='hist', fop=opn, source=sp, steps=[list(st) for st in steps], cls=cls, expect0=[cls, u, sc, ps])
        impl, obs = run_hist(sp, steps, opn, build)
        meta['obs'] = obs
        line = 'C01 hist %s %s %s %s %s' % (cls, tok_T(u, sc, ps), ';'.join(step_tok(st) for st in steps) or '-', opn, tok)
        out.append(Case(line, impl, 'hist/%s/%s' % (sp['k'], opn), meta=meta, nontrivial=any(ps)))
    return out


# ------------------------------------------------------------------ round 4 (L3, sharper): raw flag values for `copy`
# Every value class a caller can hand to the boolean parameter: the documented special case is copy=False (data must be a time
# object or an int64 array IN BASE UNITS); values EQUAL to False (0, 0.0, np.False_, np.bool_(0)) mean the same, everything else
# (None = numpy 2's "copy if needed", '', [], True, 1, 'False', np.True_) must build the time value x unit.
FLAGS = {'none': lambda: None, 'false': lambda: False, 'true': lambda: True, 'int0': lambda: 0, 'float0': lambda: 0.0,
         'estr': lambda: '', 'elist': lambda: [], 'npfalse': lambda: np.False_, 'npbool0': lambda: np.bool_(0),
         'nptrue': lambda: np.True_, 'int1': lambda: 1, 'strfalse': lambda: 'False'}
FLAG_MEANS_NOCOPY = {'false', 'int0', 'float0', 'npfalse', 'npbool0'}    # the documented copy=False and what equals it
FLAG_KINDS = ['int64', 'npint64', 'arr0d', 'roint64', 'stridedint64', 'pyint', 'list', 'int32', 'float64', 'pyfloat', 'uint8',
              'beint64', 'npint32', 'arr0df', 'mixedlist', 'int16', 'float32']
INT64_KINDS = {'int64', 'npint64', 'arr0d', 'roint64', 'stridedint64'}


def flag_impl(build, unit, fl):
    T = ts().TimeArray

    def run():
        data = build()
        before = operand_state(data)
        o = T(data, time_unit=None if unit == 'none' else unit, copy=FLAGS[fl]())
        r = 'ok ' + canon_O(o)
        return r + ('' if operand_state(data) == before else ' ARGUMENT-CHANGED')
    r = call(run)
    return 'err ValueError' if r.startswith('err') and 'ValueError' in r else r


def flag_cases(rng, n):
    out = []
    units = UNITS + ['none']
    i = rng.randrange(len(units))
    for rep in range(n):
        for fl in FLAGS:
            for kind in FLAG_KINDS:
                unit = units[i % len(units)]
                i += 1
                ru = 's' if unit == 'none' else unit
                tok, build, meta = gen_operand(rng, kind, ru, rng.randint(1, 3))
                _, sc, xs = tok.split(':')
                meta.update(op='ctorflag', unit=unit, flag=fl)
                out.append(Case('C01 ctorflag %s %s %s %s %s' % (fl, unit, 'int64' if kind in INT64_KINDS else 'other', sc, xs),
                                flag_impl(build, unit, fl), 'ctorflag/%s/%s' % (fl, kind), meta=meta))
            for _ in range(2):   # a time object as data: the instant is kept under every flag value
                u, sc, ps = gen_T(rng)
                unit = units[i % len(units)]
                i += 1
                meta = {'op': 'ctorflag', 'kind': 'time', 'unit': unit, 'flag': fl, 'src': (u, sc, ps)}
                out.append(Case('C01 ctorflagfrom %s %s %s' % (fl, unit, tok_T(u, sc, ps)),
                                flag_impl(lambda: mk_T(u, sc, ps), unit, fl), 'ctorflag/%s/time' % fl, meta=meta))
    return out


def judge_flag(c, fail):
    m = c.meta
    fl, kind = m['flag'], m['kind']
    if c.impl.endswith(' ARGUMENT-CHANGED'):
        return fail('argument-changed', 'the constructor changed its data argument')
    if kind == 'time':
        u, sc, ps = m['src']
        want_u = u if m['unit'] == 'none' else m['unit']
        if c.impl.startswith('err'):
            return fail('raises', 're-wrapping a time object with copy=%s raised' % fl)
        r = parse_O(c.impl[3:])
        lab = r[3] if r else None
        if r is None or (r[1], r[2]) != (sc, list(ps)):
            return fail('instant-changed', 're-wrapping with copy=%s changed the instant' % fl)
        if r[0] != want_u:
            return fail('unit', 'label %s, want %s' % (r[0], want_u))
        if lab != str(FACTOR[want_u]):
            return fail('bare-number-not-read-in-own-unit', 'reads bare numbers with factor %s under label %s' % (lab, want_u))
        return None
    unit = 's' if m['unit'] == 'none' else m['unit']
    vals = m['vals']
    if kind in FLOAT_KINDS or any(isinstance(v, float) for v in vals):
        vals = [float(v) for v in vals]
    if fl in FLAG_MEANS_NOCOPY:
        if kind not in INT64_KINDS:
            return None if c.impl.startswith('err ValueError') else \
                fail('accepted', 'copy=%s (equal to False) with data that are not int64 base units was not refused with ValueError' % fl)
        bounds = [(Fr(v), Fr(v)) for v in vals]           # taken as picoseconds
    else:
        bounds = [exp_ps_num(v, unit) for v in vals]      # the property's main clause: value x unit
    if c.impl.startswith('err'):
        return fail('raises', 'building a time value from numbers with copy=%s raised: %s' % (fl, c.impl[:80]))
    r = parse_O(c.impl[3:])
    if r is None:
        return fail('not-whole-ps', 'constructor result is not an integer-picosecond time object')
    lab = r[3]
    if r[0] != unit or r[1] != m['scalar'] or len(r[2]) != len(vals):
        return fail('unit-or-shape', 'unit/shape of the constructed object is wrong')
    for v, p_, (lo, hi) in zip(vals, r[2], bounds):
        if not (lo <= p_ <= hi):
            return fail('value', 'copy=%s: payload %d ps for %r %s, expected %s' % (fl, p_, v, unit, lo if lo == hi else (lo, hi)))
    if lab != str(FACTOR[unit]):
        return fail('bare-number-not-read-in-own-unit', 'reads bare numbers with factor %s under label %s' % (lab, unit))
    return None


# ------------------------------------------------------------------ round 4 (L3, sharper): raw flag values for EVERY optional parameter
# One call per (constructor / method, parameter, raw value): is the value read as GIVEN (the call behaves as with the plain
# python number the value equals — False == 0, np.True_ == 1 — or, for a value that is no number, at least not as if the
# parameter had been left at None) or as NOT GIVEN (the call behaves exactly as with None)?  The model answers from the
# GENERATED comparison forms of the parameter's tests (`paramGiven`); the oracle from the documented meaning
# (optional parameter: None = not given, anything else is a value; documented booleans: truthiness).
def _outcome(o):
    t = ts()
    if isinstance(o, t.TimeSeries):
        return 'S|%s|%s|%s|%s|%r|%r' % (canon_T(o.time), canon_T(o.t0), canon_T(o.sampling_interval), float(o.sampling_rate), o.time_unit, o.metadata)
    if isinstance(o, t.UniformTime):
        return 'U|%s|%s|%s|%s|%r' % (canon_T(o), canon_T(o.t0), canon_T(o.sampling_interval), canon_T(o.duration), o.time_unit)
    if isinstance(o, t.TimeArray):
        return 'T|' + canon_O(o)
    if isinstance(o, t.Epochs):
        return 'E|%s|%s|%s|%s|%r|%r' % (canon_T(o.start), canon_T(o.stop), canon_T(o.duration), canon_T(o.offset), o.time_unit,
                                       getattr(o, 'static', '<unset>'))
    if isinstance(o, t.Events):
        return 'V|%s|%r|%r' % (canon_T(o.time), getattr(o, 'data', '<unset>'), getattr(o, 'index', '<unset>'))
    a = np.asarray(o)
    return 'A|%s|%r' % (a.dtype, a.tolist())


def _src_axis(unit='ms'):
    return ts().UniformTime(t0=3, sampling_interval=2, length=4, time_unit=unit)


def _cells():
    t = ts()
    T, U, TS, E, EV = t.TimeArray, t.UniformTime, t.TimeSeries, t.Epochs, t.Events
    z = lambda: np.zeros(4)
    return {
        ('UniformTime.__new__', 't0'): lambda v: U(_src_axis(), t0=v),
        ('UniformTime.__new__', 'sampling_interval'): lambda v: U(_src_axis(), sampling_interval=v),
        ('UniformTime.__new__', 'sampling_rate'): lambda v: U(_src_axis('s'), sampling_rate=v),
        ('UniformTime.__new__', 'duration'): lambda v: U(_src_axis(), duration=v),
        ('UniformTime.__new__', 'length'): lambda v: U(_src_axis(), length=v),
        ('UniformTime.__new__', 'time_unit'): lambda v: U(_src_axis(), time_unit=v),
        ('TimeSeries.__init__', 't0'): lambda v: TS(z(), time=_src_axis('s'), t0=v),
        ('TimeSeries.__init__', 'sampling_interval'): lambda v: TS(z(), time=_src_axis('s'), sampling_interval=v),
        ('TimeSeries.__init__', 'sampling_rate'): lambda v: TS(z(), time=_src_axis('s'), sampling_rate=v),
        ('TimeSeries.__init__', 'duration'): lambda v: TS(z(), duration=v),
        ('TimeSeries.__init__', 'time_unit'): lambda v: TS(z(), time=_src_axis(), time_unit=v),
        ('TimeSeriesBase.__init__', 'metadata'): lambda v: TS(z(), sampling_interval=1, metadata=v),
        ('TimeArray.__new__', 'time_unit'): lambda v: T(mk_T('ms', False, [5, 7]), time_unit=v),
        ('Epochs.__init__', 't0'): lambda v: E(t0=v, stop=5),
        ('Epochs.__init__', 'start'): lambda v: E(t0=2, start=v, stop=5),
        ('Epochs.__init__', 'stop'): lambda v: E(t0=-3, stop=v, duration=4),
        ('Epochs.__init__', 'duration'): lambda v: E(t0=-3, stop=2, duration=v),
        ('Epochs.__init__', 'offset'): lambda v: E(t0=2, stop=5, offset=v),
        ('Epochs.__init__', 'static'): lambda v: E(t0=2, stop=5, static=v),
        ('Events.__init__', 'labels'): lambda v: EV([1, 2], labels=v),
        ('Events.__init__', 'indices'): lambda v: EV([1, 2], indices=v),
        ('TimeArray._index_closest', 'tol'): lambda v: T([1, 2, 3], time_unit='s').index_at(T(np.int64(10**12 + 1), time_unit='ps'), tol=v),   # 1 ps off a sample
        ('TimeArray.max', 'axis'): lambda v: T([1, 5, 3], time_unit='ms').max(axis=v),
        ('TimeArray.max', 'out'): lambda v: T([1, 5, 3], time_unit='ms').max(out=v),
        ('UniformTime.max', 'axis'): lambda v: _src_axis().max(axis=v),
        ('UniformTime.max', 'out'): lambda v: _src_axis().max(out=v),
        ('UniformTime.min', 'axis'): lambda v: _src_axis().min(axis=v),
        ('UniformTime.min', 'out'): lambda v: _src_axis().min(out=v),
        ('UniformTime.index_at', 'boolean'): lambda v: _src_axis().index_at(T([5, 7], time_unit='ms'), boolean=v),
    }


FLAGARG_OPAQUE = {('TimeSeriesBase.__init__', 'metadata'), ('Epochs.__init__', 'static')}   # any object is a value: given = not as with None
FLAGARG_ZERO_IS_DEFAULT = {('TimeSeries.__init__', 'duration'), ('Epochs.__init__', 'offset')}
FLAGARG_TRUTHY = {('UniformTime.index_at', 'boolean'), ('Events.__init__', 'indices')}   # documented booleans / list-or-None
FLAG_NUMBER = {'false': 0, 'int0': 0, 'float0': 0, 'npfalse': 0, 'npbool0': 0, 'true': 1, 'int1': 1, 'nptrue': 1}
FLAG_TRUTH = {'none': False, 'false': False, 'true': True, 'int0': False, 'float0': False, 'estr': False, 'elist': False,
              'npfalse': False, 'npbool0': False, 'nptrue': True, 'int1': True, 'strfalse': True}


def flagarg_classify(fn, param, fl):
    """'given' | 'notgiven' | 'other …' | None (the cell cannot tell: given-as-that-value and not-given behave alike)"""
    f = _cells()[(fn, param)]

    def out(v):
        import warnings
        with warnings.catch_warnings(), np.errstate(all='ignore'):
            warnings.simplefilter('ignore')
            r = call(lambda: 'ok ' + _outcome(f(v)))
        return 'err' if r.startswith('err') else r
    r_v, r_none = out(FLAGS[fl]()), out(None)
    if fl == 'none':
        return 'notgiven'
    if (fn, param) in FLAGARG_TRUTHY:
        r_ref = out(True)
    elif fl in FLAG_NUMBER and (fn, param) not in FLAGARG_OPAQUE:
        r_ref = out(FLAG_NUMBER[fl])
    else:                       # '', [], 'False': no number — given means: not treated as if it were None
        if r_none == 'err':
            return None
        return 'notgiven' if r_v == r_none else 'given'
    if r_ref == r_none and ((fn, param) in FLAGARG_ZERO_IS_DEFAULT and FLAG_NUMBER.get(fl) == 0):
        return None             # by design of the cell: the number 0 IS the default (or is refused like None)
    if r_v == r_none:
        return 'notgiven'
    if r_v == r_ref:
        return 'given'
    return 'other ' + r_v[:120]


def flagarg_cases():
    out = []
    for (fn, param) in _cells():
        for fl in FLAGS:
            cl = flagarg_classify(fn, param, fl)
            if cl is None:
                continue
            out.append(Case('C01 flagarg %s %s %s' % (fn, param, fl), 'ok ' + cl, 'flagarg/%s/%s/%s' % (fn, param, fl),
                            meta={'op': 'flagarg', 'fn': fn, 'param': param, 'flag': fl}))
    return out


def judge_flagarg(c, fail):
    m = c.meta
    if (m['fn'], m['param']) in FLAGARG_TRUTHY:
        want = 'given' if FLAG_TRUTH[m['flag']] else 'notgiven'
    else:
        want = 'notgiven' if m['flag'] == 'none' else 'given'
    got = c.impl[3:]
    if got == want:
        return None
    if got == 'notgiven':
        return fail('taken-as-not-given', '%s(%s=%s) behaves as if the parameter had been left at None' % (m['fn'], m['param'], m['flag']))
    if got == 'given':
        return fail('taken-as-given', '%s(%s=%s) does not behave as with None / a false flag' % (m['fn'], m['param'], m['flag']))
    return fail('not-taken-as-the-number', '%s(%s=%s) behaves neither as with the plain number the value equals nor as with None: %s'
                % (m['fn'], m['param'], m['flag'], got))


# ------------------------------------------------------------------ oracle (Fractions; never the Lean model)
def parse_T(s):
    """'ok T:unit:sc:ps' -> (unit, scalar, [int]) or None when not an integer-payload time object"""
    if not s.startswith('ok T:'):
        return None
    _, u, sc, ps = s[3:].split(':', 3)
    if '[' in ps:
        return None
    return u, sc == '1', ([] if ps == '-' else [int(p) for p in ps.split(',')])


def exp_ps_num(v, unit):
    """(lo, hi): the whole-picosecond payloads the property allows for a bare number v read in
    `unit`: integers exactly v*factor; floats the whole picosecond(s) nearest to the binary64
    product fl(v*factor) (computed here by the hardware, not by the Lean model; both neighbours
    are allowed on an exact tie)"""
    f = FACTOR[unit]
    if isinstance(v, int):
        return Fr(v * f), Fr(v * f)
    y = Fr(float(v) * float(f))
    lo = -((-(y - Fr(1, 2))).__floor__())     # ceil(y - 1/2)
    hi = (y + Fr(1, 2)).__floor__()           # floor(y + 1/2)
    return Fr(lo), Fr(hi)


def broadcast(a, sa, b, sb):
    if len(a) == len(b):
        return list(zip(a, b)), sa and sb
    if len(a) == 1:
        return [(a[0], y) for y in b], False
    if len(b) == 1:
        return [(x, b[0]) for x in a], False
    return None, None



def parse_O(s):
    """'T:unit:sc:ps~probe' -> (unit, scalar, [int], probe str) or None"""
    if '~' not in s:
        return None
    t, pr = s.rsplit('~', 1)
    r = parse_T('ok ' + t)
    return None if r is None else (r[0], r[1], r[2], pr)


def judge_hist(c, fail):
    m = c.meta
    if c.impl.startswith('err'):
        return fail('source/raises', 'building the source object raised: ' + c.impl)
    states_s, fin = c.impl[3:].split(' # ', 1)
    steps = m['steps']
    state = tuple(m['expect0'])
    for i, st_s in enumerate(states_s.split('|')):
        kind = 'source' if i == 0 else steps[i - 1][0]
        if kind == 'bad':
            kind = 'refused-step'
            ob = ((m.get('obs') or {}).get('bad') or {}).get(str(i - 1)) or {}
            if ob.get('raised') is not None and ob.get('changed'):
                return fail('refused-step/object-changed', 'step %d (%s, %r) raised %s and left the object CHANGED: before %s, after %s' % (
                    i, step_tok(steps[i - 1]), steps[i - 1][3:], ob['raised'], ob['changed'][0], ob['changed'][1]))
            state = shadow_step(state, steps[i - 1], accepted=ob.get('raised') is None)
        elif i > 0:
            state = shadow_step(state, steps[i - 1])
        if st_s.startswith('err-step'):
            return fail(kind + '/raises', 'step %d of the history raised: %s' % (i, st_s))
        r = parse_O(st_s)
        if r is None:
            return fail(kind + '/not-whole-ps', 'object %d of the history is not a whole-picosecond time object: %s' % (i, st_s))
        cls, lab, sc, ps = state
        if lab is None:     # after unpickling / re-viewing a bare array the reported label is taken as it is
            if r[0] not in UNITS:
                return fail(kind + '/unit', 'no valid unit label after step %d: %s' % (i, st_s))
            lab = r[0]
            state = (cls, lab, sc, ps)
        if r[0] != lab:
            return fail(kind + '/unit', 'object %d reports unit %s, expected %s' % (i, r[0], lab))
        if r[1] != sc or r[2] != list(ps):
            return fail(kind + '/instant-changed', 'object %d denotes %s (0-d %s), expected %s ps (0-d %s)' % (i, r[2], r[1], list(ps), sc))
        if r[3] != str(FACTOR[lab]):
            return fail(kind + '/bare-number-not-read-in-own-unit',
                        'object %d says its unit is %s, but (o + 1) - o = %s ps (1 %s = %d ps)' % (i, lab, r[3], lab, FACTOR[lab]))
    obs = m.get('obs') or {}
    if obs.get('earlier_changed'):
        return fail('earlier-object-changed', 'an object handed out earlier in the history changed: %s' % (obs['earlier_changed'],))
    cls, lab, sc, ps = state
    if fin == 'not-run':
        return fail('not-run', 'history incomplete')
    for rp in obs.get('reprs', []):
        want = '%r %s' % (ps[0] / float(FACTOR[lab]), lab)
        if lab == 's' and rp == '%r None' % (ps[0] / float(FACTOR[lab]),):   # after an accepted convert_unit(None): None is the spelling of seconds
            continue
        if rp != want:
            return fail('repr', 'the object prints as %r, expected %r (%d ps in %s)' % (rp, want, ps[0], lab))
    fop = m['fop']
    if fop in OPS_AR and fin.startswith('ok T:'):
        r = parse_O(fin[3:])
        if r is not None:
            if r[3] != str(FACTOR[lab]) and r[0] == lab:
                return fail('result/bare-number-not-read-in-own-unit', 'the result says unit %s but reads bare numbers with %s ps' % (lab, r[3]))
            fin = fin.rsplit('~', 1)[0]
    m2 = dict(m, op=fop, self=(lab, sc, list(ps)))
    m2.pop('operands_unchanged', None)
    f = check_case(Case(c.line, fin, c.clause + '/final', meta=m2))
    if f is not None:
        return Failure(f.key, f.what, {'line': c.line, 'clause': c.clause, 'meta': m}, case=c)
    return None


def check_case(c):
    """property-level judgement of one implementation result; returns Failure or None"""
    m = c.meta
    if not m:
        return None
    op = m['op']

    def fail(sym, what):
        return Failure('%s/%s' % (c.clause, sym), '%s: %s  [op: %s] impl=%s' % (c.clause, what, c.line[:200], c.impl[:200]),
                       {'line': c.line, 'clause': c.clause, 'meta': m}, case=c)
    if op == 'hist':
        return judge_hist(c, fail)
    if op == 'ctorflag':
        return judge_flag(c, fail)
    if op == 'flagarg':
        return judge_flagarg(c, fail)
    if op == 'ctor':
        unit = 's' if m['unit'] == 'none' else m['unit']
        vals = m['vals']
        if m['kind'] in FLOAT_KINDS or any(isinstance(v, float) for v in vals):
            vals = [float(v) for v in vals]
        r = parse_T(c.impl)
        if r is None:
            return fail('not-whole-ps', 'constructor result is not an integer-picosecond time object')
        if r[0] != unit or r[1] != m['scalar'] or len(r[2]) != len(vals):
            return fail('unit-or-shape', 'unit/shape of the constructed object is wrong')
        for v, p in zip(vals, r[2]):
            lo, hi = exp_ps_num(v, unit)
            if not (lo <= p <= hi):
                return fail('value', 'payload %d ps is not the nearest picosecond to %r %s' % (p, v, unit))
        return None
    if op == 'ctorfrom':
        u, sc, ps = m['src']
        want = (u if m['unit'] == 'none' else m['unit'], sc, ps)
        if parse_T(c.impl) != want:
            return fail('instant-changed', 're-wrapping changed the instant/unit: want %s' % (want,))
        return None
    if op == 'ctorlist':
        items = m['items']
        if all(it[1] for it in items):
            want = (items[0][0] if m['unit'] == 'none' else m['unit'], False, [it[2][0] for it in items])
            if parse_T(c.impl) != want:
                return fail('instant-changed', 'list of time objects: want %s' % (want,))
        return None
    if op == 'convert':
        u, sc, ps = m['self']
        if parse_T(c.impl) != (m['unit'], sc, ps):
            return fail('instant-changed', 'convert_unit changed the instant')
        return None
    if op == 'reduce':
        u, sc, ps = m['self']
        want = {'min': min(ps), 'max': max(ps), 'sum': sum(ps), 'ptp': max(ps) - min(ps)}[m['red']]
        r = parse_T(c.impl)
        if r is None or r[0] != u or r[2] != [want]:
            return fail('value', 'reduction %s: want %d ps in unit %s' % (m['red'], want, u))
        return None
    # binary operators
    if m.get('operands_unchanged') is False:
        return fail('operand-changed', 'an operand was modified by the operation: after = %s' % (m.get('operands_after'),))
    ua, sa, psa = m['self']
    if m['kind'] == 'time':
        b_lo = b_hi = [Fr(p) for p in m['ps']]
        sb = m['scalar']
    else:
        vals = m['vals']
        if m['kind'] in FLOAT_KINDS:
            vals = [float(v) for v in vals]
        bounds = [exp_ps_num(v, ua) for v in vals]
        b_lo, b_hi = [b[0] for b in bounds], [b[1] for b in bounds]
        sb = m['scalar']
    pairs_lo, sc = broadcast(psa, sa, b_lo, sb)
    pairs_hi, _ = broadcast(psa, sa, b_hi, sb)
    if pairs_lo is None:
        return None if c.impl.startswith('err') else fail('shape', 'mismatched shapes accepted')
    if c.impl.startswith('err'):
        return fail('raises', 'operation on compatible operands raised')
    if op in OPS_AR:
        r = parse_T(c.impl)
        if r is None:
            return fail('not-whole-ps', 'result is not a whole-picosecond time object (dtype %s)' % c.impl.split(':')[-1].split('[')[0])
        if r[0] != ua:
            return fail('unit', 'result unit %s, want %s' % (r[0], ua))
        if r[1] != sc or len(r[2]) != len(pairs_lo):
            return fail('shape', 'result shape wrong')
        for (a, lo), (_, hi), p in zip(pairs_lo, pairs_hi, r[2]):
            if op in ('add', 'radd'):
                wlo, whi = a + lo, a + hi
            elif op == 'sub':
                wlo, whi = a - hi, a - lo
            else:
                wlo, whi = lo - a, hi - a
            if not (wlo <= p <= whi):
                return fail('value', 'result %d ps outside exact arithmetic [%s, %s]' % (p, wlo, whi))
        return None
    # comparisons: decided only when both ends of the allowed interval agree
    if not c.impl.startswith('ok B:'):
        return fail('not-bool', 'comparison did not return booleans')
    _, scs, bits = c.impl[3:].split(':')
    bits = [] if bits == '-' else [b == '1' for b in bits.split(',')]
    if len(bits) != len(pairs_lo):
        return fail('shape', 'comparison shape wrong')
    f = OPS_CMP[op]
    for (a, lo), (_, hi), got in zip(pairs_lo, pairs_hi, bits):
        if op == 'eq':   # decided only when the whole allowed interval agrees
            if lo == hi:
                w1 = w2 = (Fr(a) == lo)
            elif Fr(a) < lo or Fr(a) > hi:
                w1 = w2 = False
            else:
                continue
        else:
            w1, w2 = f(Fr(a), lo), f(Fr(a), hi)
        if w1 == w2 and got != w1:
            return fail('value', 'comparison %s of %d ps with [%s,%s] gave %s' % (op, a, lo, hi, got))
    return None


def oracle(rng, tier, seed, focus, cases=None):
    fails, n = [], 0
    for c in (cases or []):
        if c.meta:
            n += 1
            f = check_case(c)
            if f:
                fails.append(f)
    return fails, {'judged': n, 'failed': len(fails), 'focus': len(focus)}


def replay(d):
    """re-run one recorded case on the current tree"""
    import common
    rng = common.make_rng(PID, 0, 'replay')
    line = d['line']
    for seed in [d.get('seed', 0)]:
        pass
    # regenerate the implementation result for this exact op by re-parsing the protocol line
    c = rebuild_case(line, d['clause'], d['meta'])
    return check_case(c)


def rebuild_case(line, clause, m):
    T = ts().TimeArray
    m = dict(m)
    for k in ('self', 'src'):
        if k in m:
            m[k] = tuple(m[k])
    if 'items' in m:
        m['items'] = [tuple(i) for i in m['items']]
    op = m['op']
    for u_, kd_, v_, opn_ in m.get('prelude') or []:   # the earlier calls of the same process history (value-keyed state)
        val_ = NP_SCALAR[kd_](v_) if kd_ in NP_SCALAR else v_
        if opn_ == 'ctor':
            call(lambda: T(val_, time_unit=u_))
        else:
            call(lambda: (OPS_AR.get(opn_) or OPS_CMP[opn_])(mk_T(u_, False, [0, 1]), val_))

    def operand():
        k = m['kind']
        if m.get('alias'):
            return m['alias']
        if k == 'time':
            return mk_T(m['unit'], m['scalar'], m['ps'])
        v = m['vals']
        if k in ('pyint', 'pyfloat', 'bigint'):
            return v[0]
        if k in NP_SCALAR:
            return NP_SCALAR[k](v[0])
        if k in ('list', 'mixedlist'):
            return list(v)
        return build_arr(v, k)
    if op == 'flagarg':
        impl = 'ok ' + str(flagarg_classify(m['fn'], m['param'], m['flag']))
    elif op == 'ctorflag':
        impl = flag_impl((lambda: mk_T(*m['src'])) if m['kind'] == 'time' else operand, m['unit'], m['flag'])
    elif op == 'ctor':
        impl = call(lambda: 'ok ' + canon_T(T(operand(), time_unit=None if m['unit'] == 'none' else m['unit'])))
    elif op == 'ctorfrom':
        impl = call(lambda: 'ok ' + canon_T(T(mk_T(*m['src']), time_unit=None if m['unit'] == 'none' else m['unit'])))
    elif op == 'ctorlist':
        impl = call(lambda: 'ok ' + canon_T(T([mk_T(*it) for it in m['items']], time_unit=None if m['unit'] == 'none' else m['unit'])))
    elif op == 'convert':
        def conv():
            t = mk_T(*m['self'])
            t.convert_unit(m['unit'])
            return 'ok ' + canon_T(t)
        impl = call(conv)
    elif op == 'hist':
        impl, obs = run_hist(m['source'], m['steps'], m['fop'], operand)
        m['obs'] = obs
    elif op == 'reduce':
        impl = call(lambda: 'ok ' + canon_T(getattr(mk_T(*m['self']), m['red'])()))
    else:
        fn = OPS_AR.get(op) or OPS_CMP[op]
        canon = canon_T if op in OPS_AR else canon_B
        o_self, o_other = mk_self(m['self'], m.get('uniform', False)), operand()
        b_self, b_other = canon_T(o_self), operand_state(o_other)
        impl = call(lambda: 'ok ' + canon(fn(o_self, o_other)))
        if impl.startswith('err'):
            impl = 'err ValueError'
        m['operands_unchanged'] = (canon_T(o_self) == b_self and operand_state(o_other) == b_other)
        m['operands_after'] = [canon_T(o_self), operand_state(o_other)]
    return Case(line, impl, clause, meta=m)
