#!/usr/bin/env python3
"""record_sweep.py <sweep output file> [...]: stores the detection matrix printed by harness/seed_sweep.sh
(`<id> seed1=V seed2=nfi seed3=MISS(0)` lines) into seeded/<id>/meta.json under "final_sweep"
(V = VIOLATION with failing input, nfi = VIOLATION no-failing-input-found, MISS = not reported) together with the
/verif commit it was measured at.  mk_design_tables.py shows it in DESIGN.md §11.4."""
import sys, re, json, os, subprocess
V = '/verif'
commit = subprocess.check_output(['git', '-C', V, 'rev-parse', '--short', 'HEAD'], text=True).strip()
n = 0
for fn in sys.argv[1:]:
    for line in open(fn):
        m = re.match(r'^(C\d+-\d+)((?: seed\d+=\S+)+)\s*$', line)
        if not m:
            continue
        i = m.group(1)
        res = dict(kv.split('=') for kv in m.group(2).split())
        p = os.path.join(V, 'seeded', i, 'meta.json')
        if not os.path.exists(p):
            continue
        d = json.load(open(p))
        fs = d.get('final_sweep', {})
        fs.update({'check': i.split('-')[0], 'commit': commit})
        fs.setdefault('results', {}).update(res)
        d['final_sweep'] = fs
        json.dump(d, open(p, 'w'), indent=1)
        n += 1
print('recorded', n)
